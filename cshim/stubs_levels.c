#include <glib.h>
/* tools/compiler.c defines this; girparser.c references it; needed when linking anything else */
GLogLevelFlags logged_levels = G_LOG_LEVEL_MASK & ~(G_LOG_LEVEL_MESSAGE|G_LOG_LEVEL_INFO|G_LOG_LEVEL_DEBUG);

#include <glib.h>
gboolean g_irepository_dump (const char *arg, GError **error) { g_set_error_literal (error, g_quark_from_static_string("verif"), 0, "dump not built"); return FALSE; }

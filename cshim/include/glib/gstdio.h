#include <glib.h>

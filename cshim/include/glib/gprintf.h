#include <glib.h>

#include <glib.h>

/* Minimal GLib/GObject/GModule/GIO declaration shim (x86_64 Linux, GLib 2.74 ABI).
 * Declarations only; every symbol is resolved against the system's
 * libglib-2.0.so.0 / libgobject-2.0.so.0 / libgmodule-2.0.so.0 / libgio-2.0.so.0. */
#ifndef __VERIF_GLIB_SHIM_H__
#define __VERIF_GLIB_SHIM_H__

#include <stddef.h>
#include <stdarg.h>
#include <stdint.h>
#include <stdio.h>
#include <string.h>
#include <limits.h>
#include <float.h>
#include <alloca.h>
#include <sys/types.h>

#define G_OS_UNIX 1
#define GLIB_MAJOR_VERSION 2
#define GLIB_MINOR_VERSION 74
#define GLIB_MICRO_VERSION 6
#define GLIB_CHECK_VERSION(major,minor,micro) (GLIB_MAJOR_VERSION > (major) || (GLIB_MAJOR_VERSION == (major) && GLIB_MINOR_VERSION > (minor)) || (GLIB_MAJOR_VERSION == (major) && GLIB_MINOR_VERSION == (minor) && GLIB_MICRO_VERSION >= (micro)))
#define GLIB_SIZEOF_VOID_P 8
#define GLIB_SIZEOF_LONG 8
#define GLIB_SIZEOF_SIZE_T 8
#define GLIB_SIZEOF_SSIZE_T 8
#define G_BEGIN_DECLS
#define G_END_DECLS
#define G_GNUC_UNUSED __attribute__((__unused__))
#define G_GNUC_PRINTF(a,b) __attribute__((__format__(__printf__, a, b)))
#define G_GNUC_NORETURN __attribute__((__noreturn__))
#define G_GNUC_CONST __attribute__((__const__))
#define G_GNUC_PURE __attribute__((__pure__))
#define G_GNUC_MALLOC __attribute__((__malloc__))
#define G_GNUC_NULL_TERMINATED __attribute__((__sentinel__))
#define G_GNUC_WARN_UNUSED_RESULT __attribute__((warn_unused_result))
#define G_GNUC_INTERNAL __attribute__((visibility("hidden")))
#define G_GNUC_DEPRECATED
#define G_GNUC_DEPRECATED_FOR(x)
#define G_GNUC_BEGIN_IGNORE_DEPRECATIONS
#define G_GNUC_END_IGNORE_DEPRECATIONS
#define G_UNAVAILABLE(maj,min)
#define G_DEPRECATED
#define G_DEPRECATED_FOR(f)
#define G_GNUC_FALLTHROUGH __attribute__((fallthrough))
#define G_LIKELY(e) (__builtin_expect(!!(e), 1))
#define G_UNLIKELY(e) (__builtin_expect(!!(e), 0))
#define G_STRFUNC ((const char*) (__func__))
#define G_STRLOC __FILE__ ":" G_STRINGIFY (__LINE__)
#define G_STRINGIFY(x) G_STRINGIFY_ARG(x)
#define G_STRINGIFY_ARG(x) #x
#define G_PASTE_ARGS(a,b) a ## b
#define G_PASTE(a,b) G_PASTE_ARGS(a,b)
#define G_STATIC_ASSERT(e) _Static_assert(e, "static assertion")
#define G_INLINE_FUNC static inline
#define G_N_ELEMENTS(a) (sizeof (a) / sizeof ((a)[0]))
#define G_STRUCT_OFFSET(t, m) ((glong) offsetof (t, m))
#define G_STRUCT_MEMBER_P(p, o) ((gpointer) ((guint8*) (p) + (glong) (o)))
#define G_STRUCT_MEMBER(t, p, o) (*(t*) G_STRUCT_MEMBER_P ((p), (o)))
#define G_DIR_SEPARATOR '/'
#define G_DIR_SEPARATOR_S "/"
#define G_SEARCHPATH_SEPARATOR ':'
#define G_SEARCHPATH_SEPARATOR_S ":"
#define G_MODULE_SUFFIX "so"

#ifndef NULL
#define NULL ((void*)0)
#endif
#ifndef FALSE
#define FALSE (0)
#endif
#ifndef TRUE
#define TRUE (!FALSE)
#endif
#undef MAX
#define MAX(a, b)  (((a) > (b)) ? (a) : (b))
#undef MIN
#define MIN(a, b)  (((a) < (b)) ? (a) : (b))
#undef ABS
#define ABS(a)	   (((a) < 0) ? -(a) : (a))
#undef CLAMP
#define CLAMP(x, low, high)  (((x) > (high)) ? (high) : (((x) < (low)) ? (low) : (x)))

typedef char gchar;
typedef short gshort;
typedef long glong;
typedef int gint;
typedef gint gboolean;
typedef unsigned char guchar;
typedef unsigned short gushort;
typedef unsigned long gulong;
typedef unsigned int guint;
typedef float gfloat;
typedef double gdouble;
typedef signed char gint8;
typedef unsigned char guint8;
typedef signed short gint16;
typedef unsigned short guint16;
typedef signed int gint32;
typedef unsigned int guint32;
typedef signed long gint64;
typedef unsigned long guint64;
typedef signed long gssize;
typedef unsigned long gsize;
typedef gint64 goffset;
typedef signed long gintptr;
typedef unsigned long guintptr;
typedef void* gpointer;
typedef const void *gconstpointer;
typedef guint32 gunichar;
typedef guint16 gunichar2;
typedef guint32 GQuark;
typedef gsize GType;
typedef int GPid;

#define G_MININT8 ((gint8) -128)
#define G_MAXINT8 ((gint8) 127)
#define G_MAXUINT8 ((guint8) 255)
#define G_MININT16 ((gint16) -32768)
#define G_MAXINT16 ((gint16) 32767)
#define G_MAXUINT16 ((guint16) 65535)
#define G_MININT32 ((gint32) (-2147483647 - 1))
#define G_MAXINT32 ((gint32) 2147483647)
#define G_MAXUINT32 ((guint32) 4294967295U)
#define G_MININT64 ((gint64) (-9223372036854775807L - 1))
#define G_MAXINT64 ((gint64) 9223372036854775807L)
#define G_MAXUINT64 ((guint64) 18446744073709551615UL)
#define G_MINSHORT SHRT_MIN
#define G_MAXSHORT SHRT_MAX
#define G_MAXUSHORT USHRT_MAX
#define G_MININT INT_MIN
#define G_MAXINT INT_MAX
#define G_MAXUINT UINT_MAX
#define G_MINLONG LONG_MIN
#define G_MAXLONG LONG_MAX
#define G_MAXULONG ULONG_MAX
#define G_MAXSIZE G_MAXUINT64
#define G_MINFLOAT FLT_MIN
#define G_MAXFLOAT FLT_MAX
#define G_MINDOUBLE DBL_MIN
#define G_MAXDOUBLE DBL_MAX
#define G_GINT16_FORMAT "hi"
#define G_GUINT16_FORMAT "hu"
#define G_GINT32_FORMAT "i"
#define G_GUINT32_FORMAT "u"
#define G_GINT64_FORMAT "li"
#define G_GUINT64_FORMAT "lu"
#define G_GSIZE_FORMAT "lu"
#define G_GSSIZE_FORMAT "li"
#define G_GINT64_CONSTANT(val) (val##L)
#define G_GUINT64_CONSTANT(val) (val##UL)
#define GPOINTER_TO_INT(p) ((gint) (glong) (p))
#define GPOINTER_TO_UINT(p) ((guint) (gulong) (p))
#define GINT_TO_POINTER(i) ((gpointer) (glong) (i))
#define GUINT_TO_POINTER(u) ((gpointer) (gulong) (u))
#define GSIZE_TO_POINTER(s) ((gpointer) (gsize) (s))
#define GPOINTER_TO_SIZE(p) ((gsize) (p))
#define G_LITTLE_ENDIAN 1234
#define G_BIG_ENDIAN 4321
#define G_BYTE_ORDER G_LITTLE_ENDIAN
#define GUINT16_TO_LE(v) ((guint16)(v))
#define GUINT32_TO_LE(v) ((guint32)(v))
#define GUINT16_FROM_LE(v) ((guint16)(v))
#define GUINT32_FROM_LE(v) ((guint32)(v))
#define G_CSET_A_2_Z "ABCDEFGHIJKLMNOPQRSTUVWXYZ"
#define G_CSET_a_2_z "abcdefghijklmnopqrstuvwxyz"
#define G_CSET_DIGITS "0123456789"

typedef gint (*GCompareFunc) (gconstpointer a, gconstpointer b);
typedef gint (*GCompareDataFunc) (gconstpointer a, gconstpointer b, gpointer user_data);
typedef gboolean (*GEqualFunc) (gconstpointer a, gconstpointer b);
typedef void (*GDestroyNotify) (gpointer data);
typedef void (*GFunc) (gpointer data, gpointer user_data);
typedef guint (*GHashFunc) (gconstpointer key);
typedef void (*GHFunc) (gpointer key, gpointer value, gpointer user_data);
typedef gboolean (*GHRFunc) (gpointer key, gpointer value, gpointer user_data);
typedef gpointer (*GCopyFunc) (gconstpointer src, gpointer data);
typedef void (*GFreeFunc) (gpointer data);
typedef void (*GCallback) (void);

/* ---- memory ---- */
void g_free (gpointer mem);
gpointer g_malloc (gsize n_bytes);
gpointer g_malloc0 (gsize n_bytes);
gpointer g_realloc (gpointer mem, gsize n_bytes);
gpointer g_try_malloc (gsize n_bytes);
gpointer g_malloc_n (gsize n_blocks, gsize n_block_bytes);
gpointer g_malloc0_n (gsize n_blocks, gsize n_block_bytes);
gpointer g_realloc_n (gpointer mem, gsize n_blocks, gsize n_block_bytes);
gpointer g_memdup (gconstpointer mem, guint byte_size);
gpointer g_memdup2 (gconstpointer mem, gsize byte_size);
gpointer g_slice_alloc (gsize block_size);
gpointer g_slice_alloc0 (gsize block_size);
void g_slice_free1 (gsize block_size, gpointer mem_block);
#define g_new(t, n) ((t *) g_malloc_n ((n), sizeof (t)))
#define g_new0(t, n) ((t *) g_malloc0_n ((n), sizeof (t)))
#define g_renew(t, mem, n) ((t *) g_realloc_n (mem, (n), sizeof (t)))
#define g_slice_new(t) ((t *) g_slice_alloc (sizeof (t)))
#define g_slice_new0(t) ((t *) g_slice_alloc0 (sizeof (t)))
#define g_slice_free(t, mem) g_slice_free1 (sizeof (t), (mem))
#define g_alloca(size) alloca (size)
#define g_newa(t, n) ((t*) g_alloca (sizeof (t) * (gsize) (n)))
static inline gpointer g_steal_pointer (gpointer pp)
{ gpointer *ptr = (gpointer *) pp; gpointer ref = *ptr; *ptr = NULL; return ref; }
#define g_steal_pointer(pp) ((__typeof__ (*pp)) (g_steal_pointer) (pp))
#define g_clear_pointer(pp, destroy) \
  do { __typeof__ ((pp)) _pp = (pp); __typeof__ (*(pp)) _ptr = *_pp; *_pp = NULL; if (_ptr) (destroy) (_ptr); } while (0)

/* ---- atomics / once ---- */
gint g_atomic_int_get (const volatile gint *atomic);
void g_atomic_int_inc (volatile gint *atomic);
gboolean g_atomic_int_dec_and_test (volatile gint *atomic);
gboolean g_once_init_enter (volatile void *location);
void g_once_init_leave (volatile void *location, gsize result);

/* ---- quark / error ---- */
typedef struct _GError { GQuark domain; gint code; gchar *message; } GError;
GQuark g_quark_from_static_string (const gchar *string);
GQuark g_quark_from_string (const gchar *string);
const gchar *g_quark_to_string (GQuark quark);
GError *g_error_new (GQuark domain, gint code, const gchar *format, ...) G_GNUC_PRINTF (3, 4);
GError *g_error_new_literal (GQuark domain, gint code, const gchar *message);
void g_error_free (GError *error);
GError *g_error_copy (const GError *error);
gboolean g_error_matches (const GError *error, GQuark domain, gint code);
void g_set_error (GError **err, GQuark domain, gint code, const gchar *format, ...) G_GNUC_PRINTF (4, 5);
void g_set_error_literal (GError **err, GQuark domain, gint code, const gchar *message);
void g_propagate_error (GError **dest, GError *src);
void g_clear_error (GError **err);
void g_prefix_error (GError **err, const gchar *format, ...) G_GNUC_PRINTF (2, 3);

/* ---- logging / assertions ---- */
typedef enum {
  G_LOG_FLAG_RECURSION = 1 << 0, G_LOG_FLAG_FATAL = 1 << 1,
  G_LOG_LEVEL_ERROR = 1 << 2, G_LOG_LEVEL_CRITICAL = 1 << 3, G_LOG_LEVEL_WARNING = 1 << 4,
  G_LOG_LEVEL_MESSAGE = 1 << 5, G_LOG_LEVEL_INFO = 1 << 6, G_LOG_LEVEL_DEBUG = 1 << 7,
  G_LOG_LEVEL_MASK = ~(G_LOG_FLAG_RECURSION | G_LOG_FLAG_FATAL)
} GLogLevelFlags;
typedef void (*GLogFunc) (const gchar *log_domain, GLogLevelFlags log_level, const gchar *message, gpointer user_data);
void g_log (const gchar *log_domain, GLogLevelFlags log_level, const gchar *format, ...) G_GNUC_PRINTF (3, 4);
void g_logv (const gchar *log_domain, GLogLevelFlags log_level, const gchar *format, va_list args);
GLogFunc g_log_set_default_handler (GLogFunc log_func, gpointer user_data);
void g_log_default_handler (const gchar *log_domain, GLogLevelFlags log_level, const gchar *message, gpointer unused_data);
GLogLevelFlags g_log_set_always_fatal (GLogLevelFlags fatal_mask);
void g_return_if_fail_warning (const char *log_domain, const char *pretty_function, const char *expression);
void g_assertion_message_expr (const char *domain, const char *file, int line, const char *func, const char *expr) G_GNUC_NORETURN;
void g_assertion_message_cmpstr (const char *domain, const char *file, int line, const char *func, const char *expr, const char *arg1, const char *cmp, const char *arg2) G_GNUC_NORETURN;
#ifndef G_LOG_DOMAIN
#define G_LOG_DOMAIN ((gchar*) 0)
#endif
#define g_error(...) do { g_log (G_LOG_DOMAIN, G_LOG_LEVEL_ERROR, __VA_ARGS__); for (;;) ; } while (0)
#define g_message(...) g_log (G_LOG_DOMAIN, G_LOG_LEVEL_MESSAGE, __VA_ARGS__)
#define g_critical(...) g_log (G_LOG_DOMAIN, G_LOG_LEVEL_CRITICAL, __VA_ARGS__)
#define g_warning(...) g_log (G_LOG_DOMAIN, G_LOG_LEVEL_WARNING, __VA_ARGS__)
#define g_info(...) g_log (G_LOG_DOMAIN, G_LOG_LEVEL_INFO, __VA_ARGS__)
#define g_debug(...) g_log (G_LOG_DOMAIN, G_LOG_LEVEL_DEBUG, __VA_ARGS__)
#define g_return_if_fail(expr) do { if (G_LIKELY (expr)) { } else { g_return_if_fail_warning (G_LOG_DOMAIN, G_STRFUNC, #expr); return; } } while (0)
#define g_return_val_if_fail(expr, val) do { if (G_LIKELY (expr)) { } else { g_return_if_fail_warning (G_LOG_DOMAIN, G_STRFUNC, #expr); return (val); } } while (0)
#define g_assert(expr) do { if (G_LIKELY (expr)) ; else g_assertion_message_expr (G_LOG_DOMAIN, __FILE__, __LINE__, G_STRFUNC, #expr); } while (0)
#define g_assert_not_reached() do { g_assertion_message_expr (G_LOG_DOMAIN, __FILE__, __LINE__, G_STRFUNC, NULL); } while (0)
#define g_assert_cmpstr(s1, cmp, s2) do { const char *__s1 = (s1), *__s2 = (s2); if (g_strcmp0 (__s1, __s2) cmp 0) ; else g_assertion_message_cmpstr (G_LOG_DOMAIN, __FILE__, __LINE__, G_STRFUNC, #s1 " " #cmp " " #s2, __s1, #cmp, __s2); } while (0)
void g_print (const gchar *format, ...) G_GNUC_PRINTF (1, 2);
void g_printerr (const gchar *format, ...) G_GNUC_PRINTF (1, 2);
gint g_printf (gchar const *format, ...) G_GNUC_PRINTF (1, 2);
gint g_fprintf (FILE *file, gchar const *format, ...) G_GNUC_PRINTF (2, 3);
gint g_snprintf (gchar *string, gulong n, gchar const *format, ...) G_GNUC_PRINTF (3, 4);

/* ---- strings ---- */
gchar *g_strdup (const gchar *str);
gchar *g_strndup (const gchar *str, gsize n);
gchar *g_strdup_printf (const gchar *format, ...) G_GNUC_PRINTF (1, 2);
gchar *g_strdup_vprintf (const gchar *format, va_list args);
gchar *g_strconcat (const gchar *string1, ...) G_GNUC_NULL_TERMINATED;
gchar *g_strjoin (const gchar *separator, ...) G_GNUC_NULL_TERMINATED;
gchar *g_strjoinv (const gchar *separator, gchar **str_array);
gchar **g_strsplit (const gchar *string, const gchar *delimiter, gint max_tokens);
void g_strfreev (gchar **str_array);
gchar **g_strdupv (gchar **str_array);
guint g_strv_length (gchar **str_array);
gboolean g_strv_contains (const gchar * const *strv, const gchar *str);
gchar *g_strchomp (gchar *string);
gchar *g_strchug (gchar *string);
#define g_strstrip(string) g_strchomp (g_strchug (string))
gchar *g_strescape (const gchar *source, const gchar *exceptions);
gchar *g_strstr_len (const gchar *haystack, gssize haystack_len, const gchar *needle);
gboolean g_str_has_prefix (const gchar *str, const gchar *prefix);
gboolean g_str_has_suffix (const gchar *str, const gchar *suffix);
gboolean g_str_equal (gconstpointer v1, gconstpointer v2);
guint g_str_hash (gconstpointer v);
guint g_direct_hash (gconstpointer v);
gboolean g_direct_equal (gconstpointer v1, gconstpointer v2);
int g_strcmp0 (const char *str1, const char *str2);
gint g_ascii_strcasecmp (const gchar *s1, const gchar *s2);
gint g_ascii_strncasecmp (const gchar *s1, const gchar *s2, gsize n);
gint64 g_ascii_strtoll (const gchar *nptr, gchar **endptr, guint base);
guint64 g_ascii_strtoull (const gchar *nptr, gchar **endptr, guint base);
gdouble g_ascii_strtod (const gchar *nptr, gchar **endptr);
gchar *g_ascii_formatd (gchar *buffer, gint buf_len, const gchar *format, gdouble d);
gchar *g_ascii_dtostr (gchar *buffer, gint buf_len, gdouble d);
gchar *g_ascii_strdown (const gchar *str, gssize len);
gchar *g_ascii_strup (const gchar *str, gssize len);
gchar g_ascii_tolower (gchar c);
gchar g_ascii_toupper (gchar c);
extern const guint16 * const g_ascii_table;
#define g_ascii_isalnum(c) ((g_ascii_table[(guchar) (c)] & (1 << 0)) != 0)
#define g_ascii_isalpha(c) ((g_ascii_table[(guchar) (c)] & (1 << 1)) != 0)
#define g_ascii_isdigit(c) ((g_ascii_table[(guchar) (c)] & (1 << 3)) != 0)
#define g_ascii_islower(c) ((g_ascii_table[(guchar) (c)] & (1 << 5)) != 0)
#define g_ascii_isspace(c) ((g_ascii_table[(guchar) (c)] & (1 << 8)) != 0)
#define g_ascii_isupper(c) ((g_ascii_table[(guchar) (c)] & (1 << 9)) != 0)
const gchar *g_strerror (gint errnum);
gboolean g_utf8_validate (const gchar *str, gssize max_len, const gchar **end);

typedef struct _GString { gchar *str; gsize len; gsize allocated_len; } GString;
GString *g_string_new (const gchar *init);
GString *g_string_sized_new (gsize dfl_size);
gchar *g_string_free (GString *string, gboolean free_segment);
GString *g_string_append (GString *string, const gchar *val);
GString *g_string_append_len (GString *string, const gchar *val, gssize len);
GString *g_string_append_c (GString *string, gchar c);
GString *g_string_insert_c (GString *string, gssize pos, gchar c);
GString *g_string_truncate (GString *string, gsize len);
GString *g_string_overwrite_len (GString *string, gsize pos, const gchar *val, gssize len);
void g_string_append_printf (GString *string, const gchar *format, ...) G_GNUC_PRINTF (2, 3);
void g_string_printf (GString *string, const gchar *format, ...) G_GNUC_PRINTF (2, 3);

/* ---- lists ---- */
typedef struct _GList GList;
struct _GList { gpointer data; GList *next; GList *prev; };
typedef struct _GSList GSList;
struct _GSList { gpointer data; GSList *next; };
GList *g_list_append (GList *list, gpointer data);
GList *g_list_prepend (GList *list, gpointer data);
GList *g_list_insert_sorted (GList *list, gpointer data, GCompareFunc func);
GList *g_list_concat (GList *list1, GList *list2);
GList *g_list_remove (GList *list, gconstpointer data);
GList *g_list_delete_link (GList *list, GList *link_);
GList *g_list_reverse (GList *list);
GList *g_list_copy (GList *list);
GList *g_list_find (GList *list, gconstpointer data);
GList *g_list_find_custom (GList *list, gconstpointer data, GCompareFunc func);
GList *g_list_last (GList *list);
GList *g_list_nth (GList *list, guint n);
gpointer g_list_nth_data (GList *list, guint n);
GList *g_list_sort (GList *list, GCompareFunc compare_func);
guint g_list_length (GList *list);
void g_list_foreach (GList *list, GFunc func, gpointer user_data);
void g_list_free (GList *list);
void g_list_free_full (GList *list, GDestroyNotify free_func);
#define g_list_next(list) ((list) ? (((GList *)(list))->next) : NULL)
#define g_list_previous(list) ((list) ? (((GList *)(list))->prev) : NULL)
GSList *g_slist_append (GSList *list, gpointer data);
GSList *g_slist_prepend (GSList *list, gpointer data);
GSList *g_slist_reverse (GSList *list);
GSList *g_slist_sort (GSList *list, GCompareFunc compare_func);
GSList *g_slist_delete_link (GSList *list, GSList *link_);
GSList *g_slist_find_custom (GSList *list, gconstpointer data, GCompareFunc func);
GSList *g_slist_remove (GSList *list, gconstpointer data);
guint g_slist_length (GSList *list);
void g_slist_foreach (GSList *list, GFunc func, gpointer user_data);
void g_slist_free (GSList *list);
void g_slist_free_1 (GSList *list);
void g_slist_free_full (GSList *list, GDestroyNotify free_func);
#define g_slist_next(slist) ((slist) ? (((GSList *)(slist))->next) : NULL)

/* ---- hash table ---- */
typedef struct _GHashTable GHashTable;
typedef struct _GHashTableIter { gpointer dummy1; gpointer dummy2; gpointer dummy3; int dummy4; gboolean dummy5; gpointer dummy6; } GHashTableIter;
GHashTable *g_hash_table_new (GHashFunc hash_func, GEqualFunc key_equal_func);
GHashTable *g_hash_table_new_full (GHashFunc hash_func, GEqualFunc key_equal_func, GDestroyNotify key_destroy_func, GDestroyNotify value_destroy_func);
void g_hash_table_destroy (GHashTable *hash_table);
gboolean g_hash_table_insert (GHashTable *hash_table, gpointer key, gpointer value);
gboolean g_hash_table_replace (GHashTable *hash_table, gpointer key, gpointer value);
gboolean g_hash_table_add (GHashTable *hash_table, gpointer key);
gboolean g_hash_table_remove (GHashTable *hash_table, gconstpointer key);
void g_hash_table_remove_all (GHashTable *hash_table);
gboolean g_hash_table_steal (GHashTable *hash_table, gconstpointer key);
gpointer g_hash_table_lookup (GHashTable *hash_table, gconstpointer key);
gboolean g_hash_table_contains (GHashTable *hash_table, gconstpointer key);
gboolean g_hash_table_lookup_extended (GHashTable *hash_table, gconstpointer lookup_key, gpointer *orig_key, gpointer *value);
void g_hash_table_foreach (GHashTable *hash_table, GHFunc func, gpointer user_data);
guint g_hash_table_size (GHashTable *hash_table);
GList *g_hash_table_get_keys (GHashTable *hash_table);
GList *g_hash_table_get_values (GHashTable *hash_table);
void g_hash_table_iter_init (GHashTableIter *iter, GHashTable *hash_table);
gboolean g_hash_table_iter_next (GHashTableIter *iter, gpointer *key, gpointer *value);
void g_hash_table_iter_remove (GHashTableIter *iter);
void g_hash_table_iter_steal (GHashTableIter *iter);
GHashTable *g_hash_table_ref (GHashTable *hash_table);
void g_hash_table_unref (GHashTable *hash_table);

/* ---- arrays ---- */
typedef struct _GArray { gchar *data; guint len; } GArray;
typedef struct _GByteArray { guint8 *data; guint len; } GByteArray;
typedef struct _GPtrArray { gpointer *pdata; guint len; } GPtrArray;
GPtrArray *g_ptr_array_new (void);
GPtrArray *g_ptr_array_new_with_free_func (GDestroyNotify element_free_func);
GPtrArray *g_ptr_array_new_full (guint reserved_size, GDestroyNotify element_free_func);
gpointer *g_ptr_array_free (GPtrArray *array, gboolean free_seg);
void g_ptr_array_add (GPtrArray *array, gpointer data);
void g_ptr_array_unref (GPtrArray *array);
#define g_ptr_array_index(array,index_) ((array)->pdata)[index_]
GByteArray *g_byte_array_new (void);
guint8 *g_byte_array_free (GByteArray *array, gboolean free_segment);
GByteArray *g_byte_array_append (GByteArray *array, const guint8 *data, guint len);
GArray *g_array_new (gboolean zero_terminated, gboolean clear_, guint element_size);
gchar *g_array_free (GArray *array, gboolean free_segment);
GArray *g_array_append_vals (GArray *array, gconstpointer data, guint len);
#define g_array_append_val(a,v) g_array_append_vals (a, &(v), 1)
#define g_array_index(a,t,i) (((t*) (void *) (a)->data) [(i)])

/* ---- files / env ---- */
typedef enum { G_FILE_TEST_IS_REGULAR = 1 << 0, G_FILE_TEST_IS_SYMLINK = 1 << 1, G_FILE_TEST_IS_DIR = 1 << 2, G_FILE_TEST_IS_EXECUTABLE = 1 << 3, G_FILE_TEST_EXISTS = 1 << 4 } GFileTest;
typedef enum { G_FILE_ERROR_EXIST, G_FILE_ERROR_ISDIR, G_FILE_ERROR_ACCES, G_FILE_ERROR_NAMETOOLONG, G_FILE_ERROR_NOENT, G_FILE_ERROR_NOTDIR, G_FILE_ERROR_NXIO, G_FILE_ERROR_NODEV, G_FILE_ERROR_ROFS, G_FILE_ERROR_TXTBSY, G_FILE_ERROR_FAULT, G_FILE_ERROR_LOOP, G_FILE_ERROR_NOSPC, G_FILE_ERROR_NOMEM, G_FILE_ERROR_MFILE, G_FILE_ERROR_NFILE, G_FILE_ERROR_BADF, G_FILE_ERROR_INVAL, G_FILE_ERROR_PIPE, G_FILE_ERROR_AGAIN, G_FILE_ERROR_INTR, G_FILE_ERROR_IO, G_FILE_ERROR_PERM, G_FILE_ERROR_NOSYS, G_FILE_ERROR_FAILED } GFileError;
#define G_FILE_ERROR g_file_error_quark ()
GQuark g_file_error_quark (void);
GFileError g_file_error_from_errno (gint err_no);
gboolean g_file_test (const gchar *filename, GFileTest test);
gboolean g_file_get_contents (const gchar *filename, gchar **contents, gsize *length, GError **error);
gboolean g_file_set_contents (const gchar *filename, const gchar *contents, gssize length, GError **error);
gchar *g_build_filename (const gchar *first_element, ...) G_GNUC_NULL_TERMINATED;
gchar *g_path_get_basename (const gchar *file_name);
gchar *g_path_get_dirname (const gchar *file_name);
gboolean g_path_is_absolute (const gchar *file_name);
gchar *g_get_current_dir (void);
const gchar *g_getenv (const gchar *variable);
gboolean g_setenv (const gchar *variable, const gchar *value, gboolean overwrite);
const gchar *g_get_user_data_dir (void);
const gchar * const *g_get_system_data_dirs (void);
const gchar *g_get_tmp_dir (void);
FILE *g_fopen (const gchar *filename, const gchar *mode);
int g_unlink (const gchar *filename);
int g_rename (const gchar *oldfilename, const gchar *newfilename);
int g_remove (const gchar *filename);
typedef struct _GDir GDir;
GDir *g_dir_open (const gchar *path, guint flags, GError **error);
const gchar *g_dir_read_name (GDir *dir);
void g_dir_close (GDir *dir);
typedef struct _GMappedFile GMappedFile;
GMappedFile *g_mapped_file_new (const gchar *filename, gboolean writable, GError **error);
gsize g_mapped_file_get_length (GMappedFile *file);
gchar *g_mapped_file_get_contents (GMappedFile *file);
void g_mapped_file_unref (GMappedFile *file);

/* ---- markup ---- */
typedef enum { G_MARKUP_ERROR_BAD_UTF8, G_MARKUP_ERROR_EMPTY, G_MARKUP_ERROR_PARSE, G_MARKUP_ERROR_UNKNOWN_ELEMENT, G_MARKUP_ERROR_UNKNOWN_ATTRIBUTE, G_MARKUP_ERROR_INVALID_CONTENT, G_MARKUP_ERROR_MISSING_ATTRIBUTE } GMarkupError;
#define G_MARKUP_ERROR g_markup_error_quark ()
GQuark g_markup_error_quark (void);
typedef enum { G_MARKUP_DEFAULT_FLAGS = 0, G_MARKUP_DO_NOT_USE_THIS_UNSUPPORTED_FLAG = 1 << 0, G_MARKUP_TREAT_CDATA_AS_TEXT = 1 << 1, G_MARKUP_PREFIX_ERROR_POSITION = 1 << 2, G_MARKUP_IGNORE_QUALIFIED = 1 << 3 } GMarkupParseFlags;
typedef struct _GMarkupParseContext GMarkupParseContext;
typedef struct _GMarkupParser GMarkupParser;
struct _GMarkupParser {
  void (*start_element) (GMarkupParseContext *context, const gchar *element_name, const gchar **attribute_names, const gchar **attribute_values, gpointer user_data, GError **error);
  void (*end_element) (GMarkupParseContext *context, const gchar *element_name, gpointer user_data, GError **error);
  void (*text) (GMarkupParseContext *context, const gchar *text, gsize text_len, gpointer user_data, GError **error);
  void (*passthrough) (GMarkupParseContext *context, const gchar *passthrough_text, gsize text_len, gpointer user_data, GError **error);
  void (*error) (GMarkupParseContext *context, GError *error, gpointer user_data);
};
GMarkupParseContext *g_markup_parse_context_new (const GMarkupParser *parser, GMarkupParseFlags flags, gpointer user_data, GDestroyNotify user_data_dnotify);
void g_markup_parse_context_free (GMarkupParseContext *context);
gboolean g_markup_parse_context_parse (GMarkupParseContext *context, const gchar *text, gssize text_len, GError **error);
gboolean g_markup_parse_context_end_parse (GMarkupParseContext *context, GError **error);
void g_markup_parse_context_get_position (GMarkupParseContext *context, gint *line_number, gint *char_number);
const gchar *g_markup_parse_context_get_element (GMarkupParseContext *context);
gchar *g_markup_escape_text (const gchar *text, gssize length);
gchar *g_markup_printf_escaped (const char *format, ...) G_GNUC_PRINTF (1, 2);
gchar *g_markup_vprintf_escaped (const char *format, va_list args);

/* ---- options ---- */
typedef enum { G_OPTION_FLAG_NONE = 0, G_OPTION_FLAG_HIDDEN = 1 << 0, G_OPTION_FLAG_IN_MAIN = 1 << 1, G_OPTION_FLAG_REVERSE = 1 << 2, G_OPTION_FLAG_NO_ARG = 1 << 3, G_OPTION_FLAG_FILENAME = 1 << 4, G_OPTION_FLAG_OPTIONAL_ARG = 1 << 5, G_OPTION_FLAG_NOALIAS = 1 << 6 } GOptionFlags;
typedef enum { G_OPTION_ARG_NONE, G_OPTION_ARG_STRING, G_OPTION_ARG_INT, G_OPTION_ARG_CALLBACK, G_OPTION_ARG_FILENAME, G_OPTION_ARG_STRING_ARRAY, G_OPTION_ARG_FILENAME_ARRAY, G_OPTION_ARG_DOUBLE, G_OPTION_ARG_INT64 } GOptionArg;
typedef struct _GOptionContext GOptionContext;
typedef struct _GOptionGroup GOptionGroup;
typedef struct _GOptionEntry { const gchar *long_name; gchar short_name; gint flags; GOptionArg arg; gpointer arg_data; const gchar *description; const gchar *arg_description; } GOptionEntry;
#define G_OPTION_REMAINING ""
GOptionContext *g_option_context_new (const gchar *parameter_string);
void g_option_context_free (GOptionContext *context);
void g_option_context_add_main_entries (GOptionContext *context, const GOptionEntry *entries, const gchar *translation_domain);
void g_option_context_add_group (GOptionContext *context, GOptionGroup *group);
gboolean g_option_context_parse (GOptionContext *context, gint *argc, gchar ***argv, GError **error);
GOptionGroup *g_option_group_new (const gchar *name, const gchar *description, const gchar *help_description, gpointer user_data, GDestroyNotify destroy);
void g_option_group_add_entries (GOptionGroup *group, const GOptionEntry *entries);

/* ---- GModule ---- */
typedef struct _GModule GModule;
typedef enum { G_MODULE_BIND_LAZY = 1 << 0, G_MODULE_BIND_LOCAL = 1 << 1, G_MODULE_BIND_MASK = 0x03 } GModuleFlags;
GModule *g_module_open (const gchar *file_name, GModuleFlags flags);
gboolean g_module_close (GModule *module);
gboolean g_module_symbol (GModule *module, const gchar *symbol_name, gpointer *symbol);
const gchar *g_module_error (void);
gchar *g_module_build_path (const gchar *directory, const gchar *module_name);

/* ---- GType / GObject ---- */
#define G_TYPE_FUNDAMENTAL_SHIFT (2)
#define G_TYPE_MAKE_FUNDAMENTAL(x) ((GType) ((x) << G_TYPE_FUNDAMENTAL_SHIFT))
#define G_TYPE_FUNDAMENTAL_MAX (255 << G_TYPE_FUNDAMENTAL_SHIFT)
#define G_TYPE_INVALID G_TYPE_MAKE_FUNDAMENTAL (0)
#define G_TYPE_NONE G_TYPE_MAKE_FUNDAMENTAL (1)
#define G_TYPE_INTERFACE G_TYPE_MAKE_FUNDAMENTAL (2)
#define G_TYPE_CHAR G_TYPE_MAKE_FUNDAMENTAL (3)
#define G_TYPE_UCHAR G_TYPE_MAKE_FUNDAMENTAL (4)
#define G_TYPE_BOOLEAN G_TYPE_MAKE_FUNDAMENTAL (5)
#define G_TYPE_INT G_TYPE_MAKE_FUNDAMENTAL (6)
#define G_TYPE_UINT G_TYPE_MAKE_FUNDAMENTAL (7)
#define G_TYPE_LONG G_TYPE_MAKE_FUNDAMENTAL (8)
#define G_TYPE_ULONG G_TYPE_MAKE_FUNDAMENTAL (9)
#define G_TYPE_INT64 G_TYPE_MAKE_FUNDAMENTAL (10)
#define G_TYPE_UINT64 G_TYPE_MAKE_FUNDAMENTAL (11)
#define G_TYPE_ENUM G_TYPE_MAKE_FUNDAMENTAL (12)
#define G_TYPE_FLAGS G_TYPE_MAKE_FUNDAMENTAL (13)
#define G_TYPE_FLOAT G_TYPE_MAKE_FUNDAMENTAL (14)
#define G_TYPE_DOUBLE G_TYPE_MAKE_FUNDAMENTAL (15)
#define G_TYPE_STRING G_TYPE_MAKE_FUNDAMENTAL (16)
#define G_TYPE_POINTER G_TYPE_MAKE_FUNDAMENTAL (17)
#define G_TYPE_BOXED G_TYPE_MAKE_FUNDAMENTAL (18)
#define G_TYPE_PARAM G_TYPE_MAKE_FUNDAMENTAL (19)
#define G_TYPE_OBJECT G_TYPE_MAKE_FUNDAMENTAL (20)
#define G_TYPE_VARIANT G_TYPE_MAKE_FUNDAMENTAL (21)
#define G_TYPE_FUNDAMENTAL(type) (g_type_fundamental (type))
typedef struct _GTypeClass { GType g_type; } GTypeClass;
typedef struct _GTypeInstance { GTypeClass *g_class; } GTypeInstance;
typedef struct _GTypeInterface { GType g_type; GType g_instance_type; } GTypeInterface;
typedef enum { G_TYPE_FLAG_NONE = 0, G_TYPE_FLAG_ABSTRACT = (1 << 4), G_TYPE_FLAG_VALUE_ABSTRACT = (1 << 5), G_TYPE_FLAG_FINAL = (1 << 6) } GTypeFlags;
typedef enum { G_TYPE_FLAG_CLASSED = (1 << 0), G_TYPE_FLAG_INSTANTIATABLE = (1 << 1), G_TYPE_FLAG_DERIVABLE = (1 << 2), G_TYPE_FLAG_DEEP_DERIVABLE = (1 << 3) } GTypeFundamentalFlags;
typedef void (*GClassInitFunc) (gpointer g_class, gpointer class_data);
typedef void (*GInstanceInitFunc) (GTypeInstance *instance, gpointer g_class);
const gchar *g_type_name (GType type);
GType g_type_from_name (const gchar *name);
GType g_type_parent (GType type);
GType g_type_fundamental (GType type_id);
guint g_type_depth (GType type);
gboolean g_type_is_a (GType type, GType is_a_type);
gpointer g_type_class_ref (GType type);
gpointer g_type_class_peek (GType type);
gpointer g_type_class_peek_parent (gpointer g_class);
void g_type_class_unref (gpointer g_class);
gpointer g_type_interface_peek (gpointer instance_class, GType iface_type);
gpointer g_type_default_interface_ref (GType g_type);
void g_type_default_interface_unref (gpointer g_iface);
GType *g_type_interfaces (GType type, guint *n_interfaces);
GType *g_type_interface_prerequisites (GType interface_type, guint *n_prerequisites);
gboolean g_type_test_flags (GType type, guint flags);
GType g_type_register_static_simple (GType parent_type, const gchar *type_name, guint class_size, GClassInitFunc class_init, guint instance_size, GInstanceInitFunc instance_init, GTypeFlags flags);
gint g_type_add_instance_private (GType class_type, gsize private_size);
void g_type_class_adjust_private_offset (gpointer g_class, gint *private_size_or_offset);
gboolean g_type_check_instance_is_a (GTypeInstance *instance, GType iface_type);
GTypeInstance *g_type_check_instance_cast (GTypeInstance *instance, GType iface_type);
GTypeClass *g_type_check_class_cast (GTypeClass *g_class, GType is_a_type);
#define G_TYPE_IS_ABSTRACT(type) (g_type_test_flags ((type), G_TYPE_FLAG_ABSTRACT))
#define G_TYPE_IS_FINAL(type) (g_type_test_flags ((type), G_TYPE_FLAG_FINAL))
#define G_TYPE_IS_INSTANTIATABLE(type) (g_type_test_flags ((type), G_TYPE_FLAG_INSTANTIATABLE))
#define G_TYPE_CHECK_INSTANCE_CAST(instance, g_type, c_type) ((c_type*) g_type_check_instance_cast ((GTypeInstance*) (instance), (g_type)))
#define G_TYPE_CHECK_CLASS_CAST(g_class, g_type, c_type) ((c_type*) g_type_check_class_cast ((GTypeClass*) (g_class), (g_type)))
#define G_TYPE_CHECK_INSTANCE_TYPE(instance, g_type) (g_type_check_instance_is_a ((GTypeInstance*) (instance), (g_type)))
#define G_TYPE_INSTANCE_GET_CLASS(instance, g_type, c_type) ((c_type*) (((GTypeInstance*) (instance))->g_class))
#define G_TYPE_FROM_CLASS(g_class) (((GTypeClass*) (g_class))->g_type)
#define G_TYPE_FROM_INSTANCE(instance) (G_TYPE_FROM_CLASS (((GTypeInstance*) (instance))->g_class))

typedef struct _GData GData;
typedef struct _GObject { GTypeInstance g_type_instance; guint ref_count; GData *qdata; } GObject;
typedef struct _GObject GInitiallyUnowned;
typedef struct _GParamSpec GParamSpec;
typedef struct _GValue GValue;
typedef struct _GObjectConstructParam GObjectConstructParam;
typedef struct _GObjectClass GObjectClass;
struct _GObjectClass {
  GTypeClass g_type_class;
  GSList *construct_properties;
  GObject* (*constructor) (GType type, guint n_construct_properties, GObjectConstructParam *construct_properties);
  void (*set_property) (GObject *object, guint property_id, const GValue *value, GParamSpec *pspec);
  void (*get_property) (GObject *object, guint property_id, GValue *value, GParamSpec *pspec);
  void (*dispose) (GObject *object);
  void (*finalize) (GObject *object);
  void (*dispatch_properties_changed) (GObject *object, guint n_pspecs, GParamSpec **pspecs);
  void (*notify) (GObject *object, GParamSpec *pspec);
  void (*constructed) (GObject *object);
  gsize flags;
  gsize n_construct_properties;
  gpointer pspecs;
  gsize n_pspecs;
  gpointer pdummy[3];
};
#define G_OBJECT(object) (G_TYPE_CHECK_INSTANCE_CAST ((object), G_TYPE_OBJECT, GObject))
#define G_OBJECT_CLASS(class) (G_TYPE_CHECK_CLASS_CAST ((class), G_TYPE_OBJECT, GObjectClass))
#define G_OBJECT_TYPE(object) (G_TYPE_FROM_INSTANCE (object))
gpointer g_object_new (GType object_type, const gchar *first_property_name, ...);
gpointer g_object_ref (gpointer object);
void g_object_unref (gpointer object);
#define g_clear_object(object_ptr) g_clear_pointer ((object_ptr), g_object_unref)

#define G_ADD_PRIVATE(TypeName) { TypeName##_private_offset = g_type_add_instance_private (g_define_type_id, sizeof (TypeName##Private)); }
#define G_DEFINE_TYPE_WITH_CODE(TypeName, type_name, TYPE_PARENT, _C_) \
static void type_name##_init (TypeName *self); \
static void type_name##_class_init (TypeName##Class *klass); \
static GType type_name##_get_type_once (void); \
static gpointer type_name##_parent_class = NULL; \
static gint TypeName##_private_offset; \
static void type_name##_class_intern_init (gpointer klass) \
{ \
  type_name##_parent_class = g_type_class_peek_parent (klass); \
  if (TypeName##_private_offset != 0) \
    g_type_class_adjust_private_offset (klass, &TypeName##_private_offset); \
  type_name##_class_init ((TypeName##Class*) klass); \
} \
G_GNUC_UNUSED static inline gpointer type_name##_get_instance_private (TypeName *self) \
{ return (G_STRUCT_MEMBER_P (self, TypeName##_private_offset)); } \
GType type_name##_get_type (void) \
{ \
  static gsize static_g_define_type_id = 0; \
  if (g_once_init_enter (&static_g_define_type_id)) \
    { GType g_define_type_id = type_name##_get_type_once (); g_once_init_leave (&static_g_define_type_id, g_define_type_id); } \
  return static_g_define_type_id; \
} \
static GType type_name##_get_type_once (void) \
{ \
  GType g_define_type_id = g_type_register_static_simple (TYPE_PARENT, #TypeName, sizeof (TypeName##Class), \
      (GClassInitFunc)(void (*)(void)) type_name##_class_intern_init, sizeof (TypeName), \
      (GInstanceInitFunc)(void (*)(void)) type_name##_init, (GTypeFlags) 0); \
  { _C_; } \
  return g_define_type_id; \
}
#define G_DEFINE_TYPE(TN, t_n, T_P) G_DEFINE_TYPE_WITH_CODE (TN, t_n, T_P, ;)

/* boxed */
typedef gpointer (*GBoxedCopyFunc) (gpointer boxed);
typedef void (*GBoxedFreeFunc) (gpointer boxed);
GType g_boxed_type_register_static (const gchar *name, GBoxedCopyFunc boxed_copy, GBoxedFreeFunc boxed_free);

/* GValue */
struct _GValue {
  GType g_type;
  union { gint v_int; guint v_uint; glong v_long; gulong v_ulong; gint64 v_int64; guint64 v_uint64; gfloat v_float; gdouble v_double; gpointer v_pointer; } data[2];
};
#define G_VALUE_INIT { 0, { { 0 } } }
#define G_VALUE_TYPE(value) (((GValue*) (value))->g_type)
#define G_VALUE_HOLDS(value,type) (g_type_check_value_holds ((GValue*) (value), (type)))
#define G_VALUE_HOLDS_STRING(value) (G_VALUE_HOLDS ((value), G_TYPE_STRING))
gboolean g_type_check_value_holds (const GValue *value, GType type);
GValue *g_value_init (GValue *value, GType g_type);
void g_value_unset (GValue *value);
gboolean g_value_transform (const GValue *src_value, GValue *dest_value);
gchar *g_strdup_value_contents (const GValue *value);
const gchar *g_value_get_string (const GValue *value);
gpointer g_value_get_object (const GValue *value);
gpointer g_value_get_boxed (const GValue *value);
gpointer g_value_get_pointer (const GValue *value);
void g_value_set_boolean (GValue *value, gboolean v); void g_value_set_schar (GValue *value, gint8 v);
void g_value_set_uchar (GValue *value, guchar v); void g_value_set_int (GValue *value, gint v);
void g_value_set_uint (GValue *value, guint v); void g_value_set_long (GValue *value, glong v);
void g_value_set_ulong (GValue *value, gulong v); void g_value_set_int64 (GValue *value, gint64 v);
void g_value_set_uint64 (GValue *value, guint64 v); void g_value_set_float (GValue *value, gfloat v);
void g_value_set_double (GValue *value, gdouble v); void g_value_set_string (GValue *value, const gchar *v);
void g_value_set_pointer (GValue *value, gpointer v); void g_value_set_boxed (GValue *value, gconstpointer v);
void g_value_set_param (GValue *value, GParamSpec *param); void g_value_set_object (GValue *value, gpointer v);
gboolean g_value_get_boolean (const GValue *value); gint8 g_value_get_schar (const GValue *value);
guchar g_value_get_uchar (const GValue *value); gint g_value_get_int (const GValue *value);
guint g_value_get_uint (const GValue *value); glong g_value_get_long (const GValue *value);
gulong g_value_get_ulong (const GValue *value); gint64 g_value_get_int64 (const GValue *value);
guint64 g_value_get_uint64 (const GValue *value); gfloat g_value_get_float (const GValue *value);
gdouble g_value_get_double (const GValue *value); GParamSpec *g_value_get_param (const GValue *value);
gint g_value_get_enum (const GValue *value); guint g_value_get_flags (const GValue *value);
void g_value_set_enum (GValue *value, gint v); void g_value_set_flags (GValue *value, guint v);
GType g_value_get_gtype (const GValue *value); void g_value_set_gtype (GValue *value, GType v);
GType g_gtype_get_type (void);
#define G_TYPE_GTYPE (g_gtype_get_type())

typedef enum { G_PARAM_READABLE = 1 << 0, G_PARAM_WRITABLE = 1 << 1, G_PARAM_READWRITE = 3, G_PARAM_CONSTRUCT = 1 << 2, G_PARAM_CONSTRUCT_ONLY = 1 << 3, G_PARAM_LAX_VALIDATION = 1 << 4, G_PARAM_STATIC_NAME = 1 << 5, G_PARAM_STATIC_NICK = 1 << 6, G_PARAM_STATIC_BLURB = 1 << 7, G_PARAM_EXPLICIT_NOTIFY = 1 << 30, G_PARAM_DEPRECATED = (gint)(1u << 31) } GParamFlags;
typedef enum { G_SIGNAL_RUN_FIRST = 1 << 0, G_SIGNAL_RUN_LAST = 1 << 1, G_SIGNAL_RUN_CLEANUP = 1 << 2, G_SIGNAL_NO_RECURSE = 1 << 3, G_SIGNAL_DETAILED = 1 << 4, G_SIGNAL_ACTION = 1 << 5, G_SIGNAL_NO_HOOKS = 1 << 6, G_SIGNAL_MUST_COLLECT = 1 << 7, G_SIGNAL_DEPRECATED = 1 << 8, G_SIGNAL_ACCUMULATOR_FIRST_RUN = 1 << 17 } GSignalFlags;

/* closures (layout needed by gicallableinfo/ginvoke only if compiled) */
typedef struct _GClosure GClosure;
typedef void (*GClosureNotify) (gpointer data, GClosure *closure);
typedef void (*GClosureMarshal) (GClosure *closure, GValue *return_value, guint n_param_values, const GValue *param_values, gpointer invocation_hint, gpointer marshal_data);
typedef struct _GClosureNotifyData GClosureNotifyData;
struct _GClosure {
  guint ref_count : 15; guint meta_marshal_nouse : 1; guint n_guards : 1; guint n_fnotifiers : 2; guint n_inotifiers : 8;
  guint in_inotify : 1; guint floating : 1; guint derivative_flag : 1; guint in_marshal : 1; guint is_invalid : 1;
  void (*marshal) (GClosure *closure, GValue *return_value, guint n_param_values, const GValue *param_values, gpointer invocation_hint, gpointer marshal_data);
  gpointer data; GClosureNotifyData *notifiers;
};
typedef struct _GCClosure { GClosure closure; gpointer callback; } GCClosure;
#define G_CCLOSURE_SWAP_DATA(cclosure) (((GClosure*) (cclosure))->derivative_flag)

/* ---- GIO (only what tools/compiler.c needs) ---- */
typedef struct _GFile GFile;
typedef struct _GCancellable GCancellable;
typedef enum { G_FILE_COPY_NONE = 0, G_FILE_COPY_OVERWRITE = (1 << 0) } GFileCopyFlags;
typedef void (*GFileProgressCallback) (goffset current_num_bytes, goffset total_num_bytes, gpointer data);
GFile *g_file_new_for_path (const char *path);
gboolean g_file_move (GFile *source, GFile *destination, GFileCopyFlags flags, GCancellable *cancellable, GFileProgressCallback progress_callback, gpointer progress_callback_data, GError **error);

#endif

#include <glib.h>

#include <glib.h>

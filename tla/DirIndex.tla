------------------------------ MODULE DirIndex ------------------------------
(***************************************************************************)
(* C14 -- every typelib entry can be found by name, GType name and error   *)
(* domain.                                                                 *)
(*                                                                         *)
(* Property layer: named clauses over ONE observation record (a probe of   *)
(* a lookup function, or the attempt to build the typelib of an n-entry    *)
(* namespace).  The same operators judge the model below (DirIndexMC) and  *)
(* the observations of the real code (DirIndexTrace).                      *)
(*                                                                         *)
(* Implementation-shaped layer:                                            *)
(*  (a) girepository/gthash.c + gitypelib.c: a perfect hash h that is ANY  *)
(*      function injective onto 0..n-1 on the n directory names and        *)
(*      ARBITRARY (also >= n) on every other string; the lookaside table   *)
(*      built by _gi_typelib_hash_builder_pack (one PackOne step per       *)
(*      GHashTable element, any order); _gi_typelib_hash_search with its   *)
(*      clamp; g_typelib_get_dir_entry_by_name with its final strcmp, and  *)
(*      the linear fallback taken when get_section_by_id returns NULL;     *)
(*      the linear key scans by_gtype_name / by_error_domain and the       *)
(*      two-pass repository search find_by_gtype.                          *)
(*      h is a state variable chosen in Init: TLC quantifies over the hash *)
(*      function itself.                                                   *)
(*  (b) girmodule.c:add_directory_index_section + gthash.c:prepare +       *)
(*      cmph/bdz.c:bdz_packed_size: the size arithmetic of the index       *)
(*      section with the WIDTH of the C variables (SizeBits = 16 is the    *)
(*      code as it is: `guint16 required_size`).                           *)
(***************************************************************************)
EXTENDS Naturals, Integers, Sequences, FiniteSets, TLC

CONSTANTS
    Pool,          \* sequence of distinct abstract strings; the directory is its first n elements
    Absent,        \* strings that are never members: the absent probes
    MaxN,          \* directory sizes 1..MaxN are explored by the lookup model (MaxN <= Len(Pool))
    HMax,          \* hash values of non-members range over 0..HMax, HMax >= MaxN: includes values >= n
    FinalCompare,  \* TRUE = the code (strcmp of the probe against the name of the entry found)
    Clamp,         \* "zero" = the code (offset >= n_entries -> 0); "none" = what-if: read past the table
    Keys,          \* GType names / error-domain strings that entries may carry
    AbsentKey,     \* a key no entry carries
    MaxKeyN,       \* directory sizes for the key-scan model
    SizeBits,      \* width of `required_size` in add_directory_index_section: 16 as-is, 32 = proposed fix
    MaxEntries,    \* 65535: Header.n_local_entries is a guint16
    SizeDomain,    \* the arithmetic model evaluates every n in this set (1..65535: Header.n_local_entries is guint16)
    Boundary       \* claimed smallest n for which the index cannot be built with SizeBits (0 = no claim)

NULL == 0          \* lookups return a directory index 1..n, NULL for "absent"
WILD == -1         \* what-if only: a read outside the table / directory

(***************************************************************************)
(* PROPERTY LAYER                                                          *)
(* record r: [id, kind, n, isMember, expected, fIdx, fLin, fRepo,          *)
(*            repoAsked, hasIndex, built]                                  *)
(*  kind      "build" | "name" | "gtype" | "domain"  ("none": no record)   *)
(*  expected  sequence of the directory indices whose key equals the probe *)
(*            (one element for names: names are distinct)                  *)
(*  fIdx      result on the typelib as compiled (by_name: through the hash *)
(*            index when hasIndex), fLin with the index section            *)
(*            unreachable, fRepo from g_irepository_find_by_*              *)
(***************************************************************************)
InSeq(x, s) == \E i \in 1..Len(s) : s[i] = x
Right(x, r) == IF r.isMember THEN InSeq(x, r.expected) ELSE x = NULL
IsProbe(r)  == r.kind \in {"name", "gtype", "domain"}

ClauseNames == {"IndexBuilt", "MemberFound", "RightEntry", "AbsentIsAbsent", "LinearAgrees",
                "GTypeNameFound", "ErrorDomainFound", "RepoAgrees"}

\* when the statement speaks
Antecedent(r, c) ==
    CASE c = "IndexBuilt"       -> r.kind = "build" /\ r.n >= 1 /\ r.n <= 65535     \* "1 to 65535 entries"
      [] c = "MemberFound"      -> r.kind = "name" /\ r.isMember
      [] c = "RightEntry"       -> r.kind = "name" /\ r.isMember /\ r.fIdx # NULL
      [] c = "AbsentIsAbsent"   -> r.kind = "name" /\ ~r.isMember
      [] c = "LinearAgrees"     -> r.kind = "name"
      [] c = "GTypeNameFound"   -> r.kind = "gtype"
      [] c = "ErrorDomainFound" -> r.kind = "domain"
      [] c = "RepoAgrees"       -> IsProbe(r) /\ r.repoAsked

\* what it says
Consequent(r, c) ==
    CASE c = "IndexBuilt"       -> r.built                        \* a typelib exists at all
      [] c = "MemberFound"      -> r.fIdx # NULL                  \* found through the index ...
      [] c = "RightEntry"       -> InSeq(r.fIdx, r.expected)      \* ... and it is the entry with exactly that name
      [] c = "AbsentIsAbsent"   -> r.fIdx = NULL                  \* never some other entry
      [] c = "LinearAgrees"     -> Right(r.fLin, r)               \* the linear fallback gives the same answer
      [] c = "GTypeNameFound"   -> Right(r.fIdx, r) /\ Right(r.fLin, r)
      [] c = "ErrorDomainFound" -> Right(r.fIdx, r) /\ Right(r.fLin, r)
      [] c = "RepoAgrees"       -> r.fRepo = r.fIdx

Clause(r, c) == Antecedent(r, c) => Consequent(r, c)
Clauses(r)   == [c \in ClauseNames |-> Clause(r, c)]

NoObs == [id |-> "-", kind |-> "none", n |-> 0, isMember |-> FALSE, expected |-> <<>>, fIdx |-> 0, fLin |-> 0,
          fRepo |-> 0, repoAsked |-> FALSE, hasIndex |-> FALSE, built |-> FALSE]

(***************************************************************************)
(* SIZE ARITHMETIC of the directory index section, as the code computes it *)
(* All true values stay below 2^18, so TLC's 32-bit integers are exact;    *)
(* a 32-bit C variable is modelled as the identity, narrower ones by       *)
(* reduction modulo 2^bits.                                                *)
(***************************************************************************)
CeilDiv(a, b) == (a + b - 1) \div b
Align4(x)     == ((x + 3) \div 4) * 4                 \* ALIGN_VALUE(x, 4), computed in unsigned long
Trunc(x, bits) == IF bits >= 31 THEN x ELSE x % (2 ^ bits)

\* cmph/bdz.c:bdz_new  (c = 1.23, b = 7):  r = ceil(c*m/3), made odd; n = 3r vertices
\* (the double arithmetic of the code agrees with ceil(123m/300) for every m in 1..65535 -- checked by the harness)
BdzR(m)      == LET r0 == CeilDiv(123 * m, 300) IN IF r0 % 2 = 0 THEN r0 + 1 ELSE r0
BdzVertices(m) == 3 * BdzR(m)
BdzRankTable(m) == CeilDiv(BdzVertices(m), 128)
\* bdz_packed_size: CMPH_ALGO + jenkins seed + (hl_type, r, ranktablesize) + ranktable + b + g (2 bits per vertex)
MphPackedSize(m) == 4 + 4 + 12 + 4 * BdzRankTable(m) + 1 + CeilDiv(BdzVertices(m), 4)

\* gthash.c:_gi_typelib_hash_builder_prepare (guint32 fields)
DirmapOffset(m) == Align4(4 + MphPackedSize(m))
PackedSize(m)   == DirmapOffset(m) + 2 * m               \* + num_elts * sizeof(guint16)

\* girmodule.c:add_directory_index_section
\*   guint16 required_size;
\*   required_size = _gi_typelib_hash_builder_get_buffer_size (b);    -- truncation 1
\*   required_size = ALIGN_VALUE (required_size, 4);                 -- truncation 2
\*   _gi_typelib_hash_builder_pack (b, data + *offset2, required_size) -- g_assert (len >= builder->packed_size)
RequiredSize(m, bits) == Trunc(Align4(Trunc(PackedSize(m), bits)), bits)
Fits(m, bits)         == RequiredSize(m, bits) >= PackedSize(m)
\* table values are guint16 (entry number i in 0..m-1), g_typelib_get_dir_entry takes a guint16 index+1
EntryIndexFits(m)     == (m - 1) < 65536 /\ m < 65536

SizeRecord(m, bits) == [n |-> m, mph |-> MphPackedSize(m), dirmap |-> DirmapOffset(m), packed |-> PackedSize(m),
                        required |-> RequiredSize(m, bits), fits |-> Fits(m, bits)]
NoSize == [n |-> 0, mph |-> 0, dirmap |-> 0, packed |-> 0, required |-> 0, fits |-> TRUE]

(***************************************************************************)
(* IMPLEMENTATION-SHAPED LAYER: state                                      *)
(***************************************************************************)
VARIABLES
    mode,     \* "hash" | "keys" | "size" | "bisect": which part of the code this behaviour exercises
    n,        \* number of local directory entries
    h,        \* the perfect hash: Universe(n) -> 0..HMax
    gk, dk,   \* GType-name / error-domain key of entry i (NoKey: the entry has none / is of another blob type)
    table,    \* the guint16 lookaside table at dirmap_offset: 0..n-1 -> entry number
    packed,   \* entries already written by the pack loop
    phase,    \* "pack" | "probe" | "size" | "done"
    obs,      \* the observation produced by the last step (property-layer record)
    sz,       \* the arithmetic record produced by BuildIndex
    lo, hi    \* mode "bisect": lo builds (or is 0), hi does not (or is MaxEntries + 1)

vars == <<mode, n, h, gk, dk, table, packed, phase, obs, sz, lo, hi>>

NoKey    == "-"
Dir(k)   == {Pool[i] : i \in 1..k}                 \* the names of a k-entry directory
Universe(k) == Dir(k) \cup Absent                  \* the strings ever hashed: members and absent probes
Name(i)  == Pool[i]                                \* g_typelib_get_string (typelib, entry->name)

\* "a perfect hash on the names": injective onto 0..k-1 on the members, anything elsewhere
Admissible(f, k) == /\ \A i \in 1..k : f[Pool[i]] < k
                    /\ \A i, j \in 1..k : i # j => f[Pool[i]] # f[Pool[j]]
HashFns(k) == {f \in [Universe(k) -> 0..HMax] : Admissible(f, k)}

\* keys: any assignment in which no two entries share a key (GType names / error domains are unique)
KeyFns(k) == {f \in [1..k -> Keys \cup {NoKey}] : \A i, j \in 1..k : (i # j /\ f[i] # NoKey) => f[i] # f[j]}

InitHash ==
    /\ mode = "hash" /\ n \in 1..MaxN /\ h \in HashFns(n)
    /\ gk = [i \in 1..n |-> NoKey] /\ dk = [i \in 1..n |-> NoKey]
    /\ table = [s \in 0..(n - 1) |-> 0]               \* memset (mem, 0, len)
    /\ packed = {} /\ phase = "pack" /\ obs = NoObs /\ sz = NoSize /\ lo = 0 /\ hi = 0

InitKeys ==
    /\ mode = "keys" /\ n \in 1..MaxKeyN
    /\ h = [x \in Universe(n) |-> IF \E i \in 1..n : Pool[i] = x THEN (CHOOSE i \in 1..n : Pool[i] = x) - 1 ELSE HMax]
    /\ gk \in KeyFns(n) /\ dk \in KeyFns(n)
    /\ table = [s \in 0..(n - 1) |-> s]
    /\ packed = 1..n /\ phase = "probe" /\ obs = NoObs /\ sz = NoSize /\ lo = 0 /\ hi = 0

InitSize ==
    /\ mode = "size" /\ n \in SizeDomain
    /\ h = <<>> /\ gk = <<>> /\ dk = <<>> /\ table = <<>> /\ packed = {}
    /\ phase = "size" /\ obs = NoObs /\ sz = NoSize /\ lo = 0 /\ hi = 0

\* the same arithmetic explored by bisection instead of enumeration: PackedSize is monotone in n
\* (Inv_Monotone, checked over all n in the thorough tier), so the ns that cannot be built form an
\* upper segment of 1..MaxEntries and 16 evaluations locate its lower end
InitBisect ==
    /\ mode = "bisect" /\ n = 0 /\ lo = 0 /\ hi = MaxEntries + 1
    /\ h = <<>> /\ gk = <<>> /\ dk = <<>> /\ table = <<>> /\ packed = {}
    /\ phase = "size" /\ obs = NoObs /\ sz = NoSize

(***************************************************************************)
(* gthash.c:_gi_typelib_hash_builder_pack -- one step per GHashTable item  *)
(***************************************************************************)
PackOne(i) ==
    /\ phase = "pack" /\ i \in (1..n) \ packed
    /\ LET hashv == h[Name(i)] IN
         /\ hashv < n                                  \* g_assert (hashv < num_elts)
         /\ table' = [table EXCEPT ![hashv] = i - 1]   \* add_string (b, str, i) with i counted from 0
    /\ packed' = packed \cup {i}
    /\ phase' = IF packed' = 1..n THEN "probe" ELSE "pack"
    /\ UNCHANGED <<mode, n, h, gk, dk, obs, sz, lo, hi>>

(***************************************************************************)
(* gthash.c:_gi_typelib_hash_search + gitypelib.c:..._by_name              *)
(***************************************************************************)
HashSearch(p) ==
    LET off0 == h[p]                                   \* cmph_search_packed: anything for absent keys
        off  == IF Clamp = "zero" /\ off0 >= n THEN 0 ELSE off0
    IN  IF off < n THEN table[off] ELSE WILD           \* return table[offset]

Lookup(p) ==                                            \* dirindex section present
    LET index == HashSearch(p) IN
    IF index = WILD \/ index + 1 > n THEN WILD
    ELSE IF FinalCompare
         THEN IF Name(index + 1) = p THEN index + 1 ELSE NULL    \* strcmp (name, entry_name) == 0
         ELSE index + 1

RECURSIVE Scan(_, _, _)
\* for (i = from; i <= n; i++) if (key[i] is set and equals k) return i;  return NULL
Scan(key, k, from) == IF from > n THEN NULL
                      ELSE IF key[from] # NoKey /\ key[from] = k THEN from
                      ELSE Scan(key, k, from + 1)

LinearLookup(p) == Scan([i \in 1..n |-> Name(i)], p, 1)        \* dirindex == NULL branch
KeyLookup(key, k) == Scan(key, k, 1)                            \* by_gtype_name / by_error_domain

\* girepository.c:g_irepository_find_by_gtype: first pass only typelibs whose c_prefix matches,
\* second pass all typelibs (one typelib loaded here)
RepoFindByGType(k, prefixMatches) ==
    LET pass1 == IF prefixMatches THEN KeyLookup(gk, k) ELSE NULL
    IN  IF pass1 # NULL THEN pass1 ELSE KeyLookup(gk, k)

Members(key, k) == {i \in 1..n : key[i] # NoKey /\ key[i] = k}
ExpectedSeq(S)  == IF S = {} THEN <<>> ELSE <<CHOOSE i \in S : \A j \in S : i <= j>>

ProbeName(p) ==
    /\ phase = "probe" /\ p \in Universe(n)
    /\ obs' = [id |-> "model", kind |-> "name", n |-> n, isMember |-> p \in Dir(n),
               expected |-> ExpectedSeq({i \in 1..n : Pool[i] = p}),
               fIdx |-> Lookup(p), fLin |-> LinearLookup(p),
               fRepo |-> Lookup(p),                    \* g_irepository_find_by_name delegates to by_name
               repoAsked |-> TRUE, hasIndex |-> TRUE, built |-> TRUE]
    /\ UNCHANGED <<mode, n, h, gk, dk, table, packed, phase, sz, lo, hi>>

ProbeGType(k, prefixMatches) ==
    /\ phase = "probe" /\ mode = "keys" /\ k \in Keys \cup {AbsentKey}
    /\ obs' = [id |-> "model", kind |-> "gtype", n |-> n, isMember |-> Members(gk, k) # {},
               expected |-> ExpectedSeq(Members(gk, k)),
               fIdx |-> KeyLookup(gk, k), fLin |-> KeyLookup(gk, k), fRepo |-> RepoFindByGType(k, prefixMatches),
               repoAsked |-> TRUE, hasIndex |-> TRUE, built |-> TRUE]
    /\ UNCHANGED <<mode, n, h, gk, dk, table, packed, phase, sz, lo, hi>>

ProbeDomain(k) ==
    /\ phase = "probe" /\ mode = "keys" /\ k \in Keys \cup {AbsentKey}
    /\ obs' = [id |-> "model", kind |-> "domain", n |-> n, isMember |-> Members(dk, k) # {},
               expected |-> ExpectedSeq(Members(dk, k)),
               fIdx |-> KeyLookup(dk, k), fLin |-> KeyLookup(dk, k), fRepo |-> KeyLookup(dk, k),
               repoAsked |-> TRUE, hasIndex |-> TRUE, built |-> TRUE]
    /\ UNCHANGED <<mode, n, h, gk, dk, table, packed, phase, sz, lo, hi>>

(***************************************************************************)
(* girmodule.c:add_directory_index_section                                 *)
(***************************************************************************)
BuildObs(m) == [NoObs EXCEPT !.id = "model", !.kind = "build", !.n = m, !.built = Fits(m, SizeBits),
                             !.hasIndex = Fits(m, SizeBits)]

BuildIndex ==
    /\ phase = "size" /\ mode = "size"
    /\ sz' = SizeRecord(n, SizeBits)
    /\ obs' = BuildObs(n)
    /\ phase' = "done"
    /\ UNCHANGED <<mode, n, h, gk, dk, table, packed, lo, hi>>

\* one more namespace size handed to add_directory_index_section: the midpoint of the open interval
BisectStep ==
    /\ phase = "size" /\ mode = "bisect" /\ hi > lo + 1
    /\ LET mid == (lo + hi) \div 2 IN
         /\ n' = mid /\ sz' = SizeRecord(mid, SizeBits) /\ obs' = BuildObs(mid)
         /\ IF Fits(mid, SizeBits) THEN lo' = mid /\ hi' = hi ELSE lo' = lo /\ hi' = mid
    /\ UNCHANGED <<mode, h, gk, dk, table, packed, phase>>

Next == \/ \E i \in 1..MaxN : PackOne(i)
        \/ \E p \in Universe(MaxN) : ProbeName(p)
        \/ \E k \in Keys \cup {AbsentKey}, b \in BOOLEAN : ProbeGType(k, b)
        \/ \E k \in Keys \cup {AbsentKey} : ProbeDomain(k)
        \/ BuildIndex
        \/ BisectStep

SpecLookup == (InitHash \/ InitKeys) /\ [][Next]_vars
SpecSize   == InitSize /\ [][Next]_vars
SpecBisect == InitBisect /\ [][Next]_vars

(***************************************************************************)
(* implementation layer => property layer                                  *)
(***************************************************************************)
Holds(c) == Clause(obs, c)
Inv_IndexBuilt       == Holds("IndexBuilt")
Inv_MemberFound      == Holds("MemberFound")
Inv_RightEntry       == Holds("RightEntry")
Inv_AbsentIsAbsent   == Holds("AbsentIsAbsent")
Inv_LinearAgrees     == Holds("LinearAgrees")
Inv_GTypeNameFound   == Holds("GTypeNameFound")
Inv_ErrorDomainFound == Holds("ErrorDomainFound")
Inv_RepoAgrees       == Holds("RepoAgrees")

\* the design argument in one line: for every h and every probe, indexed = linear = truth, and nothing wild is read
Inv_LookupEquivalence ==
    obs.kind = "name" => /\ obs.fIdx = obs.fLin
                         /\ obs.fIdx # WILD
                         /\ obs.fIdx = (IF obs.isMember THEN obs.expected[1] ELSE NULL)

\* the table is a bijection onto the entry numbers once packed (so the clamp to slot 0 always reads a valid entry)
Inv_TableBijective ==
    (phase = "probe" /\ mode = "hash") => /\ \A s \in 0..(n - 1) : table[s] < n
                                          /\ \A s, t \in 0..(n - 1) : s # t => table[s] # table[t]
                                          /\ \A i \in 1..n : table[h[Name(i)]] = i - 1

\* arithmetic of the section (only meaningful where the section is built)
Layout(s) == /\ s.dirmap % 4 = 0              \* the guint16 table is aligned
             /\ s.dirmap >= 4 + s.mph         \* the MPH does not overlap the table
             /\ s.dirmap + 2 * s.n <= s.required
             /\ s.required % 4 = 0            \* the next section / file end stays 4-aligned
             /\ s.required - s.packed < 4
Inv_SectionLayout == (phase = "done" /\ sz.fits) => Layout(sz)
\* the same n with a 32-bit `required_size` (the one-word change): always built, same layout
Inv_Wide32 == phase = "done" => (Fits(n, 32) /\ Layout(SizeRecord(n, 32)))
Inv_EntryIndexFits == phase = "done" => EntryIndexFits(n)
\* exact failure set of the arithmetic with SizeBits: n fails iff n >= Boundary
Inv_BoundaryExact  == (phase = "done" /\ Boundary # 0) => (sz.fits <=> n < Boundary)

\* bisection ended inside 1..MaxEntries: hi is the smallest entry count whose index cannot be built.
\* Checked as an "invariant" whose counterexample EXHIBITS that n (as-is: expected to be violated).
Inv_NoBoundary == ~(mode = "bisect" /\ hi = lo + 1 /\ hi <= MaxEntries)
\* what makes bisection (and "fails iff n >= Boundary") sound
Inv_Monotone == phase = "done" => (n > 1 => PackedSize(n - 1) <= PackedSize(n))

TypeOK == /\ mode \in {"hash", "keys", "size", "bisect"}
          /\ phase \in {"pack", "probe", "size", "done"}
          /\ obs.kind \in {"none", "build", "name", "gtype", "domain"}
=============================================================================

SPECIFICATION ASpec
CONSTANTS
  RefuseShadowedSource = TRUE
  OwnBlockWins = FALSE
INVARIANT Mutual
INVARIANT Honoured
INVARIANT VfuncInv
CHECK_DEADLOCK FALSE

SPECIFICATION Spec
CONSTANTS
  Procs <- MC_Procs2
  SVer <- MC_SVerSame
  MaxEdits = 1
  MaxIno = 3
  AllowCopy = TRUE
  MaxCrashes = 0
  Coarse = FALSE
  StatByName = FALSE
  StampFirst = FALSE
  KnownCauses = {}
CHECK_DEADLOCK FALSE
INVARIANT NoWitnessCopyWindow

---------------------------- MODULE LayoutCases ----------------------------
(* Root module of every Layout model-checking run: LayoutMC (state space, invariants) plus the
   export of exactly the case space TLC walks, for replay against the real code (S->C).
   A layout case is a sequence of indices into `members` (the Mode's member alphabet, every
   member a full [k, n, lo, hi, sub] record); each sequence stands for one struct AND one union.
   Enumeration cases are all pairs lo <= hi of valid ranks; `bnd` gives the boundary values the
   ranks refer to (rank 2i = Bnd[i], rank 2i+1 = strictly between Bnd[i] and Bnd[i+1]). *)
EXTENDS LayoutMC, Json, IOUtils, SequencesExt

Tab == SetToSeq(Members)
IxSeqs == UNION {[1..k -> 1..Len(Tab)] : k \in 0..MaxLen}
EnumPairs == IF Mode = "misc" THEN {<<l, h>> \in ValidRanks \X ValidRanks : l <= h} ELSE {}
ScalarTrip == IF Mode = "misc" THEN SetToSeq(AllScalars) ELSE <<>>

ASSUME IOEnv.CASES_FILE = "" \/
       JsonSerialize(IOEnv.CASES_FILE, [mode |-> Mode, members |-> Tab, seqs |-> SetToSeq(IxSeqs), maxlen |-> MaxLen,
                                        enums |-> SetToSeq(EnumPairs), scalars |-> ScalarTrip, bnd |-> Bnd])
=============================================================================

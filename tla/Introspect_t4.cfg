SPECIFICATION Spec
CONSTANTS
  N = 3
  Kinds <- K_all
  TKs <- TK_small
  AllowList = TRUE
  AllowNSkip = TRUE
  AllowVSkip = TRUE
  AllowReturn = TRUE
  AllowMoved = TRUE
  MaxFunctions = 1
  Stepwise = FALSE
  COrder = FALSE
  Orders <- Id3
  KnownShapes <- Known_any
  ExportViol = 1
  ExportOk = 499
INVARIANT NoUnknownViolation
CHECK_DEADLOCK FALSE

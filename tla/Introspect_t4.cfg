SPECIFICATION Spec
CONSTANTS
  N = 2
  Kinds <- K_all
  TKs <- TK_quick
  AllowList = TRUE
  AllowNSkip = TRUE
  AllowVSkip = TRUE
  AllowReturn = TRUE
  AllowMoved = TRUE
  AllowHost = FALSE
  AllowRename = TRUE
  MaxFunctions = 1
  Stepwise = FALSE
  AliasRecheck = TRUE
  CallableWalks = 2
  RenameScopeCheck = TRUE
  COrder = FALSE
  Orders <- Id2
  KnownShapes <- Known_any
  ExportViol = 1
  ExportOk = 499
INVARIANT NoUnknownViolation
CHECK_DEADLOCK FALSE

SPECIFICATION CasesSpec
INVARIANT CtlInv
CHECK_DEADLOCK FALSE

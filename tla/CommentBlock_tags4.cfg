SPECIFICATION Spec
CONSTANTS
  Forms <- OneForm
  Indents <- Ind02
  MaxIdAnns = 0
  MaxParams = 1
  MaxParamAnns = 0
  MaxPartLines = 1
  MaxDescLines = 1
  MaxParas = 1
  MaxTags = 2
  TagNames <- TagsAll
  MaxTagAnns = 1
  MaxCont = 1
  MaxNoise = 0
  AtReturns = TRUE
  FaultKinds <- NoFaults
  MaxFaults = 0
  KeepLines = FALSE
  Known <- KnownC10
  StartLine = 10
CHECK_DEADLOCK FALSE
INVARIANT TypeOK
INVARIANT RoundTrip
INVARIANT WriterFix

\* witness: with the earlier behaviour "closure-target-not-gpointer" switched back on, TLC exhibits a case that breaks the property
SPECIFICATION MCSpec
CONSTANTS
  Dev = {"closure-target-not-gpointer"}
  Which = "witness"
  Cases <- NoCases
INVARIANT NoDeviation
CHECK_DEADLOCK FALSE

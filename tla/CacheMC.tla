---- MODULE CacheMC ----
EXTENDS Cache
MC_Procs2 == {1, 2}
MC_Procs3 == {1, 2, 3}
MC_SVerSame == [p \in {1, 2, 3} |-> 1]
MC_SVerMixed == [p \in {1, 2, 3} |-> IF p = 3 THEN 2 ELSE 1]
MC_SVerMixed2 == [p \in {1, 2, 3} |-> IF p = 2 THEN 2 ELSE 1]
\* one old-version process, two new-version processes (a second new-version process can trust the
\* stamp the first one wrote)
MC_SVerMixed3 == [p \in {1, 2, 3} |-> IF p = 1 THEN 1 ELSE 2]
====

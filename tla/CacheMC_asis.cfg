SPECIFICATION Spec
CONSTANTS
  Procs <- MC_Procs2
  SVer <- MC_SVerSame
  MaxEdits = 1
  MaxIno = 3
  AllowCopy = FALSE
  AllowCrash = FALSE
  Coarse = FALSE
  StatByName = TRUE
  StampFirst = FALSE
  FreshAtParse = FALSE
INVARIANT TypeOK
INVARIANT NoStale
INVARIANT NoTorn
INVARIANT NoCrossVersion
CHECK_DEADLOCK FALSE

INIT Init
NEXT Next
CONSTANTS
  Dev = {"attrs_to_container"}
  Kinds = {"attrs"}
  Strict = FALSE
  Full = FALSE
  MaxCnt = 1
INVARIANT BuildEncodes
CHECK_DEADLOCK FALSE

---------------------------- MODULE ShlibsLaTrace ----------------------------
(***************************************************************************)
(* C19, libtool archives, on observations of the REAL code (batch idiom).  *)
(*   [id, t |-> "la", name, lines,      -- archive file name, its lines    *)
(*    kind, out, msgc]                  -- resolve_shlibs(None, None, [f]) *)
(* The property-level reading of an archive (first line dlname='...') is   *)
(* Shlibs!LaVal; DRIFT = differs from the transcribed regex search LaRun.  *)
(***************************************************************************)
EXTENDS Shlibs, Json, IOUtils

Obs == JsonDeserialize(IOEnv.TRACE_FILE)
N == Len(Obs)
ArchOf(r) == [t |-> "la", name |-> r.name, lines |-> r.lines]
OutOf(r) == [kind |-> r.kind, out |-> r.out, msgc |-> r.msgc]

J == TLCEval([i \in 1..N |-> LET a == ArchOf(Obs[i])
                         cl == LaClauses(a, OutOf(Obs[i]))
                         sp == LaSpeaks(a)
                         e == LaRun(a)
                     IN [failed |-> {n \in LaClauseNames : ~cl[n]},
                         speaks |-> {n \in LaClauseNames : sp[n]},
                         wf |-> LaWF(a), dom |-> LaIn(a), kindOf |-> LaKind(a),
                         drift |-> ~(e.kind = Obs[i].kind /\ e.out = Obs[i].out)]])

Rejected == UNION {{<<Obs[i].id, n, J[i].kindOf>> : n \in J[i].failed} : i \in 1..N}
            \cup {<<Obs[i].id, "DRIFT", "differs from Shlibs!LaRun">> : i \in {k \in 1..N : J[k].drift /\ J[k].failed = {}}}
            \cup {<<Obs[i].id, "OUTSIDE", "dlname given more than once">> : i \in {k \in 1..N : J[k].wf /\ ~J[k].dom}}
            \cup {<<Obs[i].id, "MALFORMED", "renderer produced an ill-formed archive">> : i \in {k \in 1..N : ~J[k].wf}}
Exercised == [n \in LaClauseNames |-> Cardinality({i \in 1..N : n \in J[i].speaks})]
             @@ [LaInDomain |-> Cardinality({i \in 1..N : J[i].dom})]

ASSUME JsonSerialize(IOEnv.VERDICT_FILE, [n |-> N, rejected |-> SetToSeq(Rejected), exercised |-> Exercised])

TInit == case = [t |-> "none"] /\ st = Idle /\ outcome = None
TNext == UNCHANGED vars
=============================================================================

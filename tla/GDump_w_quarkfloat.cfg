INIT Init
NEXT Next
CONSTANTS
  Dev = {"barepointer", "quarkfloat"}
  Family = "quark"
  Size = "q"
INVARIANT ImplSatisfiesPropertyModuloKnown
CHECK_DEADLOCK FALSE

\* witness: with the earlier behaviour "alias-pointer-not-a-pointer" switched back on, TLC exhibits a case that breaks the property
SPECIFICATION MCSpec
CONSTANTS
  Dev = {"alias-pointer-not-a-pointer"}
  Which = "witness"
  Cases <- NoCases
INVARIANT NoDeviation
CHECK_DEADLOCK FALSE

SPECIFICATION Spec
CONSTANTS
  Dev = {"CtorNameSubstr"}
  Mode = "pairq"
  AnnSet = {"constructor"}
INVARIANT I_Name
CHECK_DEADLOCK FALSE

SPECIFICATION Spec
CONSTANTS
  Code = {"skipped_value"}
  Families = {"value"}
INVARIANTS Inv_Doc Inv_Elem Inv_Balanced
CHECK_DEADLOCK FALSE

----------------------------- MODULE NamingTrace -----------------------------
(* C04 property layer evaluated by TLC on observations of the REAL scanner (harness/props/c04.py).

   KIND = "scan": each record  [id, c (the case, see Naming.tla), els (sequence of the elements of the
     emitted GIR: [tag, owner, ownerCT, ownerSP, name, cid, movedTo, getType, symPrefix, parent]), fatal]
     is judged by the clauses of Naming!Bad.  Two pseudo clauses are reported and turned into notes by the
     harness, never into verdicts: EXTRA (beyond the statement: an underscore-prefixed TYPE is kept under
     the name _X) and DRIFT (the implementation-shaped layer does not predict exactly the observed elements).
   KIND = "uscore": each record [id, s, np, p] = a string over character classes and the class strings
     giscanner.utils.to_underscores_noprefix / to_underscores returned for a concretisation of it.      *)
EXTENDS Naming, Json, IOUtils, SequencesExt

Obs == JsonDeserialize(IOEnv.TRACE_FILE)
Kind == IOEnv.KIND

\* ---- scan observations
Words(c) == UNION ({ToSet(p) : p \in ToSet(c.cur.idp) \cup ToSet(c.cur.symp) \cup ToSet(c.inc.idp) \cup ToSet(c.inc.symp)}
                   \cup {ToSet(c.decls[i].w) \cup ToSet(c.decls[i].gt) : i \in 1..Len(c.decls)})
CharRelated(c) == \E a, b \in Words(c) : <<a, b>> \in CharRel
\* compatibility copies are named by a character offset the word model does not render
Norm(e) == IF e.tag = "method" /\ e.movedTo # "-" THEN [e EXCEPT !.name = "?cut"] ELSE e
Predicted(r) == LET o == Impl(r.c) IN o.fatal = r.fatal /\ (r.fatal \/ o.els = {Norm(r.els[j]) : j \in 1..Len(r.els)})

\* one summary per observation, computed once
N == Len(Obs)
Sum == Tup([i \in 1..N |->
          LET x == Prep(Obs[i])  v == Violated(x) IN
          [rej   |-> {<<cl, DetailOf(x, cl)>> : cl \in v}
                     \cup (IF UnderscoreTypeKept(x) THEN {<<"EXTRA", "underscore-type-kept">>} ELSE {})
                     \cup (IF ~CharRelated(Obs[i].c) /\ ~Predicted(Obs[i]) THEN {<<"DRIFT", "-">>} ELSE {}),
           speak |-> SpeakSet(x)]], N)
ScanRejected == UNION { {<<Obs[i].id, y[1], y[2]>> : y \in Sum[i].rej} : i \in 1..N }
ScanExercised == [cl \in ClauseNames |-> Cardinality({i \in 1..N : cl \in Sum[i].speak})]

\* ---- underscore conversion observations
UNames == {"Noprefix", "Prefix", "WordSplit"}
UHolds(r, cl) == CASE cl = "Noprefix" -> r.np = ToUscoreNoprefix(r.s)
                   [] cl = "Prefix" -> r.p = ToUscore(r.s)
                   [] OTHER -> WordShaped(r.s) => (r.np = AtCapitals(r.s, 1) /\ r.p = AtCapitals(r.s, 1))
URejected == { <<Obs[p[1]].id, p[2], "-">> : p \in { q \in (1..Len(Obs)) \X UNames : ~UHolds(Obs[q[1]], q[2]) } }
UExercised == [cl \in UNames |-> Cardinality({i \in 1..Len(Obs) : cl # "WordSplit" \/ WordShaped(Obs[i].s)})]

ASSUME IF Kind = "uscore"
       THEN JsonSerialize(IOEnv.VERDICT_FILE, [n |-> Len(Obs), rejected |-> SetToSeq(URejected), exercised |-> UExercised])
       ELSE JsonSerialize(IOEnv.VERDICT_FILE, [n |-> Len(Obs), rejected |-> SetToSeq(ScanRejected), exercised |-> ScanExercised])
VARIABLE done
Init == done = FALSE
Next == ~done /\ done' = TRUE
=============================================================================

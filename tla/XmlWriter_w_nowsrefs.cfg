SPECIFICATION EscSpec3
CONSTANTS
  ABS <- MC_Abs
  HIST <- MC_Hist
  EscVariant = "no_ws_refs"
  AllowMisuse = FALSE
  OpSet <- CtlOps
  MaxOps = 0
CHECK_DEADLOCK FALSE
INVARIANT InvAttrRoundTrip

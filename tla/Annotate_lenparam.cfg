SPECIFICATION Spec
CONSTANTS
  Which = "lenparam"
  Cases <- MC_Cases
INVARIANT ImplSatisfiesProperty
CHECK_DEADLOCK FALSE

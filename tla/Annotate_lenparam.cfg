SPECIFICATION MCSpec
CONSTANTS
  Dev = {}
  Which = "lenparam"
  Cases <- NoCases
INVARIANT ImplSatisfiesProperty
CHECK_DEADLOCK FALSE

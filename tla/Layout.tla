------------------------------- MODULE Layout -------------------------------
(***************************************************************************)
(* C08: record and union layout stored in typelibs equals the platform C   *)
(* ABI (x86-64 System V, the only platform of this sandbox).               *)
(*                                                                         *)
(* Anchors: girepository/giroffsets.c (compute_struct_field_offsets,       *)
(* compute_union_field_offsets, get_type_size_alignment,                   *)
(* get_interface_size_alignment, compute_enum_storage_type,                *)
(* get_enum_size_alignment, _g_ir_node_compute_offsets), girffi.c          *)
(* (gi_type_tag_get_ffi_type_internal), girparser.c (parse_basic,          *)
(* start_type, start_struct/start_union), girnode.c (StructBlob/UnionBlob/ *)
(* FieldBlob/EnumBlob writers).                                            *)
(*                                                                         *)
(* A MEMBER is a record [k, n, lo, hi, sub]:                               *)
(*   k    kind (a scalar kind of ScalarKinds, or "enum", "array", "struct",*)
(*        "union", "anonstruct", "anonunion", "callback", "cbref",         *)
(*        "unknown" (a member the GIR types as void: no C declaration),    *)
(*        "hid3"/"hid8"/"hid12"/"hid16" (a by-value member whose type the  *)
(*        GIR does not describe: <field introspectable="0"><type c:type=   *)
(*        ".."/></field>, what g-ir-scanner writes for `struct timeval tv` *)
(*        or `long double`; the C declaration exists and has size/         *)
(*        alignment 3/1, 8/8, 12/4, 16/16), "ref")                         *)
(*   n    element count of a fixed-size array / index into the environment *)
(*        of named declarations for "ref"                                  *)
(*   lo,hi  RANKS of the smallest and largest enumerator of an "enum"      *)
(*   sub  element type of an array (1 member) / members of an embedded     *)
(*        struct or union                                                  *)
(* Enumerator values do not fit TLC's 32-bit integers; all the code and    *)
(* the ABI ever do with them is compare them with the boundaries Bnd, so a *)
(* value v is carried as its rank: 2i if v = Bnd[i], 2i+1 if               *)
(* Bnd[i] < v < Bnd[i+1].                                                  *)
(*                                                                         *)
(* Two layers:                                                             *)
(*   Abi*   property layer: the C ABI rules (what gcc does)                *)
(*   Impl*  implementation-shaped layer: the arithmetic, visiting order,   *)
(*          recursion marks and blob encoding of giroffsets.c / girnode.c  *)
(***************************************************************************)
EXTENDS Integers, Sequences, FiniteSets, TLC
\* What-if switches of the implementation-shaped layer (the property layer does not depend on them):
\*   EnumCap32           TRUE = compute_enum_storage_type as it was before fix 7607f22: never wider than 4 bytes
\*   UnionFieldCallback  TRUE = girparser.c start_function accepts <callback> inside a <field> of a <union>
\*                       (fix 927c0d9); FALSE = the code before it: the compiler aborts on such a union
CONSTANTS EnumCap32, UnionFieldCallback

Max(a, b) == IF a >= b THEN a ELSE b
Min(a, b) == IF a <= b THEN a ELSE b

Mk(k, n, lo, hi, sub) == [k |-> k, n |-> n, lo |-> lo, hi |-> hi, sub |-> sub]
Sc(k)      == Mk(k, 0, 0, 0, <<>>)
En(lo, hi) == Mk("enum", 0, lo, hi, <<>>)
Arr(n, e)  == Mk("array", n, 0, 0, <<e>>)
St(ms)     == Mk("struct", 0, 0, 0, ms)
Un(ms)     == Mk("union", 0, 0, 0, ms)
ASt(ms)    == Mk("anonstruct", 0, 0, 0, ms)
AUn(ms)    == Mk("anonunion", 0, 0, 0, ms)
Ref(i)     == Mk("ref", i, 0, 0, <<>>)

---------------------------------------------------------------------------
\* enumerator value ranks
Bnd == << "-9223372036854775808", "-2147483649", "-2147483648", "-32769", "-32768", "-129", "-128",
          "-1", "0", "1", "127", "128", "255", "256", "32767", "32768", "65535", "65536",
          "2147483647", "2147483648", "4294967295", "4294967296", "9223372036854775807" >>
RankOf == [s \in {Bnd[i] : i \in 1..Len(Bnd)} |-> 2 * (CHOOSE i \in 1..Len(Bnd) : Bnd[i] = s)]
R(s) == RankOf[s]
Ranks == 2..(2 * Len(Bnd))
EvenRanks == {2 * i : i \in 1..Len(Bnd)}
\* odd ranks that denote a non-empty open interval (Bnd[i], Bnd[i+1])
Adjacent == {R("-2147483649"), R("-32769"), R("-129"), R("-1"), R("0"), R("127"), R("255"), R("32767"),
             R("65535"), R("2147483647"), R("4294967295")}     \* Bnd[i] + 1 = Bnd[i+1]
ValidRanks == EvenRanks \cup {r + 1 : r \in (EvenRanks \ (Adjacent \cup {2 * Len(Bnd)}))}

---------------------------------------------------------------------------
(***************************************************************************)
(* PROPERTY LAYER: the x86-64 SysV C ABI as gcc implements it.             *)
(***************************************************************************)
\* C type of each scalar kind: <<size, alignment>> (natural alignment for every scalar)
C1 == {"int8", "uint8", "char", "uchar"}
C2 == {"int16", "uint16", "short", "ushort"}
C4 == {"int32", "uint32", "int", "uint", "float", "boolean", "unichar",      \* gboolean = int, gunichar = guint32
       "gid_t", "pid_t", "socklen_t", "uid_t"}
C8 == {"int64", "uint64", "long", "ulong", "ssize", "size", "intptr", "uintptr", "double", "gtype",   \* GType = gsize
       "off_t", "time_t", "dev_t",
       "pointer", "utf8", "recptr", "arrptr", "glist"}                      \* every object pointer
ScalarKinds == C1 \cup C2 \cup C4 \cup C8
CSize(k) == IF k \in C1 THEN 1 ELSE IF k \in C2 THEN 2 ELSE IF k \in C4 THEN 4 ELSE 8

\* gcc: an enumeration is unsigned int if no enumerator is negative and all fit, int if all fit,
\* otherwise the 64-bit type of the matching signedness (GNU extension).
EnumAbi(lo, hi) ==
    IF lo < R("0")
    THEN [size |-> IF lo >= R("-2147483648") /\ hi <= R("2147483647") THEN 4 ELSE 8, signed |-> TRUE]
    ELSE [size |-> IF hi <= R("4294967295") THEN 4 ELSE 8, signed |-> FALSE]

RoundUp(n, a) == ((n + a - 1) \div a) * a

AUnk == [known |-> FALSE, size |-> 0, align |-> 0, offs |-> <<>>]
\* members whose C type exists but is not described by the GIR: <<size, alignment>> of the C type
HidKinds == {"hid3", "hid8", "hid12", "hid16"}
HidSA(k) == CASE k = "hid3" -> <<3, 1>> [] k = "hid8" -> <<8, 8>> [] k = "hid12" -> <<12, 4>> [] OTHER -> <<16, 16>>
AnonKinds == {"anonstruct", "anonunion"}
IsStructish(k) == k \in {"struct", "anonstruct"}
IsUnionish(k)  == k \in {"union", "anonunion"}

RECURSIVE AbiSAx(_, _), AbiStructFold(_, _, _, _, _, _), AbiUnionFold(_, _, _, _, _)
\* size and alignment of one member type.  see = TRUE: with the C declarations of the hidden kinds
\* in view (what the C compiler knows); see = FALSE: from the GIR alone (what the typelib compiler
\* can know) -- a hidden member then has unknown size.
AbiSAx(m, see) ==
    CASE m.k \in ScalarKinds -> [known |-> TRUE, size |-> CSize(m.k), align |-> CSize(m.k)]
      [] m.k = "enum" -> LET e == EnumAbi(m.lo, m.hi) IN [known |-> TRUE, size |-> e.size, align |-> e.size]
      [] m.k \in {"callback", "cbref"} -> [known |-> TRUE, size |-> 8, align |-> 8]       \* function pointer
      [] m.k = "array" -> LET e == AbiSAx(m.sub[1], see) IN
                          IF e.known THEN [known |-> TRUE, size |-> m.n * e.size, align |-> e.align]
                          ELSE [known |-> FALSE, size |-> 0, align |-> 0]
      [] IsStructish(m.k) -> LET L == AbiStructFold(m.sub, 1, 0, 1, <<>>, see) IN [known |-> L.known, size |-> L.size, align |-> L.align]
      [] IsUnionish(m.k) -> LET L == AbiUnionFold(m.sub, 1, 0, 1, see) IN [known |-> L.known, size |-> L.size, align |-> L.align]
      [] m.k \in HidKinds /\ see -> [known |-> TRUE, size |-> HidSA(m.k)[1], align |-> HidSA(m.k)[2]]
      [] OTHER -> [known |-> FALSE, size |-> 0, align |-> 0]                              \* "unknown", hidden unseen
AbiSA(m) == AbiSAx(m, FALSE)
\* struct: each member at the next multiple of its alignment; alignment = max; tail padding
AbiStructFold(ms, i, off, al, offs, see) ==
    IF i > Len(ms) THEN [known |-> TRUE, size |-> RoundUp(off, al), align |-> al, offs |-> offs]
    ELSE LET sa == AbiSAx(ms[i], see) IN
         IF ~sa.known THEN AUnk
         ELSE LET o == RoundUp(off, sa.align) IN AbiStructFold(ms, i + 1, o + sa.size, Max(al, sa.align), Append(offs, o), see)
\* union: every member at 0; size = largest member padded to the largest alignment
AbiUnionFold(ms, i, sz, al, see) ==
    IF i > Len(ms) THEN [known |-> TRUE, size |-> RoundUp(sz, al), align |-> al, offs |-> [j \in 1..Len(ms) |-> 0]]
    ELSE LET sa == AbiSAx(ms[i], see) IN
         IF ~sa.known THEN AUnk ELSE AbiUnionFold(ms, i + 1, Max(sz, sa.size), Max(al, sa.align), see)

AbiStruct(ms) == AbiStructFold(ms, 1, 0, 1, <<>>, FALSE)
AbiUnion(ms)  == AbiUnionFold(ms, 1, 0, 1, FALSE)
AbiLayout(kind, ms) == IF kind = "union" THEN AbiUnion(ms) ELSE AbiStruct(ms)
\* the same with the hidden C types in view: the layout the C compiler gives
CLayout(kind, ms) == IF kind = "union" THEN AbiUnionFold(ms, 1, 0, 1, TRUE) ELSE AbiStructFold(ms, 1, 0, 1, <<>>, TRUE)
\* offsets of the members before the first one of unknown size (still well defined)
RECURSIVE KnownPrefix(_, _)
KnownPrefix(ms, i) == IF i > Len(ms) \/ ~AbiSA(ms[i]).known THEN i - 1 ELSE KnownPrefix(ms, i + 1)
AbiPrefixOffs(ms) == AbiStruct(SubSeq(ms, 1, KnownPrefix(ms, 1))).offs

\* classes of members used in `detail`/`sig` of rejected observations
RECURSIVE HasKind(_, _)
HasKind(ms, K) == \E i \in 1..Len(ms) : ms[i].k \in K \/ HasKind(ms[i].sub, K)
HasAnon(ms) == HasKind(ms, AnonKinds)
\* a hidden member that is not pointer-shaped (the implementation sizes every such member as a pointer)
HasHidden(ms) == HasKind(ms, HidKinds \ {"hid8"})
HasAnyHidden(ms) == HasKind(ms, HidKinds)
\* an inline callback member (<field><callback/></field>) directly inside a named union (the declaration
\* itself or an embedded one; an anonymous union is dropped by the parser together with its fields)
RECURSIVE HasUnionCallbackIn(_, _)
HasUnionCallbackIn(isUnion, ms) ==
    \E i \in 1..Len(ms) :
        \/ (isUnion /\ ms[i].k = "callback")
        \/ (ms[i].k # "array" /\ HasUnionCallbackIn(ms[i].k = "union", ms[i].sub))
        \/ (ms[i].k = "array" /\ HasUnionCallbackIn(FALSE, ms[i].sub))
HasUnionCallback(kind, ms) == HasUnionCallbackIn(kind = "union", ms)
\* an anonymous struct directly inside a struct, or an anonymous union directly inside a union
RECURSIVE HasSameKindAnonIn(_, _)
HasSameKindAnonIn(isUnion, ms) ==
    \E i \in 1..Len(ms) :
        \/ (isUnion /\ ms[i].k = "anonunion")
        \/ (~isUnion /\ ms[i].k = "anonstruct")
        \/ (ms[i].k # "array" /\ HasSameKindAnonIn(IsUnionish(ms[i].k), ms[i].sub))
        \/ (ms[i].k = "array" /\ HasSameKindAnonIn(FALSE, ms[i].sub))
HasSameKindAnon(kind, ms) == HasSameKindAnonIn(kind = "union", ms)
\* value ranges for which gcc needs 64 bits of storage
EnumWide(lo, hi) == EnumAbi(lo, hi).size = 8
RECURSIVE HasWideEnum(_)
HasWideEnum(ms) == \E i \in 1..Len(ms) : (ms[i].k = "enum" /\ EnumWide(ms[i].lo, ms[i].hi)) \/ HasWideEnum(ms[i].sub)
EnumRangeClass(lo, hi) ==
    IF lo < R("-2147483648") THEN "min-below-int32"
    ELSE IF hi > R("4294967295") THEN "max-above-uint32"
    ELSE IF lo < R("0") /\ hi > R("2147483647") THEN "negative-min-and-max-above-int32"
    ELSE "fits-32-bits"

---------------------------------------------------------------------------
(***************************************************************************)
(* IMPLEMENTATION-SHAPED LAYER                                             *)
(***************************************************************************)
\* girparser.c parse_basic(): basic_types[] plus integer_aliases[] resolved through
\* sizeof()/signedness of the platform type to a fixed-width tag.
ParserTag(k) ==
    CASE k \in {"int8", "char"} -> "INT8"   [] k \in {"uint8", "uchar"} -> "UINT8"
      [] k \in {"int16", "short"} -> "INT16" [] k \in {"uint16", "ushort"} -> "UINT16"
      [] k \in {"int32", "int", "pid_t"} -> "INT32"
      [] k \in {"uint32", "uint", "gid_t", "socklen_t", "uid_t"} -> "UINT32"
      [] k \in {"int64", "long", "ssize", "intptr", "off_t", "time_t"} -> "INT64"
      [] k \in {"uint64", "ulong", "size", "uintptr", "dev_t"} -> "UINT64"
      [] k = "float" -> "FLOAT" [] k = "double" -> "DOUBLE" [] k = "boolean" -> "BOOLEAN"
      [] k = "unichar" -> "UNICHAR" [] k = "gtype" -> "GTYPE"
      [] OTHER -> "VOID"
\* start_type(): is_pointer from the basic-type table (gpointer, utf8), a trailing '*' of c:type,
\* GLib.List; <array> without fixed-size stays a pointer.
IsPointerKind(k) == k \in {"pointer", "utf8", "recptr", "arrptr", "glist"}
\* girffi.c gi_type_tag_get_ffi_type_internal() -> libffi's x86-64 type table (size = alignment)
FfiSize(tag) ==
    CASE tag \in {"INT8", "UINT8"} -> 1 [] tag \in {"INT16", "UINT16"} -> 2
      [] tag \in {"INT32", "UINT32", "UNICHAR", "FLOAT"} -> 4
      [] tag = "BOOLEAN" -> 4                      \* ffi_type_uint
      [] tag \in {"INT64", "UINT64", "DOUBLE"} -> 8
      [] tag = "GTYPE" -> 8                        \* GLIB_SIZEOF_SIZE_T == 8
      [] tag = "POINTER" -> 8
      [] OTHER -> 0                                \* ffi_type_void

\* compute_enum_storage_type(): min_value/max_value start at 0; thresholds as written; the widths
\* sizeof(Enum1..Enum9) and signedness (gint64)(EnumN)(-1) < 0 are what gcc gives the nine probe
\* enumerations of giroffsets.c on this platform: all 4 bytes, Enum1..6 unsigned, Enum7..9 signed.
\* Probes 10/11 are not enumerations of the C file: the explicit gint64 / guint64 branches (fix
\* 7607f22) for value ranges that fit neither int nor unsigned int.
ProbeWidth == [i \in 1..11 |-> IF i <= 9 THEN 4 ELSE 8]
ProbeSigned == [i \in 1..11 |-> i \in {7, 8, 9, 10}]
EnumProbe(lo, hi) ==
    LET mn == Min(lo, R("0"))
        mx == Max(hi, R("0")) IN
    IF mn < R("0")
    THEN IF mn > R("-128") /\ mx <= R("127") THEN 7
         ELSE IF mn >= R("-32768") /\ mx <= R("32767") THEN 8
         ELSE IF EnumCap32 \/ (mn >= R("-2147483648") /\ mx <= R("2147483647")) THEN 9 ELSE 10
    ELSE IF mx <= R("127") THEN 1
         ELSE IF mx <= R("255") THEN 2
         ELSE IF mx <= R("32767") THEN 3
         ELSE IF mx <= R("65535") THEN 4
         ELSE IF mx <= R("2147483647") THEN 5
         ELSE IF EnumCap32 \/ mx <= R("4294967295") THEN 6 ELSE 11
EnumImplTag(lo, hi) ==
    LET p == EnumProbe(lo, hi)
        w == ProbeWidth[p]
        s == IF Min(lo, R("0")) < R("0") THEN TRUE ELSE ProbeSigned[p] IN
    CASE w = 1 -> IF s THEN "INT8" ELSE "UINT8"
      [] w = 2 -> IF s THEN "INT16" ELSE "UINT16"
      [] w = 4 -> IF s THEN "INT32" ELSE "UINT32"
      [] OTHER -> IF s THEN "INT64" ELSE "UINT64"
\* numeric GITypeTag values as stored in EnumBlob.storage_type
TagNum == [t \in {"INT8", "UINT8", "INT16", "UINT16", "INT32", "UINT32", "INT64", "UINT64"} |->
              CASE t = "INT8" -> 2 [] t = "UINT8" -> 3 [] t = "INT16" -> 4 [] t = "UINT16" -> 5
                [] t = "INT32" -> 6 [] t = "UINT32" -> 7 [] t = "INT64" -> 8 [] t = "UINT64" -> 9]
StorageSize(n)   == CASE n \in {2, 3} -> 1 [] n \in {4, 5} -> 2 [] n \in {6, 7} -> 4 [] n \in {8, 9} -> 8 [] OTHER -> 0
StorageSigned(n) == n \in {2, 4, 6, 8}

\* GI_ALIGN(n, align) = ((n) + (align) - 1) & ~((align) - 1): for a power of two this is rounding up
GIAlign(n, a) == (n + a - 1) - ((n + a - 1) % a)

\* Results: st = "ok" | "unknown" (a member could not be sized: return FALSE, size = alignment = -1,
\* reached only through a g_warning) | "fatal" (_g_ir_module_fatal: unresolved reference, the
\* compiler exits).  env = sequence of named declarations [kind, ms] that "ref" members point
\* into; vis = the declarations whose computation is in progress (alignment == -2).
\* No memoisation is modelled: a result computed while `vis` is non-empty differs from a fresh one
\* only if the node reaches a node in `vis`, i.e. lies on a cycle, and then both are "unknown".
IOk(s, a)  == [st |-> "ok", size |-> s, align |-> a]
IFail      == [st |-> "unknown", size |-> -1, align |-> -1]
IFatal     == [st |-> "fatal", size |-> -1, align |-> -1]
\* the parser drops anonymous <record>/<union> children of a <record>/<union> (start_struct/
\* start_union push the node, state_switch_end_struct_or_union pops it; it is never appended to
\* the parent's members), so they take part neither in the layout nor in the field list
ParsedMembers(ms) == SelectSeq(ms, LAMBDA m : m.k \notin AnonKinds)
\* offsets of the parsed members put back at their positions in ms; an anonymous member has no
\* FieldBlob of its own: -2 ("absent")
RECURSIVE ExpandOffs(_, _, _, _)
ExpandOffs(ms, offs, i, j) ==
    IF i > Len(ms) THEN <<>>
    ELSE IF ms[i].k \in AnonKinds THEN <<-2>> \o ExpandOffs(ms, offs, i + 1, j)
    ELSE <<(IF j <= Len(offs) THEN offs[j] ELSE -2)>> \o ExpandOffs(ms, offs, i + 1, j + 1)

RECURSIVE ArrayOfHidden(_)
ArrayOfHidden(m) == m.k = "array" /\ (m.sub[1].k \in HidKinds \/ ArrayOfHidden(m.sub[1]))
RECURSIVE ImplSA(_, _, _), ImplStructFold(_, _, _, _, _, _, _, _), ImplUnionFold(_, _, _, _, _, _, _), ImplNode(_, _, _)
\* get_field_size_alignment / get_type_size_alignment / get_interface_size_alignment
ImplSA(env, vis, m) ==
    CASE m.k = "callback" -> IOk(FfiSize("POINTER"), FfiSize("POINTER"))                \* field->callback
      [] m.k \in HidKinds -> IOk(FfiSize("POINTER"), FfiSize("POINTER"))                 \* start_field: introspectable="0" => parse_type("gpointer")
      [] IsPointerKind(m.k) -> IOk(FfiSize("POINTER"), FfiSize("POINTER"))              \* type->is_pointer
      [] m.k = "array" /\ ArrayOfHidden(m) -> IOk(FfiSize("POINTER"), FfiSize("POINTER")) \* the whole field is introspectable="0"
      [] m.k = "array" /\ ~ArrayOfHidden(m) -> LET e == ImplSA(env, vis, m.sub[1]) IN     \* has_size, not a pointer
                          IF e.st = "ok" THEN IOk(m.n * e.size, e.align) ELSE e
      [] m.k = "enum" -> LET s == FfiSize(EnumImplTag(m.lo, m.hi)) IN IOk(s, s)         \* get_enum_size_alignment
      [] m.k = "cbref" -> IOk(FfiSize("POINTER"), FfiSize("POINTER"))                   \* G_IR_NODE_CALLBACK
      [] m.k = "struct" -> LET L == ImplStructFold(env, vis, ParsedMembers(m.sub), 1, 0, 1, FALSE, <<>>) IN
                           IF L.st = "ok" THEN IOk(L.size, L.align) ELSE [st |-> L.st, size |-> -1, align |-> -1]
      [] m.k = "union" -> LET L == ImplUnionFold(env, vis, ParsedMembers(m.sub), 1, 0, 1, "ok") IN
                          IF L.st = "ok" THEN IOk(L.size, L.align) ELSE [st |-> L.st, size |-> -1, align |-> -1]
      [] m.k = "ref" -> IF m.n \notin 1..Len(env) THEN IFatal                           \* Can't resolve type
                        ELSE IF m.n \in vis THEN IFail                                  \* alignment == -2: "Recursion encountered", not > 0
                        ELSE LET L == ImplNode(env, vis, m.n) IN
                             IF L.st = "ok" THEN IOk(L.size, L.align) ELSE [st |-> L.st, size |-> -1, align |-> -1]
      [] m.k \in ScalarKinds /\ ~IsPointerKind(m.k) -> LET s == FfiSize(ParserTag(m.k)) IN IOk(s, s)
      [] OTHER -> IFail                                                                 \* "has void type"
\* compute_struct_field_offsets: after the first failure no further member is looked at and the
\* failing and all later fields get offset -1; earlier fields keep theirs.
ImplStructFold(env, vis, ms, i, size, al, err, offs) ==
    IF i > Len(ms)
    THEN IF err THEN [st |-> "unknown", size |-> -1, align |-> -1, offs |-> offs]
         ELSE [st |-> "ok", size |-> GIAlign(size, al), align |-> al, offs |-> offs]
    ELSE IF err THEN ImplStructFold(env, vis, ms, i + 1, size, al, TRUE, Append(offs, -1))
    ELSE LET sa == ImplSA(env, vis, ms[i]) IN
         IF sa.st = "fatal" THEN [st |-> "fatal", size |-> -1, align |-> -1, offs |-> <<>>]
         ELSE IF sa.st = "unknown" THEN ImplStructFold(env, vis, ms, i + 1, size, al, TRUE, Append(offs, -1))
         ELSE LET o == GIAlign(size, sa.align) IN
              ImplStructFold(env, vis, ms, i + 1, o + sa.size, Max(al, sa.align), FALSE, Append(offs, o))
\* compute_union_field_offsets: field->offset is never written (stays 0 from node creation)
ImplUnionFold(env, vis, ms, i, size, al, st) ==
    IF i > Len(ms)
    THEN IF st = "ok" THEN [st |-> "ok", size |-> GIAlign(size, al), align |-> al, offs |-> [j \in 1..Len(ms) |-> 0]]
         ELSE [st |-> st, size |-> -1, align |-> -1, offs |-> [j \in 1..Len(ms) |-> 0]]
    ELSE IF st # "ok" THEN ImplUnionFold(env, vis, ms, i + 1, size, al, st)
    ELSE LET sa == ImplSA(env, vis, ms[i]) IN
         IF sa.st = "fatal" THEN [st |-> "fatal", size |-> -1, align |-> -1, offs |-> <<>>]
         ELSE IF sa.st = "unknown" THEN ImplUnionFold(env, vis, ms, i + 1, size, al, "unknown")
         ELSE ImplUnionFold(env, vis, ms, i + 1, Max(size, sa.size), Max(al, sa.align), "ok")
\* _g_ir_node_compute_offsets on a named declaration: mark in progress, compute
ImplNode(env, vis, i) ==
    IF env[i].kind = "union" THEN ImplUnionFold(env, vis \cup {i}, ParsedMembers(env[i].ms), 1, 0, 1, "ok")
    ELSE ImplStructFold(env, vis \cup {i}, ParsedMembers(env[i].ms), 1, 0, 1, FALSE, <<>>)

NoEnv == <<>>
\* girparser.c aborts before anything is computed (no typelib at all) on
\*  - (UnionFieldCallback = FALSE) <callback> inside a <field> of a <union>: start_function accepts it in
\*    STATE_CLASS_FIELD and STATE_STRUCT_FIELD only; the field is left without a type ("Caught NULL node", g_error);
\*  - a nameless <record> child of a <record> / <union> child of a <union>: state_switch() to the
\*    state the parser is already in (g_assert).
ParserAborts(kind, ms) == (~UnionFieldCallback /\ HasUnionCallback(kind, ms)) \/ HasSameKindAnon(kind, ms)
ImplLayout(kind, ms) == IF ParserAborts(kind, ms) THEN [st |-> "fatal", size |-> -1, align |-> -1, offs |-> <<>>]
                        ELSE IF kind = "union" THEN ImplUnionFold(NoEnv, {}, ParsedMembers(ms), 1, 0, 1, "ok")
                        ELSE ImplStructFold(NoEnv, {}, ParsedMembers(ms), 1, 0, 1, FALSE, <<>>)

\* girnode.c: StructBlob/UnionBlob.size is a guint32 (reported here as gint32, so -1 stays -1),
\* .alignment a 6-bit field, FieldBlob.struct_offset a guint16 with 0xFFFF for offset < 0.
\* produced = FALSE: no typelib (fatal error, or a fatal g_warning in g-ir-compiler).
Encode(L, warningsFatal) ==
    IF L.st = "fatal" \/ (L.st = "unknown" /\ warningsFatal)
    THEN [produced |-> FALSE, size |-> 0, align |-> 0, offs |-> <<>>]
    ELSE [produced |-> TRUE, size |-> L.size, align |-> IF L.align < 0 THEN 63 ELSE L.align % 64,
          offs |-> [j \in 1..Len(L.offs) |-> IF L.offs[j] < 0 THEN 65535 ELSE L.offs[j] % 65536]]

---------------------------------------------------------------------------
(***************************************************************************)
(* PROPERTY LAYER, continued: clauses over one observation                 *)
(*   [kind, ms, produced, tl: [size, align, offs], gcc: [ok, size, align,  *)
(*    offs]]                                                               *)
(* tl.size is the stored guint32 read as a signed 32-bit number; offs has  *)
(* one entry per member of ms: the struct_offset of the FieldBlob of that  *)
(* member, -2 when the typelib has no field for it.  gcc.offs[j] is        *)
(* offsetof() of member j (of its first inner field for an anonymous       *)
(* member).  The format has no FieldBlob for an anonymous struct/union     *)
(* member, so the property demands no offset entry at those positions; the *)
(* member still counts for size, alignment and the offsets behind it.      *)
(***************************************************************************)
ValidAlign(a) == a \in {1, 2, 4, 8, 16, 32}
UnknownMarker(tl) == ~ValidAlign(tl.align) /\ tl.size \in {0, -1}
Known(r) == AbiLayout(r.kind, r.ms).known
OffsAgree(ms, a, g) == /\ Len(a) = Len(ms) /\ Len(g) = Len(ms)
                       /\ \A j \in 1..Len(ms) : ms[j].k \notin AnonKinds => a[j] = g[j]
SameLayout(ms, t, g) == t.size = g.size /\ t.align = g.align /\ OffsAgree(ms, t.offs, g.offs)

\* the property, literally: what the typelib stores is what the C compiler gives the declaration
TypelibEqualsGcc(r) == (Known(r) /\ r.produced /\ r.gcc.ok) => SameLayout(r.ms, r.tl, r.gcc)
\* a declaration whose members all have known sizes is compiled at all
Compiled(r) == Known(r) => r.produced
\* unknown member => unknown layout, never a wrong one.  Recorded as unknown: the size/alignment
\* marker; the members from the first unsizable one on have no defined offset (0xFFFF); earlier
\* ones may be marked unknown or carry their ABI offset.  Refusing to produce a typelib records
\* nothing wrong: allowed.  A concrete layout that is the C compiler's is not a wrong one: allowed.
RecordedUnknown(r) ==
    /\ UnknownMarker(r.tl)
    /\ Len(r.tl.offs) = Len(r.ms)
    /\ IF r.kind = "union" THEN \A j \in 1..Len(r.tl.offs) : r.tl.offs[j] \in {0, 65535} \/ r.ms[j].k \in AnonKinds
       ELSE LET pre == AbiPrefixOffs(r.ms) IN
            \A j \in 1..Len(r.tl.offs) : \/ r.ms[j].k \in AnonKinds
                                           \/ IF j <= Len(pre) THEN r.tl.offs[j] \in {pre[j], 65535} ELSE r.tl.offs[j] = 65535
UnknownRecordedAsUnknown(r) == (~Known(r) /\ r.produced) =>
    \/ RecordedUnknown(r)
    \/ r.gcc.ok /\ SameLayout(r.ms, r.tl, r.gcc)
\* calibration of the ABI transcription itself (a failure is a machinery failure, never a violation)
SpecEqualsGcc(r) == LET L == CLayout(r.kind, r.ms) IN
                    /\ r.gcc.ok = L.known
                    /\ r.gcc.ok => (L.size = r.gcc.size /\ L.align = r.gcc.align /\ L.offs = r.gcc.offs)

\* enumerations: [lo, hi, produced, storage (GITypeTag number), gcc: [size, signed]]
EnumSizeEqualsGcc(r) == r.produced => StorageSize(r.storage) = r.gcc.size
EnumSignEqualsGcc(r) == r.produced => StorageSigned(r.storage) = r.gcc.signed
EnumSpecEqualsGcc(r) == LET e == EnumAbi(r.lo, r.hi) IN e.size = r.gcc.size /\ e.signed = r.gcc.signed

---------------------------------------------------------------------------
\* sanity of the ABI layer itself (checked by TLC over the bounded case space)
IsPow2(a) == a \in {1, 2, 4, 8, 16, 32, 64}
SaneStruct(ms) ==
    LET L == AbiStruct(ms) IN L.known =>
        /\ IsPow2(L.align) /\ L.size % L.align = 0 /\ Len(L.offs) = Len(ms)
        /\ \A i \in 1..Len(ms) : LET sa == AbiSA(ms[i]) IN
              /\ L.offs[i] % sa.align = 0                         \* aligned
              /\ L.align >= sa.align
              /\ L.offs[i] + sa.size <= L.size                    \* inside
              /\ i > 1 => L.offs[i] >= L.offs[i - 1] + AbiSA(ms[i - 1]).size   \* non-decreasing, no overlap
              /\ i > 1 => L.offs[i] - (L.offs[i - 1] + AbiSA(ms[i - 1]).size) < sa.align   \* minimal padding
        /\ (Len(ms) > 0 => L.size - (L.offs[Len(ms)] + AbiSA(ms[Len(ms)]).size) < L.align)
SaneUnion(ms) ==
    LET L == AbiUnion(ms) IN L.known =>
        /\ IsPow2(L.align) /\ L.size % L.align = 0
        /\ \A i \in 1..Len(ms) : LET sa == AbiSA(ms[i]) IN L.size >= sa.size /\ L.align >= sa.align /\ L.offs[i] = 0
        /\ (Len(ms) = 0 \/ \E i \in 1..Len(ms) : L.size - AbiSA(ms[i]).size < L.align)
=============================================================================

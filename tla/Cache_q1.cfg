SPECIFICATION Spec
CONSTANTS
  Procs <- MC_Procs2
  SVer <- MC_SVerSame
  MaxEdits = 2
  MaxIno = 4
  AllowCopy = TRUE
  MaxCrashes = 3
  Coarse = FALSE
  StatByName = FALSE
  StampFirst = FALSE
  KnownCauses = {"parse_edit_store","copy_window"}
CHECK_DEADLOCK FALSE
INVARIANT TypeOK
INVARIANT NoStaleUnexplained
INVARIANT NoTorn
INVARIANT NoCrossVersion
INVARIANT PurgeEffective

SPECIFICATION Spec
CONSTANTS
  Dev = {}
  Mode = "pairq"
  AnnSet = {"method"}
INVARIANT I_NameStrict
CHECK_DEADLOCK FALSE

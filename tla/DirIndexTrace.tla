--------------------------- MODULE DirIndexTrace ---------------------------
(***************************************************************************)
(* C14 on observations of the REAL code (batch idiom, DESIGN A.2): every   *)
(* record is one probe of a lookup function of libgirepository built from  *)
(* the working tree, or one attempt of its g-ir-compiler to build the      *)
(* typelib of an n-entry namespace.  The clauses are DirIndex!Clause -- the *)
(* operators TLC also checks the model against.                            *)
(*                                                                         *)
(* record: [id, kind, n, isMember, expected, fIdx, fLin, fRepo, repoAsked, *)
(*          hasIndex, built, packedReal, dirmapReal]                       *)
(*  kind "build": built = the compiler produced a typelib; hasIndex = it   *)
(*        carries a directory index section; dirmapReal/packedReal = the   *)
(*        section's dirmap_offset and byte length (0 when absent)          *)
(*  kind "hash":  packedReal/dirmapReal reported by the hash builder for n *)
(*        strings (drv_hash) -- compared with the arithmetic model, DRIFT   *)
(*  kind "name"/"gtype"/"domain": a probe, see DirIndex.tla                *)
(* `expected` comes from the generator's knowledge of the GIR (directory   *)
(* order = document order of the top-level elements), not from the code.   *)
(***************************************************************************)
EXTENDS DirIndex, Json, IOUtils, SequencesExt

Obs == JsonDeserialize(IOEnv.TRACE_FILE)
Idx == 1..Len(Obs)

\* the implementation-shaped arithmetic as a predictor: disagreement is DRIFT (a note), never a verdict
DriftNames == {"DRIFT_BuildModel", "DRIFT_SizeModel"}
Drift(r, c) ==
    CASE c = "DRIFT_BuildModel" -> (r.kind = "build" /\ r.n >= 1 /\ r.n <= 65535) =>
                                      /\ r.built = Fits(r.n, 16)
                                      /\ (r.built /\ r.hasIndex) => (r.dirmapReal = DirmapOffset(r.n) /\
                                                                     r.packedReal = Align4(PackedSize(r.n)))
      [] c = "DRIFT_SizeModel"  -> r.kind = "hash" => (r.packedReal = PackedSize(r.n) /\ r.dirmapReal = DirmapOffset(r.n))

Detail(r, c) ==
    IF c = "IndexBuilt" THEN (IF ~Fits(r.n, 16) THEN ">=guint16 overflow" ELSE "other")
    ELSE IF c \in DriftNames THEN "model"
    ELSE IF r.isMember THEN "member" ELSE "absent"

Failing(r) == {c \in ClauseNames : ~Clause(r, c)} \cup {c \in DriftNames : ~Drift(r, c)}
Rejected == UNION { {<<Obs[i].id, c, Detail(Obs[i], c)>> : c \in Failing(Obs[i])} : i \in Idx }

Exercised == [c \in ClauseNames \cup {"MemberFound_viaIndex", "SizeModel"} |->
                 IF c = "MemberFound_viaIndex"
                 THEN Cardinality({i \in Idx : Antecedent(Obs[i], "MemberFound") /\ Obs[i].hasIndex})
                 ELSE IF c = "SizeModel" THEN Cardinality({i \in Idx : Obs[i].kind \in {"hash", "build"}})
                 ELSE Cardinality({i \in Idx : Antecedent(Obs[i], c)})]

ASSUME JsonSerialize(IOEnv.VERDICT_FILE, [n |-> Len(Obs), rejected |-> SetToSeq(Rejected), exercised |-> Exercised])

T_Empty == <<>>
T_None  == {}
TInit == /\ mode = "trace" /\ n = 0 /\ h = <<>> /\ gk = <<>> /\ dk = <<>> /\ table = <<>> /\ packed = {}
         /\ phase = "done" /\ obs = NoObs /\ sz = NoSize
TNext == phase = "never" /\ UNCHANGED vars
=============================================================================

-------------------------- MODULE RepositoryCases --------------------------
(* Exports, for the configuration it is run with, exactly the worlds and the   *)
(* call alphabet TLC explores (disk configurations, GI_TYPELIB_PATH values,    *)
(* Calls(disk)); the harness replays all short histories over that alphabet.   *)
EXTENDS RepositoryMC, Json, IOUtils, SequencesExt

DiskSeq(dk) == SetToSeq(UNION {{[dir |-> d, fns |-> f.fns, fver |-> f.fver, ins |-> f.ins, iver |-> f.iver,
                                 deps |-> f.deps] : f \in dk[d]} : d \in DOMAIN dk})
Export == JsonSerialize(IOEnv.CASES_FILE,
             SetToSeq({[disk |-> DiskSeq(dk), envs |-> SetToSeq(EnvConfigs), calls |-> SetToSeq(Calls(dk)),
                        ndirs |-> Cardinality(Dirs)] : dk \in DiskConfigs}))
ASSUME Export
=============================================================================

------------------------------ MODULE ShlibsMC ------------------------------
(* Exhaustive configurations for Shlibs.tla (C19).  Written once by a generator script because the
   character tuples are tedious to type; this file is the source from now on. *)
EXTENDS Shlibs, Json, IOUtils

CONSTANTS Themes, ML, MW,     \* vocabularies, max lines, max words per line of the checked cases
          Extras,             \* TRUE: also empty lines, the empty request list, a first request that names an existing file
          LaML,               \* max lines of a libtool archive ("la" \in Themes)
          EML, EMW            \* bounds of the subset exported to the harness (<= ML, MW)

\* a word is enumerated as [dir, pfx, stem, sep, rest, colon]; both layers of Shlibs.tla see its spelling only:
\* dc = directory part, bc = base name
W(dir, pfx, stem, sep, rest, colon) ==
  [dc |-> dir, bc |-> pfx \o stem \o sep \o rest \o (IF colon THEN <<":">> ELSE <<>>)]

V_foo == {W(<<>>, <<"l","i","b">>, <<"f","o","o">>, <<".">>, <<"s","o",".","1">>, FALSE),
      W(<<"/","u","s","r","/","l","i","b","/">>, <<"l","i","b">>, <<"f","o","o">>, <<".">>, <<"s","o",".","2">>, FALSE),
      W(<<>>, <<"l","i","b">>, <<"f","o","o","-","b","a","r">>, <<".">>, <<"s","o",".","0">>, FALSE),
      W(<<"/","o","p","t","/">>, <<"l","i","b">>, <<"l","i","b","f","o","o">>, <<".">>, <<"s","o">>, FALSE),
      W(<<"/","t","m","p","/">>, <<"l","i","b">>, <<"f","o","o">>, <<".">>, <<"s","o",".","9">>, TRUE)}
R_foo == {<<<<"f","o","o">>>>, <<<<"f","o","o">>, <<"f","o","o","-","b","a","r">>>>, <<<<"f","o","o","-","b","a","r">>, <<"f","o","o">>>>, <<<<"l","i","b","f","o","o">>, <<"f","o","o">>>>}

V_pango == {W(<<>>, <<"l","i","b">>, <<"p","a","n","g","o","f","t","2">>, <<"-">>, <<"1",".","0",".","s","o",".","0">>, FALSE),
      W(<<"/","u","s","r","/","l","i","b","/","l","i","b","p","a","n","g","o","-","1",".","0","/">>, <<>>, <<"m","o","d","u","l","e","s">>, <<".">>, <<"s","o">>, FALSE),
      W(<<>>, <<"l","i","b">>, <<"p","a","n","g","o">>, <<".">>, <<"s","o",".","0">>, FALSE),
      W(<<"/","u","s","r","/","l","i","b","/">>, <<"l","i","b">>, <<"p","a","n","g","o","-","1",".","0">>, <<".">>, <<"s","o",".","0">>, FALSE),
      W(<<>>, <<>>, <<"=",">">>, <<>>, <<>>, FALSE)}
R_pango == {<<<<"p","a","n","g","o">>>>, <<<<"p","a","n","g","o">>, <<"p","a","n","g","o","f","t","2">>>>, <<<<"p","a","n","g","o","f","t","2">>, <<"p","a","n","g","o">>>>, <<<<"p","a","n","g","o","-","1",".","0">>, <<"p","a","n","g","o">>>>}

V_sep == {W(<<>>, <<"l","i","b">>, <<"f","o","o">>, <<>>, <<>>, FALSE),
      W(<<>>, <<"l","i","b">>, <<"f","o","o">>, <<"_">>, <<"x",".","s","o">>, FALSE),
      W(<<>>, <<"l","i","b">>, <<"f","o","o">>, <<"2">>, <<".","s","o">>, FALSE),
      W(<<>>, <<"l","i","b">>, <<"f","o","o">>, <<"+">>, <<".","s","o">>, FALSE),
      W(<<"@","r","p","a","t","h","/">>, <<"l","i","b">>, <<"f","o","o">>, <<":">>, <<>>, FALSE),
      W(<<"/","u","s","r","/","l","i","b","/","l","i","b","f","o","o",".","d","/">>, <<>>, <<>>, <<>>, <<>>, FALSE)}
R_sep == {<<<<"f","o","o">>>>, <<<<"f","o","o">>, <<"f","o","o","2">>>>, <<<<"f","o","o","_","x">>, <<"f","o","o">>>>}

V_meta1 == {W(<<>>, <<"l","i","b">>, <<"s","t","d","c","+","+">>, <<".">>, <<"s","o",".","6">>, FALSE),
      W(<<"/","u","s","r","/","l","i","b","/">>, <<"l","i","b">>, <<"s","t","d","c">>, <<".">>, <<"s","o">>, FALSE),
      W(<<>>, <<"l","i","b">>, <<"g","t","k","+","-","3">>, <<".">>, <<"s","o",".","0">>, FALSE),
      W(<<>>, <<"l","i","b">>, <<"g","t","k","-","3">>, <<".">>, <<"s","o",".","0">>, FALSE),
      W(<<"/","b","u","i","l","d","/">>, <<"l","i","b">>, <<"s","t","d","c","c">>, <<".">>, <<"s","o">>, TRUE)}
R_meta1 == {<<<<"s","t","d","c","+","+">>>>, <<<<"s","t","d","c","+","+">>, <<"g","t","k","+","-","3">>>>, <<<<"g","t","k","+","-","3">>, <<"s","t","d","c","+","+">>>>, <<<<"g","t","k","+","-","3">>, <<"g","t","k","-","3">>>>}

V_meta2 == {W(<<>>, <<"l","i","b">>, <<"f","o","o",".","b","a","r">>, <<".">>, <<"s","o">>, FALSE),
      W(<<>>, <<"l","i","b">>, <<"f","o","o","x","b","a","r">>, <<".">>, <<"s","o">>, FALSE),
      W(<<"/","l","/">>, <<"l","i","b">>, <<"a","|","b">>, <<".">>, <<"s","o">>, FALSE),
      W(<<>>, <<"l","i","b">>, <<"x","[","1","]">>, <<".">>, <<"s","o">>, FALSE),
      W(<<>>, <<"l","i","b">>, <<"x","1">>, <<".">>, <<"s","o">>, FALSE),
      W(<<>>, <<"l","i","b">>, <<"a">>, <<".">>, <<"s","o">>, FALSE)}
R_meta2 == {<<<<"f","o","o",".","b","a","r">>, <<"a","|","b">>>>, <<<<"x","[","1","]">>, <<"f","o","o",".","b","a","r">>>>, <<<<"f","o","o",".","b","a","r">>, <<"f","o","o">>>>, <<<<"a","|","b">>, <<"x","[","1","]">>>>, <<<<"a","|","b">>, <<"a">>>>}

V_foo3 == {W(<<>>, <<"l","i","b">>, <<"f","o","o">>, <<".">>, <<"s","o",".","1">>, FALSE),
      W(<<"/","o","p","t","/","l","i","b","f","o","o","-","1",".","0","/">>, <<"l","i","b">>, <<"f","o","o","-","b","a","r">>, <<".">>, <<"s","o",".","0">>, FALSE),
      W(<<"/","t","m","p","/">>, <<"l","i","b">>, <<"l","i","b","f","o","o">>, <<".">>, <<"s","o">>, TRUE)}
R_foo3 == {<<<<"f","o","o">>, <<"f","o","o","-","b","a","r">>>>, <<<<"l","i","b","f","o","o">>, <<"f","o","o">>>>}

V_pango3 == {W(<<>>, <<"l","i","b">>, <<"p","a","n","g","o","f","t","2">>, <<"-">>, <<"1",".","0",".","s","o",".","0">>, FALSE),
      W(<<"/","u","s","r","/","l","i","b","/","l","i","b","p","a","n","g","o","-","1",".","0","/">>, <<"l","i","b">>, <<"p","a","n","g","o">>, <<".">>, <<"s","o",".","0">>, FALSE),
      W(<<>>, <<"l","i","b">>, <<"p","a","n","g","o","-","1",".","0">>, <<".">>, <<"s","o",".","0">>, TRUE)}
R_pango3 == {<<<<"p","a","n","g","o">>, <<"p","a","n","g","o","f","t","2">>>>, <<<<"p","a","n","g","o","-","1",".","0">>, <<"p","a","n","g","o">>>>}

V_meta3 == {W(<<>>, <<"l","i","b">>, <<"s","t","d","c","+","+">>, <<".">>, <<"s","o",".","6">>, FALSE),
      W(<<"/","l","/">>, <<"l","i","b">>, <<"a","|","b">>, <<".">>, <<"s","o">>, FALSE),
      W(<<>>, <<"l","i","b">>, <<"x","1">>, <<".">>, <<"s","o">>, FALSE)}
R_meta3 == {<<<<"s","t","d","c","+","+">>, <<"a","|","b">>>>, <<<<"x","[","1","]">>, <<"s","t","d","c","+","+">>>>}

\* the full structured alphabet (one word per listing): dir kind x prefix x stem x separator class x rest x colon
V_wide == {w \in {W(d, p, s, c, r, k) : d \in {<<>>, <<"/","u","s","r","/","l","i","b","/">>, <<"@","r","p","a","t","h","/">>, <<"/","o","p","t","/","l","i","b","f","o","o","-","1",".","0","/">>, <<"/","x","/","l","i","b","p","a","n","g","o",".","d","/">>},
                    p \in {<<"l","i","b">>, <<>>, <<"x","l","i","b">>}, s \in {<<"f","o","o">>, <<"f","o","o","-","b","a","r">>, <<"f","o","o","b","a","r">>, <<"l","i","b","f","o","o">>, <<"p","a","n","g","o">>, <<"p","a","n","g","o","f","t","2">>},
                    c \in {<<".">>, <<"-">>, <<"_">>, <<"+">>, <<"2">>, <<"x">>, <<>>, <<":">>}, r \in {<<"s","o",".","1">>, <<>>}, k \in BOOLEAN} : TRUE}
R_wide == {<<<<"f","o","o">>>>, <<<<"p","a","n","g","o">>>>, <<<<"f","o","o">>, <<"p","a","n","g","o">>>>, <<<<"l","i","b","f","o","o">>, <<"f","o","o","-","b","a","r">>>>, <<<<"p","a","n","g","o","f","t","2">>, <<"p","a","n","g","o">>>>}

Vocab(th) == CASE th = "foo" -> V_foo [] th = "pango" -> V_pango [] th = "sep" -> V_sep [] th = "meta1" -> V_meta1 [] th = "meta2" -> V_meta2 [] th = "foo3" -> V_foo3 [] th = "pango3" -> V_pango3 [] th = "meta3" -> V_meta3 [] th = "wide" -> V_wide [] OTHER -> {}
ReqLists(th) == CASE th = "foo" -> R_foo [] th = "pango" -> R_pango [] th = "sep" -> R_sep [] th = "meta1" -> R_meta1 [] th = "meta2" -> R_meta2 [] th = "foo3" -> R_foo3 [] th = "pango3" -> R_pango3 [] th = "meta3" -> R_meta3 [] th = "wide" -> R_wide [] OTHER -> {}

\* sequences over S of length lo..hi as a LAZY union of function sets (TLC's UNION and \cup of
\* enumerated sets insert with a linear search; a SetCupValue of function sets is enumerated and
\* sorted once)
RECURSIVE SeqsUpTo(_, _, _)
SeqsUpTo(S, lo, hi) == IF lo > hi THEN {} ELSE [1..lo -> S] \cup SeqsUpTo(S, lo + 1, hi)
LinesOf(V, mw) == SeqsUpTo(V, IF Extras THEN 0 ELSE 1, mw)
ListingsOf(V, ml, mw) == SeqsUpTo(LinesOf(V, mw), 0, ml)
LddCase(rl, f, l) == [t |-> "ldd", reqs |-> rl, files |-> f, listing |-> l]
FilesFor(rl) == IF Extras /\ rl # <<>> THEN {<<>>, <<rl[1]>>} ELSE {<<>>}
ReqListsX(th) == ReqLists(th) \cup (IF Extras THEN {<<>>} ELSE {})
ReqFiles(th) == UNION {{<<rl, f>> : f \in FilesFor(rl)} : rl \in ReqListsX(th)}
LddCases(th, ml, mw) == {LddCase(x[1], x[2], l) : x \in ReqFiles(th), l \in ListingsOf(Vocab(th), ml, mw)}
LddThemes == Themes \ {"la"}

\* constant-level case sets are only built for small bounds (ShlibsWit's pool, the export)
CasesOf(ml, mw) == UNION {LddCases(th, ml, mw) : th \in LddThemes}
MC_None == {}

\* libtool archives: up to 3 lines out of
LaVocab == {<<"#"," ","l","i","b","f","o","o",".","l","a"," ","-"," ","a"," ","l","i","b","t","o","o","l"," ","l","i","b","r","a","r","y"," ","f","i","l","e">>,
      <<"d","l","n","a","m","e","=","'","l","i","b","f","o","o",".","s","o",".","0","'">>,
      <<"d","l","n","a","m","e","=","'","'">>,
      <<"d","l","n","a","m","e","=","'",".","l","i","b","s","/","l","i","b","f","o","o",".","s","o",".","0","'">>,
      <<"d","l","n","a","m","e","=","'",".",".","/","b","i","n","/","l","i","b","f","o","o","-","0",".","d","l","l","'">>,
      <<"l","i","b","r","a","r","y","_","n","a","m","e","s","=","'","l","i","b","f","o","o",".","s","o",".","0",".","0",".","0"," ","l","i","b","f","o","o",".","s","o",".","0"," ","l","i","b","f","o","o",".","s","o","'">>,
      <<"o","l","d","_","l","i","b","r","a","r","y","=","'","l","i","b","f","o","o",".","a","'">>,
      <<"l","i","b","d","i","r","=","'","/","u","s","r","/","l","i","b","'">>,
      <<"d","l","n","a","m","e","=","'","l","i","b","s","t","d","c","+","+",".","s","o",".","6","'">>,
      <<"d","l","n","a","m","e","=","'","s","u","b","/","'">>}
LA_NAME == <<"l","i","b","f","o","o",".","l","a">>
MC_LaCases == IF "la" \in Themes THEN {[t |-> "la", name |-> LA_NAME, lines |-> l] : l \in UNION {[1..n -> LaVocab] : n \in 0..LaML}} ELSE {}

\* The checked cases are enumerated by the behaviours (nothing of the size of the state space is built at
\* constant level): Init chooses the vocabulary, the requests and the first line, MCPick the other lines.
\* TLC generates initial states with one thread and successors with all workers, so the bulk of the
\* enumeration runs in parallel.
VARIABLE theme
MCInit == \/ /\ theme \in LddThemes
             /\ \E x \in ReqFiles(theme) : \E first \in SeqsUpTo(LinesOf(Vocab(theme), MW), 0, IF ML > 0 THEN 1 ELSE 0) :
                   case = LddCase(x[1], x[2], first)
             /\ st = [Idle EXCEPT !.pc = "pick"]
             /\ outcome = None
          \/ theme = "la" /\ InitOn(MC_LaCases)
MCPick == /\ st.pc = "pick"
          /\ \E n \in 0..(IF case.listing = <<>> THEN 0 ELSE ML - 1) : \E more \in [1..n -> LinesOf(Vocab(theme), MW)] :
                case' = [case EXCEPT !.listing = @ \o more]
          /\ st' = Idle
          /\ UNCHANGED <<outcome, theme>>
MCNext == MCPick \/ (Next /\ UNCHANGED theme)

\* the harness sees exactly (a bounded subset of) the cases TLC counted: one file per theme
ExportOf(th) == IF th = "la" THEN MC_LaCases ELSE LddCases(th, EML, EMW)
ASSUME ("C19_EXPORT" \in DOMAIN IOEnv) =>
          \A th \in Themes : ndJsonSerialize(IOEnv.C19_EXPORT \o "." \o th, SetToSeq(ExportOf(th)))
=============================================================================

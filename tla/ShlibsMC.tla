------------------------------ MODULE ShlibsMC ------------------------------
(* Exhaustive configurations for Shlibs.tla (C19).  Written once by a generator script because the
   character tuples are tedious to type; this file is the source from now on. *)
EXTENDS Shlibs, Json, IOUtils

CONSTANTS Theme, ML, MW,      \* vocabulary, max lines, max words per line of the checked cases
          EML, EMW            \* bounds of the subset exported to the harness (<= ML, MW)

W(dir, pfx, stem, sep, rest, colon) ==
  [dir |-> dir, pfx |-> pfx, stem |-> stem, sep |-> sep, rest |-> rest, colon |-> colon,
   dc |-> dir, bc |-> pfx \o stem \o sep \o rest \o (IF colon THEN <<":">> ELSE <<>>)]

V_foo == {W(<<>>, <<"l","i","b">>, <<"f","o","o">>, <<".">>, <<"s","o",".","1">>, FALSE),
      W(<<"/","u","s","r","/","l","i","b","/">>, <<"l","i","b">>, <<"f","o","o">>, <<".">>, <<"s","o",".","2">>, FALSE),
      W(<<>>, <<"l","i","b">>, <<"f","o","o","-","b","a","r">>, <<".">>, <<"s","o",".","0">>, FALSE),
      W(<<"/","o","p","t","/">>, <<"l","i","b">>, <<"l","i","b","f","o","o">>, <<".">>, <<"s","o">>, FALSE),
      W(<<"/","t","m","p","/">>, <<"l","i","b">>, <<"f","o","o">>, <<".">>, <<"s","o",".","9">>, TRUE)}
R_foo == {<<<<"f","o","o">>>>, <<<<"f","o","o">>, <<"f","o","o","-","b","a","r">>>>, <<<<"f","o","o","-","b","a","r">>, <<"f","o","o">>>>, <<<<"l","i","b","f","o","o">>, <<"f","o","o">>>>}

V_pango == {W(<<>>, <<"l","i","b">>, <<"p","a","n","g","o","f","t","2">>, <<"-">>, <<"1",".","0",".","s","o",".","0">>, FALSE),
      W(<<"/","u","s","r","/","l","i","b","/","l","i","b","p","a","n","g","o","-","1",".","0","/">>, <<>>, <<"m","o","d","u","l","e","s">>, <<".">>, <<"s","o">>, FALSE),
      W(<<>>, <<"l","i","b">>, <<"p","a","n","g","o">>, <<".">>, <<"s","o",".","0">>, FALSE),
      W(<<"/","u","s","r","/","l","i","b","/">>, <<"l","i","b">>, <<"p","a","n","g","o","-","1",".","0">>, <<".">>, <<"s","o",".","0">>, FALSE),
      W(<<>>, <<>>, <<"=",">">>, <<>>, <<>>, FALSE)}
R_pango == {<<<<"p","a","n","g","o">>>>, <<<<"p","a","n","g","o">>, <<"p","a","n","g","o","f","t","2">>>>, <<<<"p","a","n","g","o","f","t","2">>, <<"p","a","n","g","o">>>>, <<<<"p","a","n","g","o","-","1",".","0">>, <<"p","a","n","g","o">>>>}

V_sep == {W(<<>>, <<"l","i","b">>, <<"f","o","o">>, <<>>, <<>>, FALSE),
      W(<<>>, <<"l","i","b">>, <<"f","o","o">>, <<"_">>, <<"x",".","s","o">>, FALSE),
      W(<<>>, <<"l","i","b">>, <<"f","o","o">>, <<"2">>, <<".","s","o">>, FALSE),
      W(<<>>, <<"l","i","b">>, <<"f","o","o">>, <<"+">>, <<".","s","o">>, FALSE),
      W(<<"@","r","p","a","t","h","/">>, <<"l","i","b">>, <<"f","o","o">>, <<":">>, <<>>, FALSE),
      W(<<"/","u","s","r","/","l","i","b","/","l","i","b","f","o","o",".","d","/">>, <<>>, <<>>, <<>>, <<>>, FALSE)}
R_sep == {<<<<"f","o","o">>>>, <<<<"f","o","o">>, <<"f","o","o","2">>>>, <<<<"f","o","o","_","x">>, <<"f","o","o">>>>}

V_meta1 == {W(<<>>, <<"l","i","b">>, <<"s","t","d","c","+","+">>, <<".">>, <<"s","o",".","6">>, FALSE),
      W(<<"/","u","s","r","/","l","i","b","/">>, <<"l","i","b">>, <<"s","t","d","c">>, <<".">>, <<"s","o">>, FALSE),
      W(<<>>, <<"l","i","b">>, <<"g","t","k","+","-","3">>, <<".">>, <<"s","o",".","0">>, FALSE),
      W(<<>>, <<"l","i","b">>, <<"g","t","k","-","3">>, <<".">>, <<"s","o",".","0">>, FALSE),
      W(<<"/","b","u","i","l","d","/">>, <<"l","i","b">>, <<"s","t","d","c","c">>, <<".">>, <<"s","o">>, TRUE)}
R_meta1 == {<<<<"s","t","d","c","+","+">>>>, <<<<"s","t","d","c","+","+">>, <<"g","t","k","+","-","3">>>>, <<<<"g","t","k","+","-","3">>, <<"s","t","d","c","+","+">>>>, <<<<"g","t","k","+","-","3">>, <<"g","t","k","-","3">>>>}

V_meta2 == {W(<<>>, <<"l","i","b">>, <<"f","o","o",".","b","a","r">>, <<".">>, <<"s","o">>, FALSE),
      W(<<>>, <<"l","i","b">>, <<"f","o","o","x","b","a","r">>, <<".">>, <<"s","o">>, FALSE),
      W(<<"/","l","/">>, <<"l","i","b">>, <<"a","|","b">>, <<".">>, <<"s","o">>, FALSE),
      W(<<>>, <<"l","i","b">>, <<"x","[","1","]">>, <<".">>, <<"s","o">>, FALSE),
      W(<<>>, <<"l","i","b">>, <<"x","1">>, <<".">>, <<"s","o">>, FALSE),
      W(<<>>, <<"l","i","b">>, <<"a">>, <<".">>, <<"s","o">>, FALSE)}
R_meta2 == {<<<<"f","o","o",".","b","a","r">>, <<"a","|","b">>>>, <<<<"x","[","1","]">>, <<"f","o","o",".","b","a","r">>>>, <<<<"f","o","o",".","b","a","r">>, <<"f","o","o">>>>, <<<<"a","|","b">>, <<"x","[","1","]">>>>, <<<<"a","|","b">>, <<"a">>>>}

\* the full structured alphabet (one word per listing): dir kind x prefix x stem x separator class x rest x colon
V_wide == {w \in {W(d, p, s, c, r, k) : d \in {<<>>, <<"/","u","s","r","/","l","i","b","/">>, <<"@","r","p","a","t","h","/">>, <<"/","o","p","t","/","l","i","b","f","o","o","-","1",".","0","/">>, <<"/","x","/","l","i","b","p","a","n","g","o",".","d","/">>},
                    p \in {<<"l","i","b">>, <<>>, <<"x","l","i","b">>}, s \in {<<"f","o","o">>, <<"f","o","o","-","b","a","r">>, <<"f","o","o","b","a","r">>, <<"l","i","b","f","o","o">>, <<"p","a","n","g","o">>, <<"p","a","n","g","o","f","t","2">>},
                    c \in {<<".">>, <<"-">>, <<"_">>, <<"+">>, <<"2">>, <<"x">>, <<>>, <<":">>}, r \in {<<"s","o",".","1">>, <<>>}, k \in BOOLEAN} : TRUE}
R_wide == {<<<<"f","o","o">>>>, <<<<"p","a","n","g","o">>>>, <<<<"f","o","o">>, <<"p","a","n","g","o">>>>, <<<<"l","i","b","f","o","o">>, <<"f","o","o","-","b","a","r">>>>, <<<<"p","a","n","g","o","f","t","2">>, <<"p","a","n","g","o">>>>}

Vocab == CASE Theme = "foo" -> V_foo [] Theme = "pango" -> V_pango [] Theme = "sep" -> V_sep
           [] Theme = "meta1" -> V_meta1 [] Theme = "meta2" -> V_meta2 [] Theme = "wide" -> V_wide [] OTHER -> {}
ReqLists == CASE Theme = "foo" -> R_foo [] Theme = "pango" -> R_pango [] Theme = "sep" -> R_sep
           [] Theme = "meta1" -> R_meta1 [] Theme = "meta2" -> R_meta2 [] Theme = "wide" -> R_wide [] OTHER -> {}

LinesOf(V, mw) == UNION {[1..k -> V] : k \in 1..mw}
ListingsOf(V, ml, mw) == UNION {[1..n -> LinesOf(V, mw)] : n \in 0..ml}
LddCases(RLs, V, ml, mw) == {[t |-> "ldd", reqs |-> rl, files |-> <<>>, listing |-> l] : rl \in RLs, l \in ListingsOf(V, ml, mw)}

MC_Cases == LddCases(ReqLists, Vocab, ML, MW)
MC_Export == LddCases(ReqLists, Vocab, EML, EMW)
MC_None == {}

\* libtool archives: up to 3 lines out of
LaVocab == {<<"#"," ","l","i","b","f","o","o",".","l","a"," ","-"," ","a"," ","l","i","b","t","o","o","l"," ","l","i","b","r","a","r","y"," ","f","i","l","e">>,
      <<"d","l","n","a","m","e","=","'","l","i","b","f","o","o",".","s","o",".","0","'">>,
      <<"d","l","n","a","m","e","=","'","'">>,
      <<"d","l","n","a","m","e","=","'",".","l","i","b","s","/","l","i","b","f","o","o",".","s","o",".","0","'">>,
      <<"d","l","n","a","m","e","=","'",".",".","/","b","i","n","/","l","i","b","f","o","o","-","0",".","d","l","l","'">>,
      <<"l","i","b","r","a","r","y","_","n","a","m","e","s","=","'","l","i","b","f","o","o",".","s","o",".","0",".","0",".","0"," ","l","i","b","f","o","o",".","s","o",".","0"," ","l","i","b","f","o","o",".","s","o","'">>,
      <<"o","l","d","_","l","i","b","r","a","r","y","=","'","l","i","b","f","o","o",".","a","'">>,
      <<"l","i","b","d","i","r","=","'","/","u","s","r","/","l","i","b","'">>,
      <<"d","l","n","a","m","e","=","'","l","i","b","s","t","d","c","+","+",".","s","o",".","6","'">>,
      <<"d","l","n","a","m","e","=","'","s","u","b","/","'">>}
LA_NAME == <<"l","i","b","f","o","o",".","l","a">>
MC_LaCases == IF Theme = "la" THEN {[t |-> "la", name |-> LA_NAME, lines |-> l] : l \in UNION {[1..n -> LaVocab] : n \in 0..ML}} ELSE {}

\* the harness sees exactly (a bounded subset of) the cases TLC counted
ASSUME ("C19_EXPORT" \in DOMAIN IOEnv) =>
          ndJsonSerialize(IOEnv.C19_EXPORT, SetToSeq(IF Theme = "la" THEN MC_LaCases ELSE MC_Export))
=============================================================================

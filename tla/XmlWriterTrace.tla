--------------------------- MODULE XmlWriterTrace ---------------------------
(***************************************************************************)
(* C20 judged on observations of the REAL giscanner.xmlwriter.XMLWriter.   *)
(*                                                                         *)
(* A trace = one operation sequence (push_tag / pop_tag / write_tag /      *)
(* write_comment / write_line / tagcontext enter, exit, exception leaving  *)
(* n with-blocks) that harness/props/c20.py executed on the real writer,   *)
(* plus what an INDEPENDENT parser (expat, no namespace processing) made   *)
(* of get_xml():                                                           *)
(*   evs   the parser's events: [k "start"|"end"|"comment", name, attrs    *)
(*         (<<[n, v]>> in document order), text (comment text), after      *)
(*         (character data up to the next event), nl (the raw start tag    *)
(*         contains a line break, i.e. the writer wrapped it)];            *)
(*   inc   the start/end/comment events ([k, name]) a second parser        *)
(*         instance reported while it was fed get_xml() incrementally,     *)
(*         after every operation; cut[l] = how many of them it had         *)
(*         reported right after operation l; errat = the operation whose   *)
(*         output it rejected (0: none);                                   *)
(*   wf    the parser accepted the whole document (err: its message);      *)
(*         utf8 / enc: the bytes of get_encoded_xml() are valid UTF-8,     *)
(*         decode to get_xml(), and the declared encoding; crash: the      *)
(*         exception type if the writer itself raised ("-" otherwise).     *)
(* All strings are sequences of code points.                               *)
(*                                                                         *)
(* Each operation is replayed through XmlWriter!Do (one state per          *)
(* operation); the model's `stack` is compared with the observed open      *)
(* elements after every operation, and when the sequence is finished the   *)
(* model's described document `doc` is compared with the parser's events   *)
(* clause by clause (section 5 of XmlWriter.tla).  Only these clauses      *)
(* form the verdict.  The model's lexical prediction (`out`, wrap          *)
(* decision) is used for DRIFT notes only.  An operation the model does    *)
(* not enable, or a string outside the property's quantifier, is a         *)
(* generator error (GEN): machinery failure, never a violation.            *)
(***************************************************************************)
EXTENDS XmlWriter, Json, IOUtils

ClassOfCp(c) == CASE c = 32 -> "sp" [] c = 60 -> "lt" [] c = 62 -> "gt" [] c = 38 -> "amp"
                  [] c = 34 -> "dq" [] c = 39 -> "sq" [] c = 10 -> "lf" [] c = 9 -> "tab"
                  [] c = 13 -> "cr" [] c = 59 -> "semi" [] c = 93 -> "rb"
                  [] c > 127 -> "na" [] OTHER -> "p"
T_Abs(s) == [i \in DOMAIN s |-> ClassOfCp(s[i])]
T_Hist(op) == op.k
T_OpSet == {}

Traces == JsonDeserialize(IOEnv.TRACE_FILE)
NT == Len(Traces)

VARIABLES t, l, ostk, quiet, rej, exer, stopped
tvars == <<vars, t, l, ostk, quiet, rej, exer, stopped>>

Active == t <= NT
Tr == Traces[t]
Ops == Tr.ops
More == Active /\ l <= Len(Ops)
Op == Ops[l]

---------------------------------------------------------------------------
(* the quantifier of C20: what the generator is obliged to deliver         *)
IsChar(c) == \/ c \in {9, 10, 13} \/ (c >= 32 /\ c <= 55295)
             \/ (c >= 57344 /\ c <= 65533) \/ (c >= 65536 /\ c <= 1114111)
AllChars(s) == \A i \in DOMAIN s : IsChar(s[i])
\* names: a subset of Name that XML 1.0 4th and 5th edition agree on
NameStart(c) == \/ (c >= 65 /\ c <= 90) \/ (c >= 97 /\ c <= 122) \/ c = 95 \/ c = 58
                \/ (c >= 192 /\ c <= 214) \/ (c >= 216 /\ c <= 246) \/ (c >= 248 /\ c <= 255)
                \/ (c >= 945 /\ c <= 969) \/ (c >= 1072 /\ c <= 1103) \/ (c >= 19968 /\ c <= 40869)
NameChar(c) == NameStart(c) \/ (c >= 48 /\ c <= 57) \/ c = 45 \/ c = 46 \/ c = 183
IsName(n) == Len(n) >= 1 /\ NameStart(n[1]) /\ \A i \in DOMAIN n : NameChar(n[i])
AttrsOK(as) == /\ \A i \in DOMAIN as : IsName(as[i].n) /\ AllChars(as[i].v)
               /\ \A i, j \in DOMAIN as : as[i].n = as[j].n => i = j      \* XML: attribute names are unique
NoDoubleHyphen(s) == \A i \in 1..(Len(s) - 1) : ~(s[i] = 45 /\ s[i + 1] = 45)
PreOK(op) == /\ AllChars(op.text)
             /\ op.k \in {"push", "enter", "tag"} => (IsName(op.name) /\ AttrsOK(op.attrs))
             /\ op.k = "comment" => NoDoubleHyphen(op.text)      \* a comment cannot represent "--" (XML 2.5)

\* rendering of the class strings of the escaping cases (kind "esc"): the class string the case was
\* drawn from is what the rendered code points abstract to
Expand(cls) == Flatten([i \in DOMAIN cls |-> IF cls[i] \in Words THEN [j \in 1..SymLen(cls[i]) |-> "p"] ELSE <<cls[i]>>])
RenderOK(tr) == tr.kind = "esc" => Expand(tr.cls) = T_Abs(tr.s)

---------------------------------------------------------------------------
(* after every operation: the elements the parser sees open = the model's stack *)
ApplyEvs(a0, evs) ==
    FoldLeft(LAMBDA a, e :
                IF ~a.ok THEN a
                ELSE IF e.k = "start" THEN [a EXCEPT !.st = Append(@, e.name)]
                ELSE IF e.k = "end" THEN (IF a.st # <<>> /\ Last(a.st) = e.name
                                          THEN [a EXCEPT !.st = Front(@)] ELSE [a EXCEPT !.ok = FALSE])
                ELSE a,
             a0, evs)
Ostk0 == [ok |-> TRUE, st |-> <<>>]
StepClause(k) == CASE k = "raise" -> "RaiseCloses" [] k = "exit" -> "ExitCloses" [] OTHER -> "OpenStack"

ClauseNames == {"OpenStack", "ExitCloses", "RaiseCloses", "Returns", "WellFormed", "Utf8", "Structure",
                "AttrNames", "AttrValues", "NoneOmitted", "Text", "Lines", "WrapContent"}
Bump(e, cs) == [c \in ClauseNames |-> IF c \in cs THEN e[c] + 1 ELSE e[c]]

ResetModel == /\ stack' = <<>> /\ ctxs' = <<>> /\ indent' = 0 /\ root' = 0 /\ misuse' = FALSE
              /\ out' = <<>> /\ doc' = <<>> /\ hist' = <<>>
NextTrace == ResetModel /\ t' = t + 1 /\ l' = 1 /\ ostk' = Ostk0 /\ quiet' = FALSE /\ stopped' = stopped

CutLo == IF l = 1 THEN 0 ELSE Tr.cut[l - 1]
GenOK == /\ PreOK(Op) /\ (l > 1 \/ RenderOK(Tr))
         /\ Len(Tr.cut) = Len(Ops) /\ CutLo <= Tr.cut[l] /\ Tr.cut[l] <= Len(Tr.inc)

\* One report per trace: once the observed open elements differ from the model's stack they stay different.
\* After the incremental parser has given up, or the writer itself raised (errat = index of that operation),
\* the clause is silent: WellFormed resp. Returns report that.
Step ==
    /\ More
    /\ GenOK = TRUE       \* "= TRUE": evaluated as one boolean, not decomposed as an action (deep recursion, duplicate successors)
    /\ Do(Op)
    /\ LET o == ApplyEvs(ostk, SubSeq(Tr.inc, CutLo + 1, Tr.cut[l]))
           speaks == ~quiet /\ (Tr.errat = 0 \/ l < Tr.errat)
           good == o.ok /\ o.st = stack'
       IN /\ ostk' = o
          /\ rej' = IF speaks /\ ~good THEN rej \cup {<<Tr.id, StepClause(Op.k), "after " \o Op.k>>} ELSE rej
          /\ quiet' = (quiet \/ ~good)
          /\ exer' = IF speaks THEN Bump(exer, {StepClause(Op.k)}) ELSE exer
    /\ l' = l + 1 /\ t' = t /\ stopped' = stopped

\* the generator produced something outside the quantifier / the model: not a verdict about the code
GenBad ==
    /\ More /\ ~(GenOK /\ Enabled(Ctl, Op))
    /\ rej' = rej \cup {<<Tr.id, "GEN", ToString(l) \o ":" \o Op.k \o
                          (IF ~PreOK(Op) THEN ":precondition" ELSE IF ~GenOK THEN ":harness" ELSE ":not-enabled")>>}
    /\ exer' = exer /\ NextTrace

---------------------------------------------------------------------------
(* the finished document: parser's events P against the described document E *)
\* comments are not "element structure, attribute names, attribute values and text": they are taken
\* out of both sides (the character data around them joins the preceding event's)
PMerge(P) == FoldLeft(LAMBDA acc, e : IF e.k = "comment"
                                      THEN (IF acc = <<>> THEN acc ELSE [acc EXCEPT ![Len(acc)].after = @ \o e.after])
                                      ELSE Append(acc, e), <<>>, P)
EMerge(E) == FoldLeft(LAMBDA acc, e : IF e.k = "comment"
                                      THEN (IF acc = <<>> THEN acc ELSE [acc EXCEPT ![Len(acc)].ls = @ \o e.ls])
                                      ELSE Append(acc, e), <<>>, E)
Comments(evs) == LET s == SelectSeq(evs, LAMBDA e : e.k = "comment") IN [i \in DOMAIN s |-> s[i].text]

Names(as) == [i \in DOMAIN as |-> as[i].n]
Vals(as) == [i \in DOMAIN as |-> as[i].v]
StartPos(evs) == SelectSeq([i \in DOMAIN evs |-> i], LAMBDA i : evs[i].k = "start")
IsStartOp(op) == op.k \in {"push", "enter", "tag"}
HasNone(op) == \E j \in DOMAIN op.attrs : ~op.attrs[j].has
AnyCR(s) == \E i \in DOMAIN s : s[i] = 13
\* XML 2.11 on code points (only used for the comment DRIFT note)
NormCR(s) == Flatten([i \in DOMAIN s |-> IF s[i] = 13 THEN <<10>>
                                         ELSE IF s[i] = 10 /\ i > 1 /\ s[i - 1] = 13 THEN <<>> ELSE <<s[i]>>])

FirstDiff(exp, got) ==            \* class of the first expected character that did not come back
    IF \E k \in DOMAIN exp : k > Len(got) \/ got[k] # exp[k]
    THEN ClassOfCp(exp[CHOOSE k \in DOMAIN exp : /\ (k > Len(got) \/ got[k] # exp[k])
                                                 /\ \A m \in 1..(k - 1) : m <= Len(got) /\ got[m] = exp[m]])
    ELSE "extra"
MinOf(S) == CHOOSE x \in S : \A y \in S : x <= y

Judgement(tr, E) ==
    LET P  == tr.evs
        PE == PMerge(P)
        EE == EMerge(E)
        aligned == tr.wf /\ Skel(PE) = Skel(EE)
        starts == IF aligned THEN StartPos(EE) ELSE <<>>            \* j-th start event <-> j-th start operation
        sops == SelectSeq(tr.ops, IsStartOp)
        S == {starts[j] : j \in DOMAIN starts}
        namesBad == {i \in S : Names(PE[i].attrs) # Names(EE[i].attrs)}
        valsBad == {i \in S \ namesBad : Vals(PE[i].attrs) # Vals(EE[i].attrs)}
        noneJ == {j \in DOMAIN starts : HasNone(sops[j])}
        noneBad == {j \in noneJ :
                      \/ Len(PE[starts[j]].attrs) # Len(ValuedOnly(sops[j].attrs))
                      \/ \E a \in DOMAIN sops[j].attrs : ~sops[j].attrs[a].has /\
                            \E b \in DOMAIN PE[starts[j]].attrs : PE[starts[j]].attrs[b].n = sops[j].attrs[a].n}
        exactI == IF aligned THEN {i \in DOMAIN EE : EE[i].mode = "exact" /\ ~AnyCR(EE[i].exact)} ELSE {}
        exactBad == {i \in exactI : PE[i].after # EE[i].exact}
        linesI == IF aligned THEN {i \in DOMAIN EE : EE[i].mode = "lines" /\ \A j \in DOMAIN EE[i].ls : ~AnyCR(EE[i].ls[j])}
                  ELSE {}
        linesBad == {i \in linesI : ~LinesMatch(PE[i].after, EE[i].ls)}
        wrapI == {i \in S : PE[i].nl}
        wrapBad == {i \in wrapI : PE[i].attrs # EE[i].attrs}
        valDetail == LET i == MinOf(valsBad)
                         j == MinOf({q \in DOMAIN EE[i].attrs : PE[i].attrs[q].v # EE[i].attrs[q].v})
                     IN FirstDiff(EE[i].attrs[j].v, PE[i].attrs[j].v)
        textDetail == LET i == MinOf(exactBad) IN FirstDiff(EE[i].exact, PE[i].after)
        wrapPred == {i \in S : EE[i].wrap /\ Len(EE[i].attrs) >= 2}
        bad == (IF tr.crash = "-" THEN {} ELSE {<<"Returns", tr.crash>>})      \* the writer raised on its own
               \cup (IF tr.wf THEN {} ELSE {<<"WellFormed", tr.err>>})
               \cup (IF tr.utf8 /\ tr.enc \in {"utf-8", "UTF-8", "-"} THEN {} ELSE {<<"Utf8", tr.enc>>})
               \cup (IF tr.wf /\ ~aligned THEN {<<"Structure", "-">>} ELSE {})
               \cup (IF namesBad # {} THEN {<<"AttrNames", "-">>} ELSE {})
               \cup (IF valsBad # {} THEN {<<"AttrValues", valDetail>>} ELSE {})
               \cup (IF noneBad # {} THEN {<<"NoneOmitted", "-">>} ELSE {})
               \cup (IF exactBad # {} THEN {<<"Text", textDetail>>} ELSE {})
               \cup (IF linesBad # {} THEN {<<"Lines", "-">>} ELSE {})
               \cup (IF wrapBad # {} THEN {<<"WrapContent", "-">>} ELSE {})
        \* not part of the verdict: the implementation-shaped layer's predictions
        drift == (IF aligned /\ wrapPred # wrapI THEN {<<"DRIFT", "wrap-decision">>} ELSE {})
                 \cup (IF tr.wf /\ Comments(P) # [i \in DOMAIN Comments(E) |-> <<32>> \o NormCR(Comments(E)[i]) \o <<32>>]
                       THEN {<<"DRIFT", "comment">>} ELSE {})
        spoke == {"Returns", "WellFormed", "Utf8"} \cup (IF tr.wf THEN {"Structure"} ELSE {})
                 \cup (IF \E i \in S : EE[i].attrs # <<>> THEN {"AttrNames", "AttrValues"} ELSE {})
                 \cup (IF noneJ # {} THEN {"NoneOmitted"} ELSE {})
                 \cup (IF \E i \in exactI : EE[i].exact # <<>> THEN {"Text"} ELSE {})
                 \cup (IF \E i \in linesI : EE[i].ls # <<>> THEN {"Lines"} ELSE {})
                 \cup (IF wrapI # {} THEN {"WrapContent"} ELSE {})
    IN [bad |-> bad \cup drift, spoke |-> spoke]

Judge ==
    /\ Active /\ l > Len(Ops)
    /\ IF Complete
       THEN LET j == Judgement(Tr, doc) IN
            /\ rej' = rej \cup {<<Tr.id, b[1], b[2]>> : b \in j.bad}
            /\ exer' = Bump(exer, j.spoke)
       ELSE /\ rej' = rej \cup {<<Tr.id, "GEN", "incomplete">>}
            /\ exer' = exer
    /\ NextTrace

Finish == /\ ~Active /\ ~stopped
          /\ JsonSerialize(IOEnv.VERDICT_FILE, [n |-> NT, rejected |-> SetToSeq(rej), exercised |-> exer])
          /\ stopped' = TRUE /\ UNCHANGED <<vars, t, l, ostk, quiet, rej, exer>>

TInit == Init /\ t = 1 /\ l = 1 /\ ostk = Ostk0 /\ quiet = FALSE /\ rej = {} /\ exer = [c \in ClauseNames |-> 0] /\ stopped = FALSE
TNext == Step \/ GenBad \/ Judge \/ Finish
TSpec == TInit /\ [][TNext]_tvars
=============================================================================

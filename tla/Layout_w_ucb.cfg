INIT Init
NEXT Next
CONSTANTS
  FlatLen = 4
  Mode = "ucb"
  EnumCap32 = FALSE
  UnionFieldCallback = FALSE
  Small = FALSE
INVARIANT ImplSatisfiesPropertyAll
CHECK_DEADLOCK FALSE

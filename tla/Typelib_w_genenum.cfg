INIT Init
NEXT Next
CONSTANTS
  Dev = {"gen_no_enum_methods"}
  Kinds = {"api"}
  Strict = FALSE
  Full = FALSE
  MaxCnt = 1
INVARIANT InvApi
CHECK_DEADLOCK FALSE

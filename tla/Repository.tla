----------------------------- MODULE Repository -----------------------------
(***************************************************************************)
(* Property C17: requiring a namespace loads the right typelib version and *)
(* its dependencies (girepository/girepository.c).                         *)
(*                                                                         *)
(* World: a search path (sequence of directory ids: environment-provided   *)
(* directories, prepended ones in front, the compiled-in directory SYSDIR  *)
(* last), a disk  disk[d] = set of files [fns, fver, ins, iver, deps]:     *)
(* the file is NAMED <fns>-<fver>.typelib and its CONTENTS say namespace   *)
(* ins, version iver, dependency string deps (sequence of [ns, ver]) - so  *)
(* a file whose contents disagree with its name is expressible.            *)
(* loaded: namespace -> [c (contents), dir, fns, fver (where it came from, *)
(* dir = BUILTIN for load-from-memory), lazy].                             *)
(*                                                                         *)
(* Two layers.                                                             *)
(*  - IMPLEMENTATION-SHAPED layer (I...): what the C code does, call by    *)
(*    call: get_registered_status, find_namespace_version,                 *)
(*    enumerate_namespace_versions + parse_version + compare_candidate_-   *)
(*    reverse, require_internal, register_internal,                        *)
(*    load_dependencies_recurse.  Deterministic up to readdir order.       *)
(*  - PROPERTY layer: the statement of C17 as named clauses over           *)
(*    (state, call, observed result, next state).  Silent = TRUE.          *)
(* The model check is "every implementation-layer step satisfies every     *)
(* clause" (modulo the clause names listed in Known, each of which is a    *)
(* design-level deviation that is replayed against the real code).  Traces *)
(* of the real code are judged by the property layer only                  *)
(* (RepositoryTrace.tla); disagreement with the I-layer alone is DRIFT.    *)
(*                                                                         *)
(* Assumptions of the universe: the dependency relation over file NAMES    *)
(* (ns, ver) is acyclic (the C code recurses forever on a cycle); version  *)
(* strings contain no '-' and no '/'; files do not change during a history;*)
(* SYSDIR contains no file of the universe's namespaces.                   *)
(***************************************************************************)
EXTENDS Naturals, Integers, Sequences, FiniteSets, TLC

CONSTANTS
    NS,           \* namespaces of the universe (strings)
    Dirs,         \* directory ids (positive integers)
    VChars,       \* version string -> sequence of its characters (one-character strings)
    DiskConfigs,  \* MC: set of disks  [Dirs -> SUBSET File]
    EnvConfigs,   \* MC: set of GI_TYPELIB_PATH values (sequences of directory ids)
    MaxCalls,     \* MC: history length
    Ops,          \* MC: names of the calls explored
    ReqVers,      \* MC: version strings used as explicit arguments
    Lazies,       \* MC: subset of BOOLEAN used as LAZY flag
    Dev,          \* what-if switches: deviations of EARLIER versions of the code (each repaired by a fix: commit)
                  \*   "versionless_mismatch" (before be112cf), "lazy_key_reuse" (before b191088),
                  \*   "mem_conflict_dead" (before bd3a825), "closure_replace" (before 06f5b7d), "lazy_dep_accepted" (never in the code: seeded/C17-3); {} = the current code
    Known         \* MC: <<clause, cause>> pairs the DESIGN (I-layer) is known to break (see c17.py)

VARIABLES disk, path, loaded, last, ncalls
vars == <<disk, path, loaded, last, ncalls>>

NONE    == ""        \* "no version given"
BUILTIN == -1        \* directory id reported for "<builtin>"
SYSDIR  == 0         \* compiled-in <libdir>/girepository-1.0
EmptyMap == [x \in {} |-> 0]

Rng(s) == {s[i] : i \in DOMAIN s}
MinOf(S) == CHOOSE x \in S : \A y \in S : x <= y
DiskAt(dk, d) == IF d \in DOMAIN dk THEN dk[d] ELSE {}

---------------------------------------------------------------------------
(* parse_version(), transcribed: strtol(version); no '.' -> minor 0, TRUE;  *)
(* the first '.' must be where strtol stopped; strtol(dot+1) must consume   *)
(* the rest.  strtol skips leading blanks and accepts a sign; when it finds *)
(* no digits it returns 0 and "end" = the start pointer.                    *)
DigitVal == ("0" :> 0) @@ ("1" :> 1) @@ ("2" :> 2) @@ ("3" :> 3) @@ ("4" :> 4) @@
            ("5" :> 5) @@ ("6" :> 6) @@ ("7" :> 7) @@ ("8" :> 8) @@ ("9" :> 9)
IsDigit(c) == c \in DOMAIN DigitVal
IsSpace(c) == c \in {" ", "\t"}

RECURSIVE SkipSp(_, _)
SkipSp(cs, p) == IF p <= Len(cs) /\ IsSpace(cs[p]) THEN SkipSp(cs, p + 1) ELSE p
RECURSIVE DigEnd(_, _)
DigEnd(cs, p) == IF p <= Len(cs) /\ IsDigit(cs[p]) THEN DigEnd(cs, p + 1) ELSE p
RECURSIVE NumVal(_, _, _, _)
NumVal(cs, p, e, acc) == IF p >= e THEN acc ELSE NumVal(cs, p + 1, e, acc * 10 + DigitVal[cs[p]])

Strtol(cs, p) ==
    LET q == SkipSp(cs, p)
        neg == q <= Len(cs) /\ cs[q] = "-"
        r == IF q <= Len(cs) /\ cs[q] \in {"+", "-"} THEN q + 1 ELSE q
        e == DigEnd(cs, r)
    IN IF e = r THEN [val |-> 0, end |-> p]
       ELSE [val |-> IF neg THEN 0 - NumVal(cs, r, e, 0) ELSE NumVal(cs, r, e, 0), end |-> e]

FirstDot(cs) == IF \E i \in DOMAIN cs : cs[i] = "." THEN MinOf({i \in DOMAIN cs : cs[i] = "."}) ELSE 0
NoParse == [ok |-> FALSE, maj |-> 0, min |-> 0]
ParseVersion(cs) ==
    LET m == Strtol(cs, 1)
        dot == FirstDot(cs)
    IN IF dot = 0 THEN [ok |-> TRUE, maj |-> m.val, min |-> 0]
       ELSE IF dot # m.end THEN NoParse
       ELSE LET n == Strtol(cs, dot + 1)
            IN IF n.end = Len(cs) + 1 THEN [ok |-> TRUE, maj |-> m.val, min |-> n.val] ELSE NoParse

\* the versions the STATEMENT speaks about: digits, or digits '.' digits
PlainChars(cs) == LET e == DigEnd(cs, 1)
                  IN /\ e > 1
                     /\ \/ e = Len(cs) + 1
                        \/ e <= Len(cs) /\ cs[e] = "." /\ e + 1 <= Len(cs) /\ DigEnd(cs, e + 1) = Len(cs) + 1

VKey(v)  == ParseVersion(VChars[v])
Plain(v) == PlainChars(VChars[v])
KGt(a, b) == a.maj > b.maj \/ (a.maj = b.maj /\ a.min > b.min)       \* compare_version() > 0
KEq(a, b) == a.maj = b.maj /\ a.min = b.min

---------------------------------------------------------------------------
\* files and the search
Good(f) == f.ins = f.fns /\ f.iver = f.fver          \* contents agree with the file name
Content(f) == [ns |-> f.ins, ver |-> f.iver, deps |-> f.deps]
Entry(d, f, lz) == [c |-> Content(f), dir |-> d, fns |-> f.fns, fver |-> f.fver, lazy |-> lz]
MemEntry(f, lz) == [c |-> Content(f), dir |-> BUILTIN, fns |-> "", fver |-> "", lazy |-> lz]
Loc(d, f) == [dir |-> d, f |-> f]

\* find_namespace_version(): first directory of sp that has <n>-<v>.typelib   (set of 0 or 1 Loc)
FirstFile(dk, sp, n, v) ==
    LET idx == {i \in DOMAIN sp : \E f \in DiskAt(dk, sp[i]) : f.fns = n /\ f.fver = v}
    IN IF idx = {} THEN {}
       ELSE LET i == MinOf(idx)
            IN {Loc(sp[i], CHOOSE f \in DiskAt(dk, sp[i]) : f.fns = n /\ f.fver = v)}

\* every file named <n>-*.typelib on sp, with the index of its directory
CandsAll(dk, sp, n) ==
    UNION {{[i |-> i, dir |-> sp[i], f |-> f] : f \in {g \in DiskAt(dk, sp[i]) : g.fns = n}} : i \in DOMAIN sp}

\* enumerate_namespace_versions(): parseable names, a version STRING already seen in an earlier
\* directory is skipped
IEnum(dk, sp, n) ==
    LET C == {c \in CandsAll(dk, sp, n) : VKey(c.f.fver).ok}
    IN {c \in C : \A c2 \in C : c2.f.fver = c.f.fver => c.i <= c2.i}
\* find_namespace_latest(): head of the list sorted by compare_candidate_reverse (version
\* descending, then directory index ascending); equal in both = readdir order = any of them
IElect(dk, sp, n) ==
    LET D == IEnum(dk, sp, n)
    IN {c \in D : \A c2 \in D : /\ ~KGt(VKey(c2.f.fver), VKey(c.f.fver))
                               /\ (KEq(VKey(c2.f.fver), VKey(c.f.fver)) => c.i <= c2.i)}

---------------------------------------------------------------------------
(*                    IMPLEMENTATION-SHAPED LAYER                          *)
\* get_registered_status() + check_version_conflict()
IStatus(L, n, v, allowLazy) ==
    IF n \notin DOMAIN L THEN "miss"
    ELSE IF L[n].lazy /\ ~allowLazy THEN "miss"          \* version_conflict stays unset
    ELSE IF v = NONE \/ v = L[n].c.ver THEN "hit" ELSE "conflict"

Out(r, L) == [res |-> r, L |-> L]

RECURSIVE IReq(_, _, _, _, _, _, _), IDeps(_, _, _, _, _)

\* register_internal(): lazy = insert into lazy_typelibs, nothing else; eager = dependencies
\* first (load_dependencies_recurse, global search path, flags 0); if one of them has meanwhile
\* registered (another version of) the namespace: version conflict, the dependencies stay
\* registered; else the lazy entry (if any) is dropped and the typelib is inserted under a key built
\* from ITS source.
\* What-ifs: "closure_replace" = the registered entry is replaced, its key (path) kept;
\* "lazy_key_reuse" = the key of the lazy entry is reused (freed memory in the real code; the model
\* says: old path kept).
IRegister(dk, gp, L, d, f, lz) ==
    IF lz THEN {Out("ok", (f.ins :> Entry(d, f, TRUE)) @@ L)}
    ELSE {IF o.res # "ok" THEN o
          ELSE IF f.ins \in DOMAIN o.L /\ ~o.L[f.ins].lazy /\ "closure_replace" \notin Dev THEN Out("CONFLICT", o.L)
          ELSE Out("ok", (f.ins :> (IF f.ins \in DOMAIN o.L /\ (IF o.L[f.ins].lazy THEN "lazy_key_reuse" \in Dev
                                                                                    ELSE "closure_replace" \in Dev)
                                    THEN [c |-> Content(f), dir |-> o.L[f.ins].dir, fns |-> o.L[f.ins].fns,
                                          fver |-> o.L[f.ins].fver, lazy |-> FALSE]
                                    ELSE Entry(d, f, FALSE))) @@ o.L)
          : o \in IDeps(dk, gp, {Out("ok", L)}, f.deps, 1)}

IDeps(dk, gp, outs, deps, i) ==
    IF i > Len(deps) THEN outs
    ELSE IDeps(dk, gp,
               \* each dependency is required NON-lazily: a lazily registered one is re-read from its file and
               \* brings in ITS dependencies (what-if "lazy_dep_accepted": a lazily registered dependency of the
               \* recorded version is taken as loaded)
               UNION {IF o.res # "ok" THEN {o}
                      ELSE IF "lazy_dep_accepted" \in Dev /\ IStatus(o.L, deps[i].ns, deps[i].ver, TRUE) = "hit" THEN {o}
                      ELSE IReq(dk, gp, o.L, gp, deps[i].ns, deps[i].ver, FALSE)
                      : o \in outs},
               deps, i + 1)

\* require_internal()
IReq(dk, gp, L, sp, n, v, lz) ==
    LET st == IStatus(L, n, v, lz)
    IN IF st = "hit" THEN {Out("ok", L)}
       ELSE IF st = "conflict" THEN {Out("CONFLICT", L)}
       ELSE LET cands == IF v # NONE THEN FirstFile(dk, sp, n, v)
                         ELSE {Loc(c.dir, c.f) : c \in IElect(dk, sp, n)}
            IN IF cands = {} THEN {Out("NOT_FOUND", L)}
               ELSE UNION {IF c.f.ins # n THEN {Out("MISMATCH", L)}
                           \* tmp_version = the requested version, or the one in the elected file's name
                           ELSE IF v # NONE /\ c.f.iver # v THEN {Out("MISMATCH", L)}
                           ELSE IF v = NONE /\ c.f.iver # c.f.fver /\ "versionless_mismatch" \notin Dev THEN {Out("MISMATCH", L)}
                           ELSE IRegister(dk, gp, L, c.dir, c.f, lz) : c \in cands}

\* g_irepository_load_typelib(): registered with the same version = returned; another version
\* registered (and visible: a lazily loaded one is invisible to a non-lazy call) = version conflict;
\* else register_internal from "<builtin>".
\* What-if "mem_conflict_dead": the conflict test was dead code (get_registered_status returns NULL
\* on a conflict), so another version REPLACED the registered one (key kept); with LAZY the typelib
\* went into lazy_typelibs although the namespace was in typelibs (lookups keep answering from
\* typelibs: "no change"), or g_assert failed if it was in lazy_typelibs.
ILoadMem(dk, gp, L, f, lz) ==
    LET st == IStatus(L, f.ins, f.iver, lz)
    IN IF st = "hit" THEN {Out("ok", L)}
       ELSE IF st = "conflict" /\ "mem_conflict_dead" \notin Dev THEN {Out("CONFLICT", L)}
       ELSE IF lz /\ f.ins \in DOMAIN L
            THEN IF L[f.ins].lazy THEN {Out("crash", L)} ELSE {Out("ok", L)}
       ELSE IRegister(dk, gp, L, BUILTIN, [f EXCEPT !.fns = "", !.fver = ""], lz)

---------------------------------------------------------------------------
\* calls, observations
Call(op, n, v, lz, d, fns, fver) == [op |-> op, ns |-> n, ver |-> v, lazy |-> lz, dir |-> d, fns |-> fns, fver |-> fver]
MutOps == {"Require", "RequirePrivate", "LoadMem"}
QueryOps == {"LoadedNamespaces", "Version", "TypelibPath", "ImmediateDeps", "Deps", "EnumerateVersions", "IsRegistered"}
DepStr(d) == d.ns \o "-" \o d.ver
\* an observation: res, ret (string handed back), names (set of strings answered),
\* rdir/rfns/rfver (projected answer of TypelibPath)
Obs(res, ret, names, rdir, rfns, rfver) ==
    [res |-> res, ret |-> ret, names |-> names, rdir |-> rdir, rfns |-> rfns, rfver |-> rfver]
Plain0(res, ret) == Obs(res, ret, {}, 0, "", "")

\* the file a LoadMem call reads its bytes from
SrcFile(dk, c) == CHOOSE f \in DiskAt(dk, c.dir) : f.fns = c.fns /\ f.fver = c.fver

\* get_typelib_dependencies_transitive(): through whatever is registered under the dependency's name
RECURSIVE TransDeps(_, _, _)
TransDeps(L, todo, seen) ==
    IF todo = {} THEN seen
    ELSE LET x == CHOOSE x \in todo : TRUE
             more == IF x.ns \in DOMAIN L THEN Rng(L[x.ns].c.deps) ELSE {}
         IN TransDeps(L, (todo \cup more) \ (seen \cup {x}), seen \cup {x})
DepsAllLoaded(L, n) == \A x \in TransDeps(L, Rng(L[n].c.deps), {}) : x.ns \in DOMAIN L

IQuery(dk, s, c) ==      \* answer of a query call in state s = [path, L]
    LET L == s.L
        ld == c.ns \in DOMAIN L
    IN CASE c.op = "LoadedNamespaces" -> Obs("ok", "", DOMAIN L, 0, "", "")
         [] c.op = "Version" -> IF ld THEN Plain0("ok", L[c.ns].c.ver) ELSE Plain0("notloaded", "")
         [] c.op = "TypelibPath" -> IF ld THEN Obs("ok", "", {}, L[c.ns].dir, L[c.ns].fns, L[c.ns].fver)
                                    ELSE Plain0("notloaded", "")
         [] c.op = "ImmediateDeps" -> IF ld THEN Obs("ok", "", {DepStr(d) : d \in Rng(L[c.ns].c.deps)}, 0, "", "")
                                      ELSE Plain0("notloaded", "")
         [] c.op = "Deps" -> IF ld THEN Obs("ok", "", {DepStr(d) : d \in TransDeps(L, Rng(L[c.ns].c.deps), {})}, 0, "", "")
                             ELSE Plain0("notloaded", "")
         [] c.op = "EnumerateVersions" ->
                \* g_list_find_custom (ret, loaded_version, g_str_equal): g_str_equal is not a GCompareFunc,
                \* the loaded version is "found" as soon as some OTHER version is listed
                LET en == {e.f.fver : e \in IEnum(dk, s.path, c.ns)}
                IN Obs("ok", "", en \cup (IF ld /\ \A v \in en : v = L[c.ns].c.ver THEN {L[c.ns].c.ver} ELSE {}), 0, "", "")
         [] c.op = "IsRegistered" ->
                Plain0(IF ld /\ (c.ver = NONE \/ c.ver = L[c.ns].c.ver) THEN "yes" ELSE "no", "")

\* all outcomes [o, path, L] of a call according to the implementation layer
IStep(dk, s, c) ==
    CASE c.op = "Prepend" -> {[o |-> Plain0("ok", ""), path |-> <<c.dir>> \o s.path, L |-> s.L]}
      [] c.op = "Require" ->
            {[o |-> Plain0(r.res, IF r.res = "ok" THEN c.ns ELSE ""), path |-> s.path, L |-> r.L]
             : r \in IReq(dk, s.path, s.L, s.path, c.ns, c.ver, c.lazy)}
      [] c.op = "RequirePrivate" ->
            {[o |-> Plain0(r.res, IF r.res = "ok" THEN c.ns ELSE ""), path |-> s.path, L |-> r.L]
             : r \in IReq(dk, s.path, s.L, <<c.dir>>, c.ns, c.ver, c.lazy)}
      [] c.op = "LoadMem" ->
            {[o |-> Plain0(r.res, IF r.res = "ok" THEN SrcFile(dk, c).ins ELSE ""), path |-> s.path, L |-> r.L]
             : r \in ILoadMem(dk, s.path, s.L, SrcFile(dk, c), c.lazy)}
      [] OTHER -> {[o |-> IQuery(dk, s, c), path |-> s.path, L |-> s.L]}

---------------------------------------------------------------------------
(*                           PROPERTY LAYER                                *)
(* s, t = [path, L] before / after; c = call; o = observation.             *)

Private(c) == c.op = "RequirePrivate"
IsReq(c) == c.op \in {"Require", "RequirePrivate"}
IsMem(c) == c.op = "LoadMem"
SP(s, c) == IF Private(c) THEN <<c.dir>> ELSE s.path
Tgt(dk, c) == IF IsMem(c) THEN SrcFile(dk, c).ins ELSE c.ns
Was(dk, s, c) == Tgt(dk, c) \in DOMAIN s.L
\* the zones where the statement is silent about the OUTCOME (not about consistency):
\* a non-lazy call on a lazily loaded namespace; another version offered from memory
LazyUp(dk, s, c) == Was(dk, s, c) /\ s.L[Tgt(dk, c)].lazy /\ ~c.lazy
MemOther(dk, s, c) == IsMem(c) /\ Was(dk, s, c) /\ s.L[Tgt(dk, c)].c.ver # SrcFile(dk, c).iver
Zone(dk, s, c) == LazyUp(dk, s, c) \/ MemOther(dk, s, c)

\* does the statement determine which file is elected?  explicit version: always; latest:
\* when every candidate name carries a plain major[.minor] version
Speaks(dk, s, c) == IsMem(c) \/ c.ver # NONE \/ \A e \in CandsAll(dk, SP(s, c), c.ns) : Plain(e.f.fver)
NoCandidate(dk, s, c) ==
    IsReq(c) /\ IF c.ver # NONE THEN FirstFile(dk, SP(s, c), c.ns, c.ver) = {}
                ELSE CandsAll(dk, SP(s, c), c.ns) = {}
\* the files the statement allows to be elected (several only for equal versions in ONE directory)
Elected(dk, s, c) ==
    IF IsMem(c) THEN {Loc(BUILTIN, [SrcFile(dk, c) EXCEPT !.fns = "", !.fver = ""])}
    ELSE IF c.ver # NONE THEN FirstFile(dk, SP(s, c), c.ns, c.ver)
    ELSE LET C == CandsAll(dk, SP(s, c), c.ns)
         IN {Loc(e.dir, e.f) : e \in {e \in C : \A e2 \in C :
                 /\ ~KGt(VKey(e2.f.fver), VKey(e.f.fver))
                 /\ (KEq(VKey(e2.f.fver), VKey(e.f.fver)) => e.i <= e2.i)}}
\* "contents agree with the name" (a typelib handed over in memory has no name)
GoodLoc(c, e) == IF IsMem(c) THEN TRUE ELSE Good(e.f) /\ e.f.fns = c.ns
EntryIs(en, e) == en.c = Content(e.f) /\ en.dir = e.dir /\ en.fns = e.f.fns /\ en.fver = e.f.fver

\* dependency closure of a dependency list: a node is expanded when its namespace is not loaded
\* and the first file on the (global) path with that name is good
RECURSIVE Clo(_, _, _, _, _)
Clo(dk, gp, L, todo, seen) ==
    IF todo = {} THEN seen
    ELSE LET x == CHOOSE x \in todo : TRUE
             ff == FirstFile(dk, gp, x.ns, x.ver)
             more == IF x.ns \in DOMAIN L \/ ff = {} THEN {}
                     ELSE LET f == (CHOOSE e \in ff : TRUE).f IN IF Good(f) THEN Rng(f.deps) ELSE {}
         IN Clo(dk, gp, L, (todo \cup more) \ (seen \cup {x}), seen \cup {x})
Nodes(dk, s, e) == Clo(dk, s.path, s.L, Rng(e.f.deps), {})
NodeMissing(dk, s, x) == x.ns \notin DOMAIN s.L /\ FirstFile(dk, s.path, x.ns, x.ver) = {}
NodeBad(dk, s, x) == /\ x.ns \notin DOMAIN s.L
                     /\ \E l \in FirstFile(dk, s.path, x.ns, x.ver) : ~Good(l.f)
NodeConfl(dk, s, e) ==
    LET all == Nodes(dk, s, e) \cup {[ns |-> e.f.ins, ver |-> e.f.iver]}
                \cup {[ns |-> m, ver |-> s.L[m].c.ver] : m \in DOMAIN s.L}
    IN \E a \in all, b \in all : a.ns = b.ns /\ a.ver # b.ver
FailKinds(dk, s, e) ==
    (IF \E x \in Nodes(dk, s, e) : NodeMissing(dk, s, x) THEN {"NOT_FOUND"} ELSE {})
    \cup (IF \E x \in Nodes(dk, s, e) : NodeBad(dk, s, x) THEN {"MISMATCH"} ELSE {})
    \cup (IF NodeConfl(dk, s, e) THEN {"CONFLICT"} ELSE {})
Consistent(dk, s, e) == FailKinds(dk, s, e) = {}
TouchesLazy(dk, s, e) == \E x \in Nodes(dk, s, e) : x.ns \in DOMAIN s.L /\ s.L[x.ns].lazy

\* an entry that is backed by a real file whose contents agree with its name
LegitFile(dk, en, m) == /\ en.dir \in DOMAIN dk
                        /\ \E f \in dk[en.dir] : /\ f.fns = en.fns /\ f.fver = en.fver /\ Good(f)
                                                 /\ f.fns = m /\ en.c = Content(f)

\* antecedents (when does the clause speak) and consequents, by name
NewSpeaks(dk, s, c) == c.op \in MutOps /\ ~Was(dk, s, c) /\ Speaks(dk, s, c) /\ ~NoCandidate(dk, s, c)
AllGood(dk, s, c) == \A e \in Elected(dk, s, c) : GoodLoc(c, e)

Ante(k, dk, s, c, o) ==
  CASE k = "PathFrame" ->
         c.op # "Prepend"
    [] k = "PrependFront" ->
         c.op = "Prepend"
    [] k = "QueryPure" ->
         c.op \in QueryOps
    [] k = "ResultKind" ->
         c.op \in MutOps
    [] k = "EagerStable" ->
         c.op \in MutOps
    [] k = "LazyStable" ->
         c.op \in MutOps /\ \E m \in DOMAIN s.L : s.L[m].lazy /\ ~(m = Tgt(dk, c) /\ Zone(dk, s, c))
    [] k = "Hit" ->
         c.op \in MutOps /\ Was(dk, s, c) /\ ~Zone(dk, s, c)
                     /\ (IsMem(c) \/ c.ver = NONE \/ c.ver = s.L[c.ns].c.ver)
    [] k = "Conflict" ->
         IsReq(c) /\ Was(dk, s, c) /\ ~Zone(dk, s, c) /\ c.ver # NONE /\ c.ver # s.L[c.ns].c.ver
    [] k = "NotFound" ->
         IsReq(c) /\ ~Was(dk, s, c) /\ NoCandidate(dk, s, c)
    [] k = "Refused" ->
         NewSpeaks(dk, s, c) /\ \A e \in Elected(dk, s, c) : ~GoodLoc(c, e)
    [] k = "LoadedRight" ->
         NewSpeaks(dk, s, c) /\ o.res = "ok"
    [] k = "DepsOutcome" ->
         NewSpeaks(dk, s, c) /\ AllGood(dk, s, c) /\ ~c.lazy
                     /\ \A e \in Elected(dk, s, c) : ~TouchesLazy(dk, s, e)
    [] k = "LazyOutcome" ->
         NewSpeaks(dk, s, c) /\ AllGood(dk, s, c) /\ c.lazy
    [] k = "FailRegistersNot" ->
         c.op \in MutOps /\ ~Was(dk, s, c) /\ o.res # "ok"
    [] k = "ClosureLoaded" ->
         c.op \in MutOps /\ ~c.lazy /\ o.res = "ok"
    [] k = "OnlyClosure" ->
         c.op \in MutOps
    [] k = "ZoneConsistent" ->
         c.op \in MutOps /\ Zone(dk, s, c)
    [] k = "Q_Loaded" ->
         c.op = "LoadedNamespaces"
    [] k = "Q_Version" ->
         c.op = "Version"
    [] k = "Q_Path" ->
         c.op = "TypelibPath"
    [] k = "Q_ImmediateDeps" ->
         c.op = "ImmediateDeps"
    [] k = "Q_Deps" ->
         c.op = "Deps" /\ (c.ns \in DOMAIN s.L => DepsAllLoaded(s.L, c.ns))
    [] k = "Q_Enumerate" ->
         c.op = "EnumerateVersions"
    [] k = "Q_IsRegistered" ->
         c.op = "IsRegistered"
    [] k = "X_EnumerateLoaded" ->
         c.op = "EnumerateVersions" /\ c.ns \in DOMAIN s.L

Conseq(k, dk, s, c, o, t) ==
  LET L == s.L
      n == Tgt(dk, c)
      E == Elected(dk, s, c)
      ld == c.ns \in DOMAIN L
      zone == Zone(dk, s, c)
  IN
  CASE k = "PathFrame" -> t.path = s.path
    \* directories prepended later take precedence over earlier ones
    [] k = "PrependFront" -> t.path = <<c.dir>> \o s.path /\ t.L = L /\ o.res = "ok"
    [] k = "QueryPure" -> t.L = L
    \* a call succeeds or fails with one of the three errors of the statement
    [] k = "ResultKind" -> o.res \in {"ok", "NOT_FOUND", "MISMATCH", "CONFLICT"}
    \* OneVersionPerNs, dynamic form: what is loaded stays loaded, unchanged
    [] k = "EagerStable" ->
          \A m \in DOMAIN L : (~L[m].lazy /\ ~(m = n /\ zone)) => (m \in DOMAIN t.L /\ t.L[m] = L[m])
    \* a lazily loaded namespace may at most be completed (as somebody's dependency) from a good file
    [] k = "LazyStable" ->
          \A m \in DOMAIN L : (L[m].lazy /\ ~(m = n /\ zone)) =>
              (m \in DOMAIN t.L /\ (t.L[m] = L[m] \/ (~t.L[m].lazy /\ LegitFile(dk, t.L[m], m))))
    \* already loaded, versions agree: returned, nothing changes
    [] k = "Hit" -> o.res = "ok" /\ o.ret = n /\ t.L = L
    \* already loaded, versions differ: version-conflict error
    [] k = "Conflict" -> o.res = "CONFLICT" /\ t.L = L
    \* no file <ns>-<version>.typelib / no file <ns>-*.typelib on the search path
    [] k = "NotFound" -> o.res = "NOT_FOUND" /\ t.L = L
    \* the elected file names another namespace or version than its file name: refused
    [] k = "Refused" -> o.res = "MISMATCH" /\ t.L = L
    \* success = exactly the elected file got loaded
    [] k = "LoadedRight" ->
          \E e \in E : (GoodLoc(c, e) /\ n \in DOMAIN t.L /\ EntryIs(t.L[n], e) /\ o.ret = n
                        /\ (~c.lazy => ~t.L[n].lazy))
    \* it succeeds iff every recorded dependency can be loaded at the recorded version
    [] k = "DepsOutcome" ->
          IF o.res = "ok" THEN \E e \in E : Consistent(dk, s, e)
                          ELSE \E e \in E : o.res \in FailKinds(dk, s, e)
    [] k = "LazyOutcome" -> (o.res = "ok" \/ \E e \in E : o.res \in FailKinds(dk, s, e))
    \* a failed call does not register its target - unless the target's own dependency closure
    \* names another version of it, which then IS loaded (as a dependency's dependency) when the
    \* conflict is discovered
    [] k = "FailRegistersNot" ->
          \/ n \notin DOMAIN t.L
          \/ /\ o.res = "CONFLICT"
             /\ LegitFile(dk, t.L[n], n) /\ ~t.L[n].lazy
             /\ \E e \in E :
                   /\ t.L[n].c.ver # e.f.iver
                   \* (a lazily loaded namespace in the closure is re-read from its file when it is needed
                   \*  eagerly, and brings in ITS recorded dependencies, which Nodes does not follow)
                   /\ \/ TouchesLazy(dk, s, e)
                      \/ \E x \in Nodes(dk, s, e) : x.ns = n /\ x.ver = t.L[n].c.ver
    \* "Loading a namespace also loads every dependency recorded in it": after a successful non-lazy
    \* call the whole dependency closure of the target - followed through whatever is registered,
    \* lazily registered dependencies included - is registered
    [] k = "ClosureLoaded" -> n \in DOMAIN t.L /\ DepsAllLoaded(t.L, n)
    \* nothing else gets loaded than dependencies, each from the first directory having
    \* <dep>-<recorded version>.typelib   (in the silent zones: from SOME good file)
    [] k = "OnlyClosure" ->
          \A m \in (DOMAIN t.L) \ (DOMAIN L) : (m # n) =>
              (/\ ~t.L[m].lazy
               /\ IF zone \/ ~Speaks(dk, s, c) \/ Was(dk, s, c) \/ (\E e \in E : TouchesLazy(dk, s, e))
                  THEN LegitFile(dk, t.L[m], m)
                  ELSE \E e \in E : \E x \in Nodes(dk, s, e) :
                          (x.ns = m /\ \E l \in FirstFile(dk, s.path, m, x.ver) : (Good(l.f) /\ EntryIs(t.L[m], l))))
    \* silent zones: any of the statement's results, but what is registered afterwards is a real thing
    [] k = "ZoneConsistent" ->
          /\ (o.res = "ok") => (n \in DOMAIN t.L /\ o.ret = n)
          \* a call that fails does not unload what was loaded (a version pulled in by the target's own
          \* dependency closure may have completed a lazily loaded target before the conflict shows)
          /\ (o.res # "ok") => (/\ n \in DOMAIN t.L
                                /\ \/ t.L[n] = L[n]
                                   \/ (o.res = "CONFLICT" /\ ~t.L[n].lazy /\ LegitFile(dk, t.L[n], n)))
          /\ (n \in DOMAIN t.L) =>
                (\/ (n \in DOMAIN L /\ t.L[n] = L[n])
                 \* (from the call's own search path, or - when the target's dependency closure comes back to
                 \*  the lazily loaded target and completes it - from the global path the closure is resolved on)
                 \/ (LegitFile(dk, t.L[n], n) /\ ((\E i \in DOMAIN SP(s, c) : SP(s, c)[i] = t.L[n].dir)
                                                  \/ (\E i \in DOMAIN s.path : s.path[i] = t.L[n].dir)))
                 \/ (IsMem(c) /\ t.L[n].dir = BUILTIN /\ t.L[n].fns = "" /\ t.L[n].c = Content(SrcFile(dk, c))))
    [] k = "Q_Loaded" -> o.res = "ok" /\ o.names = DOMAIN L
    [] k = "Q_Version" -> IF ld THEN o.res = "ok" /\ o.ret = L[c.ns].c.ver ELSE o.res = "notloaded"
    [] k = "Q_Path" ->
          IF ld THEN o.res = "ok" /\ o.rdir = L[c.ns].dir /\ o.rfns = L[c.ns].fns /\ o.rfver = L[c.ns].fver
                ELSE o.res = "notloaded"
    [] k = "Q_ImmediateDeps" ->
          IF ld THEN o.res = "ok" /\ o.names = {DepStr(d) : d \in Rng(L[c.ns].c.deps)}
                ELSE o.res = "notloaded"
    [] k = "Q_Deps" ->
          IF ld THEN o.res = "ok" /\ o.names = {DepStr(d) : d \in TransDeps(L, Rng(L[c.ns].c.deps), {})}
                ELSE o.res = "notloaded"
    \* (not in the statement's text, kept weak) every plainly named file's version and the loaded
    \* version are listed; nothing is listed that is neither a file of that name nor loaded
    [] k = "Q_Enumerate" ->
          /\ o.res = "ok"
          /\ \A e \in CandsAll(dk, s.path, c.ns) : (Plain(e.f.fver) => e.f.fver \in o.names)
          /\ \A v \in o.names : ((ld /\ v = L[c.ns].c.ver) \/ \E e \in CandsAll(dk, s.path, c.ns) : e.f.fver = v)
    [] k = "Q_IsRegistered" ->
          o.res = (IF ld /\ (c.ver = NONE \/ c.ver = L[c.ns].c.ver) THEN "yes" ELSE "no")
    \* BEYOND THE STATEMENT OF C17 (documented behaviour of g_irepository_enumerate_versions: "the
    \* currently loaded version of a namespace is also part of the available versions"); never part
    \* of a verdict, reported as a note.  The real code breaks it: g_list_find_custom() is given
    \* g_str_equal as its GCompareFunc (0 = match), so the loaded version is left out whenever some
    \* OTHER version is listed.
    [] k = "X_EnumerateLoaded" -> L[c.ns].c.ver \in o.names

ClauseNames == {"PathFrame", "PrependFront", "QueryPure", "ResultKind", "EagerStable", "LazyStable", "Hit", "Conflict", "NotFound", "Refused", "LoadedRight", "DepsOutcome", "LazyOutcome", "FailRegistersNot", "ClosureLoaded", "OnlyClosure", "ZoneConsistent", "Q_Loaded", "Q_Version", "Q_Path", "Q_ImmediateDeps", "Q_Deps", "Q_Enumerate", "Q_IsRegistered"}

ExtraNames == {"X_EnumerateLoaded"}
ExtraBroken(dk, s, c, o, t) == {k \in ExtraNames : Ante(k, dk, s, c, o) /\ ~Conseq(k, dk, s, c, o, t)}

\* state clauses, true of every state reached by the real code
\* DepsClosed: every (non-lazily) loaded namespace's recorded dependencies are loaded at the recorded version
DepsClosed(L) == \A m \in DOMAIN L : ~L[m].lazy =>
                    \A d \in Rng(L[m].c.deps) : d.ns \in DOMAIN L /\ L[d.ns].c.ver = d.ver
\* OneVersionPerNs / ReportedMatchesLoaded, state form: an entry is registered under its own namespace
OwnName(L) == \A m \in DOMAIN L : L[m].c.ns = m
StateNames == {"DepsClosed", "OwnName"}
StateHolds(L) == [DepsClosed |-> DepsClosed(L), OwnName |-> OwnName(L)]

\* Root-cause classification of a step (used to make findings precise: a broken clause is
\* reported / tolerated as the pair <<clause, cause>>, never by clause name alone)
InternalConfl(dk, s, c) ==       \* two versions of one namespace within root + dependency closure
    c.op \in MutOps /\ (IsMem(c) \/ ~NoCandidate(dk, s, c)) /\
    \E e \in (IF IsMem(c) \/ c.ver # NONE THEN Elected(dk, s, c)
              ELSE {Loc(x.dir, x.f) : x \in IElect(dk, SP(s, c), c.ns)}) :
        LET all == Nodes(dk, s, e) \cup {[ns |-> e.f.ins, ver |-> e.f.iver]}
        IN \E a \in all, b \in all : a.ns = b.ns /\ a.ver # b.ver
Cause(dk, s, c) ==
    IF c.op \notin MutOps THEN "none"
    ELSE IF MemOther(dk, s, c) THEN "mem_other_version"
    ELSE IF LazyUp(dk, s, c) THEN "lazy_upgrade"
    ELSE IF /\ IsReq(c) /\ c.ver = NONE /\ ~Was(dk, s, c)
            /\ \E x \in IElect(dk, SP(s, c), c.ns) : x.f.ins = c.ns /\ x.f.iver # x.f.fver
         THEN "versionless_mismatch"
    ELSE IF /\ ~Was(dk, s, c) /\ (IsMem(c) \/ ~NoCandidate(dk, s, c))
            /\ \E e \in (IF IsMem(c) \/ c.ver # NONE THEN Elected(dk, s, c)
                         ELSE {Loc(x.dir, x.f) : x \in IElect(dk, SP(s, c), c.ns)}) : TouchesLazy(dk, s, e)
         THEN "lazy_dependency"
    ELSE IF ~Was(dk, s, c) /\ InternalConfl(dk, s, c) THEN "closure_conflict"
    ELSE "none"

\* the clauses an observed step breaks, as <<clause, cause>>; state clauses count when they BECOME false
Broken(dk, s, c, o, t) ==
    {<<k, Cause(dk, s, c)>> : k \in {k \in ClauseNames : Ante(k, dk, s, c, o) /\ ~Conseq(k, dk, s, c, o, t)}
                                     \cup {k \in StateNames : StateHolds(s.L)[k] /\ ~StateHolds(t.L)[k]}}
Exercised(dk, s, c, o) == {k \in ClauseNames : Ante(k, dk, s, c, o)}

---------------------------------------------------------------------------
(*                    MODEL CHECKING: I-layer => property layer            *)
S == [path |-> path, L |-> loaded]
NoCall == [c |-> Call("Init", "", "", FALSE, 0, "", ""), o |-> Plain0("ok", ""), broken |-> {}, pre |-> EmptyMap]

FilesOf(dk) == UNION {{[d |-> d, f |-> f] : f \in dk[d]} : d \in DOMAIN dk}
Calls(dk) ==
    (IF "Prepend" \in Ops THEN {Call("Prepend", "", "", FALSE, d, "", "") : d \in Dirs} ELSE {})
    \cup (IF "Require" \in Ops
          THEN {Call("Require", n, v, lz, 0, "", "") : n \in NS, v \in ReqVers \cup {NONE}, lz \in Lazies} ELSE {})
    \cup (IF "RequirePrivate" \in Ops
          THEN {Call("RequirePrivate", n, v, lz, d, "", "") : n \in NS, v \in ReqVers \cup {NONE}, lz \in Lazies, d \in Dirs}
          ELSE {})
    \cup (IF "LoadMem" \in Ops
          THEN {Call("LoadMem", "", "", lz, x.d, x.f.fns, x.f.fver) : x \in FilesOf(dk), lz \in Lazies} ELSE {})
    \cup {Call(q, n, "", FALSE, 0, "", "") : q \in (Ops \cap QueryOps) \ {"LoadedNamespaces", "IsRegistered"}, n \in NS}
    \cup (IF "LoadedNamespaces" \in Ops THEN {Call("LoadedNamespaces", "", "", FALSE, 0, "", "")} ELSE {})
    \cup (IF "IsRegistered" \in Ops THEN {Call("IsRegistered", n, v, FALSE, 0, "", "") : n \in NS, v \in ReqVers \cup {NONE}} ELSE {})

Init == /\ disk \in DiskConfigs
        /\ path \in {e \o <<SYSDIR>> : e \in EnvConfigs}
        /\ loaded = EmptyMap
        /\ last = NoCall
        /\ ncalls = 0

Do(c) == \E r \in IStep(disk, S, c) :
            /\ path' = r.path
            /\ loaded' = r.L
            /\ last' = [c |-> c, o |-> r.o, broken |-> IF <<"SKIP", "SKIP">> \in Known THEN {}      \* simulation: behaviours only
                                  ELSE Broken(disk, S, c, r.o, [path |-> r.path, L |-> r.L]),
                        pre |-> loaded]
            /\ ncalls' = ncalls + 1
            /\ UNCHANGED disk

\* one action per public call
Prepend           == \E c \in Calls(disk) : c.op = "Prepend" /\ Do(c)
Require           == \E c \in Calls(disk) : c.op = "Require" /\ Do(c)
RequirePrivate    == \E c \in Calls(disk) : c.op = "RequirePrivate" /\ Do(c)
LoadMem           == \E c \in Calls(disk) : c.op = "LoadMem" /\ Do(c)
LoadedNamespaces  == \E c \in Calls(disk) : c.op = "LoadedNamespaces" /\ Do(c)
Version           == \E c \in Calls(disk) : c.op = "Version" /\ Do(c)
TypelibPath       == \E c \in Calls(disk) : c.op = "TypelibPath" /\ Do(c)
ImmediateDeps     == \E c \in Calls(disk) : c.op = "ImmediateDeps" /\ Do(c)
Deps              == \E c \in Calls(disk) : c.op = "Deps" /\ Do(c)
EnumerateVersions == \E c \in Calls(disk) : c.op = "EnumerateVersions" /\ Do(c)
IsRegistered      == \E c \in Calls(disk) : c.op = "IsRegistered" /\ Do(c)

Next == /\ ncalls < MaxCalls
        /\ last.o.res # "crash"
        /\ \/ Prepend \/ Require \/ RequirePrivate \/ LoadMem \/ LoadedNamespaces \/ Version \/ TypelibPath
           \/ ImmediateDeps \/ Deps \/ EnumerateVersions \/ IsRegistered
Spec == Init /\ [][Next]_vars

\* invariants
ImplMeetsProperty == last.broken \subseteq Known
OneVersionPerNs == OwnName(loaded)
DepsClosedInv == (\A x \in Known : x[1] # "DepsClosed") => DepsClosed(loaded)
\* NOT guaranteed by the code (witness cfg Repository_w_partial): dependencies registered before a
\* later dependency fails stay registered; the property layer only demands FailRegistersNot
FailedCallChangesNothing == (last.c.op \in MutOps /\ last.o.res # "ok") => loaded = last.pre
=============================================================================

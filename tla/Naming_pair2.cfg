SPECIFICATION Spec
CONSTANTS
  Dev = {}
  Mode = "pair2"
  AnnSet = {"-", "method", "constructor"}
INVARIANT I_Present
INVARIANT I_Once
INVARIANT I_MovedTo
INVARIANT I_NoDup
INVARIANT I_Name
INVARIANT I_Method
INVARIANT I_Ctor
INVARIANT I_Absent
INVARIANT I_Folded
INVARIANT OneOwner
INVARIANT OrderIndependent
CHECK_DEADLOCK FALSE

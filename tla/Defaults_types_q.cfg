SPECIFICATION Spec
CONSTANTS
  Dev = {}
  Mode = "types_q"
  MaxParams = 0
CHECK_DEADLOCK FALSE
INVARIANT ImplSatisfiesProperty
INVARIANT TriagedAreDeviations
INVARIANT Consistent

---------------------------- MODULE IdentifyTrace ----------------------------
(* C03 property layer evaluated by TLC on observations of the REAL scanner (harness/props/c03.py).

   rename observation: [id, kind="rename", fns (sequence of C symbols in walk order), ren (sequence of
     [f, t]: block of f carries (rename-to t); t may name a missing symbol), outs (sequence of
     [f, name, shadows, shadowedBy]: GIR name and emitted attributes, "-" = absent), warned (symbols whose
     rename-to was refused with a warning)]
   node observation: [id, kind="node", nkind, key (the identifier a block must carry to document this
     element), invKey (for a virtual method: C symbol of its invoker or "-"), blocks (all blocks of the
     namespace: [key, doc, since, depver, deptext, stab, attrs <<[k, v]>>, skip, targets <<[attr, value]>>]),
     out [doc, version, deprecated, depver, deptext, stability, attrs <<[k, v]>>, intro0, targets <<[attr, value]>>]] *)
EXTENDS Naturals, Sequences, FiniteSets, TLC, Json, IOUtils, SequencesExt

Obs == JsonDeserialize(IOEnv.TRACE_FILE)
None == "-"

\* ---- rename-to
Out(r, f) == LET S == {i \in 1..Len(r.outs) : r.outs[i].f = f} IN r.outs[CHOOSE i \in S : TRUE]
HasOut(r, f) == \E i \in 1..Len(r.outs) : r.outs[i].f = f
NameOf(r, f) == Out(r, f).name
FnSet(r) == {r.outs[i].f : i \in 1..Len(r.outs)}
RenameClauses(r) == [
    \* emitted shadows / shadowed-by attributes point at each other
    Mutual |-> /\ \A f \in FnSet(r) : Out(r, f).shadows # None =>
                     \E g \in FnSet(r) : NameOf(r, g) = Out(r, f).shadows /\ Out(r, g).shadowedBy = NameOf(r, f)
               /\ \A g \in FnSet(r) : Out(r, g).shadowedBy # None =>
                     \E f \in FnSet(r) : NameOf(r, f) = Out(r, g).shadowedBy /\ Out(r, f).shadows = NameOf(r, g),
    \* a rename-to that was not refused (warning) took effect on exactly the named pair
    Honoured |-> \A k \in 1..Len(r.ren) :
                    LET f == r.ren[k].f  t == r.ren[k].t IN
                    (f \notin ToSet(r.warned) /\ HasOut(r, f) /\ HasOut(r, t)) =>
                        (Out(r, f).shadows = NameOf(r, t) /\ Out(r, t).shadowedBy = NameOf(r, f)),
    \* a function without a rename-to annotation never shadows anything
    OnlyAnnotated |-> \A f \in FnSet(r) : Out(r, f).shadows # None => \E k \in 1..Len(r.ren) : r.ren[k].f = f ]

\* ---- association
BlocksAt(r, key) == {i \in 1..Len(r.blocks) : r.blocks[i].key = key}
HasBlock(r, key) == BlocksAt(r, key) # {}
BlockOf(r, key) == r.blocks[CHOOSE i \in BlocksAt(r, key) : TRUE]
\* the block that documents the element: its own; a virtual method without one inherits its invoker's
Src(r) == IF HasBlock(r, r.key) THEN r.key
          ELSE IF r.nkind = "vfunc" /\ r.invKey # None /\ HasBlock(r, r.invKey) THEN r.invKey ELSE None
Documented(r) == Src(r) # None
B(r) == BlockOf(r, Src(r))
PairSet(s) == {<<s[i].k, s[i].v>> : i \in 1..Len(s)}
TargetSet(s) == {<<s[i].attr, s[i].value>> : i \in 1..Len(s)}

StrictAttrs == {"emitter", "copy-function", "free-function", "foreign"}
NodeClauses(r) == [
    Doc        |-> r.out.doc = (IF Documented(r) THEN B(r).doc ELSE ""),
    Since      |-> r.out.version = (IF Documented(r) THEN B(r).since ELSE ""),
    Deprecated |-> /\ r.out.depver = (IF Documented(r) THEN B(r).depver ELSE "")
                   /\ r.out.deptext = (IF Documented(r) THEN B(r).deptext ELSE "")
                   /\ r.out.deprecated = (Documented(r) /\ B(r).depver # ""),
    Stability  |-> r.out.stability = (IF Documented(r) THEN B(r).stab ELSE ""),
    Attributes |-> PairSet(r.out.attrs) = (IF Documented(r) THEN PairSet(B(r).attrs) ELSE {}),
    Skip       |-> (Documented(r) /\ B(r).skip) => r.out.intro0,
    \* every target annotation of the documenting block appears as the corresponding attribute ...
    Targets    |-> Documented(r) => TargetSet(B(r).targets) \subseteq TargetSet(r.out.targets),
    \* ... and no target attribute appears that the documenting block does not state
    \* (only for attributes no pairing heuristic or runtime dump can supply)
    NoForeignTargets |-> {p \in TargetSet(r.out.targets) : p[1] \in StrictAttrs}
                            \subseteq (IF Documented(r) THEN TargetSet(B(r).targets) ELSE {}) ]

RNames == {"Mutual", "Honoured", "OnlyAnnotated"}
NNames == {"Doc", "Since", "Deprecated", "Stability", "Attributes", "Skip", "Targets", "NoForeignTargets"}
Holds(r, c) == IF r.kind = "rename" THEN (c \in RNames => RenameClauses(r)[c]) ELSE (c \in NNames => NodeClauses(r)[c])
Detail(r, c) == IF r.kind = "rename" THEN "rename" ELSE r.nkind \o (IF Documented(r) /\ Src(r) # r.key THEN "/inherited" ELSE IF Documented(r) THEN "/own" ELSE "/none")
Rejected == { <<Obs[q[1]].id, q[2], Detail(Obs[q[1]], q[2])>> :
                 q \in { p \in (1..Len(Obs)) \X (RNames \cup NNames) : ~Holds(Obs[p[1]], p[2]) } }
Exercised == [c \in (RNames \cup NNames) |->
                 Cardinality({i \in 1..Len(Obs) : IF Obs[i].kind = "rename" THEN c \in RNames
                                                   ELSE (c \in NNames /\ Documented(Obs[i]))})]
ASSUME JsonSerialize(IOEnv.VERDICT_FILE, [n |-> Len(Obs), rejected |-> SetToSeq(Rejected), exercised |-> Exercised])
VARIABLE done
Init == done = FALSE
Next == ~done /\ done' = TRUE
=============================================================================

SPECIFICATION Spec
CONSTANTS
  N = 2
  Kinds <- K_flags
  TKs <- TK_small
  AllowList = TRUE
  AllowNSkip = TRUE
  AllowVSkip = TRUE
  AllowReturn = FALSE
  AllowMoved = FALSE
  MaxFunctions = 1
  Stepwise = FALSE
  COrder = FALSE
  Orders <- Id2
  KnownShapes <- Known_any
  ExportViol = 1
  ExportOk = 13
INVARIANT NoUnknownViolation
CHECK_DEADLOCK FALSE

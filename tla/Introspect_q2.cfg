SPECIFICATION Spec
CONSTANTS
  N = 2
  Kinds <- K_flags
  TKs <- TK_small
  AllowList = TRUE
  AllowNSkip = TRUE
  AllowVSkip = TRUE
  AllowReturn = FALSE
  AllowMoved = FALSE
  AllowHost = FALSE
  AllowRename = FALSE
  MaxFunctions = 1
  Stepwise = FALSE
  AliasRecheck = TRUE
  CallableWalks = 2
  RenameScopeCheck = TRUE
  COrder = FALSE
  Orders <- Id2
  KnownShapes <- Known_any
  ExportViol = 1
  ExportOk = 13
INVARIANT NoUnknownViolation
CHECK_DEADLOCK FALSE

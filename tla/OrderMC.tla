------------------------------ MODULE OrderMC ------------------------------
(* Input sets for the exhaustive configurations of Order.tla (constants as definitions). *)
EXTENDS Order

Opt(c, d) == IF c THEN <<d>> ELSE <<>>
Rec(n, p) == [kind |-> "rec", n |-> n, pat |-> p, owner |-> 0, uses |-> "-"]
Fn(n, own, t) == [kind |-> "fn", n |-> n, pat |-> "-", owner |-> own, uses |-> t]
Al(n) == [kind |-> "alias", n |-> n, pat |-> "-", owner |-> 0, uses |-> "-"]
\* record 1, function 2 (plain "p" or method candidate "m" of record 1; uses a DepA type), record 3, alias 4,
\* function 5 (method candidate of record 3 "m3" or of record 1 "m1"; uses a DepB type)
Decls(p1, o2, p3, a4, o5) ==
    Opt(p1 # "-", Rec(1, p1)) \o Opt(o2 # "-", Fn(2, IF o2 = "m" THEN 1 ELSE 0, "t3")) \o Opt(p3 # "-", Rec(3, p3))
    \o Opt(a4, Al(4)) \o Opt(o5 # "-", Fn(5, IF o5 = "m1" THEN 1 ELSE 3, "t4"))
Pats == {"-", "T", "TS", "S", "A", "TTS"} \cup (IF DupBodies THEN {"TSS"} ELSE {})
Blk(i, j) == [ident |-> i, cf |-> 1 + ((i + j) % 2), pay |-> i * 10 + j]
\* canonical block sequence: by identifier
BlockSeq(B) == ByKey({[key |-> b.pay, v |-> b] : b \in B})
Idents(ds) == {ds[i].n : i \in 1..Len(ds)} \cup {90, 91}
BlockSets(ds, maxb) ==
    {B \cup D : B \in {X \in SUBSET {Blk(i, 1) : i \in Idents(ds)} : Cardinality(X) <= maxb},
                D \in (IF DupBlocks THEN {{Blk(Min({ds[i].n : i \in 1..Len(ds)}), 2)}} ELSE {{}})}
DeclSets(P1, O2, P3, A4, O5) == {x \in {Decls(p1, o2, p3, a4, o5) : p1 \in P1, o2 \in O2, p3 \in P3, a4 \in A4, o5 \in O5} : x # <<>>}
InputsOf(P1, O2, P3, A4, O5, maxb, Deps) ==
    UNION {{[decls |-> ds, blocks |-> BlockSeq(B), deps |-> d] : B \in BlockSets(ds, maxb), d \in Deps} :
              ds \in DeclSets(P1, O2, P3, A4, O5)}
\* every declared element documented, two SECTION blocks: the case set exported to the harness
FullBlocks(ds) == {Blk(i, 1) : i \in Idents(ds)}

MC_Quick    == InputsOf(Pats, {"-", "p", "m"}, {"-", "TS"}, BOOLEAN, {"-"}, 2, {"chain", "diamond"})
MC_Thorough == InputsOf(Pats, {"-", "p", "m"}, Pats, BOOLEAN, {"-", "m3", "m1"}, 2, {"chain", "diamond"})
MC_Blocks3  == InputsOf(Pats, {"m"}, {"TS", "S"}, {TRUE}, {"-", "m1"}, 3, {"diamond"})
MC_Perm     == InputsOf({"-", "TS", "S"}, {"-", "m"}, {"-", "T"}, BOOLEAN, {"-", "m1"}, 1, {"diamond"})
MC_Members  == InputsOf({"TS"}, {"m"}, {"-"}, {FALSE}, {"m1"}, 0, {"chain"})
MC_Small    == InputsOf(Pats, {"m"}, {"TS"}, {TRUE}, {"m1"}, 2, {"diamond"})
=============================================================================

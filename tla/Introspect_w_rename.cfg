SPECIFICATION Spec
CONSTANTS
  N = 2
  Kinds <- K_fncls
  TKs <- TK_small
  AllowList = FALSE
  AllowNSkip = FALSE
  AllowVSkip = FALSE
  AllowReturn = FALSE
  AllowMoved = FALSE
  AllowHost = FALSE
  AllowRename = TRUE
  MaxFunctions = 1
  Stepwise = TRUE
  AliasRecheck = TRUE
  CallableWalks = 2
  RenameScopeCheck = FALSE
  COrder = TRUE
  Orders <- Id2
  KnownShapes <- W_rename
  ExportViol = 0
  ExportOk = 0
INVARIANT NoWitness
CHECK_DEADLOCK FALSE

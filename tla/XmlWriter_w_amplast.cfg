SPECIFICATION EscSpec3
CONSTANTS
  ABS <- MC_Abs
  HIST <- MC_Hist
  EscVariant = "amp_last"
  AllowMisuse = FALSE
  OpSet <- CtlOps
  MaxOps = 0
CHECK_DEADLOCK FALSE
INVARIANT InvTextRoundTrip

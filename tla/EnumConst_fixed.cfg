INIT Init
NEXT Next
CONSTANTS
  EmptyPrefixBug = FALSE
  U8Mod16 = FALSE
INVARIANT EnumOK
INVARIANT ConstOK
INVARIANT ConstInRangeFixed
INVARIANT WrapFits
CHECK_DEADLOCK FALSE

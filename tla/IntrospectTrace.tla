--------------------------- MODULE IntrospectTrace ---------------------------
(***************************************************************************)
(* C05 on observations of the REAL code (batch idiom, DESIGN.md A.2).      *)
(* One observation = the flat description of one GIR file                  *)
(* (harness/c05proj.py: a structural flattening of the XML, no judging):   *)
(*   [id, ns, avail, partial, defs, uses, idx, pairs, case, pred]          *)
(* Verdict: Closed (tla/IntrospectProp.tla) evaluated by TLC on each.      *)
(* `pred` (optional, <<>> when absent) = marks predicted by the            *)
(* implementation-shaped model for a generated case: a disagreement is     *)
(* reported as DRIFT (a note about tla/Introspect.tla, never a violation). *)
(***************************************************************************)
EXTENDS IntrospectProp, Json, IOUtils, SequencesExt

Obs == JsonDeserialize(IOEnv.TRACE_FILE)

\* pred: sequence of [q, marked]: definitions whose mark the model predicted
Drift(o) == {<<"DRIFT", IF o.pred[i].marked THEN "model-marked-code-not" ELSE "code-marked-model-not", o.pred[i].q>> :
                i \in {j \in DOMAIN o.pred : /\ o.pred[j].q \in DOMAIN o.defs
                                             /\ o.defs[o.pred[j].q].intro = o.pred[j].marked}}

RejectedOf(o) == {<<o.id, r[1], r[2], r[3]>> : r \in Rejections(o) \cup Drift(o)}
Rejected == UNION {RejectedOf(Obs[i]) : i \in DOMAIN Obs}

RECURSIVE SumEx(_, _)
SumEx(i, c) == IF i = 0 THEN 0 ELSE ExercisedIn(Obs[i])[c] + SumEx(i - 1, c)
Exercised == [c \in AllClauseNames |-> SumEx(Len(Obs), c)]

ASSUME JsonSerialize(IOEnv.VERDICT_FILE, [n |-> Len(Obs), rejected |-> SetToSeq(Rejected), exercised |-> Exercised])

VARIABLE done
Init == done = FALSE
Next == ~done /\ done' = TRUE
=============================================================================

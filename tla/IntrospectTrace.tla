--------------------------- MODULE IntrospectTrace ---------------------------
(***************************************************************************)
(* C05 on observations of the REAL code (batch idiom, DESIGN.md A.2).      *)
(* One observation = the flat description of one GIR file                  *)
(* (harness/c05proj.py: a structural flattening of the XML, no judging):   *)
(*   [id, ns, avail, partial, inferred, defs, uses, idx, pairs, marks,     *)
(*    model]                                                               *)
(* Verdict: Rejections (tla/IntrospectProp.tla: Closed) evaluated by TLC.  *)
(*                                                                         *)
(* model = [nodes, order, names]: the abstract case the GIR was scanned    *)
(* from (empty for repository files) and the GIR names of its nodes.  TLC  *)
(* runs the implementation-shaped layer (IntrospectWalks!Run) on it and    *)
(* compares the predicted introspectable="0" marks with the real ones      *)
(* (marks = [q, marked] of the top-level elements and their members): a    *)
(* disagreement is reported as clause DRIFT -- a note that the code no     *)
(* longer follows tla/IntrospectWalks.tla, never a violation.              *)
(***************************************************************************)
EXTENDS IntrospectWalks, Json, IOUtils, SequencesExt

Obs == JsonDeserialize(IOEnv.TRACE_FILE)

Expected(o, stf, n) ==
    LET g == o.model.nodes  nm == o.model.names[n]
        m == Marked(stf, n) \/ (g[n].host # 0 /\ Marked(stf, g[n].host)) IN
    (IF stf.dropped[n] THEN {} ELSE {<<nm, m>>})
    \cup (IF g[n].kind = "record" THEN {<<nm \o "/field:f", m \/ ~stf.fintro[n]>>} ELSE {})
    \cup (IF g[n].kind = "class"
            THEN {<<nm \o "/method:set_p", m \/ stf.mskip[n] \/ ~stf.mintro[n]>>,
                  <<nm \o "/virtual-method:set_p", m \/ stf.vskp[n] \/ ~stf.vintro[n]>>,
                  <<nm \o "/glib:signal:sig", m \/ stf.sskip[n] \/ ~stf.sintro[n]>>,
                  <<nm \o "/property:p", m \/ ~stf.pintro[n]>>}
            ELSE {})

Drift(o) ==
    IF Len(o.model.nodes) = 0 THEN {}
    ELSE LET stf == Run([nodes |-> o.model.nodes, order |-> o.model.order])
             act == {<<o.marks[i].q, o.marks[i].marked>> : i \in DOMAIN o.marks}
             exp == UNION {Expected(o, stf, n) : n \in DOMAIN o.model.nodes}
         IN  {<<"DRIFT", IF e[2] THEN "model-marks-code-does-not" ELSE "code-marks-model-does-not", e[1]>> :
                 e \in {x \in exp : x \notin act}}

RejectedOf(o) == {<<o.id, r[1], r[2], r[3]>> : r \in Rejections(o) \cup Drift(o)}
Rejected == UNION {RejectedOf(Obs[i]) : i \in DOMAIN Obs}

\* vacuity counters: how often each clause spoke, over the whole batch (no recursion: batches are long)
CountIn(o, c) == ExercisedCount(o, c)
Exercised == [c \in AllClauseNames |->
                 Cardinality(UNION {{<<i, k>> : k \in 1..CountIn(Obs[i], c)} : i \in DOMAIN Obs})]

ASSUME JsonSerialize(IOEnv.VERDICT_FILE, [n |-> Len(Obs), rejected |-> SetToSeq(Rejected), exercised |-> Exercised])

VARIABLE done
Init == done = FALSE
Next == ~done /\ done' = TRUE
=============================================================================

INIT Init
NEXT Next
CONSTANTS
  Dev = {"union_not_deprecated"}
  Kinds = {"api"}
  Strict = FALSE
  Full = FALSE
  MaxCnt = 1
INVARIANT InvApi
CHECK_DEADLOCK FALSE

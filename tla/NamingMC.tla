------------------------------ MODULE NamingMC ------------------------------
(* Exhaustive configurations for Naming.tla: TLC checks  implementation-shaped layer => property layer
   over families of cases (<= 2 namespaces x <= 2 prefixes each x <= 4 declarations x both
   typedef/struct orders), that no declaration has two owners, and that the typedef/struct order
   does not matter.

   Mode = "prefix": every prefix configuration (one/two prefixes, prefixes of each other in both
                    list orders, include's prefix prefixing ours and vice versa, same prefix, accept-
                    unprefixed) x 1..2 simple declarations of every kind, name shape and underscore flag
   Mode = "order" : 1..2 compounds in every typedef/struct arrangement x registration x a function
   Mode = "pair"  : two types (class / boxed / plain; parents in the namespace or in the include; odd
                    get-type names) x one function of every name shape / first parameter / return type /
                    annotation
   Mode = "pair2" : two functions over a reduced menu (thorough tier)
   Mode = "quick" : the union of reduced menus of the first three families (quick tier)                 *)
EXTENDS Naming, SequencesExt

CONSTANTS Mode, AnnSet

D0 == [k |-> "func", w |-> <<>>, us |-> FALSE, ord |-> "-", reg |-> "none", gt |-> <<>>, par |-> NoRef,
       p1 |-> NoRef, ret |-> NoRef, ann |-> "-"]
Fn(w, us, p1, ret, ann) == [D0 EXCEPT !.w = w, !.us = us, !.p1 = p1, !.ret = ret, !.ann = ann]
Simple(k, w, us) == [D0 EXCEPT !.k = k, !.w = w, !.us = us, !.ord = IF k = "struct" THEN "tf" ELSE "-"]
St(w, us, ord, reg, gt, par) == [D0 EXCEPT !.k = "struct", !.w = w, !.us = us, !.ord = ord, !.reg = reg, !.gt = gt, !.par = par]
Cur(i) == [ns |-> "cur", i |-> i, n |-> "-"]
Inc(n) == [ns |-> "inc", i |-> 0, n |-> n]
IntRef == [ns |-> "int", i |-> 0, n |-> "-"]

PF == <<"foo">>
PB == <<"bar">>
PFT == <<"foo", "text">>
PI == <<"inc">>
Cfg(cp, on, ip, u) == [cur |-> [idp |-> cp, symp |-> cp, unpref |-> u], inc |-> [on |-> on, idp |-> ip, symp |-> ip]]
Mk(k, dump, decls) == [cur |-> k.cur, inc |-> k.inc, dump |-> dump, decls |-> decls]

---------------------------------------------------------------------------
\* A family = stems [fam, k, dump, pre] (configuration + first declarations) and, per family, the set of
\* completions (Compatible filters them per stem); TLC's workers share the enumeration: Init picks a stem,
\* Pick completes it, Scan runs the implementation-shaped layer and evaluates the property layer.
\* Family names ending in "q" are the reduced menus of the quick tier.
Stem(fam, k, dump, pre) == [fam |-> fam, k |-> k, dump |-> dump, pre |-> pre]

\* ---- "prefix"
Ks == UNION { { Cfg(<<PF>>, FALSE, <<PI>>, u), Cfg(<<PF>>, TRUE, <<PB>>, u), Cfg(<<PF, PB>>, FALSE, <<PI>>, u),
                Cfg(<<PF, PFT>>, FALSE, <<PI>>, u), Cfg(<<PFT, PF>>, FALSE, <<PI>>, u),
                Cfg(<<PFT>>, TRUE, <<PF>>, u), Cfg(<<PF>>, TRUE, <<PFT>>, u), Cfg(<<PF>>, TRUE, <<PF>>, u),
                Cfg(<<PF>>, TRUE, <<PB, PFT>>, u) } : u \in BOOLEAN }
PNames == { <<"foo", "do">>, <<"bar", "do">>, <<"foo", "text", "do">>, <<"text", "do">>, <<"foo", "text">>, <<"do">> }
PShapes == { Simple(k, w, us) : k \in {"func", "const", "struct", "alias", "callbackl", "enum", "callback"}, w \in PNames, us \in BOOLEAN }
PShapes2 == {x \in PShapes : x.k \in {"func", "struct", "const"}}
PShapes2q == {x \in PShapes2 : ~x.us /\ x.w \in {<<"foo", "do">>, <<"foo", "text", "do">>, <<"text", "do">>}}
PrefixStems(fam) == { Stem(fam, k, FALSE, <<a>>) : k \in Ks, a \in PShapes }
PrefixRest == {<<>>} \cup {<<b>> : b \in PShapes2}
PrefixRestq == {<<>>} \cup {<<b>> : b \in PShapes2q}

\* ---- "order"
ONames == { <<"foo", "text">>, <<"foo", "text", "buffer">>, <<"bar", "text">>, <<"text">> }
DefGt(w) == <<"foo">> \o Tail(w) \o <<"get", "type">>
Ords == {"tf", "sf", "t", "anon", "tag"}
OShapes == { St(w, us, o, "none", <<>>, NoRef) : w \in ONames, us \in BOOLEAN, o \in Ords }
           \cup { St(w, FALSE, o, rg, DefGt(w), NoRef) : w \in {<<"foo", "text">>, <<"foo", "text", "buffer">>},
                                                        o \in Ords, rg \in {"class", "boxed"} }
OShapesq == { St(<<"foo", "text", "buffer">>, FALSE, o, "none", <<>>, NoRef) : o \in {"tf", "sf", "tag"} }
            \cup { St(<<"foo", "text", "buffer">>, FALSE, o, "class", DefGt(<<"foo", "text", "buffer">>), NoRef) : o \in {"tf", "sf"} }
            \cup { St(<<"foo", "text">>, TRUE, "sf", "none", <<>>, NoRef), St(<<"foo", "text">>, FALSE, "sf", "boxed", DefGt(<<"foo", "text">>), NoRef) }
OFuncs(n) == { Fn(<<"foo">> \o b, FALSE, p, NoRef, "-") : b \in {<<"text", "do">>, <<"text", "buffer", "do">>}, p \in {Cur(i) : i \in 1..n} }
             \cup { Fn(<<"foo", "text", "new">>, FALSE, NoRef, Cur(i), "-") : i \in 1..n }
             \cup { Fn(<<"foo", "text", "buffer", "max">>, FALSE, IntRef, NoRef, "-") }
OKs == { Cfg(<<PF>>, FALSE, <<PI>>, FALSE), Cfg(<<PF>>, TRUE, <<PB>>, FALSE), Cfg(<<PF>>, FALSE, <<PI>>, TRUE) }
OrderStems(fam) == { Stem(fam, k, dump, <<a>>) : k \in OKs, dump \in BOOLEAN, a \in OShapes }
OrderRest == {<<>>} \cup {<<f>> : f \in OFuncs(1)} \cup {<<b>> : b \in OShapes} \cup {<<b, f>> : b \in OShapes, f \in OFuncs(2)}
OrderRestq == {<<>>} \cup {<<f>> : f \in OFuncs(1)} \cup {<<b>> : b \in OShapesq} \cup {<<b, f>> : b \in OShapesq, f \in OFuncs(2)}
OrderOK(s, x) == IF Len(x) = 0 THEN TRUE ELSE IF x[1].k = "func" THEN TRUE ELSE x[1].w # s.pre[1].w
Flip(c) == [c EXCEPT !.decls = [i \in 1..Len(c.decls) |->
               IF c.decls[i].ord = "tf" THEN [c.decls[i] EXCEPT !.ord = "sf"]
               ELSE IF c.decls[i].ord = "sf" THEN [c.decls[i] EXCEPT !.ord = "tf"] ELSE c.decls[i]]]

\* ---- "pair"
GtA == <<"foo", "text", "get", "type">>
GtB == <<"foo", "text", "item", "get", "type">>            \* registers the symbol prefix text_item for FooText
T1s == { St(<<"foo", "text">>, FALSE, "tf", "none", <<>>, NoRef) }
       \cup { St(<<"foo", "text">>, FALSE, "tf", "boxed", g, NoRef) : g \in {GtA, GtB} }
       \cup { St(<<"foo", "text">>, FALSE, "sf", "class", g, p) : g \in {GtA, GtB}, p \in {NoRef, Inc("object"), Inc("mid")} }
T2Names == {<<"foo", "text", "buffer">>, <<"foo", "view">>}
T2s(t1) == { St(w, FALSE, "tf", "none", <<>>, NoRef) : w \in T2Names }
           \cup { St(w, FALSE, "tf", "boxed", DefGt(w), NoRef) : w \in T2Names }
           \cup { St(w, FALSE, "tf", "class", DefGt(w), p) : w \in T2Names,
                       p \in {NoRef, Inc("mid")} \cup (IF t1.reg = "class" THEN {Cur(1)} ELSE {}) }
T2sq(t1) == { St(<<"foo", "text", "buffer">>, FALSE, "tf", "none", <<>>, NoRef),
              St(<<"foo", "view">>, FALSE, "tf", "boxed", DefGt(<<"foo", "view">>), NoRef) }
            \cup { St(w, FALSE, "tf", "class", DefGt(w), IF t1.reg = "class" THEN Cur(1) ELSE Inc("mid")) : w \in T2Names }
Bodies == { <<"text", "new">>, <<"text", "buffer", "new">>, <<"text", "do">>, <<"text", "buffer", "do">>, <<"view", "new">>,
            <<"new">>, <<"do">>, <<"text", "new", "do">>, <<"text", "item", "do">>, <<"make", "text">> }
Bodiesq == { <<"text", "new">>, <<"text", "buffer", "new">>, <<"text", "do">>, <<"text", "buffer", "do">>, <<"text", "item", "do">>, <<"make", "text">> }
PRefs == { NoRef, IntRef, Cur(1), Cur(2), Inc("mid") }
RRefs == { NoRef, Cur(1), Cur(2), Inc("object"), Inc("mid") }
PFuncs == { Fn(<<"foo">> \o b, FALSE, p, rt, a) : b \in Bodies, p \in PRefs, rt \in RRefs, a \in AnnSet }
PFuncsq == { Fn(<<"foo">> \o b, FALSE, p, rt, a) : b \in Bodiesq, p \in {NoRef, Cur(1), Cur(2), Inc("mid")},
                                                   rt \in {NoRef, Cur(1), Cur(2), Inc("object")}, a \in AnnSet }
PK == Cfg(<<PF>>, TRUE, <<PB>>, FALSE)
TypePairs == UNION {{<<t1, t2>> : t2 \in T2s(t1)} : t1 \in T1s}
TypePairsq == UNION {{<<t1, t2>> : t2 \in T2sq(t1)} : t1 \in T1s}
PairStems == { Stem("pair", PK, dump, tt) : dump \in BOOLEAN, tt \in TypePairs }
PairStemsq == { Stem("pairq", PK, dump, tt) : dump \in BOOLEAN, tt \in TypePairsq }
PairRest == {<<f>> : f \in PFuncs}
PairRestq == {<<f>> : f \in PFuncsq}

\* ---- "pair2": two functions, reduced menu
Bodies2 == { <<"text", "new">>, <<"text", "buffer", "new">>, <<"text", "do">>, <<"text", "buffer", "do">>, <<"do">> }
PFuncs2 == { Fn(<<"foo">> \o b, FALSE, p, rt, "-") : b \in Bodies2, p \in {NoRef, Cur(1), Cur(2)}, rt \in {NoRef, Cur(1), Cur(2)} }
Pair2Stems == { Stem("pair2", PK, dump, tt \o <<f>>) : dump \in BOOLEAN, tt \in TypePairsq, f \in PFuncs2 }
Pair2Rest == {<<g>> : g \in PFuncs2}
Pair2OK(s, x) == x[1].w # s.pre[3].w

\* ---- what a configuration explores
Stems == CASE Mode = "prefix" -> PrefixStems("prefix")
           [] Mode = "order" -> OrderStems("order")
           [] Mode = "pair" -> PairStems
           [] Mode = "pair2" -> Pair2Stems
           [] Mode = "pairq" -> PairStemsq
           [] OTHER -> PrefixStems("prefixq") \cup OrderStems("orderq") \cup PairStemsq          \* "quick"
RestOf(fam) == CASE fam = "prefix" -> PrefixRest [] fam = "prefixq" -> PrefixRestq
                 [] fam = "order" -> OrderRest [] fam = "orderq" -> OrderRestq
                 [] fam = "pair" -> PairRest [] fam = "pairq" -> PairRestq
                 [] OTHER -> Pair2Rest
Compatible(s, x) == CASE s.fam \in {"order", "orderq"} -> OrderOK(s, x) [] s.fam = "pair2" -> Pair2OK(s, x) [] OTHER -> TRUE

---------------------------------------------------------------------------
VARIABLES fam, case, pc, out, bad
vars == <<fam, case, pc, out, bad>>
NoOut == [fatal |-> FALSE, els |-> {}]
Init == \E s \in Stems : fam = s.fam /\ case = Mk(s.k, s.dump, s.pre) /\ pc = "stem" /\ out = NoOut /\ bad = {}
Pick == /\ pc = "stem" /\ pc' = "header" /\ UNCHANGED <<fam, out, bad>>
        /\ \E x \in RestOf(fam) : /\ Compatible(Stem(fam, [cur |-> case.cur, inc |-> case.inc], case.dump, case.decls), x)
                                  /\ case' = [case EXCEPT !.decls = @ \o x]
\* known finding C04-annotated-method-keeps-prefix: a (method)-annotated function that also carries its owner's
\* prefix keeps the prefix in its name ("Name" then fails only on such items; "NameStrict" = without the exception,
\* violated in Naming_w_annmethod.cfg)
KnownOnly(x) == \A b \in Bad(x, "Name") : x.ds[b[1]].ann = "method" /\ x.els[b[2]].tag = "method"
Scan == /\ pc = "header" /\ pc' = "gir" /\ UNCHANGED <<fam, case>>
        /\ LET o == Impl(case)
               x == Prep([c |-> case, els |-> SetToSeq(o.els), fatal |-> o.fatal])
               v == Violated(x)
           IN /\ out' = o
              /\ bad' = (v \ {"Name"})
                         \cup (IF "Name" \notin v THEN {} ELSE IF KnownOnly(x) THEN {"NameStrict"} ELSE {"Name", "NameStrict"})
                         \cup (IF SingleOwner(o) THEN {} ELSE {"OneOwner"})
                         \cup (IF fam \notin {"order", "orderq"} \/ o = Impl(Flip(case)) THEN {} ELSE {"OrderIndependent"})
Spec == Init /\ [][Pick \/ Scan]_vars

\* the character-class sub-model of to_underscores(_noprefix): all strings over {U, l, d} up to length 7
Classes == {"U", "l", "d"}
Strings == UNION { [1..n -> Classes] : n \in 1..7 }
UInit == \E s \in Strings : fam = "uscore" /\ case = s /\ pc = "uscore" /\ out = NoOut /\ bad = (IF UscoreOK(s) THEN {} ELSE {"Uscore"})
UNext == UNCHANGED vars
I_Uscore == "Uscore" \notin bad

\* implementation-shaped layer => property layer, clause by clause
I_Present == "Present" \notin bad
I_Once    == "Once" \notin bad
I_MovedTo == "MovedTo" \notin bad
I_NoDup   == "NoDup" \notin bad
I_Name    == "Name" \notin bad
I_NameStrict == "NameStrict" \notin bad
I_Method  == "Method" \notin bad
I_Ctor    == "Ctor" \notin bad
I_Absent  == "Absent" \notin bad
I_Folded  == "Folded" \notin bad
\* Owner is a function: no declaration gets two owners
OneOwner == "OneOwner" \notin bad
\* typedef-before-struct and struct-before-typedef give the same GIR
OrderIndependent == "OrderIndependent" \notin bad
=============================================================================

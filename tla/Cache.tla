------------------------------- MODULE Cache -------------------------------
(***************************************************************************)
(* The dependency-GIR cache of g-ir-scanner (giscanner/cachestore.py) and  *)
(* its call site Transformer._parse_include, one action per file-system    *)
(* primitive the Python code executes.  Property C18.                      *)
(*                                                                         *)
(* One cache entry (one dependency GIR `src`) is modelled; entries of      *)
(* different GIRs live under different names and do not interact except    *)
(* through the purge, which treats them alike.                             *)
(*                                                                         *)
(* File system: inodes with content [ver, st, mtime, sver, cause]; the     *)
(* directory maps the entry name to an inode (entryIno, 0 = absent).  An   *)
(* open file descriptor refers to an inode and keeps seeing it after       *)
(* rename/unlink of the name.  tempfile.mkstemp() creates files outside    *)
(* the cache directory (system temp dir), so temporaries are never listed  *)
(* or purged and shutil.move may be a rename (same device) or a copy in    *)
(* place (other device): both are modelled (constant AllowCopy).           *)
(*                                                                         *)
(* Each process is one scanner run including the dependency:               *)
(*   CacheStore()  ->  load()  ->  [ GIRParser.parse()  ->  store() ]      *)
(***************************************************************************)
EXTENDS Naturals, FiniteSets, Sequences, TLC

CONSTANTS
    Procs,        \* process ids
    SVer,         \* [Procs -> 1..2]  scanner version hash of each process (1 = the stamp on disk)
    MaxEdits,     \* source edits allowed
    MaxIno,       \* inode budget
    AllowCopy,    \* BOOLEAN: shutil.move may take the cross-device copy branch
    MaxCrashes,   \* how many processes may be killed (at any step)
    Coarse,       \* BOOLEAN: timestamps may repeat (coarse mtime granularity)
    StatByName,   \* BOOLEAN: load() validates the entry by os.stat(name) after open()
                  \*          (the code before the "fix:" commit; FALSE = os.fstat of the descriptor)
    StampFirst,   \* BOOLEAN what-if: _check_cache_version writes the stamp BEFORE purging (FALSE = the code)
    KnownCauses   \* root causes of stale loads recorded as known findings (see NoStaleUnexplained)

VARIABLES
    srcVer, srcMtime, edits,  \* the dependency GIR: current content version, its mtime, #edits so far
    clock,                    \* source of mtimes
    files,                    \* [1..MaxIno -> [ver, st, mtime, sver, cause]]
    nextIno,
    entryIno,                 \* inode the entry name refers to; 0 = no such file
    stamp,                    \* content of .cache-version (0 = absent)
    stampFrom,                \* the purge obligation (checkedAt) of the process that wrote the current stamp
    pc, fd, stm, parsed, tmp, result, startVer, checkedAt, putAt, puts

vars == <<srcVer, srcMtime, edits, clock, files, nextIno, entryIno, stamp, stampFrom,
          pc, fd, stm, parsed, tmp, result, startVer, checkedAt, putAt, puts>>

Free == [ver |-> 0, st |-> "free", mtime |-> 0, sver |-> 0, cause |-> "none"]
Pending == [k |-> "pending", ver |-> 0, sver |-> 0, ino |-> 0, cause |-> "none"]
NoneRes == [k |-> "none", ver |-> 0, sver |-> 0, ino |-> 0, cause |-> "none"]

Init ==
    /\ srcVer = 1 /\ srcMtime = 0 /\ edits = 0 /\ clock = 1
    /\ files = [i \in 1..MaxIno |-> Free]
    /\ nextIno = 1 /\ entryIno = 0 /\ stamp = 1 /\ stampFrom = 0
    /\ pc = [p \in Procs |-> "cv_read"]
    /\ fd = [p \in Procs |-> 0] /\ stm = [p \in Procs |-> 0] /\ parsed = [p \in Procs |-> 0]
    /\ tmp = [p \in Procs |-> 0] /\ result = [p \in Procs |-> Pending]
    /\ startVer = [p \in Procs |-> 0]
    /\ checkedAt = [p \in Procs |-> 0] /\ putAt = [i \in 1..MaxIno |-> 0] /\ puts = 0

\* timestamps: the next mtime-producing step gets `clock`; afterwards the clock advances
\* (always in the fine configuration, optionally in the coarse one)
Advance == IF Coarse THEN clock' \in {clock, clock + 1} ELSE clock' = clock + 1

Goto(p, l) == pc' = [pc EXCEPT ![p] = l]
Return(p, r) == result' = [result EXCEPT ![p] = r]

---------------------------------------------------------------------------
\* environment: the dependency GIR is replaced by a new version
EditSrc ==
    /\ edits < MaxEdits
    /\ edits' = edits + 1 /\ srcVer' = srcVer + 1 /\ srcMtime' = clock /\ Advance
    /\ UNCHANGED <<files, nextIno, entryIno, stamp, stampFrom, pc, fd, stm, parsed, tmp, result, startVer, checkedAt, putAt, puts>>

---------------------------------------------------------------------------
\* CacheStore.__init__ -> _check_cache_version
CvRead(p) ==      \* open(version).read() compared with _get_versionhash()
    /\ pc[p] = "cv_read"
    /\ startVer' = [startVer EXCEPT ![p] = IF stamp = SVer[p] THEN srcVer ELSE @]   \* load() is called now
    /\ IF stamp = SVer[p]
         \* the stamp says "entries of other versions are gone": p relies on the purge of whoever wrote
         \* it and inherits that process's obligation (nothing put before THAT process looked may be
         \* served to p either)
         THEN Goto(p, "l_open") /\ checkedAt' = [checkedAt EXCEPT ![p] = stampFrom]
         \* a mismatch obliges p to purge: nothing put before this point may be served to p
         ELSE Goto(p, IF StampFirst THEN "cv_stamp" ELSE "cv_list") /\ checkedAt' = [checkedAt EXCEPT ![p] = puts + 1]
    /\ UNCHANGED <<srcVer, srcMtime, edits, clock, files, nextIno, entryIno, stamp, stampFrom, fd, stm, parsed, tmp, result, putAt, puts>>

CvList(p) ==      \* os.listdir(directory)
    /\ pc[p] = "cv_list"
    /\ Goto(p, IF entryIno = 0 THEN (IF StampFirst THEN "l_open" ELSE "cv_stamp") ELSE "cv_unlink")
    /\ startVer' = [startVer EXCEPT ![p] = IF entryIno = 0 /\ StampFirst THEN srcVer ELSE @]
    /\ UNCHANGED <<srcVer, srcMtime, edits, clock, files, nextIno, entryIno, stamp, stampFrom, fd, stm, parsed, tmp, result, checkedAt, putAt, puts>>

CvUnlink(p) ==    \* os.unlink(name) -- by name: removes whatever is there now (ENOENT ignored)
    /\ pc[p] = "cv_unlink"
    /\ entryIno' = 0
    /\ Goto(p, IF StampFirst THEN "l_open" ELSE "cv_stamp")
    /\ startVer' = [startVer EXCEPT ![p] = IF StampFirst THEN srcVer ELSE @]
    /\ UNCHANGED <<srcVer, srcMtime, edits, clock, files, nextIno, stamp, stampFrom, fd, stm, parsed, tmp, result, checkedAt, putAt, puts>>

CvStamp(p) ==     \* mkstemp + write + shutil.move(tmp, version)  (the stamp file is tiny; taken as atomic)
    /\ pc[p] = "cv_stamp"
    /\ stamp' = SVer[p] /\ stampFrom' = checkedAt[p]
    /\ startVer' = [startVer EXCEPT ![p] = IF StampFirst THEN @ ELSE srcVer]   \* the constructor returns; load() is called now
    /\ Goto(p, IF StampFirst THEN "cv_list" ELSE "l_open")
    /\ UNCHANGED <<srcVer, srcMtime, edits, clock, files, nextIno, entryIno, fd, stm, parsed, tmp, result, checkedAt, putAt, puts>>

---------------------------------------------------------------------------
\* CacheStore.load
LOpen(p) ==       \* open(store_filename, 'rb')
    /\ pc[p] = "l_open"
    /\ IF entryIno = 0
         THEN /\ Goto(p, "parse") /\ Return(p, NoneRes) /\ UNCHANGED fd
         ELSE /\ Goto(p, "l_stat") /\ fd' = [fd EXCEPT ![p] = entryIno] /\ UNCHANGED result
    /\ UNCHANGED <<srcVer, srcMtime, edits, clock, files, nextIno, entryIno, stamp, stampFrom, stm, parsed, tmp, startVer, checkedAt, putAt, puts>>

\* _cache_is_valid, first half: os.stat(store_filename) [byName] or os.fstat(fd)
LStatWith(p, byName) ==
    /\ pc[p] = "l_stat"
    /\ LET ino == IF byName THEN entryIno ELSE fd[p] IN
       IF ino = 0
         THEN /\ Goto(p, "parse") /\ Return(p, NoneRes) /\ UNCHANGED stm
         ELSE /\ Goto(p, "l_statsrc") /\ stm' = [stm EXCEPT ![p] = files[ino].mtime]
              \* remember whether another inode than the opened one was judged
              /\ result' = [result EXCEPT ![p].cause = IF ino # fd[p] THEN "stat_by_name" ELSE "none"]
    /\ UNCHANGED <<srcVer, srcMtime, edits, clock, files, nextIno, entryIno, stamp, stampFrom, fd, parsed, tmp, startVer, checkedAt, putAt, puts>>

LStat(p) == LStatWith(p, StatByName)

LStatSrc(p) ==    \* second half: store_mtime >= os.stat(filename).st_mtime
    /\ pc[p] = "l_statsrc"
    /\ IF stm[p] >= srcMtime
         THEN /\ Goto(p, "l_read")
              /\ result' = [result EXCEPT ![p].cause =
                               IF @ = "none" /\ stm[p] = srcMtime /\ srcVer > 1 THEN "equal_mtime" ELSE @]
         ELSE Goto(p, "parse") /\ Return(p, NoneRes)
    /\ UNCHANGED <<srcVer, srcMtime, edits, clock, files, nextIno, entryIno, stamp, stampFrom, fd, stm, parsed, tmp, startVer, checkedAt, putAt, puts>>

LRead(p) ==       \* pickle.load(fd): succeeds iff the inode holds a complete pickle
    /\ pc[p] = "l_read"
    /\ IF files[fd[p]].st = "complete"
         THEN /\ Return(p, [k |-> "data", ver |-> files[fd[p]].ver, sver |-> files[fd[p]].sver, ino |-> fd[p],
                            cause |-> IF result[p].cause # "none" THEN result[p].cause ELSE files[fd[p]].cause])
              /\ Goto(p, "done")
         ELSE /\ Goto(p, "l_unlink") /\ UNCHANGED result
    /\ UNCHANGED <<srcVer, srcMtime, edits, clock, files, nextIno, entryIno, stamp, stampFrom, fd, stm, parsed, tmp, startVer, checkedAt, putAt, puts>>

LUnlink(p) ==     \* broken entry: os.unlink(store_filename) by name, result None
    /\ pc[p] = "l_unlink"
    /\ entryIno' = 0
    /\ Return(p, NoneRes) /\ Goto(p, "parse")
    /\ UNCHANGED <<srcVer, srcMtime, edits, clock, files, nextIno, stamp, stampFrom, fd, stm, parsed, tmp, startVer, checkedAt, putAt, puts>>

---------------------------------------------------------------------------
\* Transformer._parse_include: GIRParser.parse(filename) reads the version that is current now
Parse(p) ==
    /\ pc[p] = "parse"
    /\ parsed' = [parsed EXCEPT ![p] = srcVer]
    /\ Goto(p, "s_stat")
    /\ UNCHANGED <<srcVer, srcMtime, edits, clock, files, nextIno, entryIno, stamp, stampFrom, fd, stm, tmp, result, startVer, checkedAt, putAt, puts>>

\* CacheStore.store
SStat(p) ==       \* _cache_is_valid(store_filename, filename), first half: os.stat(store_filename)
    /\ pc[p] = "s_stat"
    /\ IF entryIno = 0
         THEN Goto(p, "s_mkstemp") /\ UNCHANGED stm
         ELSE Goto(p, "s_statsrc") /\ stm' = [stm EXCEPT ![p] = files[entryIno].mtime]
    /\ UNCHANGED <<srcVer, srcMtime, edits, clock, files, nextIno, entryIno, stamp, stampFrom, fd, parsed, tmp, result, startVer, checkedAt, putAt, puts>>

SStatSrc(p) ==    \* second half; a valid entry means nothing to store
    /\ pc[p] = "s_statsrc"
    /\ IF stm[p] >= srcMtime
         THEN Goto(p, "done")
         ELSE Goto(p, "s_mkstemp")
    /\ UNCHANGED <<srcVer, srcMtime, edits, clock, files, nextIno, entryIno, stamp, stampFrom, fd, stm, parsed, tmp, result, startVer, checkedAt, putAt, puts>>

SMkstemp(p) ==    \* tempfile.mkstemp()   (MaxIno is an artefact of the bounded model: out of inodes = give up)
    /\ pc[p] = "s_mkstemp"
    /\ IF nextIno > MaxIno
         THEN Goto(p, "done") /\ UNCHANGED <<tmp, nextIno, files>>
         ELSE /\ tmp' = [tmp EXCEPT ![p] = nextIno] /\ nextIno' = nextIno + 1
              /\ files' = [files EXCEPT ![nextIno] = [ver |-> 0, st |-> "empty", mtime |-> clock, sver |-> SVer[p], cause |-> "none"]]
              /\ Goto(p, "s_write")
    /\ UNCHANGED <<srcVer, srcMtime, edits, clock, entryIno, stamp, stampFrom, fd, stm, parsed, result, startVer, checkedAt, putAt, puts>>

\* a write that stamps an mtime on content that an edit has already superseded creates an entry that
\* looks fresh and is stale: the root cause behind known findings C18-parse-edit-store / C18-copy-window
SWrite(p) ==      \* pickle.dump(data, tmp_file); close
    /\ pc[p] = "s_write"
    /\ files' = [files EXCEPT ![tmp[p]] = [ver |-> parsed[p], st |-> "complete", mtime |-> clock, sver |-> SVer[p],
                                           cause |-> IF parsed[p] < srcVer THEN "parse_edit_store" ELSE "none"]]
    /\ Advance
    /\ Goto(p, "s_move")
    /\ UNCHANGED <<srcVer, srcMtime, edits, nextIno, entryIno, stamp, stampFrom, fd, stm, parsed, tmp, result, startVer, checkedAt, putAt, puts>>

SRename(p) ==     \* shutil.move: os.rename succeeds (same device) -- atomic replacement of the name
    /\ pc[p] = "s_move"
    /\ entryIno' = tmp[p]
    /\ puts' = puts + 1 /\ putAt' = [putAt EXCEPT ![tmp[p]] = puts + 1]
    /\ Goto(p, "done")
    /\ UNCHANGED <<srcVer, srcMtime, edits, clock, files, nextIno, stamp, stampFrom, fd, stm, parsed, tmp, result, startVer, checkedAt>>

\* shutil.move: os.rename fails with EXDEV -> copy2(tmp, name); unlink(tmp)
CopyCause(p) == IF parsed[p] < srcVer THEN "copy_window" ELSE "none"

CopyOpen(p) ==    \* open(name, 'wb'): truncates the existing inode in place, or creates a new one
    /\ pc[p] = "s_move" /\ AllowCopy
    /\ IF entryIno # 0
         THEN /\ files' = [files EXCEPT ![entryIno] = [ver |-> 0, st |-> "empty", mtime |-> clock, sver |-> SVer[p], cause |-> "none"]]
              /\ puts' = puts + 1 /\ putAt' = [putAt EXCEPT ![entryIno] = puts + 1]
              /\ fd' = [fd EXCEPT ![p] = entryIno]
              /\ UNCHANGED <<entryIno, nextIno>> /\ Goto(p, "c_write1")
         ELSE IF nextIno <= MaxIno
           THEN /\ files' = [files EXCEPT ![nextIno] = [ver |-> 0, st |-> "empty", mtime |-> clock, sver |-> SVer[p], cause |-> "none"]]
                /\ puts' = puts + 1 /\ putAt' = [putAt EXCEPT ![nextIno] = puts + 1]
                /\ fd' = [fd EXCEPT ![p] = nextIno]
                /\ entryIno' = nextIno /\ nextIno' = nextIno + 1 /\ Goto(p, "c_write1")
           ELSE /\ UNCHANGED <<files, entryIno, nextIno, puts, putAt, fd>> /\ Goto(p, "done")
    /\ Advance
    /\ UNCHANGED <<srcVer, srcMtime, edits, stamp, stampFrom, stm, parsed, tmp, result, startVer, checkedAt>>

CopyWrite1(p) ==  \* first part of the data reaches the destination inode
    /\ pc[p] = "c_write1"
    /\ files' = [files EXCEPT ![fd[p]] = [ver |-> parsed[p], st |-> "partial", mtime |-> clock, sver |-> SVer[p], cause |-> CopyCause(p)]]
    /\ Advance /\ Goto(p, "c_write2")
    /\ UNCHANGED <<srcVer, srcMtime, edits, nextIno, entryIno, stamp, stampFrom, fd, stm, parsed, tmp, result, startVer, checkedAt, putAt, puts>>

CopyWrite2(p) ==  \* rest of the data
    /\ pc[p] = "c_write2"
    /\ files' = [files EXCEPT ![fd[p]] = [ver |-> parsed[p], st |-> "complete", mtime |-> clock, sver |-> SVer[p], cause |-> CopyCause(p)]]
    /\ Advance /\ Goto(p, "c_stat")
    /\ UNCHANGED <<srcVer, srcMtime, edits, nextIno, entryIno, stamp, stampFrom, fd, stm, parsed, tmp, result, startVer, checkedAt, putAt, puts>>

CopyStat(p) ==    \* copystat(tmp, name): BY NAME -- sets the mtime of whatever the name refers to now;
                  \* a vanished name raises FileNotFoundError out of store(): the scan dies (pc "failed")
    /\ pc[p] = "c_stat"
    /\ IF entryIno # 0
         THEN files' = [files EXCEPT ![entryIno].mtime = files[tmp[p]].mtime,
                                     \* stamping a fresh-looking mtime on superseded content (possibly on ANOTHER
                                     \* inode than the one copied to, if the name was replaced meanwhile)
                                     ![entryIno].cause = IF files[entryIno].ver < srcVer /\ files[tmp[p]].mtime >= srcMtime
                                                            /\ @ = "none"
                                                         THEN "copy_window" ELSE @]
         ELSE UNCHANGED files
    /\ Goto(p, IF entryIno # 0 THEN "done" ELSE "failed")
    /\ UNCHANGED <<srcVer, srcMtime, edits, clock, nextIno, entryIno, stamp, stampFrom, fd, stm, parsed, tmp, result, startVer, checkedAt, putAt, puts>>

---------------------------------------------------------------------------
Crash(p) ==
    /\ Cardinality({q \in Procs : pc[q] = "crashed"}) < MaxCrashes
    /\ pc[p] \notin {"done", "crashed", "failed", "cv_read"}
    /\ Goto(p, "crashed")
    /\ UNCHANGED <<srcVer, srcMtime, edits, clock, files, nextIno, entryIno, stamp, stampFrom, fd, stm, parsed, tmp, result, startVer, checkedAt, putAt, puts>>

Step(p) == \/ CvRead(p) \/ CvList(p) \/ CvUnlink(p) \/ CvStamp(p)
           \/ LOpen(p) \/ LStat(p) \/ LStatSrc(p) \/ LRead(p) \/ LUnlink(p)
           \/ Parse(p)
           \/ SStat(p) \/ SStatSrc(p) \/ SMkstemp(p) \/ SWrite(p) \/ SRename(p)
           \/ CopyOpen(p) \/ CopyWrite1(p) \/ CopyWrite2(p) \/ CopyStat(p)
           \/ Crash(p)

Next == EditSrc \/ \E p \in Procs : Step(p)

Spec == Init /\ [][Next]_vars

---------------------------------------------------------------------------
\* Property layer (C18).  `result[p]` is what CacheStore.load returned to process p.
\* Versions are numbered in the order they became current, so "version v was current at some
\* moment during the load" is  startVer[p] <= v  (v <= srcVer holds by construction).

IsData(p) == result[p].k = "data"
Stale(p) == IsData(p) /\ result[p].ver < startVer[p]

\* C18 as stated
NoStale == \A p \in Procs : ~Stale(p)

\* C18 modulo the recorded known findings: every stale load has one of the listed root causes.
\* With KnownCauses = {} this is NoStale.
NoStaleUnexplained == \A p \in Procs : Stale(p) => result[p].cause \in KnownCauses
\* witnesses: each known cause is really reachable (checked by expecting a violation of these)
NoWitness(c) == \A p \in Procs : Stale(p) => result[p].cause # c
NoWitnessParseEditStore == NoWitness("parse_edit_store")
NoWitnessCopyWindow == NoWitness("copy_window")
NoWitnessEqualMtime == NoWitness("equal_mtime")
NoWitnessStatByName == NoWitness("stat_by_name")

\* coverage witnesses: behaviours TLC is asked to produce for replay against the real code
NoWitnessDataLoad == \A p \in Procs : ~IsData(p)
NoWitnessPurge == \A p \in Procs : pc[p] # "cv_unlink"
NoWitnessBroken == \A p \in Procs : pc[p] # "l_unlink"
NoWitnessCopyStatLost == \A p \in Procs : pc[p] # "failed"

NoTorn == \A p \in Procs : IsData(p) => result[p].ver >= 1 /\ files[result[p].ino].st # "free"

\* "a change of scanner version discards all entries": a process that found another version's stamp
\* (and therefore had to purge) is never served an entry that was in place before it looked; a
\* process that found its own version's stamp relies on the purge of the process that wrote it
NoCrossVersion == \A p \in Procs :
    (IsData(p) /\ checkedAt[p] > 0) => putAt[result[p].ino] >= checkedAt[p]
\* and when its purge is over, whatever the name refers to was put there after it looked
PurgeEffective == \A p \in Procs :
    (pc[p] = "cv_stamp" /\ ~StampFirst) => (entryIno = 0 \/ putAt[entryIno] >= checkedAt[p])

TypeOK == /\ entryIno \in 0..MaxIno /\ nextIno \in 1..(MaxIno + 1)
          /\ \A p \in Procs : fd[p] \in 0..MaxIno /\ tmp[p] \in 0..MaxIno
=============================================================================

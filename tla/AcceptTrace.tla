---------------------------- MODULE AcceptTrace ----------------------------
(***************************************************************************)
(* C15 on observations of the REAL pair (batch idiom, DESIGN A.2): every   *)
(* record [id, kind "doc"|"elem", g, b] written by harness/c15lib.py is    *)
(* judged by the property layer of AcceptProp.tla -- the same operators    *)
(* AcceptMC checks the consumer model against.  Rejected triples are       *)
(* <<id, clause, detail>>; detail = the message class of the document and  *)
(* the place it points at, or the tag (and container tag) of the element:  *)
(* reporting only (it names the class of failing input).                   *)
(***************************************************************************)
EXTENDS AcceptProp, Json, IOUtils, SequencesExt, TLC

Obs == JsonDeserialize(IOEnv.TRACE_FILE)
Idx == 1..Len(Obs)

Failing(r) == IF r.kind = "doc" THEN LET cl == DocClauses(r.g, r.b) IN {c \in DocNames : ~cl[c]}
              ELSE LET cl == ElemClauses(r.g, r.b) IN {c \in ElemNames : ~cl[c]}
\* reporting only: names the class of failing input a rejected record belongs to (known_findings.json matches on it)
Where(r) == IF r.g.level = "top" THEN r.g.tag ELSE r.g.ownerTag \o "/" \o r.g.tag
Detail(r, c) ==
    IF r.kind = "doc" THEN (IF r.b.where = "" THEN r.b.msgclass ELSE r.b.msgclass \o " @ " \o r.b.where)
    ELSE CASE c = "ParamOptional" -> Where(r) \o (IF OnlyInoutAllowNone(r.g, r.b) THEN " # inout nullable allow-none" ELSE "")
           [] c = "ParamCallerAllocates" -> Where(r) \o (IF OnlyInoutCallerAllocates(r.g, r.b) THEN " # inout caller-allocates" ELSE "")
           [] c = "SignalWhen" -> Where(r) \o " # when=" \o r.g.fl.when
           [] c = "FieldFlags" -> Where(r) \o (IF The(r.g, r.b).fl.writable = Writable(r.g.fl.writable) THEN " # readable=" \o r.g.fl.readable ELSE "")
           [] c \in {"VFuncInvoker", "PropAccessors", "Accessor"} -> Where(r) \o (IF TargetAbsent(r.g, r.b, c) THEN " # target absent" ELSE "")
           [] OTHER -> Where(r)
Rejected == UNION { {<<Obs[i].id, c, Detail(Obs[i], c)>> : c \in Failing(Obs[i])} : i \in Idx }

DocIdx == {i \in Idx : Obs[i].kind = "doc"}
ElemIdx == {i \in Idx : Obs[i].kind = "elem"}
Exercised == [c \in DocNames \cup ElemNames |->
                 IF c \in DocNames THEN Cardinality(IF c \in {"Validates", "Identity", "Quiet"} THEN {i \in DocIdx : Obs[i].b.rc = 0} ELSE DocIdx)
                 ELSE Cardinality({i \in ElemIdx : ElemAnte(Obs[i].g, Obs[i].b, c)})]

ASSUME JsonSerialize(IOEnv.VERDICT_FILE, [n |-> Len(Obs), rejected |-> SetToSeq(Rejected), exercised |-> Exercised])

VARIABLE done
TInit == done = TRUE
TNext == done' = done /\ FALSE
=============================================================================

---------------------------- MODULE AcceptTrace ----------------------------
(***************************************************************************)
(* C15 on observations of the REAL pair (batch idiom, DESIGN A.2): every   *)
(* record [id, kind "doc"|"elem", g, b] written by harness/c15lib.py is    *)
(* judged by the property layer of AcceptProp.tla -- the same operators    *)
(* AcceptMC checks the consumer model against.  Rejected triples are       *)
(* <<id, clause, detail>>; detail = the message class of the document or   *)
(* the tag (and container tag) of the element: reporting only.             *)
(***************************************************************************)
EXTENDS AcceptProp, Json, IOUtils, SequencesExt, TLC

Obs == JsonDeserialize(IOEnv.TRACE_FILE)
Idx == 1..Len(Obs)

Failing(r) == IF r.kind = "doc" THEN LET cl == DocClauses(r.g, r.b) IN {c \in DocNames : ~cl[c]}
              ELSE LET cl == ElemClauses(r.g, r.b) IN {c \in ElemNames : ~cl[c]}
Detail(r) == IF r.kind = "doc" THEN r.b.msgclass
             ELSE IF r.g.level = "top" THEN r.g.tag ELSE r.g.ownerTag \o "/" \o r.g.tag
Rejected == UNION { {<<Obs[i].id, c, Detail(Obs[i])>> : c \in Failing(Obs[i])} : i \in Idx }

DocIdx == {i \in Idx : Obs[i].kind = "doc"}
ElemIdx == {i \in Idx : Obs[i].kind = "elem"}
Exercised == [c \in DocNames \cup ElemNames |->
                 IF c \in DocNames THEN Cardinality(IF c \in {"Validates", "Identity"} THEN {i \in DocIdx : Obs[i].b.rc = 0} ELSE DocIdx)
                 ELSE Cardinality({i \in ElemIdx : ElemAnte(Obs[i].g, Obs[i].b, c)})]

ASSUME JsonSerialize(IOEnv.VERDICT_FILE, [n |-> Len(Obs), rejected |-> SetToSeq(Rejected), exercised |-> Exercised])

VARIABLE done
TInit == done = TRUE
TNext == done' = done /\ FALSE
=============================================================================

------------------------ MODULE CommentBlockFaultTrace ------------------------
(***************************************************************************)
(* C11 -- the fault layer of CommentBlock.tla evaluated by TLC on          *)
(* observations of the REAL parser (harness/props/c11.py).                 *)
(*                                                                         *)
(* One record per input (a comment block with one planted fault, stream    *)
(* "fault"; or an arbitrary string, stream "fuzz"), parsed by              *)
(* parse_comment_blocks between a good block before and a good block       *)
(* after, with a recording MessageLogger whose display is suppressed:      *)
(*   file, lineno (1-based line of the block's first line), src (its       *)
(*   source lines), alone (opening token alone on its line), closealone    *)
(*   (nothing but blanks before the end token on its line), current (no    *)
(*   deprecated tag-style annotation in the text), single (exactly one     *)
(*   planted fault), open / close / lines / faults (the abstract case),    *)
(*   raised (an exception escaped parse_comment_blocks), diags (the log    *)
(*   calls: type, kind, file, line, marker), count (get_warning_count()),  *)
(*   shown (something was displayed), before / after ([exp, got] trees of  *)
(*   the good neighbours), tree (the block itself), ign (annotations of    *)
(*   the malformed field), fatal (scanner_main --warn-error on the same    *)
(*   input: checked, exited, ndiag), specdiags (what the modelled parser   *)
(*   logs: DRIFT only).                                                    *)
(*                                                                         *)
(* The position oracle is the module's own bookkeeping: Permits (which     *)
(* (line, kind) the text gives cause for), replayed over the case's lines. *)
(***************************************************************************)
EXTENDS CommentBlock, Json, IOUtils, SequencesExt

Obs == JsonDeserialize(IOEnv.TRACE_FILE)

\* kinds as far as the message text tells them apart
\* (which of the two parenthesis messages is issued depends on the text that follows, not on the fault alone)
KClass(k) == IF k \in {"unbal", "stray", "dbl", "empty", "paren_unbal", "paren_unexp"} THEN "paren" ELSE k
Coarse(S) == {<<p[1], KClass(p[2])>> : p \in S}

FkAt(r, k) == IF \E i \in 1..Len(r.faults) : r.faults[i].at = k
              THEN (CHOOSE f \in {r.faults[i] : i \in 1..Len(r.faults)} : f.at = k).kind ELSE ""
NfAfter(r, k) == (IF r.open \in {"codebefore", "oneline"} THEN 1 ELSE 0)
                 + Cardinality({i \in 1..Len(r.faults) : r.faults[i].at <= k})
\* (line relative to the block's first line, kind) pairs the text gives cause for
Permitted(r) ==
  (IF r.open # "alone" THEN {<<0, r.open>>} ELSE {})
  \cup UNION { Permits(k, r.lines[k], FkAt(r, k), NfAfter(r, k)) : k \in 1..Len(r.lines) }
  \cup (IF r.close = "codeafter" THEN {<<Len(r.lines) + 1, "codeafter">>} ELSE {})

Rel(r, d) == d.line - r.lineno
InBlockD(r, d) == d.hasline /\ Rel(r, d) >= 0 /\ Rel(r, d) < Len(r.src)
Internal(r) == \E i \in 1..Len(r.diags) : r.diags[i].kind = "internal"

AnnNames(as) == {as[i].name : i \in 1..Len(as)}
PartAnnNames(t, part) ==
  IF part = "id" THEN AnnNames(t.anns)
  ELSE UNION ({AnnNames(t.params[i].anns) : i \in {j \in 1..Len(t.params) : t.params[j].name = part}}
              \cup {AnnNames(t.tags[i].anns) : i \in {j \in 1..Len(t.tags) : t.tags[j].name = part}})

PartAnnsDeep(t, part) ==
  IF part = "id" THEN {t.anns}
  ELSE {t.params[i].anns : i \in {j \in 1..Len(t.params) : t.params[j].name = part}}
       \cup {t.tags[i].anns : i \in {j \in 1..Len(t.tags) : t.tags[j].name = part}}

Speaks(c, r) ==
  CASE c = "LineIsFaultLine" -> r.stream = "fault" /\ r.alone /\ r.single
    [] c = "CaretInLine"     -> r.current /\ r.alone /\ \E i \in 1..Len(r.diags) : r.diags[i].hasmarker
    [] c = "InBlock"         -> r.alone /\ r.diags # <<>>
    [] c = "IgnoredNotHalfApplied" -> r.ign # <<>> \/ r.hasref
    [] c = "FatalIffDiagnosed" -> r.fatal.checked
    [] OTHER -> TRUE

C11(c, r) ==
  CASE c = "NoRaise"  -> ~r.raised /\ ~Internal(r)
    [] c = "OthersSurvive" -> r.before.got = r.before.exp /\ r.after.got = r.after.exp
    [] c = "LineIsFaultLine" ->
         Speaks(c, r) => \A i \in 1..Len(r.diags) :
            LET d == r.diags[i] IN
            /\ d.hasfile /\ d.file = r.file /\ d.hasline
            /\ <<Rel(r, d), KClass(d.kind)>> \in Coarse(Permitted(r))
    [] c = "CaretInLine" ->
         Speaks(c, r) => \A i \in 1..Len(r.diags) :
            LET d == r.diags[i] IN
            d.hasmarker => /\ InBlockD(r, d)
                           /\ d.mline = r.src[Rel(r, d) + 1]
                           /\ 0 <= d.mpos /\ d.mpos <= d.mlen
    [] c = "InBlock" ->
         Speaks(c, r) => \A i \in 1..Len(r.diags) :
            LET d == r.diags[i] IN d.hasfile /\ d.file = r.file /\ InBlockD(r, d)
    [] c = "Counted" -> r.count = Len(r.diags) /\ ~r.shown
    [] c = "FatalIffDiagnosed" ->
         \* scanner_main --warn-error on the same comments: fails iff its log received anything, and does
         \* receive whatever the comment parser diagnoses (later passes may add diagnostics of their own)
         Speaks(c, r) => /\ r.fatal.exited <=> (r.fatal.ndiag > 0)
                         /\ r.diags # <<>> => r.fatal.exited
    [] c = "IgnoredNotHalfApplied" ->
         /\ \A i \in 1..Len(r.ign) : \A j \in 1..Len(r.ign[i].names) :
               r.ign[i].names[j] \notin PartAnnNames(r.tree, r.ign[i].part)
         \* a rejected continuation line leaves the annotations of its part -- names, order AND option values --
         \* exactly as the same block has them when it ends just before that line (hasref / refpart / reftree:
         \* the real parser's tree of the block cut off there)
         /\ r.hasref => PartAnnsDeep(r.tree, r.refpart) = PartAnnsDeep(r.reftree, r.refpart)

ClauseNames == {"NoRaise", "OthersSurvive", "LineIsFaultLine", "CaretInLine", "InBlock", "Counted",
                "FatalIffDiagnosed", "IgnoredNotHalfApplied"}

\* detail: the kind of the first diagnostic that breaks the clause (or of the planted fault)
FaultKind(r) == IF r.open \notin {"alone"} THEN r.open
                ELSE IF r.faults # <<>> THEN r.faults[1].kind
                ELSE IF r.close # "alone" THEN r.close ELSE r.stream
BadDiags(c, r) ==
  {i \in 1..Len(r.diags) :
     LET d == r.diags[i] IN
     CASE c = "LineIsFaultLine" -> ~(d.hasfile /\ d.file = r.file /\ d.hasline /\ <<Rel(r, d), KClass(d.kind)>> \in Coarse(Permitted(r)))
       [] c = "CaretInLine" -> d.hasmarker /\ ~(InBlockD(r, d) /\ d.mline = r.src[Rel(r, d) + 1] /\ 0 <= d.mpos /\ d.mpos <= d.mlen)
       [] c = "InBlock" -> ~(d.hasfile /\ d.file = r.file /\ InBlockD(r, d))
       [] OTHER -> FALSE}
Detail(c, r) ==
  IF BadDiags(c, r) # {}
  THEN LET i == CHOOSE i \in BadDiags(c, r) : \A j \in BadDiags(c, r) : i <= j
           d == r.diags[i]
       IN FaultKind(r) \o "/" \o d.kind \o "/" \o
          (IF ~d.hasline THEN "nopos"
           ELSE IF ~InBlockD(r, d) THEN "outside"
           ELSE IF Rel(r, d) = Len(r.src) - 1 /\ ~r.closealone THEN "closetext"     \* the line shared with the end token
           ELSE "inblock")
  ELSE FaultKind(r) \o "/-/" \o (IF c = "IgnoredNotHalfApplied" /\ r.hasref /\ PartAnnsDeep(r.tree, r.refpart) # PartAnnsDeep(r.reftree, r.refpart)
                                THEN (IF r.refdup THEN "options-of-repeated-annotation" ELSE "continuation-line") ELSE "-")

\* drift: the modelled parser's diagnostics (line, kind) against the real ones
ModelAgrees(r) ==
  (r.stream = "fault" /\ r.alone) =>
     \* cases are exported with StartLine = 1; a lost position is line 0 in the model
     {<<r.specdiags[i].line - 1, KClass(r.specdiags[i].kind)>> : i \in 1..Len(r.specdiags)}
     = {<<IF r.diags[i].hasline THEN Rel(r, r.diags[i]) ELSE 0 - 1, KClass(r.diags[i].kind)>> : i \in 1..Len(r.diags)}

RejectedOf(r) == { <<r.id, c, Detail(c, r)>> : c \in {d \in ClauseNames : ~C11(d, r)} }
                 \cup (IF ModelAgrees(r) THEN {} ELSE {<<r.id, "DRIFT:ModelDiags", FaultKind(r)>>})
Rejected == UNION { RejectedOf(Obs[i]) : i \in 1..Len(Obs) }
Exercised == [c \in ClauseNames |-> Cardinality({i \in 1..Len(Obs) : Speaks(c, Obs[i])})]

ASSUME JsonSerialize(IOEnv.VERDICT_FILE, [n |-> Len(Obs), rejected |-> SetToSeq(Rejected), exercised |-> Exercised])
VARIABLE done
TInit == done = FALSE /\ pc = "x" /\ g = G0 /\ model = M0 /\ lines = <<>> /\ ps = PS0 /\ expected = {}
TNext == ~done /\ done' = TRUE /\ UNCHANGED vars
=============================================================================

SPECIFICATION Spec
CONSTANTS
  Forms <- OneForm
  Indents <- Ind02
  MaxIdAnns = 0
  MaxParams = 2
  MaxParamAnns = 2
  MaxPartLines = 2
  MaxDescLines = 0
  MaxParas = 0
  MaxTags = 0
  TagNames <- TagsR
  MaxTagAnns = 0
  MaxCont = 2
  MaxNoise = 0
  AtReturns = FALSE
  FaultKinds <- NoFaults
  MaxFaults = 0
  KeepLines = FALSE
  Known <- KnownC10
  StartLine = 10
CHECK_DEADLOCK FALSE
INVARIANT TypeOK
INVARIANT RoundTrip
INVARIANT WriterFix

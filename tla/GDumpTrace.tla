----------------------------- MODULE GDumpTrace -----------------------------
(* C12 property layer (tla/GDump.tla) evaluated by TLC on observations of the REAL scanner:
   GDumpParser.init_parse/parse + MainTransformer + IntrospectablePass + GIRWriter run on a generated world,
   the emitted GIR projected by harness/gdumpgen.py.  One record per world:
   [id, w, asked, askedQ, dump, dumpQ, g, crashed].  Verdict = all failing <<id, clause, detail>>
   (clause "EXTRA" = beyond-statement clauses, reported as notes by the harness). *)
EXTENDS GDump, Json, IOUtils, SequencesExt

Obs == JsonDeserialize(IOEnv.TRACE_FILE)
N == Len(Obs)

(* every operator below is evaluated once per observation (TLC does not memoise function applications) *)
Rejected == UNION {{<<Obs[i].id, f[1], f[2]>> : f \in Failures(Obs[i]) \cup F_Extra(Obs[i])} : i \in 1..N}
Exercised == [c \in ClauseNames |-> FoldSeq(LAMBDA o, acc : acc + Exercise(o)[c], 0, Obs)]
IllFormed == {Obs[i].id : i \in {j \in 1..N : ~WorldOK(Obs[j].w)}}

ASSUME JsonSerialize(IOEnv.VERDICT_FILE, [n |-> N, rejected |-> SetToSeq(Rejected), exercised |-> Exercised,
                                          illformed |-> SetToSeq(IllFormed)])
VARIABLE done
TInit == /\ done = FALSE
         /\ w = <<>> /\ pc = "trace" /\ ns = EmptyNs /\ asked = <<>> /\ askedQ = <<>> /\ dump = <<>> /\ dumpQ = <<>>
         /\ idx = 1 /\ btab = <<>> /\ ptab = <<>> /\ girOut = EmptyG
TNext == ~done /\ done' = TRUE /\ UNCHANGED vars
=============================================================================

--------------------------- MODULE XmlWriterCases ---------------------------
(***************************************************************************)
(* Exports cases of XmlWriterMC for replay against the real XMLWriter       *)
(* (S->C).  The control skeleton of the writer model (XmlWriter!Enabled /   *)
(* XmlWriter!CtlStep: tag stack, live with-blocks, document-element rule)   *)
(* is explored exhaustively over the operation alphabet CtlOps that         *)
(* XmlWriter_ctl*.cfg model-checks; the state is (control state, history of *)
(* operation indices), so TLC's state graph is the tree of all enabled      *)
(* operation sequences of length <= MAXLEN.  Run with `-dump`: the harness  *)
(* reads the histories of the states with fin = TRUE (document element      *)
(* closed, no live with-block: the behaviours that end in a whole document) *)
(* and replays every one of them on the real XMLWriter.                     *)
(*   ops      the operation table the histories index into (payloads are    *)
(*            class strings; the harness renders them to code points);      *)
(*   strings  every class string of length <= 2 over the full alphabet and  *)
(*            of length 3 over the reduced alphabet (escaping cases).       *)
(* (A set-valued recursive operator computing the same set at constant      *)
(* level was 10x slower than letting TLC explore the tree with all workers.)*)
(***************************************************************************)
EXTENDS Integers, Sequences, FiniteSets, SequencesExt, TLC, Json, IOUtils

VARIABLES c, h, fin

Id(x) == x
W == INSTANCE XmlWriterMC WITH ABS <- Id, HIST <- Id, EscVariant <- "asis", AllowMisuse <- FALSE,
                               OpSet <- {}, MaxOps <- 0,
                               stack <- c.stack, ctxs <- c.ctxs, indent <- c.indent, root <- c.root,
                               misuse <- c.misuse, out <- <<>>, doc <- <<>>, hist <- h, cs <- <<>>

MaxLen == IF IOEnv.MAXLEN = "7" THEN 7 ELSE IF IOEnv.MAXLEN = "6" THEN 6
          ELSE IF IOEnv.MAXLEN = "4" THEN 4 ELSE 5

OpTab == SetToSeq(W!CtlOps)
CompleteCtl(x) == x.stack = <<>> /\ x.ctxs = <<>> /\ x.root = 2

CInit == c = W!Ctl0 /\ h = <<>> /\ fin = FALSE
CNext == /\ Len(h) < MaxLen
         /\ \E i \in DOMAIN OpTab :
              /\ W!Enabled(c, OpTab[i])
              /\ c' = W!CtlStep(c, OpTab[i])
              /\ h' = Append(h, i)
              /\ fin' = CompleteCtl(c')
CasesSpec == CInit /\ [][CNext]_<<c, h, fin>>

\* control-level sanity of every explored prefix (the same facts XmlWriter_ctl*.cfg proves of the full model)
CtlInv == /\ c.indent = 2 * Len(c.stack)
          /\ ~c.misuse
          /\ \A i \in DOMAIN c.ctxs : c.ctxs[i].h <= Len(c.stack) /\ c.stack[c.ctxs[i].h] = c.ctxs[i].name

A1 == W!Alphabet
A2 == W!ReducedAlphabet
Strings == {<<>>} \cup {<<a>> : a \in A1} \cup {<<a, b>> : a \in A1, b \in A1}
           \cup {<<a, b, d>> : a \in A2, b \in A2, d \in A2}

ASSUME JsonSerialize(IOEnv.CASES_FILE, [ops |-> OpTab, strings |-> SetToSeq(Strings), maxlen |-> MaxLen])
=============================================================================

SPECIFICATION Spec
CONSTANTS
  Which = "pairsret"
  Cases <- MC_Cases
INVARIANT ImplSatisfiesProperty
CHECK_DEADLOCK FALSE

SPECIFICATION MCSpec
CONSTANTS
  Dev = {}
  Which = "pairsret"
  Cases <- NoCases
INVARIANT ImplSatisfiesProperty
CHECK_DEADLOCK FALSE

SPECIFICATION CSpecByGen
CONSTANTS
  Forms <- CAllForms
  Indents <- CInd012
  MaxIdAnns = 3
  MaxParams = 2
  MaxParamAnns = 3
  MaxPartLines = 2
  MaxDescLines = 1
  MaxParas = 1
  MaxTags = 3
  TagNames <- CTagsAll
  MaxTagAnns = 3
  MaxCont = 2
  MaxNoise = 1
  AtReturns = TRUE
  FaultKinds <- CParenFaults
  MaxFaults = 1
  KeepLines = TRUE
  Known <- CKnown
  StartLine = 1
CHECK_DEADLOCK FALSE

SPECIFICATION Spec
CONSTANTS
  Forms <- AllForms
  Indents <- Ind012
  MaxIdAnns = 2
  MaxParams = 2
  MaxParamAnns = 2
  MaxPartLines = 2
  MaxDescLines = 2
  MaxParas = 2
  MaxTags = 2
  TagNames <- TagsAll
  MaxTagAnns = 2
  MaxCont = 2
  MaxNoise = 1
  AtReturns = TRUE
  FaultKinds <- NoFaults
  MaxFaults = 0
  KeepLines = TRUE
  Known <- KnownC10
  StartLine = 10
CHECK_DEADLOCK FALSE
INVARIANT RoundTrip
INVARIANT WriterFix

SPECIFICATION MCSpec
CONSTANTS
  Dev = {}
  Which = "null3"
  Cases <- NoCases
INVARIANT ImplSatisfiesProperty
CHECK_DEADLOCK FALSE

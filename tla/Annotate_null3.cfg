SPECIFICATION Spec
CONSTANTS
  Which = "null3"
  Cases <- MC_Cases
INVARIANT ImplSatisfiesProperty
CHECK_DEADLOCK FALSE

SPECIFICATION Spec
CONSTANTS
  Dev = {"EmptyRemainderMatches"}
  Mode = "prefix"
  AnnSet = {"-"}
INVARIANT I_Present
CHECK_DEADLOCK FALSE

SPECIFICATION Spec
CONSTANTS
  N = 3
  Kinds <- K_method
  TKs <- TK_method
  AllowList = FALSE
  AllowNSkip = FALSE
  AllowVSkip = FALSE
  AllowReturn = FALSE
  AllowMoved = FALSE
  AllowHost = TRUE
  AllowRename = FALSE
  MaxFunctions = 1
  Stepwise = TRUE
  AliasRecheck = TRUE
  CallableWalks = 1
  RenameScopeCheck = TRUE
  COrder = TRUE
  Orders <- Id3
  KnownShapes <- W_one_walk
  ExportViol = 0
  ExportOk = 0
INVARIANT NoWitness
CHECK_DEADLOCK FALSE

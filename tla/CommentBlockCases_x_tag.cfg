SPECIFICATION CSpec
CONSTANTS
  Forms <- COneForm
  Indents <- CInd02
  MaxIdAnns = 0
  MaxParams = 0
  MaxParamAnns = 0
  MaxPartLines = 1
  MaxDescLines = 0
  MaxParas = 0
  MaxTags = 1
  TagNames <- CTagsRS
  MaxTagAnns = 1
  MaxCont = 1
  MaxNoise = 0
  AtReturns = FALSE
  FaultKinds <- CNoFaults
  MaxFaults = 0
  KeepLines = TRUE
  Known <- CKnown
  StartLine = 1
CHECK_DEADLOCK FALSE
INVARIANT RoundTrip

SPECIFICATION CSpec
CONSTANTS
  Forms <- COneForm
  Indents <- CInd02
  MaxIdAnns = 0
  MaxParams = 0
  MaxParamAnns = 0
  MaxPartLines = 0
  MaxDescLines = 2
  MaxParas = 2
  MaxTags = 0
  TagNames <- CTagsS
  MaxTagAnns = 0
  MaxCont = 0
  MaxNoise = 1
  AtReturns = FALSE
  FaultKinds <- CNoFaults
  MaxFaults = 0
  KeepLines = TRUE
  Known <- CKnown
  StartLine = 1
CHECK_DEADLOCK FALSE
INVARIANT RoundTrip

------------------------------- MODULE Accept -------------------------------
(* C15 -- whatever the scanner writes, the typelib compiler accepts.

   IMPLEMENTATION-SHAPED LAYER.  Two programs meet in one file format (docs/gir-1.2.rnc):

     producer   giscanner/girwriter.py GIRWriter, fed by what IntrospectablePass guarantees about the nodes.
                Emit*(n) transcribes _write_* / _append_*: WHICH element, WHICH attribute under WHICH condition,
                children in the writer's order.  The abstract node n carries the fields the writer reads.
     consumer   girepository/girparser.c: the first pass (aliases), start_element_handler / end_element_handler
                with the STATE_* machine, introspectable_prelude (introspectable="0" and shadowed-by subtrees are
                skipped through STATE_PASSTHROUGH / unknown_depth), the start_* functions with the attributes each
                requires and the defaults each applies, then the references girnode.c resolves while building
                (find_entry: "type reference not found", accessor / invoker lookups).

   A document is a sequence of events [e |-> "s", tag, at] / [e |-> "e", tag]; `at` is the attribute list
   <<name, value>>... in the writer's order (find_attribute takes the first match).  The consumer is a state
   machine over the events (one TLC state per event), so that "which state is the parser in when it meets this
   element" is explicit -- that is where a nested <record> inside a <record> or an <attribute> inside an <alias>
   goes wrong.

   The model follows the code AS FOUND where `Code` (a set of deviation names) says so; Code = {} is the pair in
   which C15 holds.  Each deviation has been observed on the real pair by harness/props/c15.py (which also reports,
   as a DRIFT note, a deviation it no longer observes):

   producer side (what the passes let through to the writer)
     skipped_value      IntrospectablePass._introspectable_param_analysis returns early for a (skip)ped parameter /
                        return value: a callable whose skipped value has no transfer default stays introspectable
                        (writer: no transfer-ownership attribute, which start_parameter / start_return_value require)
     constant_type      the type of a constant is never analysed: unresolved type -> <type> without name
                        (long long -> name "long long", gpointer -> a constant of type void: same hole)
     hidden_target      invoker= / setter= / getter= / glib:set-property= / glib:type-struct= keep naming a member or
                        type that is itself not introspectable
     callback_field     a field whose callback type is (skip)ped is not marked itself
     shadower_hidden    shadowed-by stays although the function that shadows is not introspectable
   consumer side
     alias_first_pass   the first pass reads every <alias>, introspectable="0" or not
     alias_attribute    <attribute> inside <alias>: no node on the stack, "element attribute ... is unknown"
     nested_same_kind   <record> directly inside <record> (<union> inside <union>): state_switch to the same state
     field_kept         a field marked introspectable="0" is kept (as gpointer; deliberate: the layout needs it)
     member_kept        an enumeration member marked introspectable="0" is kept
     inout_allow_none   allow-none="1" on an inout parameter (the writer adds it to nullable="1") is read as optional
     field_readable     readable="0" is read as readable, readable="1" as not readable
     silent_index       get_index_of_member_type: a name that is not found yields the LAST member of that kind, not -1
     inout_caller_allocates  the scanner may state caller-allocates="1" for an inout parameter; start_parameter reads the attribute for "out" only
     when_must_collect  (producer) a signal without run stage is written when="must-collect", a value the contract does not list
   repaired in /repo (kept as what-if switches: Accept_w_<d>.cfg adds d to the code as it is now and must fail)
     skipped_value 5501abd   constant_type e2183ca   callback_field 541fd0b   alias_first_pass 7e9f6e2   alias_attribute 6f692f2
     property_deprecated 43698fe (start_property did not read `deprecated`)
     skip_return ca5fac5 (skip="1" on a return value reached the typelib only for functions)
   the others are recorded findings (known_findings.json, ids C15-...): AcceptMC's main configurations run with Code = Known = those,
   Accept_k_<d>.cfg takes d out of Known and must fail, Accept_ideal.cfg is Code = Known = {}.

   The PROPERTY LAYER is AcceptProp.tla (observables only); AcceptMC.tla checks  consumer(producer(n)) |= AcceptProp
   for every node of bounded families, AcceptTrace.tla evaluates the same clauses on the real pair.                *)
EXTENDS AcceptProp, SequencesExt, TLC

CONSTANT Code                       \* deviation names present in the modelled pair

DeviationNames == {"skipped_value", "constant_type", "hidden_target", "callback_field", "shadower_hidden", "alias_first_pass",
                   "alias_attribute", "nested_same_kind", "field_kept", "member_kept", "inout_allow_none", "property_deprecated",
                   "field_readable", "skip_return", "silent_index", "when_must_collect", "inout_caller_allocates"}
ASSUME Code \subseteq DeviationNames
Dev(d) == d \in Code

(* ================================================================================================ events *)
NoVal == "\\absent"
S(tag, at) == [e |-> "s", tag |-> tag, at |-> at]
E(tag)     == [e |-> "e", tag |-> tag, at |-> <<>>]
El(tag, at, kids) == <<S(tag, at)>> \o kids \o <<E(tag)>>
A(n, v) == << <<n, v>> >>
Opt(c, n, v) == IF c THEN << <<n, v>> >> ELSE <<>>
Get(at, n) == IF \E i \in 1..Len(at) : at[i][1] = n
              THEN at[CHOOSE i \in 1..Len(at) : at[i][1] = n /\ \A j \in 1..(i - 1) : at[j][1] # n][2] ELSE NoVal
Has(at, n) == \E i \in 1..Len(at) : at[i][1] = n
GetOr(at, n, d) == IF Has(at, n) THEN Get(at, n) ELSE d
\* (folds instead of recursive operators wherever a document is built or scanned: eager, no lazily nested arguments)
Flat(ss) == FoldLeft(LAMBDA acc, x : acc \o x, <<>>, ss)
B01(b) == IF b THEN "1" ELSE "0"
IntStr(i) == CASE i = 0 -> "0" [] i = 1 -> "1" [] i = 2 -> "2" [] i = 3 -> "3" [] OTHER -> "9"
StrInt(s) == CASE s = "0" -> 0 [] s = "1" -> 1 [] s = "2" -> 2 [] s = "3" -> 3 [] s = "9" -> 9 [] OTHER -> 0    \* atoi
Atoi(s) == StrInt(s)

(* ============================================================================================== producer *)
(* abstract types: [k, name, kids]   k: "named" (name as written), "array", "list", "map", "varargs",
   "unresolved" (the writer has no name to write)                                                         *)
TNamed(n) == [k |-> "named", name |-> n, kids |-> <<>>, len |-> -1]
TUnres    == [k |-> "unresolved", name |-> "", kids |-> <<>>, len |-> -1]
TVarargs  == [k |-> "varargs", name |-> "", kids |-> <<>>, len |-> -1]
TArray(t, len) == [k |-> "array", name |-> "", kids |-> <<t>>, len |-> len]
TList(t)  == [k |-> "list", name |-> "GLib.List", kids |-> <<t>>, len |-> -1]
TMap(a, b) == [k |-> "map", name |-> "GLib.HashTable", kids |-> <<a, b>>, len |-> -1]

RECURSIVE WType(_)
WType(t) ==          \* _write_type
    CASE t.k = "varargs" -> El("varargs", <<>>, <<>>)
      [] t.k = "array" -> El("array", Opt(t.len >= 0, "length", IntStr(t.len)) \o A("c:type", "x*"), WType(t.kids[1]))
      [] t.k = "list" -> El("type", A("name", t.name) \o A("c:type", "GList*"), WType(t.kids[1]))
      [] t.k = "map" -> El("type", A("name", t.name) \o A("c:type", "GHashTable*"), WType(t.kids[1]) \o WType(t.kids[2]))
      [] t.k = "unresolved" -> El("type", A("c:type", "BarUnknown*"), <<>>)
      [] OTHER -> El("type", A("name", t.name) \o A("c:type", "x"), <<>>)

\* _append_node_generic (+ _append_version, which no consumer reads)
Generic(n) == Opt(~n.intro, "introspectable", "0") \o Opt(n.deprecated, "deprecated", "1") \o Opt(n.deprecated, "deprecated-version", "1.2")
\* _write_generic: <attribute>, <doc>, <source-position>
GenericKids(n) == (IF n.attrs THEN El("attribute", A("name", "k") \o A("value", "v"), <<>>) ELSE <<>>)
                  \o (IF n.doc THEN El("doc", A("xml:space", "preserve") \o A("filename", "foo.c") \o A("line", "1"), <<>>) ELSE <<>>)
                  \o El("source-position", A("filename", "foo.h") \o A("line", "1"), <<>>)

(* value = parameter / return value:
   [name, dir, ca, transfer ("" = None), nullable, optional, scope, closure, destroy, skip, type] *)
WReturn(v) ==        \* _write_return_type
    El("return-value", Opt(v.transfer # "", "transfer-ownership", v.transfer) \o Opt(v.skip, "skip", "1") \o Opt(v.nullable, "nullable", "1"),
       WType(v.type))
WParam(v, tag) ==    \* _write_parameter
    El(tag, Opt(v.name # "", "name", v.name)
            \o (IF v.dir # "in" THEN A("direction", v.dir) \o A("caller-allocates", B01(v.ca)) ELSE <<>>)
            \o Opt(v.transfer # "", "transfer-ownership", v.transfer)
            \o (IF v.nullable THEN A("nullable", "1") \o Opt(v.dir # "out", "allow-none", "1") ELSE <<>>)
            \o (IF v.optional THEN A("optional", "1") \o Opt(v.dir = "out", "allow-none", "1") ELSE <<>>)
            \o Opt(v.scope # "", "scope", v.scope)
            \o Opt(v.closure >= 0, "closure", IntStr(v.closure))
            \o Opt(v.destroy >= 0, "destroy", IntStr(v.destroy))
            \o Opt(v.skip, "skip", "1"),
       WType(v.type))
WParams(c) ==        \* _write_parameters
    IF c.params = <<>> /\ ~c.hasInst THEN <<>>
    ELSE El("parameters", <<>>, (IF c.hasInst THEN WParam(c.inst, "instance-parameter") ELSE <<>>)
                                \o Flat([i \in 1..Len(c.params) |-> WParam(c.params[i], "parameter")]))
\* _write_callable
WCallable(c, tag, extra) ==
    El(tag, A("name", c.name) \o extra \o Generic(c) \o Opt(c.throws, "throws", "1"),
       GenericKids(c) \o WReturn(c.ret) \o WParams(c))
\* _write_function_common: function | method | constructor (and their -inline forms)
WFunction(f, tag) ==
    IF f.internalSkipped THEN <<>>
    ELSE WCallable(f, IF f.inline THEN tag \o "-inline" ELSE tag,
                   A("c:identifier", f.cid)
                   \o (IF f.shadowedBy # "" THEN A("shadowed-by", f.shadowedBy) ELSE Opt(f.shadows # "", "shadows", f.shadows))
                   \o Opt(f.movedTo # "", "moved-to", f.movedTo)
                   \o Opt(f.setProp # "", "glib:set-property", f.setProp)
                   \o Opt(f.getProp # "", "glib:get-property", f.getProp))
WCallback(c) == WCallable(c, "callback", A("c:type", "FooCb"))
WVFunc(v) == WCallable(v, "virtual-method", Opt(v.invoker # "", "invoker", v.invoker))
WSignal(s) ==        \* _write_signal: its own attribute order; no throws
    El("glib:signal", A("name", s.name) \o Opt(s.when # "", "when", s.when) \o Opt(s.noRecurse, "no-recurse", "1")
                      \o Opt(s.detailed, "detailed", "1") \o Opt(s.action, "action", "1") \o Opt(s.noHooks, "no-hooks", "1") \o Generic(s),
       GenericKids(s) \o WReturn(s.ret) \o WParams(s))
WProperty(p) ==      \* _write_property
    El("property", A("name", p.name) \o Generic(p) \o Opt(~p.readable, "readable", "0") \o Opt(p.writable, "writable", "1")
                   \o Opt(p.construct, "construct", "1") \o Opt(p.constructOnly, "construct-only", "1")
                   \o Opt(p.transfer # "", "transfer-ownership", p.transfer)
                   \o Opt(p.setter # "", "setter", p.setter) \o Opt(p.getter # "", "getter", p.getter),
       GenericKids(p) \o WType(p.type))
RECURSIVE WCompound(_, _)
WField(f) ==         \* _write_field
    CASE f.k = "callback" -> El("field", A("name", f.name) \o Generic(f), GenericKids(f) \o WCallback(f.cb))
      [] f.k = "record" -> WCompound(f.anon, "record")
      [] f.k = "union" -> WCompound(f.anon, "union")
      [] OTHER -> El("field", A("name", f.name) \o Generic(f) \o Opt(~f.readable, "readable", "0") \o Opt(f.writable, "writable", "1")
                              \o Opt(f.bits > 0, "bits", IntStr(f.bits)) \o Opt(f.private, "private", "1"),
                     GenericKids(f) \o WType(f.type))
Registered(n) == IF n.getType # "" THEN A("glib:type-name", n.typeName) \o A("glib:get-type", n.getType) ELSE <<>>
WMethods(n) == Flat([i \in 1..Len(n.methods) |-> WFunction(n.methods[i], n.methods[i].tag)])
WCompound(r, tag) == \* _write_record / _write_union (attribute order differs, no consumer depends on it)
    El(tag, Opt(r.name # "", "name", r.name) \o Opt(r.name # "", "c:type", "Foo" \o r.name)
            \o Opt(tag = "record" /\ r.gtypeStructFor # "", "glib:is-gtype-struct-for", r.gtypeStructFor)
            \o Generic(r) \o Registered(r),
       GenericKids(r) \o Flat([i \in 1..Len(r.fields) |-> WField(r.fields[i])]) \o WMethods(r))
WMember(m) ==        \* _write_member
    El("member", A("name", m.name) \o A("value", m.value) \o A("c:identifier", m.cid) \o Generic(m), GenericKids(m))
WEnum(e) ==          \* _write_enum / _write_bitfield
    El(e.tag, A("name", e.name) \o Generic(e) \o Registered(e) \o A("c:type", "Foo" \o e.name)
              \o Opt(e.errorDomain # "", "glib:error-domain", e.errorDomain),
       GenericKids(e) \o Flat([i \in 1..Len(e.members) |-> WMember(e.members[i])]) \o WMethods(e))
WConstant(c) ==      \* _write_constant
    El("constant", A("name", c.name) \o A("value", c.value) \o A("c:type", "FOO_" \o c.name) \o Generic(c), GenericKids(c) \o WType(c.type))
WAlias(a) ==         \* _write_alias
    El("alias", A("name", a.name) \o A("c:type", "Foo" \o a.name) \o Generic(a), GenericKids(a) \o WType(a.target))
WClass(k) ==         \* _write_class (class | interface)
    El(k.tag, A("name", k.name) \o A("c:symbol-prefix", "k") \o A("c:type", "Foo" \o k.name) \o Generic(k)
              \o Opt(k.tag = "class" /\ k.parent # "", "parent", k.parent)
              \o Opt(k.tag = "class" /\ k.abstract, "abstract", "1") \o Opt(k.tag = "class" /\ k.final, "final", "1")
              \o A("glib:type-name", k.typeName) \o Opt(k.getType # "", "glib:get-type", k.getType)
              \o Opt(k.typeStruct # "", "glib:type-struct", k.typeStruct)
              \o Opt(k.tag = "class" /\ k.fundamental, "glib:fundamental", "1"),
       GenericKids(k)
       \o Flat([i \in 1..Len(k.ifaces) |-> El(IF k.tag = "class" THEN "implements" ELSE "prerequisite", A("name", k.ifaces[i]), <<>>)])
       \o WMethods(k)                  \* constructors, static methods, methods (the writer puts the virtual methods before the methods)
       \o Flat([i \in 1..Len(k.vfuncs) |-> WVFunc(k.vfuncs[i])])
       \o Flat([i \in 1..Len(k.props) |-> WProperty(k.props[i])])
       \o Flat([i \in 1..Len(k.fields) |-> WField(k.fields[i])])
       \o Flat([i \in 1..Len(k.signals) |-> WSignal(k.signals[i])]))
WBoxed(b) ==         \* _write_boxed
    El("glib:boxed", A("glib:name", b.name) \o A("c:symbol-prefix", "b") \o Registered(b), GenericKids(b) \o WMethods(b))
WMacro(m) == El("function-macro", A("name", m.name) \o A("c:identifier", m.name) \o Generic(m),
                GenericKids(m) \o El("parameters", <<>>, El("parameter", A("name", "a"), <<>>)))
WDocSection(d) == El("docsection", A("name", d.name), El("doc", A("xml:space", "preserve"), <<>>))

WNode(n) ==          \* _write_node
    CASE n.tag \in {"function"} -> WFunction(n, "function")
      [] n.tag = "callback" -> WCallback(n)
      [] n.tag \in {"enumeration", "bitfield"} -> WEnum(n)
      [] n.tag \in {"class", "interface"} -> WClass(n)
      [] n.tag \in {"record", "union"} -> WCompound(n, n.tag)
      [] n.tag = "glib:boxed" -> WBoxed(n)
      [] n.tag = "constant" -> WConstant(n)
      [] n.tag = "alias" -> WAlias(n)
      [] n.tag = "function-macro" -> WMacro(n)
      [] n.tag = "docsection" -> WDocSection(n)
      [] OTHER -> <<>>
\* _write_repository / _write_namespace: aliases first
WRepository(nodes) ==
    El("repository", A("version", "1.2") \o A("xmlns", "core") \o A("xmlns:c", "c") \o A("xmlns:glib", "glib"),
       El("include", A("name", "GObject") \o A("version", "2.0"), <<>>)
       \o El("package", A("name", "foo-1.0"), <<>>)
       \o El("c:include", A("name", "foo.h"), <<>>)
       \o El("doc:format", A("name", "unknown"), <<>>)
       \o El("namespace", A("name", "Foo") \o A("version", "1.0") \o A("shared-library", "libfoo.so") \o A("c:identifier-prefixes", "Foo")
                          \o A("c:symbol-prefixes", "foo"),
             Flat([i \in 1..Len(nodes) |-> WNode(nodes[i])])))

(* ============================================================================================== consumer *)
(* context: st, prev, depth (unknown_depth), stack (indices into nodes), typed (index of current_typed, 0 = NULL),
   typedKind, typeDepth, embedded (in_embedded_state), nodes (every GIrNode created), entries (top-level indices),
   aliases (first pass), refs (names find_entry will be asked for), err ("" = none), warns (sequence)             *)
InitCtx(aliases, aerr) == [st |-> "START", prev |-> "NONE", depth |-> 0, stack |-> <<>>, typed |-> 0, typeDepth |-> 0, embedded |-> "NONE",
                           nodes |-> <<>>, entries |-> <<>>, aliases |-> aliases, refs |-> {}, err |-> aerr, warns |-> <<>>, module |-> FALSE]
Fail(c, msg) == [c EXCEPT !.err = msg]
Switch(c, new) == IF c.st = new THEN Fail(c, "abort: state_switch: assertion failed: (ctx->state != newstate)")   \* = AbortSameState
                  ELSE [c EXCEPT !.prev = c.st, !.st = new, !.depth = IF new = "PASSTHROUGH" THEN 1 ELSE @]
Missing(c, el, attr) == Fail(c, "error: The attribute '" \o attr \o "' on the element '" \o el \o "' must be specified")
Top(c) == c.stack[Len(c.stack)]
Cur(c) == c.nodes[Top(c)]
Push(c, node, isEntry) == LET i == Len(c.nodes) + 1 IN
    [c EXCEPT !.nodes = Append(@, node), !.stack = Append(@, i), !.entries = IF isEntry THEN Append(@, i) ELSE @]
Pop(c) == [c EXCEPT !.stack = SubSeq(@, 1, Len(@) - 1)]
AddNode(c, node) == [c EXCEPT !.nodes = Append(@, node)]        \* created, owned by Top (owner field set by the caller)
NewIdx(c) == Len(c.nodes) + 1

\* introspectable_prelude
IsIntro(at) == ~(Has(at, "introspectable") /\ Atoi(Get(at, "introspectable")) = 0) /\ ~Has(at, "shadowed-by")
Prelude(c, at, new) == Switch(c, IF IsIntro(at) THEN new ELSE "PASSTHROUGH")

BasicNames == {"none", "gpointer", "gboolean", "gint8", "guint8", "gint16", "guint16", "gint32", "guint32", "gint64", "guint64", "gfloat",
               "gdouble", "GType", "utf8", "filename", "gunichar", "gchar", "guchar", "gshort", "gushort", "gint", "guint", "glong", "gulong",
               "gssize", "gsize", "gintptr", "guintptr"}
HasDot(n) == n \in {"GObject.Object", "GLib.List", "GLib.HashTable", "GLib.Error", "GObject.Hidden", "Foo.Rec", "Foo.Hidden", "Gio.Iface"}
\* resolve_aliases: follow the first-pass map (keys and non-basic values are namespace-qualified)
RECURSIVE ResolveAlias(_, _, _)
ResolveAlias(al, n, fuel) == IF fuel = 0 \/ n \notin DOMAIN al THEN n ELSE ResolveAlias(al, al[n], fuel - 1)
Resolved(c, name) == IF name \in BasicNames THEN name
                     ELSE LET q == IF HasDot(name) THEN name ELSE "Foo." \o name
                              r == ResolveAlias(c.aliases, q, 4) IN IF r = q THEN name ELSE r
\* parse_type: names find_entry has to find later (container and basic names need no entry)
RefOf(c, name) == LET r == Resolved(c, name) IN
                  IF r \in BasicNames \/ r \in {"GLib.List", "GLib.SList", "GLib.HashTable", "GLib.Error"} THEN {} ELSE {r}

(* ---- the first pass: firstpass_start_element_handler (aliases; disguised / pointer records are beside the point) *)
EmptyMap == [x \in {} |-> ""]
\* accumulator [cur, map, err]: cur = name of the alias being read ("" none, "\\skipped" inside an alias the pass leaves alone)
FirstPassStep(acc, ev) ==
    IF acc.err # "" THEN acc
    ELSE IF ev.e = "s" /\ ev.tag = "alias" THEN
        IF ~Dev("alias_first_pass") /\ ~IsIntro(ev.at) THEN [acc EXCEPT !.cur = "\\skipped"]
        ELSE IF ~Has(ev.at, "name") THEN [acc EXCEPT !.err = "error: The attribute 'name' on the element 'alias' must be specified"]
        ELSE [acc EXCEPT !.cur = Get(ev.at, "name")]
    ELSE IF ev.e = "s" /\ ev.tag = "type" /\ acc.cur \notin {"", "\\skipped"} THEN
        IF ~Has(ev.at, "name") THEN [acc EXCEPT !.err = "error: The attribute 'name' on the element 'type' must be specified"]
        ELSE LET n == Get(ev.at, "name")
                 v == IF n \in BasicNames \/ HasDot(n) THEN n ELSE "Foo." \o n IN
             [acc EXCEPT !.cur = "", !.map = ("Foo." \o acc.cur) :> v @@ @]
    ELSE IF ev.e = "e" /\ ev.tag = "alias" THEN [acc EXCEPT !.cur = ""]
    ELSE acc
FirstPass(doc) == FoldLeft(FirstPassStep, [cur |-> "", map |-> EmptyMap, err |-> ""], doc)

(* ---- the flag defaults of the start_* functions, node records in the vocabulary of AcceptProp's b.cands *)
TransferOK(at) == Has(at, "transfer-ownership") /\ Get(at, "transfer-ownership") \in {"none", "container", "full"}
TransferErr(c, at) == IF ~Has(at, "transfer-ownership") THEN Fail(c, "error: required attribute 'transfer-ownership' missing")
                      ELSE Fail(c, "error: invalid value for 'transfer-ownership'")
ParamOf(at) ==       \* start_parameter
    LET dir == GetOr(at, "direction", "in")
        out == dir \in {"out", "inout"}
        allow == GetOr(at, "allow-none", "0") = "1"
        \* if (param->out) optional else nullable  --  the writer adds allow-none to nullable for every direction but "out"
        allowOpt == IF Dev("inout_allow_none") THEN out ELSE dir = "out" IN
    [name |-> GetOr(at, "name", "unknown"), direction |-> IF dir \in {"out", "inout"} THEN dir ELSE "in",
     ca |-> (dir = "out" /\ GetOr(at, "caller-allocates", "0") = "1"),
     transfer |-> Get(at, "transfer-ownership"),
     nullable |-> (GetOr(at, "nullable", "0") = "1" \/ (allow /\ ~allowOpt)),
     optional |-> (GetOr(at, "optional", "0") = "1" \/ (allow /\ allowOpt)),
     scope |-> IF GetOr(at, "scope", "") \in {"call", "async", "notified", "forever"} THEN Get(at, "scope") ELSE "invalid",
     closure |-> IF Has(at, "closure") THEN Atoi(Get(at, "closure")) ELSE -1,
     destroy |-> IF Has(at, "destroy") THEN Atoi(Get(at, "destroy")) ELSE -1,
     skip |-> GetOr(at, "skip", "0") = "1"]
NoRet == [transfer |-> "none", nullable |-> FALSE, skip |-> FALSE]
SigFl(throws) == [throws |-> throws, inst |-> "none", ret |-> NoRet, params |-> <<>>, hasRet |-> FALSE]
Node(kind, name, owner, fl) == [kind |-> kind, name |-> name, symbol |-> "", deprecated |-> FALSE, owner |-> owner, fl |-> fl, typeOK |-> TRUE]

(* ---- start_element_handler: one operator per start_* function; each returns the new context, or "no" in .handled *)
Handled(c) == [c |-> c, h |-> TRUE]
NotMine(c) == [c |-> c, h |-> FALSE]
Owner(c) == IF c.stack = <<>> THEN 0 ELSE Top(c)

StartFunction(c, tag, at) ==         \* start_function
    LET found == CASE c.st = "NAMESPACE" -> tag \in {"function", "callback"}
                   [] c.st \in {"CLASS", "BOXED", "STRUCT", "UNION"} -> tag \in {"constructor", "function", "method", "callback"}
                   [] c.st = "INTERFACE" -> tag \in {"function", "method", "callback"}
                   [] c.st = "ENUM" -> tag = "function"
                   [] c.st \in {"CLASS_FIELD", "STRUCT_FIELD", "UNION_FIELD"} -> tag = "callback"
                   [] OTHER -> FALSE
        emb == IF c.st \in {"CLASS_FIELD", "STRUCT_FIELD", "UNION_FIELD"} THEN c.st ELSE "NONE" IN
    IF ~found THEN NotMine(c)
    ELSE LET c1 == Prelude(c, at, "FUNCTION") IN
         IF ~IsIntro(at) \/ c1.err # "" THEN Handled(c1)
         ELSE IF ~Has(at, "name") THEN NotMine(Missing(c1, tag, "name"))
         ELSE IF tag # "callback" /\ ~Has(at, "c:identifier") THEN NotMine(Missing(c1, tag, "c:identifier"))
         ELSE LET isM == tag \in {"method", "constructor"}
                  fl == SigFl(GetOr(at, "throws", "0") = "1") @@
                        [constructor |-> tag = "constructor", isStatic |-> ~isM,
                         setter |-> isM /\ Has(at, "glib:set-property"), getter |-> isM /\ ~Has(at, "glib:set-property") /\ Has(at, "glib:get-property"),
                         propName |-> IF ~isM THEN "" ELSE IF Has(at, "glib:set-property") THEN Get(at, "glib:set-property")
                                      ELSE GetOr(at, "glib:get-property", "")]
                  node == [Node(IF tag = "callback" THEN "callback" ELSE "function", GetOr(at, "shadows", Get(at, "name")), Owner(c1), fl)
                           EXCEPT !.symbol = GetOr(at, "c:identifier", ""), !.deprecated = Has(at, "deprecated")]
                  c2 == [c1 EXCEPT !.embedded = emb] IN
              \* a callback inside a field becomes field->callback, not a member
              IF c2.typed # 0 THEN Handled(Push([c2 EXCEPT !.nodes[c2.typed].fl.cb = TRUE], [node EXCEPT !.kind = "fieldcallback"], FALSE))
              ELSE Handled(Push(c2, node, c2.stack = <<>>))

StartParameters(c, tag, at) == IF tag = "parameters" /\ c.st = "FUNCTION" THEN Handled(Switch(c, "FUNCTION_PARAMETERS")) ELSE NotMine(c)
StartInstance(c, tag, at) ==         \* start_instance_parameter
    IF ~(tag = "instance-parameter" /\ c.st = "FUNCTION_PARAMETERS") THEN NotMine(c)
    ELSE LET c1 == Switch(c, "PASSTHROUGH") t == Get(at, "transfer-ownership") IN
         IF t \notin {"full", "none"} THEN NotMine(Fail(c1, "error: invalid value for 'transfer-ownership' for instance parameter"))
         ELSE Handled([c1 EXCEPT !.nodes[Top(c)].fl.inst = t])
StartParameter(c, tag, at) ==        \* start_parameter
    IF ~(tag = "parameter" /\ c.st = "FUNCTION_PARAMETERS") THEN NotMine(c)
    ELSE LET c1 == Switch(c, "FUNCTION_PARAMETER") IN
         IF ~TransferOK(at) THEN NotMine(TransferErr(c1, at))
         ELSE Handled([c1 EXCEPT !.nodes[Top(c)].fl.params = Append(@, ParamOf(at)), !.typed = Top(c), !.typeDepth = 0])
StartReturn(c, tag, at) ==           \* start_return_value
    IF ~(tag = "return-value" /\ c.st = "FUNCTION") THEN NotMine(c)
    ELSE LET c1 == Switch(c, "FUNCTION_RETURN")
             kind == Cur(c).kind
             skipRead == IF Dev("skip_return") THEN kind = "function" ELSE TRUE IN
         IF ~TransferOK(at) THEN NotMine(TransferErr(c1, at))
         ELSE Handled([c1 EXCEPT !.nodes[Top(c)].fl.ret = [transfer |-> Get(at, "transfer-ownership"), nullable |-> GetOr(at, "nullable", "0") = "1",
                                                            skip |-> skipRead /\ GetOr(at, "skip", "0") = "1"],
                                 !.nodes[Top(c)].fl.hasRet = TRUE, !.typed = Top(c), !.typeDepth = 0])
StartField(c, tag, at) ==            \* start_field
    LET target == CASE c.st = "CLASS" -> "CLASS_FIELD" [] c.st = "BOXED" -> "BOXED_FIELD" [] c.st = "STRUCT" -> "STRUCT_FIELD"
                    [] c.st = "UNION" -> "UNION_FIELD" [] c.st = "INTERFACE" -> "INTERFACE_FIELD" [] OTHER -> "" IN
    IF target = "" \/ tag # "field" THEN NotMine(c)
    ELSE LET intro == IsIntro(at)
             c1 == Prelude(c, at, target) IN
         IF c1.err # "" THEN Handled(c1)
         ELSE IF ~Has(at, "name") THEN NotMine(Missing(c1, tag, "name"))
         ELSE IF ~intro /\ ~Dev("field_kept") THEN Handled(c1)                    \* the pair in which C15 holds drops it
         ELSE LET rd == IF Dev("field_readable") THEN (~Has(at, "readable") \/ Get(at, "readable") = "0") ELSE GetOr(at, "readable", "1") # "0"
                  node == Node("field", Get(at, "name"), Top(c),
                               [readable |-> rd, writable |-> GetOr(at, "writable", "0") = "1", cb |-> FALSE, typed |-> ~intro])
                  i == NewIdx(c1) IN
              Handled([AddNode(c1, node) EXCEPT !.typed = IF intro THEN i ELSE 0])
StartEnum(c, tag, at) ==             \* start_enum
    IF ~(tag \in {"enumeration", "bitfield"} /\ c.st = "NAMESPACE") THEN NotMine(c)
    ELSE LET c1 == Prelude(c, at, "ENUM") IN
         IF ~IsIntro(at) \/ c1.err # "" THEN Handled(c1)
         ELSE IF ~Has(at, "name") THEN NotMine(Missing(c1, tag, "name"))
         ELSE Handled(Push(c1, [Node(IF tag = "enumeration" THEN "enum" ELSE "flags", Get(at, "name"), 0,
                                     [typeName |-> GetOr(at, "glib:type-name", ""), getType |-> GetOr(at, "glib:get-type", ""),
                                      errorDomain |-> GetOr(at, "glib:error-domain", ""), members |-> <<>>])
                                EXCEPT !.deprecated = Has(at, "deprecated")], TRUE))
StartMember(c, tag, at) ==           \* start_member (no prelude: the marking of a member is not looked at)
    IF ~(tag = "member" /\ c.st = "ENUM") THEN NotMine(c)
    ELSE IF ~Has(at, "name") THEN NotMine(Missing(c, tag, "name"))
    ELSE IF ~Dev("member_kept") /\ ~IsIntro(at) THEN Handled(Switch(c, "PASSTHROUGH"))
    ELSE LET node == [Node("value", Get(at, "name"), Top(c), [low32 |-> GetOr(at, "value", "0")]) EXCEPT !.deprecated = Has(at, "deprecated")] IN
         Handled([AddNode(c, node) EXCEPT !.nodes[Top(c)].fl.members = Append(@, <<Get(at, "name"), GetOr(at, "value", "0")>>)])
StartProperty(c, tag, at) ==         \* start_property
    IF ~(tag = "property" /\ c.st \in {"CLASS", "INTERFACE"}) THEN NotMine(c)
    ELSE LET c1 == Prelude(c, at, IF c.st = "CLASS" THEN "CLASS_PROPERTY" ELSE "INTERFACE_PROPERTY") IN
         IF ~IsIntro(at) \/ c1.err # "" THEN Handled(c1)
         ELSE IF ~Has(at, "name") THEN NotMine(Missing(c1, tag, "name"))
         ELSE LET t == GetOr(at, "transfer-ownership", "none")
                  node == [Node("property", Get(at, "name"), Top(c),
                                [readable |-> (~Has(at, "readable") \/ Get(at, "readable") = "1"), writable |-> GetOr(at, "writable", "0") = "1",
                                 construct |-> GetOr(at, "construct", "0") = "1", constructOnly |-> GetOr(at, "construct-only", "0") = "1",
                                 transfer |-> t, setter |-> GetOr(at, "setter", ""), getter |-> GetOr(at, "getter", "")])
                           EXCEPT !.deprecated = IF Dev("property_deprecated") THEN FALSE ELSE Has(at, "deprecated")]
                  c2 == IF t \in {"none", "container", "full"} THEN c1
                        ELSE [c1 EXCEPT !.warns = Append(@, "warning: Unknown transfer-ownership value")] IN
              Handled([AddNode(c2, node) EXCEPT !.typed = NewIdx(c2)])
StartConstant(c, tag, at) ==         \* start_constant
    IF ~(tag = "constant" /\ c.st \in {"NAMESPACE", "CLASS", "INTERFACE"}) THEN NotMine(c)
    ELSE LET target == CASE c.st = "NAMESPACE" -> "NAMESPACE_CONSTANT" [] c.st = "CLASS" -> "CLASS_CONSTANT" [] OTHER -> "INTERFACE_CONSTANT"
             c1 == Prelude(c, at, target) IN
         IF ~IsIntro(at) \/ c1.err # "" THEN Handled(c1)
         ELSE IF ~Has(at, "name") THEN NotMine(Missing(c1, tag, "name"))
         ELSE IF ~Has(at, "value") THEN NotMine(Missing(c1, tag, "value"))
         ELSE LET node == [Node("constant", Get(at, "name"), Owner(c), [value |-> Get(at, "value")]) EXCEPT !.deprecated = Has(at, "deprecated")] IN
              IF c.st = "NAMESPACE" THEN Handled([Push(c1, node, TRUE) EXCEPT !.typed = NewIdx(c1)])
              ELSE Handled([AddNode(c1, node) EXCEPT !.typed = NewIdx(c1)])
ClassFl(at) == [parent |-> GetOr(at, "parent", ""), abstract |-> GetOr(at, "abstract", "0") = "1", final |-> GetOr(at, "final", "0") = "1",
                fundamental |-> Has(at, "glib:fundamental"), typeName |-> GetOr(at, "glib:type-name", ""), getType |-> GetOr(at, "glib:get-type", ""),
                typeStruct |-> GetOr(at, "glib:type-struct", ""), interfaces |-> <<>>, prerequisites |-> <<>>]
StartClassLike(c, tag, at) ==        \* start_class / start_interface
    IF ~(tag \in {"class", "interface"} /\ c.st = "NAMESPACE") THEN NotMine(c)
    ELSE LET c1 == Prelude(c, at, IF tag = "class" THEN "CLASS" ELSE "INTERFACE") IN
         IF ~IsIntro(at) \/ c1.err # "" THEN Handled(c1)
         ELSE IF ~Has(at, "name") THEN NotMine(Missing(c1, tag, "name"))
         ELSE IF ~Has(at, "glib:type-name") THEN NotMine(Missing(c1, tag, "glib:type-name"))
         ELSE IF ~Has(at, "glib:get-type") /\ ~(tag = "class" /\ Get(at, "glib:type-name") = "GObject") THEN NotMine(Missing(c1, tag, "glib:get-type"))
         ELSE LET fl == ClassFl(at)
                  node == [Node(IF tag = "class" THEN "object" ELSE "interface", Get(at, "name"), 0, fl) EXCEPT !.deprecated = Has(at, "deprecated")]
                  refs == (IF fl.parent # "" /\ tag = "class" THEN {fl.parent} ELSE {}) \cup (IF fl.typeStruct # "" THEN {fl.typeStruct} ELSE {}) IN
              Handled([Push(c1, node, TRUE) EXCEPT !.refs = @ \cup {r \in refs : ~HasDot(r)}])
StartImplements(c, tag, at) ==       \* start_implements / the prerequisite branch of start_element_handler
    IF tag = "implements" /\ c.st = "CLASS" THEN
        LET c1 == Switch(c, "IMPLEMENTS") IN
        IF ~Has(at, "name") THEN NotMine(Missing(c1, tag, "name"))
        ELSE Handled([c1 EXCEPT !.nodes[Top(c)].fl.interfaces = Append(@, Get(at, "name")),
                                !.refs = @ \cup (IF HasDot(Get(at, "name")) THEN {} ELSE {Get(at, "name")})])
    ELSE IF tag = "prerequisite" /\ c.st = "INTERFACE" THEN
        LET c1 == Switch(c, "PREREQUISITE") IN
        IF ~Has(at, "name") THEN Handled(Missing(c1, tag, "name"))
        ELSE Handled([c1 EXCEPT !.nodes[Top(c)].fl.prerequisites = Append(@, Get(at, "name")),
                                !.refs = @ \cup (IF HasDot(Get(at, "name")) THEN {} ELSE {Get(at, "name")})])
    ELSE NotMine(c)
StartBoxed(c, tag, at) ==            \* start_glib_boxed
    IF ~(tag = "glib:boxed" /\ c.st = "NAMESPACE") THEN NotMine(c)
    ELSE LET c1 == Prelude(c, at, "BOXED") IN
         IF ~IsIntro(at) \/ c1.err # "" THEN Handled(c1)
         ELSE IF ~Has(at, "glib:name") THEN NotMine(Missing(c1, tag, "glib:name"))
         ELSE IF ~Has(at, "glib:type-name") THEN NotMine(Missing(c1, tag, "glib:type-name"))
         ELSE IF ~Has(at, "glib:get-type") THEN NotMine(Missing(c1, tag, "glib:get-type"))
         ELSE Handled(Push(c1, [Node("boxed", Get(at, "glib:name"), 0, [typeName |-> Get(at, "glib:type-name"), getType |-> Get(at, "glib:get-type")])
                                EXCEPT !.deprecated = Has(at, "deprecated")], TRUE))
StartSignal(c, tag, at) ==           \* start_glib_signal
    IF ~(tag = "glib:signal" /\ c.st \in {"CLASS", "INTERFACE"}) THEN NotMine(c)
    ELSE LET c1 == Prelude(c, at, "FUNCTION") IN
         IF ~IsIntro(at) \/ c1.err # "" THEN Handled(c1)
         ELSE IF ~Has(at, "name") THEN NotMine(Missing(c1, tag, "name"))
         ELSE LET w == GetOr(at, "when", "LAST")
                  fl == SigFl(FALSE) @@
                        [when |-> IF w \in {"LAST", "last"} THEN "last" ELSE IF w \in {"FIRST", "first"} THEN "first" ELSE "cleanup",
                         noRecurse |-> GetOr(at, "no-recurse", "0") = "1", detailed |-> GetOr(at, "detailed", "0") = "1",
                         action |-> GetOr(at, "action", "0") = "1", noHooks |-> GetOr(at, "no-hooks", "0") = "1"] IN
              Handled(Push(c1, [Node("signal", Get(at, "name"), Top(c), fl) EXCEPT !.deprecated = GetOr(at, "deprecated", "0") = "1"], FALSE))
StartVFunc(c, tag, at) ==            \* start_vfunc
    IF ~(tag = "virtual-method" /\ c.st \in {"CLASS", "INTERFACE"}) THEN NotMine(c)
    ELSE LET c1 == Prelude(c, at, "FUNCTION") IN
         IF ~IsIntro(at) \/ c1.err # "" THEN Handled(c1)
         ELSE IF ~Has(at, "name") THEN NotMine(Missing(c1, tag, "name"))
         ELSE Handled(Push(c1, Node("vfunc", Get(at, "name"), Top(c), SigFl(GetOr(at, "throws", "0") = "1") @@ [invoker |-> GetOr(at, "invoker", "")]), FALSE))
StartCompound(c, tag, at) ==         \* start_struct / start_union
    IF ~(tag \in {"record", "union"} /\ c.st \in {"NAMESPACE", "UNION", "STRUCT", "CLASS"}) THEN NotMine(c)
    ELSE LET new == IF tag = "record" THEN "STRUCT" ELSE "UNION"
             \* the pair in which C15 holds can nest a compound in a compound of the same kind
             c0 == IF ~Dev("nested_same_kind") /\ c.st = new THEN [c EXCEPT !.st = "NESTED"] ELSE c
             c1 == Prelude(c0, at, new) IN
         IF ~IsIntro(at) \/ c1.err # "" THEN Handled(c1)
         ELSE IF ~Has(at, "name") /\ c.stack = <<>> THEN NotMine(Missing(c1, tag, "name"))
         ELSE IF tag = "record" /\ ~Has(at, "glib:type-name") /\ Has(at, "glib:get-type") THEN NotMine(Missing(c1, tag, "glib:type-name"))
         ELSE IF tag = "record" /\ Has(at, "glib:type-name") /\ ~Has(at, "glib:get-type") THEN NotMine(Missing(c1, tag, "glib:get-type"))
         ELSE Handled(Push(c1, [Node(IF tag = "record" THEN "struct" ELSE "union", GetOr(at, "name", ""), Owner(c),
                                     [typeName |-> GetOr(at, "glib:type-name", ""), getType |-> GetOr(at, "glib:get-type", ""),
                                      foreign |-> GetOr(at, "foreign", "0") = "1", isGtypeStruct |-> Has(at, "glib:is-gtype-struct-for"),
                                      copyFunc |-> GetOr(at, "copy-function", ""), freeFunc |-> GetOr(at, "free-function", "")])
                                EXCEPT !.deprecated = Has(at, "deprecated")], c.stack = <<>>))
TypedStates == {"FUNCTION_PARAMETER", "FUNCTION_RETURN", "STRUCT_FIELD", "UNION_FIELD", "CLASS_PROPERTY", "CLASS_FIELD", "INTERFACE_FIELD",
                "INTERFACE_PROPERTY", "BOXED_FIELD", "NAMESPACE_CONSTANT", "CLASS_CONSTANT", "INTERFACE_CONSTANT", "ALIAS"}
MarkTyped(c) == IF c.nodes[c.typed].kind = "field" THEN [c EXCEPT !.nodes[c.typed].fl.typed = TRUE] ELSE c
StartType(c, tag, at) ==             \* start_type
    IF tag \notin {"type", "array", "varargs"} THEN NotMine(c)
    ELSE LET inAlias == c.st = "ALIAS"
             c1 == IF c.st = "TYPE" THEN [c EXCEPT !.typeDepth = @ + 1]
                   ELSE IF c.st \in TypedStates THEN [Switch(c, "TYPE") EXCEPT !.typeDepth = 1] ELSE c IN
         IF c1.err # "" THEN Handled(c1)
         ELSE IF inAlias THEN Handled(c1)                              \* the second pass does not look at alias targets
         ELSE IF ~c1.module THEN Handled(c1)
         ELSE IF c1.typed = 0 THEN NotMine(Fail(c1, "error: The element <type> is invalid here"))
         ELSE IF tag = "varargs" THEN Handled(c1)
         ELSE IF tag = "array" THEN Handled(MarkTyped(c1))
         ELSE IF ~Has(at, "name") THEN NotMine(Missing(c1, tag, "name"))
         ELSE Handled([MarkTyped(c1) EXCEPT !.refs = @ \cup {r \in RefOf(c1, Get(at, "name")) : ~HasDot(r)}])
StartAttribute(c, tag, at) ==        \* start_attribute
    IF tag # "attribute" \/ c.stack = <<>> THEN NotMine(c)
    ELSE IF ~Has(at, "name") THEN NotMine(Missing(c, tag, "name"))
    ELSE IF ~Has(at, "value") THEN NotMine(Missing(c, tag, "value"))
    ELSE Handled(Switch(c, "ATTRIBUTE"))

Try(r, F(_)) == IF r.h \/ r.c.err # "" THEN r ELSE F(r.c)
PassTags == {"doc", "doc-deprecated", "doc-stability", "doc-version", "docsection", "function-macro", "function-inline", "method-inline", "source-position"}

StartElement(c, tag, at) ==          \* start_element_handler
    IF c.st = "PASSTHROUGH" THEN [c EXCEPT !.depth = @ + 1]
    ELSE LET
        r0 == NotMine(c)
        r == CASE tag = "alias" /\ c.st = "NAMESPACE" ->
                    \* the pair in which C15 holds gives <attribute> children of an alias somewhere to go: they are skipped
                    Handled(Switch(c, "ALIAS"))
               [] tag \in {"array", "attribute"} -> Try(Try(r0, LAMBDA x : StartType(x, tag, at)), LAMBDA x :
                                                        IF ~Dev("alias_attribute") /\ x.st = "ALIAS" /\ tag = "attribute"
                                                        THEN Handled(Switch(x, "PASSTHROUGH")) ELSE StartAttribute(x, tag, at))
               [] tag = "bitfield" \/ tag = "enumeration" -> StartEnum(c, tag, at)
               [] tag \in {"callback", "constructor", "constant", "class"} ->
                    Try(Try(Try(r0, LAMBDA x : StartFunction(x, tag, at)), LAMBDA x : StartConstant(x, tag, at)), LAMBDA x : StartClassLike(x, tag, at))
               [] tag \in PassTags -> Handled(Switch(c, "PASSTHROUGH"))
               [] tag = "doc:format" -> Handled(Switch(c, "DOC_FORMAT"))
               [] tag \in {"function", "field"} -> Try(Try(r0, LAMBDA x : StartFunction(x, tag, at)), LAMBDA x : StartField(x, tag, at))
               [] tag \in {"glib:boxed", "glib:signal"} -> Try(Try(r0, LAMBDA x : StartBoxed(x, tag, at)), LAMBDA x : StartSignal(x, tag, at))
               [] tag = "include" /\ c.st = "REPOSITORY" ->
                    IF ~Has(at, "name") THEN NotMine(Missing(c, tag, "name")) ELSE IF ~Has(at, "version") THEN NotMine(Missing(c, tag, "version"))
                    ELSE Handled(Switch(c, "INCLUDE"))
               [] tag \in {"interface", "implements", "instance-parameter"} ->
                    Try(Try(Try(r0, LAMBDA x : StartClassLike(x, tag, at)), LAMBDA x : StartImplements(x, tag, at)), LAMBDA x : StartInstance(x, tag, at))
               [] tag \in {"method", "member"} -> Try(Try(r0, LAMBDA x : StartFunction(x, tag, at)), LAMBDA x : StartMember(x, tag, at))
               [] tag = "namespace" /\ c.st = "REPOSITORY" ->
                    IF ~Has(at, "name") THEN NotMine(Missing(c, tag, "name")) ELSE IF ~Has(at, "version") THEN NotMine(Missing(c, tag, "version"))
                    ELSE Handled([Switch(c, "NAMESPACE") EXCEPT !.module = TRUE])
               [] tag \in {"property", "parameters", "parameter", "prerequisite", "package"} ->
                    Try(Try(Try(Try(Try(r0, LAMBDA x : StartProperty(x, tag, at)), LAMBDA x : StartParameters(x, tag, at)),
                                LAMBDA x : StartParameter(x, tag, at)), LAMBDA x : StartImplements(x, tag, at)),
                        LAMBDA x : IF tag = "package" /\ x.st = "REPOSITORY" THEN Handled(Switch(x, "PACKAGE")) ELSE NotMine(x))
               [] tag = "repository" /\ c.st = "START" ->
                    IF ~Has(at, "version") THEN Handled(Missing(c, tag, "version"))
                    ELSE IF Get(at, "version") # "1.2" THEN Handled(Fail(c, "error: Unsupported version")) ELSE Handled(Switch(c, "REPOSITORY"))
               [] tag \in {"return-value", "record"} -> Try(Try(r0, LAMBDA x : StartReturn(x, tag, at)), LAMBDA x : StartCompound(x, tag, at))
               [] tag = "union" -> StartCompound(c, tag, at)
               [] tag = "type" -> StartType(c, tag, at)
               [] tag \in {"virtual-method", "varargs"} -> Try(Try(r0, LAMBDA x : StartVFunc(x, tag, at)), LAMBDA x : StartType(x, tag, at))
               [] OTHER -> r0 IN
        IF r.h \/ r.c.err # "" \/ r.c.st = "PASSTHROUGH" THEN r.c
        ELSE \* "warning: element %s from state %d is unknown, ignoring" (silent for c:-prefixed names; <c:include> always ends here:
             \* its first letter sends it to the `c` branch of the switch, the c:include test sits in the `i` branch)
             Switch([r.c EXCEPT !.warns = IF tag = "c:include" THEN @ ELSE Append(@, "warning: element " \o tag \o " from state " \o r.c.st \o " is unknown, ignoring")],
                    "PASSTHROUGH")

(* ---- end_element_handler *)
AfterMember(c) ==                    \* the container state of the node now on top of the stack
    LET k == Cur(c).kind IN
    CASE k = "interface" -> "INTERFACE" [] k = "object" -> "CLASS" [] k = "boxed" -> "BOXED" [] k = "struct" -> "STRUCT"
      [] k = "union" -> "UNION" [] k \in {"enum", "flags"} -> "ENUM" [] OTHER -> "?"
Require(c, expected, tag, then) == IF tag \in expected THEN then ELSE Fail(c, "error: Unexpected end tag '" \o tag \o "'")
EndType(c) ==                        \* end_type: end_type_top resets current_typed
    IF c.typeDepth = 1 THEN Switch([c EXCEPT !.typeDepth = 0, !.typed = 0], c.prev)
    ELSE [c EXCEPT !.typeDepth = @ - 1]
EndElement(c, tag) ==
    CASE c.st \in {"START", "END"} -> c
      [] c.st = "REPOSITORY" -> Switch(c, "END")
      [] c.st = "INCLUDE" -> Require(c, {"include"}, tag, Switch(c, "REPOSITORY"))
      [] c.st = "C_INCLUDE" -> Require(c, {"c:include"}, tag, Switch(c, "REPOSITORY"))
      [] c.st = "PACKAGE" -> Require(c, {"package"}, tag, Switch(c, "REPOSITORY"))
      [] c.st = "DOC_FORMAT" -> Require(c, {"doc:format"}, tag, Switch(c, "REPOSITORY"))
      [] c.st = "NAMESPACE" -> Require(c, {"namespace"}, tag, [Switch(c, "REPOSITORY") EXCEPT !.module = FALSE])
      [] c.st = "ALIAS" -> Require(c, {"alias"}, tag, Switch(c, "NAMESPACE"))
      [] c.st = "FUNCTION_RETURN" -> IF tag = "type" THEN c ELSE Require(c, {"return-value"}, tag, Switch(c, "FUNCTION"))
      [] c.st = "FUNCTION_PARAMETERS" -> Require(c, {"parameters"}, tag, Switch(c, "FUNCTION"))
      [] c.st = "FUNCTION_PARAMETER" -> IF tag = "type" THEN c ELSE Require(c, {"parameter"}, tag, Switch(c, "FUNCTION_PARAMETERS"))
      [] c.st = "FUNCTION" ->
            LET c1 == Pop(c) IN
            IF c1.stack = <<>> THEN Switch(c1, "NAMESPACE")
            ELSE IF c1.embedded # "NONE" THEN [Switch(c1, c1.embedded) EXCEPT !.embedded = "NONE"]
            ELSE IF AfterMember(c1) = "?" THEN Fail(c1, "error: Unexpected end tag") ELSE Switch(c1, AfterMember(c1))
      [] c.st \in {"CLASS_FIELD", "INTERFACE_FIELD", "BOXED_FIELD", "STRUCT_FIELD", "UNION_FIELD"} ->
            IF tag = "type" THEN c
            ELSE Require(c, {"field"}, tag, Switch(c, CASE c.st = "CLASS_FIELD" -> "CLASS" [] c.st = "INTERFACE_FIELD" -> "INTERFACE"
                                                          [] c.st = "BOXED_FIELD" -> "BOXED" [] c.st = "STRUCT_FIELD" -> "STRUCT" [] OTHER -> "UNION"))
      [] c.st \in {"CLASS_PROPERTY", "INTERFACE_PROPERTY"} ->
            IF tag = "type" THEN c ELSE Require(c, {"property"}, tag, Switch(c, IF c.st = "CLASS_PROPERTY" THEN "CLASS" ELSE "INTERFACE"))
      [] c.st = "CLASS" -> Require(c, {"class"}, tag, Switch(Pop(c), "NAMESPACE"))
      [] c.st = "INTERFACE" -> Require(c, {"interface"}, tag, Switch(Pop(c), "NAMESPACE"))
      [] c.st = "ENUM" -> IF tag \in {"member", "function"} THEN c ELSE Require(c, {"enumeration", "bitfield"}, tag, Switch(Pop(c), "NAMESPACE"))
      [] c.st = "BOXED" -> Require(c, {"glib:boxed"}, tag, Switch(Pop(c), "NAMESPACE"))
      [] c.st \in {"STRUCT", "UNION"} ->
            Require(c, {IF c.st = "STRUCT" THEN "record" ELSE "union"}, tag,
                    LET c1 == Pop(c) IN
                    IF c1.stack = <<>> THEN Switch(c1, "NAMESPACE")
                    ELSE LET k == Cur(c1).kind
                             back == CASE k = "struct" -> "STRUCT" [] k = "union" -> "UNION" [] k = "object" -> "CLASS" [] OTHER -> "?" IN
                         IF back = "?" THEN Fail(c1, "error: Unexpected end tag")
                         \* (the repaired pair returns to the enclosing compound of the same kind)
                         ELSE IF ~Dev("nested_same_kind") /\ back = c1.st THEN c1 ELSE Switch(c1, back))
      [] c.st = "IMPLEMENTS" -> IF tag = "interface" THEN c ELSE Require(c, {"implements"}, tag, Switch(c, "CLASS"))
      [] c.st = "PREREQUISITE" -> Require(c, {"prerequisite"}, tag, Switch(c, "INTERFACE"))
      [] c.st \in {"NAMESPACE_CONSTANT", "CLASS_CONSTANT", "INTERFACE_CONSTANT"} ->
            IF tag = "type" THEN c
            ELSE Require(c, {"constant"}, tag, CASE c.st = "NAMESPACE_CONSTANT" -> Switch(Pop(c), "NAMESPACE")
                                                 [] c.st = "CLASS_CONSTANT" -> Switch(c, "CLASS") [] OTHER -> Switch(c, "INTERFACE"))
      [] c.st = "TYPE" -> IF tag \in {"type", "array", "varargs"} THEN EndType(c) ELSE c
      [] c.st = "ATTRIBUTE" -> IF tag = "attribute" THEN Switch(c, c.prev) ELSE c
      [] c.st = "PASSTHROUGH" -> IF c.depth = 1 THEN Switch([c EXCEPT !.depth = 0], c.prev) ELSE [c EXCEPT !.depth = @ - 1]
      [] OTHER -> Fail(c, "abort: Unhandled state in end_element_handler")

Step(c, ev) == IF ev.e = "s" THEN StartElement(c, ev.tag, ev.at) ELSE EndElement(c, ev.tag)

(* ---- building (girnode.c): references, accessor and invoker lookups, untyped nodes *)
Members(c, owner, kind) == {i \in 1..Len(c.nodes) : c.nodes[i].owner = owner /\ c.nodes[i].kind = kind}
EntryNames(c) == {c.nodes[c.entries[i]].name : i \in 1..Len(c.entries)}
\* get_index_of_member_type: the name of the member the stored index ends up naming ("" = g_error)
LookupMember(c, owner, kind, name) ==
    LET ms == Members(c, owner, kind) IN
    IF \E i \in ms : c.nodes[i].name = name THEN name
    ELSE IF ms = {} THEN "\\unknown"
    ELSE IF Dev("silent_index") THEN c.nodes[CHOOSE i \in ms : \A j \in ms : j <= i].name ELSE "\\unknown"
\* fields that end up with neither a type nor a callback
BuildErrorsNull(c) ==
    {"ERROR: Caught NULL node, parent=" \o c.nodes[i].name : i \in {i \in 1..Len(c.nodes) : c.nodes[i].kind = "field" /\ ~c.nodes[i].fl.typed /\ ~c.nodes[i].fl.cb}}
\* names the build cannot resolve: local type references, accessors, invokers
BuildErrorsUnresolved(c) ==
    {"error: type reference '" \o r \o "' not found" : r \in {r \in c.refs : r \notin EntryNames(c)}}
    \cup {"ERROR: Unknown setter " \o c.nodes[i].fl.setter : i \in {i \in 1..Len(c.nodes) : c.nodes[i].kind = "property" /\ c.nodes[i].fl.setter # ""
                                                                     /\ LookupMember(c, c.nodes[i].owner, "function", c.nodes[i].fl.setter) = "\\unknown"}}
    \cup {"ERROR: Unknown getter " \o c.nodes[i].fl.getter : i \in {i \in 1..Len(c.nodes) : c.nodes[i].kind = "property" /\ c.nodes[i].fl.getter # ""
                                                                     /\ LookupMember(c, c.nodes[i].owner, "function", c.nodes[i].fl.getter) = "\\unknown"}}
    \cup {"ERROR: Unknown property for accessor " \o c.nodes[i].symbol : i \in {i \in 1..Len(c.nodes) : c.nodes[i].kind = "function"
                                    /\ (c.nodes[i].fl.setter \/ c.nodes[i].fl.getter)
                                    /\ LookupMember(c, c.nodes[i].owner, "property", c.nodes[i].fl.propName) = "\\unknown"}}
    \cup {"ERROR: Unknown member function for vfunc " \o c.nodes[i].name : i \in {i \in 1..Len(c.nodes) : c.nodes[i].kind = "vfunc" /\ c.nodes[i].fl.invoker # ""
                                    /\ LookupMember(c, c.nodes[i].owner, "function", c.nodes[i].fl.invoker) = "\\unknown"}}
BuildErrors(c) == BuildErrorsNull(c) \cup BuildErrorsUnresolved(c)
AbortSameState == "abort: state_switch: assertion failed: (ctx->state != newstate)"

(* ---- what the typelib exposes, in the vocabulary of AcceptProp's b records (what harness/c15lib.py reads off the decoded file) *)
Blob(c, i) ==
    LET n == c.nodes[i] IN
    [kind |-> n.kind, name |-> n.name, symbol |-> n.symbol, deprecated |-> n.deprecated,
     fl |-> CASE n.kind = "function" -> [n.fl EXCEPT !.propName = IF n.fl.setter \/ n.fl.getter THEN LookupMember(c, n.owner, "property", n.fl.propName) ELSE ""]
              [] n.kind = "vfunc" -> n.fl @@ [hasInvoker |-> n.fl.invoker # "",
                                              invokerName |-> IF n.fl.invoker = "" THEN "" ELSE LookupMember(c, n.owner, "function", n.fl.invoker)]
              [] n.kind = "property" -> n.fl @@ [hasSetter |-> n.fl.setter # "", hasGetter |-> n.fl.getter # "",
                                                 setterName |-> IF n.fl.setter = "" THEN "" ELSE LookupMember(c, n.owner, "function", n.fl.setter),
                                                 getterName |-> IF n.fl.getter = "" THEN "" ELSE LookupMember(c, n.owner, "function", n.fl.getter)]
              [] n.kind = "constant" -> [cls |-> "text", tag |-> "utf8", width |-> "0", value |-> n.fl.value]
              [] OTHER -> n.fl]
\* the candidates harness/c15lib.candidates() collects for an element
SectionKinds(tag) == KindOf(tag, "member")
Cands(c, g) ==
    LET names == {g.name} \cup (IF g.shadows # "" THEN {g.shadows} ELSE {}) IN
    IF g.level = "top" THEN [ownerFound |-> TRUE, ownerKind |-> "", ownerMethods |-> <<>>, ownerProps |-> <<>>,
                             cands |-> SetToSeq({Blob(c, c.entries[i]) : i \in {i \in 1..Len(c.entries) : c.nodes[c.entries[i]].name \in names}})]
    ELSE LET os == {c.entries[i] : i \in {i \in 1..Len(c.entries) : c.nodes[c.entries[i]].name = g.owner}}
             named(k) == SetToSeq({c.nodes[i].name : i \in {i \in 1..Len(c.nodes) : c.nodes[i].owner \in os /\ c.nodes[i].kind = k}}) IN
         IF os = {} THEN [ownerFound |-> FALSE, ownerKind |-> "", cands |-> <<>>, ownerMethods |-> <<>>, ownerProps |-> <<>>]
         ELSE [ownerFound |-> TRUE, ownerKind |-> c.nodes[CHOOSE o \in os : TRUE].kind,
               ownerMethods |-> named("function"), ownerProps |-> named("property"),
               cands |-> SetToSeq({Blob(c, i) : i \in {i \in 1..Len(c.nodes) : c.nodes[i].owner \in os /\ c.nodes[i].name \in names
                                                                               /\ c.nodes[i].kind \in SectionKinds(g.tag)}})]
=============================================================================

---- MODULE IdentifyCases ----
(* exports every rename-to case of the exhaustive model (walk order x annotation assignment) *)
EXTENDS Identify, Json, IOUtils, SequencesExt
Cases == {[order |-> o, ann |-> [a |-> x, b |-> y, c |-> z]] : o \in Perms, x \in Targets, y \in Targets, z \in Targets}
ASSUME JsonSerialize(IOEnv.CASES_FILE, SetToSeq(Cases))
CInit == order = <<"a","b","c">> /\ ann = [f \in Funcs |-> None] /\ i = 4 /\ shadowedBy = [f \in Funcs |-> None] /\ shadows = [f \in Funcs |-> None] /\ warned = {}
====

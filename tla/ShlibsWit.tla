------------------------------ MODULE ShlibsWit ------------------------------
(***************************************************************************)
(* Spec-level discrimination and witnesses for C19 (one TLC start, no      *)
(* state space):                                                           *)
(*  - every deliberate deviation of the implementation layer (Variants)    *)
(*    is rejected by the property layer on some in-domain case: the killer *)
(*    cases are exported and replayed on the REAL code (which must pass);  *)
(*  - the quantifier's precondition is needed: an ambiguous case on which  *)
(*    the code's outcome differs from Resolve;                             *)
(*  - model-level counterexamples that stay open questions for the real    *)
(*    code: a request naming an existing file, archives without dlname.    *)
(***************************************************************************)
EXTENDS ShlibsMC

Pool == CasesOf(ML, MW)
Dom == {c \in Pool : InDomain(c)}
Deviations == Variants \ {"asis"}
\* for every deviation and clause: a case on which the deviation breaks that clause (if any)
FailedBy == TLCEval([v \in Deviations |-> [c \in Dom |-> Failed(c, Run(v, c))]])          \* tabulated once
Killers == {[variant |-> q[1], clause |-> q[2], case |-> CHOOSE c \in Dom : q[2] \in FailedBy[q[1]][c]] :
              q \in {q \in Deviations \X ClauseNames : \E c \in Dom : q[2] \in FailedBy[q[1]][c]}}
Undetected == {v \in Deviations : \A k \in Killers : k.variant # v}

\* precondition: ambiguous listings on which the code does not produce Resolve
Ambig == {c \in Pool : WFCase(c) /\ ~Unambiguous(c) /\ Run("asis", c).kind # Resolve(c).kind}
\* a request that names an existing file gets no pattern (outside the statement, see Shlibs!Named): probes on which
\* the file changes the outcome
WithFile(c) == [c EXCEPT !.files = <<c.reqs[1]>>]
FileWit == {WithFile(d) : d \in {d \in Dom : Len(d.reqs) > 0 /\ Run("asis", WithFile(d)) # Run("asis", d)}}
FileKinds == {<<Len(c.reqs), Run("asis", c).kind>> : c \in FileWit}
FilePick == {CHOOSE c \in FileWit : <<Len(c.reqs), Run("asis", c).kind>> = k : k \in FileKinds}
\* archives the code drops without a word
LaBad == {a \in MC_LaCases : ~LaClauses(a, LaRun(a)).LaFailLoudly}
LaPick == {CHOOSE a \in LaBad : LaKind(a) = k /\ \A b \in LaBad : LaKind(b) = k => Len(b.lines) >= Len(a.lines) : k \in {LaKind(a) : a \in LaBad}}
\* the asis layer satisfies the property on the whole pool (the state-space runs check the same; cheap cross-check)
ASSUME \A c \in Pool : Failed(c, Run("asis", c)) = {}
ASSUME Undetected = {}
ASSUME Ambig # {}
\* (all the work is in the ASSUMEs; the behaviour spec is a single idle state)
WInit == case = [t |-> "none"] /\ st = Idle /\ outcome = None /\ theme = "-"
WNext == UNCHANGED <<vars, theme>>
ASSUME JsonSerialize(IOEnv.C19_WITNESS,
         [killers |-> SetToSeq(Killers), ambiguous |-> SetToSeq({CHOOSE c \in Ambig : TRUE}),
          files |-> SetToSeq(FilePick), la |-> SetToSeq(LaPick),
          pool |-> Cardinality(Pool), indomain |-> Cardinality(Dom), ambig |-> Cardinality(Ambig)])
=============================================================================

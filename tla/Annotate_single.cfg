SPECIFICATION MCSpec
CONSTANTS
  Dev = {}
  Which = "single"
  Cases <- NoCases
INVARIANT ImplSatisfiesProperty
CHECK_DEADLOCK FALSE

SPECIFICATION Spec
CONSTANTS
  Which = "single"
  Cases <- MC_Cases
INVARIANT ImplSatisfiesProperty
CHECK_DEADLOCK FALSE

\* witness: with the earlier behaviour "nullable-on-enum-value" switched back on, TLC exhibits a case that breaks the property
SPECIFICATION MCSpec
CONSTANTS
  Dev = {"nullable-on-enum-value"}
  Which = "witness"
  Cases <- NoCases
INVARIANT NoDeviation
CHECK_DEADLOCK FALSE

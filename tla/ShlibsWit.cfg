INIT WInit
NEXT WNext
CONSTANTS
  Themes = {"foo", "pango", "sep", "meta1", "meta2", "la"}
  ML = 2
  MW = 1
  EML = 0
  EMW = 0
  LaML = 2
  Extras = FALSE
  Variant = "asis"
  Gran = "case"
  Cases <- MC_None
  LaCases <- MC_None
CHECK_DEADLOCK FALSE

--------------------------- MODULE EnumConstCases ---------------------------
(* Exports the abstract cases of EnumConstMC for replay against the real scanner (S->C):
   all constant cases, all enumerations with <= 2 members, and a random subset (TLC -seed) or,
   in the thorough tier, all of the 3-member enumerations. *)
EXTENDS EnumConstMC, Json, IOUtils, Randomization, SequencesExt

Small == {e \in EnumCases : Len(e) <= 2}
Big == EnumCases \ Small
Sample == IF IOEnv.TIER = "thorough" THEN Big ELSE RandomSubset(3000, Big)
ConstCases == {[t |-> tt, v |-> vv] : tt \in Types, vv \in Values}

CInit == kind = "export" /\ ms = <<>> /\ t = "-" /\ v = [neg |-> FALSE, l |-> Zero]

ASSUME JsonSerialize(IOEnv.CASES_FILE, [enums |-> SetToSeq(Small \cup Sample), consts |-> SetToSeq(ConstCases)])
=============================================================================

INIT Init
NEXT Next
CONSTANTS
  EmptyPrefixBug = FALSE
  U8Mod16 = FALSE
CHECK_DEADLOCK FALSE

SPECIFICATION CSpec
CONSTANTS
  Forms <- CAllForms
  Indents <- CInd02
  MaxIdAnns = 2
  MaxParams = 0
  MaxParamAnns = 0
  MaxPartLines = 0
  MaxDescLines = 1
  MaxParas = 1
  MaxTags = 0
  TagNames <- CTagsR
  MaxTagAnns = 0
  MaxCont = 2
  MaxNoise = 0
  AtReturns = FALSE
  FaultKinds <- CNoFaults
  MaxFaults = 0
  KeepLines = TRUE
  Known <- CKnown
  StartLine = 1
CHECK_DEADLOCK FALSE
INVARIANT RoundTrip

SPECIFICATION Spec
CONSTANTS
  Forms <- OneForm
  Indents <- Ind0
  MaxIdAnns = 0
  MaxParams = 1
  MaxParamAnns = 2
  MaxPartLines = 2
  MaxDescLines = 0
  MaxParas = 0
  MaxTags = 1
  TagNames <- TagsR
  MaxTagAnns = 1
  MaxCont = 1
  MaxNoise = 0
  AtReturns = FALSE
  FaultKinds <- ParenFaults
  MaxFaults = 1
  KeepLines = FALSE
  Known <- KnownC11
  StartLine = 10
CHECK_DEADLOCK FALSE
INVARIANT TypeOK
INVARIANT DiagAtFault
INVARIANT IgnoredNotHalfApplied
INVARIANT FaultDiagnosed

INIT CInit
NEXT CNext
CONSTANTS
  Dev = {}
  Family = "chain"
  Size = "t"
CHECK_DEADLOCK FALSE

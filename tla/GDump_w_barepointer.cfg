INIT Init
NEXT Next
CONSTANTS
  Dev = {"barepointer"}
  Family = "pair"
  Size = "q"
INVARIANT ImplSatisfiesProperty
CHECK_DEADLOCK FALSE

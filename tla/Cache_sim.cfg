SPECIFICATION Spec
CONSTANTS
  Procs <- MC_Procs3
  SVer <- MC_SVerMixed
  MaxEdits = 2
  MaxIno = 6
  AllowCopy = TRUE
  MaxCrashes = 1
  Coarse = TRUE
  StatByName = FALSE
  StampFirst = FALSE
  KnownCauses = {"parse_edit_store","copy_window","equal_mtime"}
CHECK_DEADLOCK FALSE
INVARIANT TypeOK
INVARIANT NoStaleUnexplained
INVARIANT NoTorn
INVARIANT NoCrossVersion
INVARIANT PurgeEffective

SPECIFICATION TSpec
CONSTANTS
  NS = {}
  Dirs = {}
  VChars <- T_VChars
  DiskConfigs = {}
  EnvConfigs = {}
  MaxCalls = 0
  Ops = {}
  ReqVers = {}
  Lazies = {}
  Dev = {}
  Known = {}
CHECK_DEADLOCK FALSE

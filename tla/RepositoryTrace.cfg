SPECIFICATION TSpec
CONSTANTS
  NS = {}
  Dirs = {}
  VChars <- T_VChars
  DiskConfigs = {}
  EnvConfigs = {}
  MaxCalls = 0
  Ops = {}
  ReqVers = {}
  Lazies = {}
  Known = {}
CHECK_DEADLOCK FALSE

------------------------------- MODULE Naming -------------------------------
(***************************************************************************)
(* C04: each public C symbol is described once, under the right name and   *)
(* owner.  giscanner/transformer.py (_split_c_string_for_namespace_matches,*)
(* split_csymbol, strip_identifier, _strip_symbol, parse,                  *)
(* _create_typedef_compound, _create_tag_ns_compound), gdumpparser.py      *)
(* (get-type folding), maintransformer.py (_pair_function, _is_method,     *)
(* _setup_method, _is_constructor, _set_up_constructor,                    *)
(* _pair_static_method, _split_uscored_by_type), ast.py (Namespace).       *)
(*                                                                         *)
(* Identifiers are WORD SEQUENCES over a fixed vocabulary of lower-case    *)
(* words: foo_bar_do = <<"foo","bar","do">>, FooBarBaz = <<"foo","bar",    *)
(* "baz">> rendered CamelCase, FOO_BAR = the same rendered upper-case.     *)
(* Prefixes are word sequences too.                                        *)
(*                                                                         *)
(* A case (one scan):                                                      *)
(*   [cur  |-> [idp |-> <<prefix,..>>, symp |-> <<prefix,..>>, unpref |-> BOOLEAN],   *)
(*    inc  |-> [on |-> BOOLEAN, idp |-> .., symp |-> ..],                   *)
(*    dump |-> BOOLEAN,          \* runtime type data (get-type functions are called)   *)
(*    decls |-> << decl, .. >>]  \* header order                           *)
(* The include namespace is called GObject and offers class Object (root), *)
(* class Mid (parent Object) and the plain record Rec, named with its first*)
(* identifier prefix.                                                      *)
(* decl = [k, w, us, ord, reg, gt, par, p1, ret, ann]                       *)
(*   k   "func" | "const" | "struct" | "enum" | "callback" | "callbackl" | "alias"      *)
(*   w   words of the C name (without a leading underscore), us = leading underscore    *)
(*   ord (struct) "tf" typedef then struct | "sf" struct then typedef | "t" typedef only*)
(*       | "anon" typedef struct {..} X | "tag" struct X {..} only;   else "-"          *)
(*   reg "none" | "class" | "boxed" | "enum": registered with the runtime type system   *)
(*       through the get-type function whose words are gt (declared after the headers'  *)
(*       other declarations)                                                            *)
(*   par (class) parent type;  p1 / ret (func) first parameter (a pointer) / return     *)
(*   ann (func) "-" | "method" | "constructor"                                          *)
(* type reference = [ns |-> "none"|"int"|"gtype"|"cur"|"inc", i |-> decl index, n |-> inc type word] *)
(*                                                                         *)
(* An emitted element (observation of the GIR, or prediction of the        *)
(* implementation-shaped layer):                                           *)
(*   [tag, owner, ownerCT, ownerSP, name, cid, movedTo, getType, symPrefix, parent]     *)
(*   owner = "" at top level, else the GIR name / c:type / c:symbol-prefix of the       *)
(*   enclosing type;  cid = c:identifier or c:type;  "-" = attribute absent *)
(***************************************************************************)
EXTENDS Integers, Sequences, FiniteSets, TLC

CONSTANT Dev     \* what-if switches of the implementation-shaped layer; {} = the code as it is now
\*   "CtorReachRoot"          before c932153: reaching GObject.Object on the ancestor walk counted as success
\*   "CtorNameSubstr"         before c6625ef: an annotated constructor was sliced wherever its type's prefix occurs
\*   "EmptyRemainderMatches"  before f62728f: an identifier prefix equal to the whole name matched
\*   "MethodAnnStrips"        the repair NOT made (known finding): (method) + owner prefix carried -> prefix stripped
\*   "ShortestType", "CrossNs", "NoMovedTo", "UnderscoreLeak", "NoCurPrecedence"   mutations used by Naming_w_*.cfg

Has(x) == x \in Dev

---------------------------------------------------------------------------
\* vocabulary: <<lower, Camel, UPPER>>
VocabT == { <<"foo","Foo","FOO">>, <<"food","Food","FOOD">>, <<"bar","Bar","BAR">>, <<"g","G","G">>,
            <<"gtk","Gtk","GTK">>, <<"inc","Inc","INC">>, <<"source","Source","SOURCE">>,
            <<"text","Text","TEXT">>, <<"texts","Texts","TEXTS">>, <<"buffer","Buffer","BUFFER">>,
            <<"view","View","VIEW">>, <<"box","Box","BOX">>, <<"item","Item","ITEM">>,
            <<"object","Object","OBJECT">>, <<"mid","Mid","MID">>, <<"rec","Rec","REC">>,
            <<"new","New","NEW">>, <<"newv","Newv","NEWV">>, <<"renew","Renew","RENEW">>, <<"do","Do","DO">>,
            <<"get","Get","GET">>, <<"type","Type","TYPE">>, <<"with","With","WITH">>,
            <<"label","Label","LABEL">>, <<"make","Make","MAKE">>, <<"max","Max","MAX">>,
            <<"cb","Cb","CB">>, <<"func","Func","FUNC">>, <<"mode","Mode","MODE">>, <<"kind","Kind","KIND">> }
Vocab == {t[1] : t \in VocabT}
\* explicit functions lower -> Camel / UPPER (the same table; NamingMC checks that they agree with VocabT)
CapF == ("foo" :> "Foo") @@ ("food" :> "Food") @@ ("bar" :> "Bar") @@ ("g" :> "G") @@ ("gtk" :> "Gtk")
        @@ ("inc" :> "Inc") @@ ("source" :> "Source") @@ ("text" :> "Text") @@ ("texts" :> "Texts")
        @@ ("buffer" :> "Buffer") @@ ("view" :> "View") @@ ("box" :> "Box") @@ ("item" :> "Item")
        @@ ("object" :> "Object") @@ ("mid" :> "Mid") @@ ("rec" :> "Rec") @@ ("new" :> "New")
        @@ ("newv" :> "Newv") @@ ("renew" :> "Renew") @@ ("do" :> "Do") @@ ("get" :> "Get")
        @@ ("type" :> "Type") @@ ("with" :> "With") @@ ("label" :> "Label") @@ ("make" :> "Make")
        @@ ("max" :> "Max") @@ ("cb" :> "Cb") @@ ("func" :> "Func") @@ ("mode" :> "Mode")
        @@ ("kind" :> "Kind")
UpF  == ("foo" :> "FOO") @@ ("food" :> "FOOD") @@ ("bar" :> "BAR") @@ ("g" :> "G") @@ ("gtk" :> "GTK")
        @@ ("inc" :> "INC") @@ ("source" :> "SOURCE") @@ ("text" :> "TEXT") @@ ("texts" :> "TEXTS")
        @@ ("buffer" :> "BUFFER") @@ ("view" :> "VIEW") @@ ("box" :> "BOX") @@ ("item" :> "ITEM")
        @@ ("object" :> "OBJECT") @@ ("mid" :> "MID") @@ ("rec" :> "REC") @@ ("new" :> "NEW")
        @@ ("newv" :> "NEWV") @@ ("renew" :> "RENEW") @@ ("do" :> "DO") @@ ("get" :> "GET")
        @@ ("type" :> "TYPE") @@ ("with" :> "WITH") @@ ("label" :> "LABEL") @@ ("make" :> "MAKE")
        @@ ("max" :> "MAX") @@ ("cb" :> "CB") @@ ("func" :> "FUNC") @@ ("mode" :> "MODE")
        @@ ("kind" :> "KIND")
VocabConsistent == \A t \in VocabT : CapF[t[1]] = t[2] /\ UpF[t[1]] = t[3]
\* pairs <<a, b>> of vocabulary words where a is a proper character prefix of b (checked against the
\* vocabulary by the harness at start-up)
CharRel == { <<"foo","food">>, <<"g","gtk">>, <<"g","get">>, <<"text","texts">>, <<"new","newv">> }

RECURSIVE JoinL(_), JoinC(_), JoinU(_)
JoinL(ws) == IF ws = <<>> THEN "" ELSE IF Len(ws) = 1 THEN ws[1] ELSE ws[1] \o "_" \o JoinL(Tail(ws))
JoinC(ws) == IF ws = <<>> THEN "" ELSE CapF[ws[1]] \o JoinC(Tail(ws))
JoinU(ws) == IF ws = <<>> THEN "" ELSE IF Len(ws) = 1 THEN UpF[ws[1]] ELSE UpF[ws[1]] \o "_" \o JoinU(Tail(ws))

\* spelling class of a declaration kind: "l" lower_case symbol, "u" UPPER_CASE symbol, "c" CamelCase identifier
F(k) == IF k \in {"func", "callbackl"} THEN "l" ELSE IF k = "const" THEN "u" ELSE "c"
Render(f, ws) == CASE f = "l" -> JoinL(ws) [] f = "u" -> JoinU(ws) [] OTHER -> JoinC(ws)
CName(d) == (IF d.us THEN "_" ELSE "") \o Render(F(d.k), d.w)

NoRef == [ns |-> "none", i |-> 0, n |-> "-"]
IncGir(n) == "GObject." \o CapF[n]

Drop(s, k) == SubSeq(s, k + 1, Len(s))
Tup(f, n) == SubSeq(f, 1, n)        \* turns a function on 1..n into an explicit tuple (each element evaluated once)
IsPre(p, s)   == Len(p) < Len(s)  /\ \A i \in 1..Len(p) : p[i] = s[i]       \* proper prefix at a word boundary
IsPreEq(p, s) == Len(p) <= Len(s) /\ \A i \in 1..Len(p) : p[i] = s[i]
\* the spelling of p is a character prefix of the spelling of s that does not end at a word boundary
CharPre(p, s) == /\ Len(p) >= 1 /\ Len(p) <= Len(s)
                 /\ \A i \in 1..(Len(p) - 1) : p[i] = s[i]
                 /\ <<p[Len(p)], s[Len(p)]>> \in CharRel
Pfx(c, which, f) == IF f = "c" THEN c[which].idp ELSE c[which].symp
MinOf(S) == CHOOSE x \in S : \A y \in S : x <= y
MaxOf(S) == CHOOSE x \in S : \A y \in S : x >= y

\* get-type functions are declarations too
GtDecl(d) == [k |-> "func", w |-> d.gt, us |-> FALSE, ord |-> "-", reg |-> "none", gt |-> <<>>, par |-> NoRef,
              p1 |-> NoRef, ret |-> [ns |-> "gtype", i |-> 0, n |-> "-"], ann |-> "-"]
RECURSIVE GtSeq(_, _)
GtSeq(ds, i) == IF i > Len(ds) THEN <<>>
                ELSE (IF ds[i].gt # <<>> THEN <<GtDecl(ds[i])>> ELSE <<>>) \o GtSeq(ds, i + 1)
FD(c) == c.decls \o GtSeq(c.decls, 1)          \* all declarations of the headers

(***************************************************************************)
(* Character-class sub-model of giscanner.utils.to_underscores /           *)
(* to_underscores_noprefix: strings are sequences over "U" (upper-case     *)
(* letter), "l" (lower-case letter), "d" (digit), "_" ; the three regular- *)
(* expression substitutions are transcribed as left-to-right rewrites.     *)
(***************************************************************************)
RECURSIVE P1(_, _), P2(_, _)
\* _upperstr_pat1  ([^A-Z])([A-Z]) -> \1_\2
P1(s, i) == IF i > Len(s) THEN <<>>
            ELSE IF i < Len(s) /\ s[i] # "U" /\ s[i + 1] = "U" THEN <<s[i], "_", s[i + 1]>> \o P1(s, i + 2)
            ELSE <<s[i]>> \o P1(s, i + 1)
\* _upperstr_pat2  ([A-Z][A-Z])([A-Z][0-9a-z]) -> \1_\2
P2(s, i) == IF i > Len(s) THEN <<>>
            ELSE IF i + 3 <= Len(s) /\ s[i] = "U" /\ s[i + 1] = "U" /\ s[i + 2] = "U" /\ s[i + 3] \in {"l", "d"}
                 THEN <<s[i], s[i + 1], "_", s[i + 2], s[i + 3]>> \o P2(s, i + 4)
            ELSE <<s[i]>> \o P2(s, i + 1)
\* _upperstr_pat3  ^([A-Z])([A-Z]) -> \1_\2  (once)
P3(s) == IF Len(s) >= 2 /\ s[1] = "U" /\ s[2] = "U" THEN <<s[1], "_">> \o Tail(s) ELSE s
ToUscoreNoprefix(s) == P2(P1(s, 1), 1)
ToUscore(s) == P3(ToUscoreNoprefix(s))
\* what the word-level model relies on: a CamelCase name whose words are one capital followed by at least one
\* lower-case letter and then letters/digits is split exactly at its capitals
WordStart(s, i) == s[i] = "U"
WordShaped(s) == /\ Len(s) >= 2 /\ s[1] = "U"
                 /\ \A i \in 1..Len(s) : s[i] = "U" => (i < Len(s) /\ s[i + 1] = "l")
RECURSIVE AtCapitals(_, _)
AtCapitals(s, i) == IF i > Len(s) THEN <<>>
                    ELSE (IF i > 1 /\ s[i] = "U" THEN <<"_", s[i]>> ELSE <<s[i]>>) \o AtCapitals(s, i + 1)
UscoreOK(s) == WordShaped(s) => (ToUscoreNoprefix(s) = AtCapitals(s, 1) /\ ToUscore(s) = AtCapitals(s, 1))

(***************************************************************************)
(* PROPERTY LAYER: the statement of C04 over a case and the emitted        *)
(* elements only.   r = [c |-> case, els |-> <<element,..>>, fatal |-> B]  *)
(* (fatal: the scanner refused the input with "Namespace conflict")        *)
(* Prep(r) adds tables computed once per observation (TLC evaluates a LET  *)
(* definition once; SubSeq turns a function into an explicit tuple).       *)
(***************************************************************************)
FuncTags == {"function", "method", "constructor"}
TypeTags == {"record", "class", "union", "glib:boxed", "interface"}
TagsFor(k) == CASE k = "func" -> FuncTags [] k = "const" -> {"constant"} [] k = "struct" -> TypeTags
                [] k = "enum" -> {"enumeration", "bitfield"} [] k \in {"callback", "callbackl"} -> {"callback"}
                [] OTHER -> {"alias"}

Carries(c, which, d) == \E i \in 1..Len(Pfx(c, which, F(d.k))) : IsPre(Pfx(c, which, F(d.k))[i], d.w)
\* CamelCase has no delimiter: the code matches identifier prefixes by characters.  Where a prefix of the
\* current namespace matches only inside a word the statement ("carries the prefix") can be read either way.
CharCarriesCur(c, d) == F(d.k) = "c" /\ \E i \in 1..Len(c.cur.idp) : CharPre(c.cur.idp[i], d.w)
\* a get-type function that the runtime dump registers is folded into its type
Folded(c, d) == /\ d.k = "func" /\ c.dump
                /\ \E i \in 1..Len(c.decls) : c.decls[i].gt = d.w /\ c.decls[i].reg # "none"
\* (iv) speaks about: underscore symbols (functions, constants; the scanner's "symbols", as opposed to
\* identifiers), and names that carry only a prefix of the included namespace
HiddenSym(d) == d.us /\ F(d.k) # "c"
CarriesInc(c, d) == c.inc.on /\ Carries(c, "inc", d)
Foreign(c, d) == CarriesInc(c, d) /\ ~Carries(c, "cur", d) /\ ~CharCarriesCur(c, d)
\* remainders after a matching prefix of the current namespace ("the matching namespace prefix"; with
\* several matching prefixes the statement does not say which)
Subs(c, d) == LET ps == Pfx(c, "cur", F(d.k)) IN {Drop(d.w, Len(ps[i])) : i \in {i \in 1..Len(ps) : IsPre(ps[i], d.w)}}

Prep(r) ==
    LET c == r.c  ds == FD(c)  n == Len(ds)  m == Len(r.els)
        cn   == Tup([i \in 1..n |-> CName(ds[i])], n)
        subs == Tup([i \in 1..n |-> Subs(c, ds[i])], n)
        top  == Tup([i \in 1..n |-> {Render(F(ds[i].k), s) : s \in subs[i]}], n)
        \* in accept-unprefixed mode a name that carries no prefix of any namespace is taken whole
        whole == Tup([i \in 1..n |-> c.cur.unpref /\ subs[i] = {} /\ ~CarriesInc(c, ds[i])], n)
    IN [c |-> c, els |-> r.els, fatal |-> r.fatal, ds |-> ds, n |-> n, m |-> m, cn |-> cn, subs |-> subs, top |-> top,
        subsu |-> Tup([i \in 1..n |-> IF whole[i] THEN {ds[i].w} ELSE subs[i]], n),
        \* (i) speaks about: non-underscore, carries one of the namespace's prefixes, not a folded get-type function
        must |-> Tup([i \in 1..n |-> ~ds[i].us /\ subs[i] # {} /\ ~Folded(c, ds[i])], n),
        elems |-> Tup([i \in 1..n |-> {j \in 1..m : r.els[j].cid = cn[i]}], n),
        \* Precondition of the statement: the namespace can hold one node per name.  Declarations whose stripped
        \* names coincide (possible only with several prefixes or in accept-unprefixed mode) are refused by the
        \* scanner ("Namespace conflict", fatal) or, for two constants, the first is kept; the property is silent.
        names |-> Tup([i \in 1..n |->
                    IF HiddenSym(ds[i]) THEN {}
                    ELSE LET h == IF ds[i].us THEN "_" ELSE "" IN
                         {h \o x : x \in top[i]} \cup
                         (IF whole[i] THEN {h \o Render(F(ds[i].k), ds[i].w)} ELSE {})], n)]

Plain(x, S) == {j \in S : x.els[j].movedTo = "-"}
SameCid(x, j) == {k \in 1..x.m : x.els[k].cid = x.els[j].cid}
\* the owning type's symbol prefix: the registered one (c:symbol-prefix; for enumerations, which do not show it
\* in the GIR, the get-type function's name without namespace prefix and _get_type), or the default
\* underscoring of its name
RegPrefixes(x, e) == UNION { {SubSeq(g, 1, Len(g) - 2) : g \in {h \in Subs(x.c, GtDecl(x.c.decls[i])) : Len(h) >= 3}}
                             : i \in {i \in 1..Len(x.c.decls) : x.c.dump /\ x.c.decls[i].reg # "none" /\ x.cn[i] = e.ownerCT} }
\* cuts the GIR itself shows (must be made) / cuts by a registered prefix only the headers show (may be made: with
\* several matching namespace prefixes the get-type name can be read in several ways)
OwnerCuts(x, sub, e) == {k \in 1..(Len(sub) - 1) : JoinL(SubSeq(sub, 1, k)) = e.ownerSP \/ JoinC(SubSeq(sub, 1, k)) = e.owner}
OptCuts(x, sub, e) == {k \in 1..(Len(sub) - 1) : SubSeq(sub, 1, k) \in RegPrefixes(x, e)}
CarriesOwner(x, i, e) == \E s \in x.subsu[i] : OwnerCuts(x, s, e) # {} \/ OptCuts(x, s, e) # {}
\* per remainder: the owner's prefix stripped where that remainder carries it, else the remainder itself
NestedNames(x, i, e) == UNION { (IF OwnerCuts(x, s, e) # {} THEN {JoinL(Drop(s, k)) : k \in OwnerCuts(x, s, e)} ELSE {JoinL(s)})
                                \cup {JoinL(Drop(s, k)) : k \in OptCuts(x, s, e)}
                                : s \in x.subsu[i] }

TypeName(x, ct) == LET S == {j \in 1..x.m : x.els[j].owner = "" /\ x.els[j].cid = ct /\ x.els[j].tag \in TypeTags}
                   IN IF S = {} THEN "?" ELSE x.els[CHOOSE j \in S : TRUE].name
RefGir(x, ref) == CASE ref.ns = "cur" -> TypeName(x, x.cn[ref.i])
                    [] ref.ns = "inc" -> IncGir(ref.n)
                    [] OTHER -> "?"
ParentOf(x, nm) == IF nm = "GObject.Mid" THEN "GObject.Object"
                   ELSE LET S == {j \in 1..x.m : x.els[j].owner = "" /\ x.els[j].tag = "class" /\ x.els[j].name = nm}
                        IN IF S = {} THEN "-" ELSE x.els[CHOOSE j \in S : TRUE].parent
RECURSIVE AncF(_, _, _)
AncF(x, nm, fuel) == IF fuel = 0 THEN {}
                     ELSE LET p == ParentOf(x, nm) IN IF p = "-" THEN {} ELSE {p} \cup AncF(x, p, fuel - 1)
Anc(x, nm) == AncF(x, nm, 8)

\* element j describes declaration i
Describes(x, i, j) == j \in x.elems[i] /\ x.els[j].tag \in TagsFor(x.ds[i].k)
\* the statement is silent when the scanner refused the input or names collide
Collision(x) == \E i, j \in 1..x.n : i < j /\ x.names[i] \cap x.names[j] # {}
Silent(x) == x.fatal \/ Collision(x)

ClauseNames == {"Present", "Once", "MovedTo", "NoDup", "Name", "Method", "Ctor", "Absent", "Folded"}

\* per clause: the set of offending items <<declaration index or 0, element index or 0>>   (x = Prep(r))
Bad(x, cl) ==
  LET c == x.c  ds == x.ds  els == x.els IN
  CASE
    \* (i) every public prefixed declaration is described ...
    cl = "Present" -> {<<i, 0>> : i \in {i \in 1..x.n : x.must[i] /\ ~\E j \in x.elems[i] : els[j].tag \in TagsFor(ds[i].k)}}
    \* ... exactly once, apart from at most one moved-to compatibility copy
    [] cl = "Once" -> {<<i, 0>> : i \in {i \in 1..x.n : x.must[i] /\ x.elems[i] # {} /\
                            LET E == x.elems[i] IN ~(Cardinality(Plain(x, E)) = 1 /\ Cardinality(E \ Plain(x, E)) <= 1)}}
    \* a moved-to copy names the element it duplicates
    [] cl = "MovedTo" -> {<<0, j>> : j \in {j \in 1..x.m : els[j].movedTo # "-" /\
                            ~\E k \in Plain(x, SameCid(x, j)) : els[j].movedTo \in {els[k].name, els[k].owner \o "." \o els[k].name}}}
    \* no two elements carry the same C identifier except moved-to copies
    [] cl = "NoDup" -> {<<0, j>> : j \in {j \in 1..x.m : els[j].cid # "-" /\
                            LET E == SameCid(x, j) IN ~(Cardinality(Plain(x, E)) <= 1 /\ Cardinality(E \ Plain(x, E)) <= 1)}}
    \* (ii) GIR name = prefix(es) stripped
    [] cl = "Name" -> {p \in (1..x.n) \X (1..x.m) :
                         LET i == p[1]  d == ds[p[1]]  e == els[p[2]] IN
                         /\ Describes(x, i, p[2]) /\ ~d.us /\ x.subs[i] # {} /\ ~CharCarriesCur(c, d)
                         /\ ~( IF e.owner = "" THEN e.name \in x.top[i]
                               ELSE IF e.tag \in {"method", "constructor"}
                                    THEN e.movedTo # "-" \/ e.name \in NestedNames(x, i, e)
                               ELSE e.name \in (NestedNames(x, i, e) \cup {JoinL(s) : s \in x.subs[i]}) )}
    \* (iii) a method only of a same-namespace type that is its first parameter and whose prefix it carries
    [] cl = "Method" -> {p \in (1..x.n) \X (1..x.m) :
                         LET i == p[1]  d == ds[p[1]]  e == els[p[2]] IN
                         /\ e.tag = "method" /\ d.k = "func" /\ Describes(x, i, p[2])
                         /\ ~( /\ (d.p1.ns = "cur" /\ x.cn[d.p1.i] = e.ownerCT)
                               /\ ((d.ann # "method" /\ e.movedTo = "-") => CarriesOwner(x, i, e)) )}
    \* (iii) a constructor only of the type whose prefix it carries, returning it or an ancestor
    [] cl = "Ctor" -> {p \in (1..x.n) \X (1..x.m) :
                         LET i == p[1]  d == ds[p[1]]  e == els[p[2]] IN
                         /\ e.tag = "constructor" /\ d.k = "func" /\ Describes(x, i, p[2])
                         /\ ~( /\ ((d.ann # "constructor") => CarriesOwner(x, i, e))
                               /\ (RefGir(x, d.ret) \in ({e.owner} \cup Anc(x, e.owner))) )}
    \* (iv) underscore symbols and symbols of other namespaces are left out
    [] cl = "Absent" -> {<<i, 0>> : i \in {i \in 1..x.n : x.elems[i] # {} /\ (HiddenSym(ds[i]) \/ Foreign(c, ds[i]))}}
    \* (i) get-type functions are folded into the type they register
    [] OTHER -> {<<i, 0>> : i \in {i \in 1..Len(c.decls) :
                         LET d == c.decls[i] IN
                         /\ c.dump /\ d.reg # "none" /\ ~d.us /\ x.subs[i] # {} /\ ~CharCarriesCur(c, d)
                         /\ ~( /\ ~\E j \in 1..x.m : els[j].cid = JoinL(d.gt) /\ els[j].tag \in FuncTags
                               /\ \E j \in x.elems[i] : els[j].getType = JoinL(d.gt) )}}

Holds(x, cl) == Silent(x) \/ Bad(x, cl) = {}
Violated(x) == IF Silent(x) THEN {} ELSE {cl \in ClauseNames : Bad(x, cl) # {}}
AllHold(r) == Violated(Prep(r)) = {}

\* clauses that speak about an observation (vacuity counting)
SpeakSet(x) ==
  LET c == x.c  ds == x.ds  els == x.els IN
  IF Silent(x) THEN {} ELSE
  {cl \in ClauseNames :
     CASE cl \in {"Present", "Once"} -> \E i \in 1..x.n : x.must[i]
       [] cl = "MovedTo" -> \E j \in 1..x.m : els[j].movedTo # "-"
       [] cl = "NoDup" -> x.m >= 2
       [] cl = "Name" -> \E i \in 1..x.n : ~ds[i].us /\ x.subs[i] # {} /\ ~CharCarriesCur(c, ds[i]) /\ \E j \in x.elems[i] : Describes(x, i, j)
       [] cl = "Method" -> \E j \in 1..x.m : els[j].tag = "method"
       [] cl = "Ctor" -> \E j \in 1..x.m : els[j].tag = "constructor"
       [] cl = "Absent" -> \E i \in 1..x.n : HiddenSym(ds[i]) \/ Foreign(c, ds[i])
       [] OTHER -> c.dump /\ \E i \in 1..Len(c.decls) : c.decls[i].reg # "none"}

\* classification of the first offending item (input class of a finding)
DetailOf(x, cl) ==
  LET b == CHOOSE y \in Bad(x, cl) : TRUE
      d == IF b[1] > 0 THEN x.ds[b[1]] ELSE [k |-> "-", ann |-> "-", us |-> FALSE, ord |-> "-", reg |-> "-"]
      t == IF b[2] > 0 THEN x.els[b[2]].tag ELSE "-"
  IN d.k \o "/" \o t \o "/" \o (IF d.ann = "-" THEN "plain" ELSE d.ann) \o
     (IF d.k = "struct" THEN "/" \o d.ord \o "/" \o d.reg ELSE "") \o (IF d.us THEN "/underscore" ELSE "")

\* beyond the statement (reported as a note): underscore-prefixed TYPES are kept under the name _X
UnderscoreTypeKept(x) == \E i \in 1..x.n : x.ds[i].us /\ F(x.ds[i].k) = "c" /\ x.elems[i] # {}

(***************************************************************************)
(* IMPLEMENTATION-SHAPED LAYER: what the scanner does, pass by pass.       *)
(***************************************************************************)
\* ---- Transformer._split_c_string_for_namespace_matches / split_csymbol / strip_identifier / _strip_symbol
\* per namespace the FIRST listed prefix that matches is taken; identifiers match by startswith(prefix),
\* symbols by startswith(prefix + "_"); a prefix that would leave nothing does not match (f62728f)
FirstHit(ps, w, f) == LET M == {i \in 1..Len(ps) : IF f = "c" /\ Has("EmptyRemainderMatches") THEN IsPreEq(ps[i], w) ELSE IsPre(ps[i], w)}
                      IN IF M = {} THEN 0 ELSE MinOf(M)
\* the current namespace has precedence over any (even longer) match of an include
Split(c, f, w) ==
    LET cp == Pfx(c, "cur", f)   hi == FirstHit(cp, w, f)
        ip == IF c.inc.on THEN Pfx(c, "inc", f) ELSE <<>>
        hj == FirstHit(ip, w, f)
        curWins == hi > 0 /\ ~(Has("NoCurPrecedence") /\ f # "c" /\ hj > 0 /\ Len(ip[hj]) > Len(cp[hi]))
    IN IF curWins THEN [ok |-> TRUE, rem |-> Drop(w, Len(cp[hi]))]
       ELSE IF hi > 0 \/ hj > 0 THEN [ok |-> FALSE, rem |-> <<>>]            \* foreign
       ELSE IF c.cur.unpref THEN [ok |-> TRUE, rem |-> w]                    \* --accept-unprefixed
       ELSE [ok |-> FALSE, rem |-> <<>>]                                     \* unknown namespace

\* ---- ast.Namespace: ordered name -> node
MkNode(k, name, ctype, di, rem, hid) ==
    [k |-> k, name |-> name, ctype |-> ctype, d |-> di, rem |-> rem, hid |-> hid, gt |-> "", sp |-> <<>>, reg |-> FALSE]
Named(ns, nm) == {j \in 1..Len(ns.nodes) : ns.nodes[j].name = nm}
NodeNamed(ns, nm) == ns.nodes[CHOOSE j \in Named(ns, nm) : TRUE]
\* Transformer._append_new_node: a second node of the same name is fatal (two constants: the later is ignored)
Add(ns, n) == IF Named(ns, n.name) = {} THEN [ns EXCEPT !.nodes = Append(@, n)]
              ELSE IF n.k = "constant" /\ NodeNamed(ns, n.name).k = "constant" THEN ns
              ELSE [ns EXCEPT !.fatal = TRUE]
RemoveNamed(ns, nm) == [ns EXCEPT !.nodes = SelectSeq(@, LAMBDA n : n.name # nm)]

\* ---- Transformer.parse: one symbol after the other.  For a compound the typedef names it; the struct
\* symbol alone only fills the tag namespace (both orders give the same node), a struct that never
\* meets a typedef is promoted under its tag at the end.
ParseOne(c, ds, i, ns) ==
    LET d == ds[i]  f == F(d.k)  s == Split(c, f, d.w)  h == IF d.us THEN "_" ELSE "" IN
    CASE d.k \in {"func", "const"} ->
            IF (d.us /\ ~Has("UnderscoreLeak")) \/ ~s.ok THEN ns
            ELSE Add(ns, MkNode(IF d.k = "func" THEN "function" ELSE "constant", h \o Render(f, s.rem), CName(d), i, s.rem, d.us))
      [] d.k = "callbackl" ->
            \* "_foo_bar_cb" goes through strip_identifier: no CamelCase prefix can match it
            IF d.us THEN (IF c.cur.unpref THEN Add(ns, MkNode("callback", CName(d), CName(d), i, d.w, TRUE)) ELSE ns)
            ELSE IF ~s.ok THEN ns ELSE Add(ns, MkNode("callback", JoinL(s.rem), CName(d), i, s.rem, FALSE))
      [] d.k = "struct" /\ d.ord = "tag" -> ns
      [] OTHER ->
            IF ~s.ok \/ s.rem = <<>> THEN ns
            ELSE Add(ns, MkNode(CASE d.k = "struct" -> "record" [] d.k = "enum" -> "enum" [] d.k = "alias" -> "alias" [] OTHER -> "callback",
                                h \o JoinC(s.rem), CName(d), i, s.rem, d.us))
PromoteOne(c, ds, i, ns) ==
    LET d == ds[i]  s == Split(c, "c", d.w) IN
    IF d.k = "struct" /\ d.ord = "tag" /\ s.ok /\ s.rem # <<>>
    THEN Add(ns, MkNode("record", (IF d.us THEN "_" ELSE "") \o JoinC(s.rem), CName(d), i, s.rem, d.us))
    \* typedef _X refused (foreign / unknown): its struct tag __X stays in the tag namespace and is accepted whole
    \* in accept-unprefixed mode
    ELSE IF d.k = "struct" /\ d.ord \in {"tf", "sf"} /\ d.us /\ ~s.ok /\ c.cur.unpref
    THEN Add(ns, MkNode("record", "_" \o CName(d), "_" \o CName(d), i, d.w, TRUE))
    ELSE ns
RECURSIVE ParseFrom(_, _, _, _), PromoteFrom(_, _, _, _)
ParseFrom(c, ds, i, ns) == IF i > Len(ds) THEN ns ELSE ParseFrom(c, ds, i + 1, ParseOne(c, ds, i, ns))
PromoteFrom(c, ds, i, ns) == IF i > Len(ds) THEN ns ELSE PromoteFrom(c, ds, i + 1, PromoteOne(c, ds, i, ns))
Parsed(c) == LET ds == FD(c) IN PromoteFrom(c, ds, 1, ParseFrom(c, ds, 1, [nodes |-> <<>>, fatal |-> FALSE]))

\* ---- GDumpParser: registered types replace / complete the scanned ones, get-type functions are removed
DumpOne(c, i, ns) ==
    LET d == c.decls[i]  s == Split(c, "c", d.w)  g == Split(c, "l", d.gt)
        nm == JoinC(s.rem)  sp == SubSeq(g.rem, 1, Len(g.rem) - 2)
        old == Named(ns, nm)
        oldIsRec == old # {} /\ NodeNamed(ns, nm).k = "record"
        new(k, ct) == [k |-> k, name |-> nm, ctype |-> ct, d |-> i, rem |-> s.rem, hid |-> FALSE,
                       gt |-> JoinL(d.gt), sp |-> sp, reg |-> TRUE]
    IN IF d.reg = "none" \/ d.us \/ ~s.ok \/ s.rem = <<>> \/ ~g.ok \/ Len(g.rem) < 3 THEN ns
       ELSE CASE d.reg = "class" -> [RemoveNamed(ns, nm) EXCEPT !.nodes = Append(@, new("class", IF oldIsRec THEN NodeNamed(ns, nm).ctype ELSE "-"))]
              [] d.reg = "enum"  -> [RemoveNamed(ns, nm) EXCEPT !.nodes = Append(@, new("enum", CName(d)))]
              [] OTHER -> IF oldIsRec
                          THEN [ns EXCEPT !.nodes = [j \in 1..Len(ns.nodes) |->
                                    IF ns.nodes[j].name = nm THEN [ns.nodes[j] EXCEPT !.gt = JoinL(d.gt), !.sp = sp, !.reg = TRUE]
                                    ELSE ns.nodes[j]]]
                          ELSE IF old = {} THEN [ns EXCEPT !.nodes = Append(@, new("boxed", "-"))] ELSE ns
DropGetType(c, i, ns) ==
    LET d == c.decls[i]  g == Split(c, "l", d.gt) IN
    IF d.reg # "none" /\ g.ok /\ \E j \in 1..Len(ns.nodes) : ns.nodes[j].reg /\ ns.nodes[j].gt = JoinL(d.gt)
    THEN RemoveNamed(ns, JoinL(g.rem)) ELSE ns
RECURSIVE DumpFrom(_, _, _), DropFrom(_, _, _)
DumpFrom(c, i, ns) == IF i > Len(c.decls) THEN ns ELSE DumpFrom(c, i + 1, DumpOne(c, i, ns))
DropFrom(c, i, ns) == IF i > Len(c.decls) THEN ns ELSE DropFrom(c, i + 1, DropGetType(c, i, ns))
Dumped(c) == IF c.dump THEN DropFrom(c, 1, DumpFrom(c, 1, Parsed(c))) ELSE Parsed(c)

\* ---- type lookup (Transformer.lookup_typenode after resolution by c:type)
NoneT == [where |-> "none", j |-> 0, n |-> "-"]
Resolve(c, ns, ref) ==
    CASE ref.ns = "cur" ->
            LET ct == CName(c.decls[ref.i])
                S == {j \in 1..Len(ns.nodes) : ns.nodes[j].ctype = ct}
            IN IF S = {} \/ (c.decls[ref.i].us /\ ~c.cur.unpref) THEN NoneT ELSE [where |-> "cur", j |-> MinOf(S), n |-> "-"]
      [] ref.ns = "inc" -> IF c.inc.on THEN [where |-> "inc", j |-> 0, n |-> ref.n] ELSE NoneT
      [] OTHER -> NoneT
Resolvable(c, ns, ref) == ref.ns \in {"none", "int", "gtype"} \/ Resolve(c, ns, ref).where # "none"
IsClassT(ns, t) == (t.where = "cur" /\ ns.nodes[t.j].k = "class") \/ (t.where = "inc" /\ t.n \in {"object", "mid"})
\* class, or registered compound: may have constructors
QualT(ns, t) == IsClassT(ns, t) \/ (t.where = "cur" /\ ns.nodes[t.j].k \in {"record", "boxed"} /\ ns.nodes[t.j].reg)
ParentT(c, ns, t) == IF t.where = "inc" THEN (IF t.n = "mid" THEN [where |-> "inc", j |-> 0, n |-> "object"] ELSE NoneT)
                     ELSE IF t.where = "cur" /\ ns.nodes[t.j].k = "class" THEN Resolve(c, ns, c.decls[ns.nodes[t.j].d].par)
                     ELSE NoneT
\* MainTransformer._is_constructor: walk the ancestors of the constructed class looking for the returned one
RECURSIVE Walk(_, _, _, _, _)
Walk(c, ns, t, tgt, fuel) ==
    IF fuel = 0 THEN FALSE
    ELSE IF t.where = "inc" /\ t.n = "object" THEN (Has("CtorReachRoot") \/ t = tgt)     \* reached GObject.Object
    ELSE IF t = tgt THEN TRUE
    ELSE LET p == ParentT(c, ns, t) IN IF p.where = "none" THEN FALSE ELSE Walk(c, ns, p, tgt, fuel - 1)

\* ---- MainTransformer: the reverse mapping "bar_baz" -> BarBaz and _split_uscored_by_type (longest wins)
UKey(n) == IF n.reg THEN JoinL(n.sp)
           ELSE IF n.k = "record" THEN (IF n.hid THEN "__" ELSE "") \o JoinL(n.rem) ELSE ""
UKeys(ns) == Tup([j \in 1..Len(ns.nodes) |-> UKey(ns.nodes[j])], Len(ns.nodes))
UIdx(uk, key) == LET S == {j \in 1..Len(uk) : uk[j] = key /\ key # ""}
                 IN IF S = {} THEN 0 ELSE MaxOf(S)                              \* later nodes overwrite
SplitByType(uk, sub) ==
    LET K == {k \in 1..Len(sub) : UIdx(uk, JoinL(SubSeq(sub, 1, k))) > 0} IN
    IF K = {} THEN [j |-> 0, k |-> 0]
    ELSE LET k == IF Has("ShortestType") THEN MinOf(K) ELSE MaxOf(K) IN [j |-> UIdx(uk, JoinL(SubSeq(sub, 1, k))), k |-> k]

IsCtorName(w) == Len(w) >= 2 /\ (w[Len(w)] \in {"new", "newv"} \/ \E i \in 2..(Len(w) - 1) : w[i] = "new")
Occurs(p, w) == p # <<>> /\ \E k \in 0..(Len(w) - Len(p)) : SubSeq(w, k + 1, k + Len(p)) = p
CharStarts(p, s) == IsPreEq(p, s) \/ CharPre(p, s)
\* _get_uscored_prefix / _get_constructor_name: the registered prefix if the symbol starts with it, else
\* the default underscoring of the type's name
UPrefix(ns, t, sub) == IF t.where = "inc" THEN <<t.n>>
                       ELSE LET n == ns.nodes[t.j] IN
                            IF n.reg /\ CharStarts(n.sp, sub) THEN n.sp
                            ELSE IF n.hid THEN <<"?">>             \* "_Foo" underscores to "__foo": never a prefix
                            ELSE n.rem

\* _pair_function -> [top: stays at top level, topMoved, nested: <<[tag, j, name, movedTo]>>]
Pair(c, ds, ns, uk, fj) ==
    LET n == ns.nodes[fj]   d == ds[n.d]   sub == n.rem
        isMeta == /\ Len(d.w) >= 2 /\ d.w[Len(d.w) - 1] = "get" /\ d.w[Len(d.w)] = "type"
                  /\ d.ret.ns = "gtype" /\ d.p1.ns = "none"
        tR == Resolve(c, ns, d.ret)   tP == Resolve(c, ns, d.p1)
        sp == SplitByType(uk, sub)
        intro == Resolvable(c, ns, d.ret) /\ Resolvable(c, ns, d.p1)
        \* constructor
        origin == IF sp.j > 0 THEN [where |-> "cur", j |-> sp.j, n |-> "-"]
                  ELSE IF d.ann = "constructor" THEN tR ELSE NoneT
        isCtor == /\ d.ann = "constructor" \/ IsCtorName(d.w)
                  /\ QualT(ns, tR)
                  /\ origin.where = "cur" /\ QualT(ns, origin)
                  /\ ~(d.ann # "constructor" /\ d.p1.ns # "none" /\ tP = origin)
                  /\ IF IsClassT(ns, tR) /\ IsClassT(ns, origin) THEN Walk(c, ns, origin, tR, 8) ELSE origin = tR
        cpw == UPrefix(ns, tR, sub)
        ctorName == IF sp.j > 0 THEN JoinL(Drop(sub, sp.k))
                    ELSE IF IsPre(cpw, sub) THEN JoinL(Drop(sub, Len(cpw)))
                    ELSE IF Has("CtorNameSubstr") /\ (Occurs(cpw, d.w) \/ \E k \in 1..Len(d.w) : CharPre(cpw, Drop(d.w, k - 1)))
                         THEN "?cut"                                          \* sliced at a wrong offset
                    ELSE n.name
        \* method
        mOK(t) == (t.where = "cur" /\ ns.nodes[t.j].k \in {"class", "record", "boxed"})
        mpw == UPrefix(ns, tP, sub)
        isMethod == /\ d.p1.ns \in {"cur", "inc"}
                    /\ mOK(tP) \/ (Has("CrossNs") /\ tP.where = "inc")
                    /\ d.ann = "method" \/ CharStarts(mpw, sub)
        compat == d.ann # "method" /\ ~IsPre(mpw, sub)
        mName == IF d.ann # "method" \/ (Has("MethodAnnStrips") /\ IsPre(mpw, sub)) THEN JoinL(Drop(sub, Len(mpw))) ELSE n.name
        \* static
        isStatic == sp.j > 0 /\ sp.k < Len(sub)
        sName == JoinL(Drop(sub, sp.k))
    IN CASE isMeta -> [top |-> TRUE, topMoved |-> "-", nested |-> <<>>]
         [] isCtor -> [top |-> FALSE, topMoved |-> "-", nested |-> <<[tag |-> "constructor", j |-> origin.j, name |-> ctorName, movedTo |-> "-"]>>]
         [] isMethod -> IF tP.where = "inc" THEN [top |-> FALSE, topMoved |-> "-", nested |-> <<>>]
                        ELSE IF compat THEN [top |-> TRUE, topMoved |-> "-",
                                             nested |-> IF intro THEN <<[tag |-> "method", j |-> tP.j, name |-> "?cut", movedTo |-> n.name]>> ELSE <<>>]
                        ELSE [top |-> FALSE, topMoved |-> "-", nested |-> <<[tag |-> "method", j |-> tP.j, name |-> mName, movedTo |-> "-"]>>]
         [] isStatic -> IF ns.nodes[sp.j].k = "class"
                        THEN [top |-> FALSE, topMoved |-> "-", nested |-> <<[tag |-> "function", j |-> sp.j, name |-> sName, movedTo |-> "-"]>>]
                        ELSE [top |-> intro \/ Has("NoMovedTo"),
                              topMoved |-> IF Has("NoMovedTo") THEN "-" ELSE ns.nodes[sp.j].name \o "." \o sName,
                              nested |-> <<[tag |-> "function", j |-> sp.j, name |-> sName, movedTo |-> "-"]>>]
         [] OTHER -> [top |-> TRUE, topMoved |-> "-", nested |-> <<>>]

\* ---- GIRWriter: the elements
TagOf(k) == CASE k = "function" -> "function" [] k = "constant" -> "constant" [] k = "record" -> "record"
              [] k = "class" -> "class" [] k = "enum" -> "enumeration" [] k = "callback" -> "callback"
              [] k = "alias" -> "alias" [] OTHER -> "glib:boxed"
ParentGir(c, ns, j) == LET p == ParentT(c, ns, [where |-> "cur", j |-> j, n |-> "-"]) IN
                       IF p.where = "cur" THEN ns.nodes[p.j].name ELSE IF p.where = "inc" THEN IncGir(p.n) ELSE "-"
SPOf(n) == IF n.reg /\ n.k # "enum" THEN JoinL(n.sp) ELSE "-"
TopEl(c, ns, j, moved) ==
    LET n == ns.nodes[j] IN
    [tag |-> TagOf(n.k), owner |-> "", ownerCT |-> "-", ownerSP |-> "-", name |-> n.name,
     cid |-> IF n.k = "callback" /\ n.name = n.ctype THEN "-" ELSE n.ctype,      \* the writer omits a c:type equal to the name
     movedTo |-> moved,
     getType |-> IF n.gt # "" THEN n.gt ELSE "-", symPrefix |-> SPOf(n),
     parent |-> IF n.k = "class" THEN ParentGir(c, ns, j) ELSE "-"]
NestedEl(ns, fj, x) ==
    LET o == ns.nodes[x.j] IN
    [tag |-> x.tag, owner |-> o.name, ownerCT |-> o.ctype, ownerSP |-> SPOf(o), name |-> x.name, cid |-> ns.nodes[fj].ctype,
     movedTo |-> x.movedTo, getType |-> "-", symPrefix |-> "-", parent |-> "-"]
Emit(c, ns) ==
    LET ds == FD(c)  uk == UKeys(ns) IN
    UNION { IF ns.nodes[j].k # "function" THEN {TopEl(c, ns, j, "-")}
            ELSE LET p == Pair(c, ds, ns, uk, j) IN
                 (IF p.top THEN {TopEl(c, ns, j, p.topMoved)} ELSE {}) \cup {NestedEl(ns, j, p.nested[q]) : q \in 1..Len(p.nested)}
          : j \in 1..Len(ns.nodes) }
Impl(c) == LET ns == Dumped(c) IN [fatal |-> ns.fatal, els |-> IF ns.fatal THEN {} ELSE Emit(c, ns)]
\* no declaration has two owners: at most one nested element per C function
SingleOwner(o) == \A e1, e2 \in o.els : (e1.owner # "" /\ e2.owner # "" /\ e1.cid = e2.cid) => e1 = e2
===========================================================================

---------------------------- MODULE CommentBlock ----------------------------
(***************************************************************************)
(* C10 / C11 -- the GTK-Doc comment block parser of g-ir-scanner           *)
(* (giscanner/annotationparser.py: GtkDocCommentBlockParser) as a          *)
(* line-class state machine, run in lock step with a generator that lays   *)
(* out a block MODEL nondeterministically as a sequence of abstract LINES. *)
(*                                                                         *)
(* generator (grammar of the module docstring, "what the text means")      *)
(*   Gen* operators: each step emits one line and extends `model`, the     *)
(*   tree the writer of the comment intended.  Layout freedom = the        *)
(*   nondeterminism that does not change `model`: annotations on the part  *)
(*   line or continued on following lines, optional colons, indentation    *)
(*   after the asterisk where it is not significant, description text      *)
(*   started on the part line or on the next one, noise empty lines,       *)
(*   `Returns:` as a tag or as `@returns`.                                 *)
(* parser (implementation-shaped layer, "what the code does")              *)
(*   PL(s, l): one branch per line class, transcribed from                 *)
(*   parse_comment_block: in_part, part_indent, current_part, the          *)
(*   "description still empty" guards of annotation continuation, the      *)
(*   `line_indent <= part_indent` tag guard; Fin(s): the strip / clean     *)
(*   rules and validate().  Writer: Write(tree) from                       *)
(*   GtkDocCommentBlockWriter.write.                                       *)
(* property layer                                                          *)
(*   RoundTrip   done /\ no fault planted => tree = model      (C10)       *)
(*   WriterFix   Parse(Write(Parse(x))) = Parse(x)              (C10)      *)
(*   DiagAtFault every diagnostic (line, kind) is one the text gives cause *)
(*               for: the planted fault at the 1-based source line that    *)
(*               carries it, or a later @param / tag line blamed for       *)
(*               standing where it is no longer expected (history variable *)
(*               `expected`, operator Permits; blocks whose opening token  *)
(*               stands alone on its line)                       (C11)     *)
(*   IgnoredNotHalfApplied  no annotation of a malformed annotation field  *)
(*               reaches the tree                                (C11)     *)
(*                                                                         *)
(* Abstractions: annotations are opaque ids "a","b","c" (their inner       *)
(* syntax -- name, option list / key=value dict -- is bound on the real    *)
(* code by the harness, which draws them from the full vocabulary);        *)
(* a description is a sequence of lines [ind, t, n] (indentation after the *)
(* asterisk, text kind, ordinal), the empty line being E.  Python's None   *)
(* is <<>>, the empty string is <<E>>.                                     *)
(***************************************************************************)
EXTENDS Naturals, Sequences, FiniteSets, TLC

CONSTANTS
  Forms,         \* identifier forms: subset of {"symbol","prop","signal","field","section","action"}
  Indents,       \* indentation after the asterisk, e.g. {0,1,2}
  MaxIdAnns, MaxParams, MaxParamAnns, MaxPartLines,   \* header bounds
  MaxDescLines, MaxParas,                             \* block description: lines per paragraph, paragraphs
  MaxTags, TagNames, MaxTagAnns,                      \* tags
  MaxCont,       \* continuation lines per part
  MaxNoise,      \* noise empty lines (leading / trailing) per place
  AtReturns,     \* allow `@returns:` in the parameter list
  FaultKinds,    \* C11: kinds of faults the generator may plant ({} for C10)
  MaxFaults,     \* 0 for C10, 1 for the single-fault statement of C11
  KeepLines,     \* TRUE: `lines` records the layout (case export by simulation); FALSE: states merge on (model, parser state)
  Known,         \* deviations already triaged (see KnownDeviation); {} = none tolerated
  StartLine      \* 1-based line of the opening token in the source file

VARIABLES pc, g, model, lines, ps, expected
vars == <<pc, g, model, lines, ps, expected>>

-----------------------------------------------------------------------------
(* vocabulary *)
E == [ind |-> 0, t |-> "", n |-> 0]                  \* the empty description line
AnnSeq == <<"a", "b", "c", "d">>
Chunk(from, len) == SubSeq(AnnSeq, from + 1, from + len)
NoAnnForms == {"section", "action", "actionw"}
ValueTags == {"since", "deprecated", "stability"}
DepAnnTags == {"attributes", "renameto"}      \* DEPRECATED_GI_ANN_TAGS: "Attributes:", "Rename to:", "Transfer:", ...
ParamNames == <<"p1", "p2", "p3">>
AnnFaults == {"unbal", "dbl", "empty", "stray", "kv", "unknown", "depann"}   \* depann: deprecated spelling (in-out) / (attribute k v)
FailingAnnFaults == {"unbal", "dbl", "empty", "stray"}     \* _parse_annotations returns success=False
\* "a~": the name of the part's first annotation "a" once more, with OTHER options.  Planted (fault "dupparen") at the
\* head of a continuation line whose last annotation carries a parentheses fault: the line is rejected as a whole,
\* so the options of "a" must stay what they were (a malformed annotation is ignored rather than half-applied).
DupId == "a~"
HasDup(l) == \E i \in 1..Len(l.anns) : l.anns[i] = DupId
Falsy(d) == d = <<>> \/ d = <<E>>                    \* Python: `not description`
RangeOf(s) == {s[i] : i \in 1..Len(s)}
\* deviations of the code from the property that have been triaged (constant Known):
\*   "<name>"          the implementation layer shows the deviation AND the invariants tolerate it (code as it is);
\*   "witness_<name>"  the implementation layer shows it, the invariants do not (TLC exhibits the counterexample);
\*   neither           the implementation layer behaves as the repaired code would.
Shows(name) == name \in Known \/ ("witness_" \o name) \in Known
LosesPos == Shows("validate_position_lost_on_continuation")
WritesActionName == Shows("writer_action_identifier")
Track == MaxFaults > 0         \* line numbers are only followed when faults (hence diagnostics) are modelled

Line0 == [k |-> "text", form |-> "", name |-> "", ind |-> 0, colon |-> FALSE, anns |-> <<>>,
          acolon |-> FALSE, val |-> "", vcolon |-> FALSE, t |-> "none", n |-> 0, af |-> "none", pre |-> FALSE]
EmptyLine == [Line0 EXCEPT !.k = "empty"]

-----------------------------------------------------------------------------
(* ---------------- implementation-shaped layer: the parser --------------- *)

PS0 == [cb |-> FALSE, idwarned |-> FALSE, in_part |-> "none", pind |-> 0, cur |-> <<"none", 0>>,
        rseen |-> FALSE, name |-> "", anns |-> <<>>, apos |-> 0, unk |-> FALSE, upos |-> 0,
        params |-> <<>>, desc |-> <<>>, tags |-> <<>>, lineno |-> StartLine, diags |-> <<>>]

APos(s) == IF Track THEN s.lineno ELSE 0       \* GtkDocAnnotations(position=position)
\* apos: line of the annotations object (0 = None); upos: line on which an unknown annotation stands (0 = none)
NewParam(nm) == [name |-> nm, anns |-> <<>>, apos |-> 0, unk |-> FALSE, upos |-> 0, desc |-> <<>>]
NewTag(nm)   == [name |-> nm, anns |-> <<>>, apos |-> 0, unk |-> FALSE, upos |-> 0, val |-> "", desc |-> <<>>]
UPos(s, unk) == IF unk THEN APos(s) ELSE 0

AddDiags(s, ks) == [s EXCEPT !.diags = @ \o [i \in 1..Len(ks) |-> [line |-> s.lineno, kind |-> ks[i]]]]

IndexOf(seq, nm) == IF \E i \in 1..Len(seq) : seq[i].name = nm
                    THEN CHOOSE i \in 1..Len(seq) : seq[i].name = nm ELSE 0
Put(seq, item) == LET i == IndexOf(seq, item.name)      \* OrderedDict assignment: an existing key keeps its place
                  IN IF i = 0 THEN Append(seq, item) ELSE [seq EXCEPT ![i] = item]

HasFields(l) == l.anns # <<>> \/ l.t # "none" \/ l.val # ""

\* _parse_annotations on the fields of line l.  `existing` are the annotations passed in.
\* A text beginning with a parenthesis reads as one more (bogus) annotation "zz".
ParseAnns(l, existing) ==
  IF l.af \in FailingAnnFaults
  THEN [ok |-> FALSE, anns |-> <<>>, changed |-> FALSE,
        d |-> (IF HasDup(l) THEN <<"dupann">> ELSE <<>>) \o <<l.af>>, unk |-> FALSE]     \* 'multiple "x" annotations:' comes first
  ELSE LET seen == l.anns \o (IF l.anns = <<>> /\ l.t = "paren" THEN <<"zz">> ELSE <<>>)
       IN [ok |-> TRUE, anns |-> existing \o seen, changed |-> seen # <<>>,
           d |-> IF l.af \in {"kv", "depann"} THEN <<l.af>> ELSE <<>>, unk |-> l.af = "unknown"]

\* _parse_fields: annotations, then the description field with its (optional) leading colon
PF(s, l, existing) ==
  LET r == ParseAnns(l, existing)
      miss == r.ok /\ l.t # "none" /\ ~l.acolon /\ r.changed          \* end_pos > 0 and no ':'
  IN [ok |-> r.ok, anns |-> r.anns, changed |-> r.changed, unk |-> r.unk,
      s |-> AddDiags(s, r.d \o (IF miss THEN <<"nocolon">> ELSE <<>>)),
      desc |-> IF l.t = "none" THEN <<E>> ELSE <<[ind |-> 0, t |-> l.t, n |-> l.n]>>]

\* --- "Check for GTK-Doc comment block identifier" (comment_block is None)
PIdent(s, l) ==
  IF l.k = "ident" /\ l.form # "actionw"
  THEN LET s1 == [s EXCEPT !.cb = TRUE, !.in_part = "ident", !.pind = l.ind, !.name = l.form]
       IN IF l.anns # <<>>
          THEN LET r == ParseAnns(l, <<>>)
                   s2 == AddDiags(s1, r.d)
               IN IF r.ok
                  THEN AddDiags([s2 EXCEPT !.anns = r.anns, !.apos = APos(s), !.unk = r.unk, !.upos = UPos(s, r.unk)],
                                IF ~l.colon /\ r.anns # <<>> THEN <<"nocolon">> ELSE <<>>)
                  ELSE s2
          ELSE s1
  ELSE IF s.idwarned THEN s ELSE AddDiags([s EXCEPT !.idwarned = TRUE], <<"noident">>)

\* --- "Check for comment block parameters" (PARAMETER_RE)
PParam(s, l) ==
  LET s1 == AddDiags([s EXCEPT !.pind = l.ind, !.in_part = "params"],
                     IF s.in_part \notin {"ident", "params"} THEN <<"paramlate">> ELSE <<>>)
  IN IF l.name = "returns"
     THEN LET s2 == AddDiags([s1 EXCEPT !.rseen = TRUE], IF s1.rseen THEN <<"returns2">> ELSE <<>>)
              f == PF(s2, l, <<>>)
              s3 == IF HasFields(l) THEN f.s ELSE s2
              tag == IF HasFields(l) /\ f.ok
                     THEN [NewTag("returns") EXCEPT !.anns = f.anns, !.apos = APos(s), !.unk = f.unk, !.upos = UPos(s, f.unk), !.desc = f.desc]
                     ELSE NewTag("returns")
              tags2 == Put(s3.tags, tag)
          IN [s3 EXCEPT !.tags = tags2, !.cur = <<"tag", IndexOf(tags2, "returns")>>]
     ELSE LET s2 == AddDiags(s1, IF IndexOf(s1.params, l.name) # 0 THEN <<"dupparam">> ELSE <<>>)
              f == PF(s2, l, <<>>)
              s3 == IF HasFields(l) THEN f.s ELSE s2
              par == IF HasFields(l) /\ f.ok
                     THEN [NewParam(l.name) EXCEPT !.anns = f.anns, !.apos = APos(s), !.unk = f.unk, !.upos = UPos(s, f.unk), !.desc = f.desc]
                     ELSE NewParam(l.name)
              params2 == Put(s3.params, par)
          IN [s3 EXCEPT !.params = params2, !.cur = <<"param", IndexOf(params2, l.name)>>]

\* --- empty line while in the identifier or parameter part: the description starts
PEmptyHdr(s, l) == [s EXCEPT !.in_part = "desc", !.pind = l.ind]

\* --- "Check for GTK-Doc comment block tags" (TAG_RE and line_indent <= part_indent)
TagMatch(l) == l.k = "tag" \/ (l.k = "text" /\ l.t = "taglike" /\ l.anns = <<>>)
TagName(l) == IF l.k = "tag" THEN l.name ELSE "since"        \* a tag-like text reads "Since: ..."
PTag(s, l) ==
  LET nm == TagName(l)
      s1 == [s EXCEPT !.pind = l.ind]
  IN IF nm \in DepAnnTags
     THEN \* deprecated tag-style annotation: warned, folded into the identifier annotations, `continue`
          \* (a malformed "Attributes:" is ignored; "Rename to:" etc. become one more identifier annotation "dt")
          LET s2 == AddDiags(s1, <<"deprecated_tag">> \o (IF l.af = "attrs" THEN <<"attrs">> ELSE <<>>))
          IN IF nm = "renameto" THEN [s2 EXCEPT !.anns = Append(@, "dt")] ELSE s2
     ELSE
     LET totags == \/ s1.in_part = "desc"
                   \/ (s1.in_part = "params" /\ Falsy(s1.desc))
                   \/ (s1.in_part = "ident" /\ s1.params = <<>> /\ Falsy(s1.desc))
         s2 == AddDiags([s1 EXCEPT !.in_part = "tags"],
                        IF ~totags /\ s1.in_part # "tags" THEN <<"tagunexpected">> ELSE <<>>)
     IN IF nm = "returns"
        THEN LET s3 == AddDiags([s2 EXCEPT !.rseen = TRUE], IF s2.rseen THEN <<"returns2">> ELSE <<>>)
                 f == PF(s3, l, <<>>)
                 s4 == IF HasFields(l) THEN f.s ELSE s3
                 tag == IF HasFields(l) /\ f.ok
                        THEN [NewTag("returns") EXCEPT !.anns = f.anns, !.apos = APos(s), !.unk = f.unk, !.upos = UPos(s, f.unk), !.desc = f.desc]
                        ELSE NewTag("returns")
                 tags2 == Put(s4.tags, tag)
             IN [s4 EXCEPT !.tags = tags2, !.cur = <<"tag", IndexOf(tags2, "returns")>>]
        ELSE LET s3 == AddDiags(s2, IF IndexOf(s2.tags, nm) # 0 THEN <<"duptag">> ELSE <<>>)
                 f == PF(s3, l, <<>>)
                 s4 == IF HasFields(l)
                       THEN (IF f.ok /\ f.anns # <<>> THEN AddDiags(f.s, <<"annsontag">>) ELSE f.s)
                       ELSE s3
                 tag == IF HasFields(l) /\ f.ok
                        THEN [NewTag(nm) EXCEPT !.val = l.val, !.desc = f.desc]    \* TAG_VALUE_*_RE split
                        ELSE NewTag(nm)
                 tags2 == Put(s4.tags, tag)
             IN [s4 EXCEPT !.tags = tags2, !.cur = <<"tag", IndexOf(tags2, nm)>>]

\* --- "we must be in the middle of a multiline comment block, parameter or tag description"
Img(l) == IF l.k = "empty" THEN E
          ELSE [ind |-> l.ind, t |-> IF l.k # "text" \/ l.anns # <<>> THEN "raw" ELSE l.t, n |-> l.n]
App(d, x) == IF d = <<>> THEN <<x>> ELSE Append(d, x)          \* None -> line ; else += '\n' + line
CurPart(s) == IF s.cur[1] = "param" THEN s.params[s.cur[2]] ELSE s.tags[s.cur[2]]
SetCur(s, p) == IF s.cur[1] = "param" THEN [s EXCEPT !.params[s.cur[2]] = p]
                ELSE [s EXCEPT !.tags[s.cur[2]] = p]

ContTriesAnns(s, l) ==             \* the "description still empty" guards
  IF s.in_part \in {"ident", "desc"} THEN Falsy(s.desc) /\ s.in_part = "ident"
  ELSE Falsy(CurPart(s).desc)
ContTakesAnns(s, l) ==
  /\ ContTriesAnns(s, l)
  /\ LET r == ParseAnns(l, <<>>) IN r.ok /\ r.changed

PCont(s, l) ==
  IF s.in_part \in {"ident", "desc"}
  THEN LET try == ContTriesAnns(s, l)
           r == ParseAnns(l, s.anns)                 \* annotations.copy(): the position is lost
           s1 == IF try THEN AddDiags(s, r.d) ELSE s
       IN IF try /\ r.ok /\ r.changed
          THEN [s1 EXCEPT !.anns = r.anns, !.apos = IF LosesPos THEN 0 ELSE @, !.unk = @ \/ r.unk,
                          !.upos = IF r.unk THEN APos(s) ELSE @]
          ELSE [s1 EXCEPT !.desc = App(@, Img(l))]
  ELSE LET part == CurPart(s)
           try == ContTriesAnns(s, l)
           f == PF(s, l, part.anns)
           s1 == IF try THEN f.s ELSE s
       IN IF try /\ f.ok /\ f.changed
          THEN SetCur(s1, [part EXCEPT !.anns = f.anns, !.apos = IF LosesPos THEN 0 ELSE @, !.unk = @ \/ f.unk,
                                       !.upos = IF f.unk THEN APos(s) ELSE @, !.desc = f.desc])
          ELSE SetCur(s1, [part EXCEPT !.desc = App(@, Img(l))])

\* which branch of the loop body a line takes in state s (s already has lineno advanced)
Branch(s, l) ==
  IF ~s.cb THEN "ident"
  ELSE IF l.k = "param" THEN "param"
  ELSE IF l.k = "empty" /\ s.in_part \in {"ident", "params"} THEN "emptyhdr"
  ELSE IF TagMatch(l) /\ l.ind <= s.pind THEN "tag"
  ELSE IF ContTakesAnns(s, l) THEN "cont_ann"
  ELSE IF s.in_part \in {"ident", "desc"} THEN "cont_desc"
  ELSE "cont_part"

Pre(s, l) == LET s1 == [s EXCEPT !.lineno = IF Track THEN @ + 1 ELSE @]          \* lineno += 1 at the top of the loop
             IN IF l.pre THEN AddDiags(s1, <<"pretext">>) ELSE s1     \* 'invalid comment text'

PL(s, l) ==
  LET s1 == Pre(s, l)
      b == Branch(s1, l)
  IN CASE b = "ident" -> PIdent(s1, l)
       [] b = "param" -> PParam(s1, l)
       [] b = "emptyhdr" -> PEmptyHdr(s1, l)
       [] b = "tag" -> PTag(s1, l)
       [] OTHER -> PCont(s1, l)

\* --- "Finished parsing this comment block": strip / _clean_description_field / validate
RECURSIVE StripTrail(_), StripLead(_)
StripTrail(d) == IF d # <<>> /\ d[Len(d)] = E THEN StripTrail(SubSeq(d, 1, Len(d) - 1)) ELSE d
StripLead(d) == IF d # <<>> /\ d[1] = E THEN StripLead(Tail(d)) ELSE d
ZeroFirst(d) == IF d = <<>> THEN d ELSE [d EXCEPT ![1].ind = 0]
AllEmpty(d) == \A i \in 1..Len(d) : d[i] = E
CleanBlockDesc(d) == IF Falsy(d) THEN <<>> ELSE ZeroFirst(StripLead(StripTrail(d)))       \* .strip()
CleanPartDesc(d) == IF Falsy(d) \/ AllEmpty(d) THEN <<>>                                  \* -> None
                    ELSE IF d[1] = E THEN StripTrail(d)                                   \* .rstrip()
                    ELSE ZeroFirst(StripTrail(d))                                         \* .strip()

ValidateDiags(s) ==       \* GtkDocAnnotatable.validate: position = annotations.position (0 = None) as the code is;
                          \* the line on which the annotation stands as it should be
  LET parts == <<[unk |-> s.unk, apos |-> s.apos, upos |-> s.upos]>>
                 \o [i \in 1..Len(s.params) |-> [unk |-> s.params[i].unk, apos |-> s.params[i].apos, upos |-> s.params[i].upos]]
                 \o [i \in 1..Len(s.tags) |-> [unk |-> s.tags[i].unk, apos |-> s.tags[i].apos, upos |-> s.tags[i].upos]]
      sel == SelectSeq(parts, LAMBDA p : p.unk)
  IN [i \in 1..Len(sel) |-> [line |-> IF LosesPos THEN sel[i].apos ELSE sel[i].upos, kind |-> "unknown"]]

Fin(s) ==
  IF ~s.cb THEN s
  ELSE [s EXCEPT !.desc = CleanBlockDesc(@),
                 !.params = [i \in 1..Len(@) |-> [@[i] EXCEPT !.desc = CleanPartDesc(@)]],
                 !.tags = [i \in 1..Len(@) |-> [@[i] EXCEPT !.desc = CleanPartDesc(@)]],
                 !.diags = @ \o ValidateDiags(s)]

\* observable tree (the projection the harness applies to the real GtkDocCommentBlock)
NoTree == [present |-> FALSE, name |-> "", anns |-> <<>>, params |-> <<>>, desc |-> <<>>, tags |-> <<>>]
Tree(s) == IF ~s.cb THEN NoTree
           ELSE [present |-> TRUE, name |-> s.name, anns |-> s.anns,
                 params |-> [i \in 1..Len(s.params) |-> [name |-> s.params[i].name, anns |-> s.params[i].anns, desc |-> s.params[i].desc]],
                 desc |-> s.desc,
                 tags |-> [i \in 1..Len(s.tags) |-> [name |-> s.tags[i].name, anns |-> s.tags[i].anns, val |-> s.tags[i].val, desc |-> s.tags[i].desc]]]

RECURSIVE ParseSeq(_, _)
ParseSeq(s, ls) == IF ls = <<>> THEN s ELSE ParseSeq(PL(s, Head(ls)), Tail(ls))
ParseAll(ls) == Tree(Fin(ParseSeq(PS0, ls)))

-----------------------------------------------------------------------------
(* ---------------- the writer (GtkDocCommentBlockWriter.write) ----------- *)
TextLines(d) == [i \in 1..Len(d) |-> IF d[i] = E THEN EmptyLine
                                     ELSE [Line0 EXCEPT !.ind = d[i].ind, !.t = d[i].t, !.n = d[i].n]]
\* first line of a part: "@name[: anns][: desc | :]" -- the description continues on following lines
WParam(p) ==
  LET onfirst == p.desc # <<>> /\ p.desc[1] # E
      first == [Line0 EXCEPT !.k = "param", !.name = p.name, !.anns = p.anns,
                             !.acolon = p.anns # <<>>,          \* a ':' always follows
                             !.t = IF onfirst THEN p.desc[1].t ELSE "none",
                             !.n = IF onfirst THEN p.desc[1].n ELSE 0]
  IN <<first>> \o TextLines(IF p.desc = <<>> THEN <<>> ELSE Tail(p.desc))
WTag(tg) ==
  LET onfirst == tg.desc # <<>> /\ tg.desc[1] # E
      first == [Line0 EXCEPT !.k = "tag", !.name = tg.name, !.anns = tg.anns,
                             !.acolon = tg.anns # <<>>,
                             !.val = tg.val, !.vcolon = tg.val # "" /\ tg.desc # <<>>,
                             !.t = IF onfirst THEN tg.desc[1].t ELSE "none",
                             !.n = IF onfirst THEN tg.desc[1].n ELSE 0]
  IN <<first>> \o TextLines(IF tg.desc = <<>> THEN <<>> ELSE Tail(tg.desc))
RECURSIVE Flat(_)
Flat(ss) == IF ss = <<>> THEN <<>> ELSE Head(ss) \o Flat(Tail(ss))
Write(tr) ==
  LET id == IF tr.name \in {"section"} THEN [Line0 EXCEPT !.k = "ident", !.form = tr.name]
            ELSE IF tr.name = "action"       \* as the code is: writes block.name = 'ACTION:Class:group.action' (not an identifier)
                 THEN [Line0 EXCEPT !.k = "ident", !.form = IF WritesActionName THEN "actionw" ELSE "action"]
            ELSE [Line0 EXCEPT !.k = "ident", !.form = tr.name, !.colon = TRUE, !.anns = tr.anns]
  IN <<id>> \o Flat([i \in 1..Len(tr.params) |-> WParam(tr.params[i])])
          \o (IF tr.desc # <<>> THEN <<EmptyLine>> \o TextLines(tr.desc) ELSE <<>>)
          \o (IF tr.tags # <<>> THEN <<EmptyLine>> \o Flat([i \in 1..Len(tr.tags) |-> WTag(tr.tags[i])]) ELSE <<>>)

-----------------------------------------------------------------------------
(* ---------------- the generator: model + layout -> lines ---------------- *)
G0 == [ph |-> "open", ck |-> "none", na |-> 0, nc |-> 0, ref |-> 0, txt |-> 0, fs |-> FALSE, np |-> 0, nt |-> 0,
       npara |-> 0, dn |-> 0, pend |-> 0, lead |-> 0, used |-> {}, ret |-> FALSE, nf |-> 0, ln |-> 0,
       alone |-> TRUE, noid |-> FALSE, ign |-> {}, open |-> "alone", close |-> "alone", faults |-> <<>>]
M0 == [present |-> TRUE, name |-> "", anns |-> <<>>, params |-> <<>>, desc |-> <<>>, tags |-> <<>>]

MayPlant(gg, kind) == kind \in FaultKinds /\ gg.nf < MaxFaults
Planted(gg) == [gg EXCEPT !.nf = @ + 1]
AFDom == {"none"} \cup (IF MaxFaults > 0 THEN FaultKinds \cap AnnFaults ELSE {})
PreDom == {FALSE} \cup (IF MaxFaults > 0 /\ "pre" \in FaultKinds THEN {TRUE} ELSE {})
\* annotation-field faults that may be planted on a line carrying k > 0 annotations
AFs(gg, k) == {"none"} \cup (IF k > 0 /\ gg.nf < MaxFaults THEN FaultKinds \cap AnnFaults ELSE {})
GAf(gg, af) == IF af = "none" THEN gg ELSE Planted(gg)
Pres(gg) == {FALSE} \cup (IF MayPlant(gg, "pre") THEN {TRUE} ELSE {})
GPre(gg, p) == IF p THEN Planted(gg) ELSE gg
Ign(gg, af, ids, part) == IF af \in FailingAnnFaults THEN [gg EXCEPT !.ign = @ \cup {<<part, x>> : x \in RangeOf(ids)}] ELSE gg

\* model update helpers: the current part is the last parameter or the last tag
CurM(m, ck) == IF ck = "param" THEN m.params[Len(m.params)] ELSE m.tags[Len(m.tags)]
SetCurM(m, ck, p) == IF ck = "param" THEN [m EXCEPT !.params[Len(m.params)] = p]
                     ELSE [m EXCEPT !.tags[Len(m.tags)] = p]
Es(k) == [i \in 1..k |-> E]

\* fk: kind of the fault planted with this line ("" = none); annotation-field and pre-asterisk faults are read off the line
FK(l, fk) == IF fk # "" THEN fk ELSE IF l.af # "none" THEN l.af ELSE IF l.pre THEN "pre" ELSE ""
Step(l, gg, m, fk) ==
  [line |-> l, m |-> m, fk |-> FK(l, fk),
   g |-> [gg EXCEPT !.ln = IF Track THEN @ + 1 ELSE @,
                    !.faults = IF FK(l, fk) # "" THEN Append(@, [at |-> gg.ln + 1, kind |-> FK(l, fk)]) ELSE @]]

\* ---- the identifier line
GenIdent(gg, m) ==
  { Step([Line0 EXCEPT !.k = "ident", !.form = x[1], !.ind = x[2], !.colon = x[3], !.anns = Chunk(0, x[5]),
                       !.acolon = x[4], !.af = x[6], !.pre = x[7]],
         Ign(GPre(GAf(IF x[5] > 0 /\ ~x[3] THEN Planted([gg EXCEPT !.ph = "ident", !.na = x[5], !.ref = x[2], !.nc = 0])
                      ELSE [gg EXCEPT !.ph = "ident", !.na = x[5], !.ref = x[2], !.nc = 0], x[6]), x[7]), x[6], Chunk(0, x[5]), "id"),
         [m EXCEPT !.name = x[1], !.anns = Chunk(0, x[5])],
         IF x[5] > 0 /\ ~x[3] THEN "nocolon" ELSE "") :
    x \in { y \in Forms \X Indents \X BOOLEAN \X BOOLEAN \X (0..MaxIdAnns) \X AFDom \X PreDom :
              /\ (y[1] \in NoAnnForms => y[5] = 0)
              /\ (y[5] > 0 /\ ~y[3] => MayPlant(gg, "nocolon") /\ y[6] = "none" /\ ~y[7])   \* missing ':' before the annotations
              /\ (y[5] = 0 => ~y[4])
              /\ y[6] \in AFs(gg, y[5])
              /\ y[7] \in Pres(GAf(gg, y[6])) } }

\* ---- a line that is not an identifier where the identifier should be (fault "noident")
GenNoIdent(gg, m) ==
  IF MayPlant(gg, "noident") /\ ~gg.noid
  THEN { Step([Line0 EXCEPT !.t = "plain", !.n = 1], Planted([gg EXCEPT !.noid = TRUE]), m, "noident") }
  ELSE {}

\* ---- continuation line of the identifier annotations
GenIdCont(gg, m) ==
  IF m.name \in NoAnnForms \/ gg.nc >= MaxCont THEN {}
  ELSE { Step([Line0 EXCEPT !.ind = x[1], !.anns = Chunk(gg.na, x[2]), !.acolon = x[3], !.af = x[4], !.pre = x[5]],
              Ign(GPre(GAf([gg EXCEPT !.na = @ + x[2], !.nc = @ + 1], x[4]), x[5]), x[4], Chunk(gg.na, x[2]), "id"),
              [m EXCEPT !.anns = @ \o Chunk(gg.na, x[2])],
              "") :
         x \in { y \in Indents \X (1..(MaxIdAnns - gg.na)) \X BOOLEAN \X AFDom \X PreDom :
                   y[4] \in AFs(gg, y[2]) /\ y[5] \in Pres(GAf(gg, y[4])) } }

\* ---- "@name: [annotations][:] [text]"
ParamLine(gg, m, nm, isdup, late) ==
  { LET k == x[2]  tk == x[4]
        l == [Line0 EXCEPT !.k = "param", !.name = nm, !.ind = x[1], !.anns = Chunk(0, k), !.acolon = x[3],
                           !.t = tk, !.n = IF tk = "none" THEN 0 ELSE 1, !.af = x[5], !.pre = x[6]]
        d == IF tk = "none" THEN <<>> ELSE <<[ind |-> 0, t |-> tk, n |-> 1]>>
        isret == nm = "returns"
        g1 == [gg EXCEPT !.ph = "param", !.ck = IF isret THEN "tag" ELSE "param", !.na = k, !.nc = 0, !.ref = x[1],
                         !.txt = IF tk = "none" THEN 0 ELSE 1, !.fs = k > 0 \/ tk # "none", !.pend = 0,
                         !.np = IF isret \/ isdup THEN @ ELSE @ + 1,
                         !.ret = @ \/ isret, !.used = IF isret THEN @ \cup {"returns"} ELSE @]
        g2 == IF isdup \/ late \/ (k > 0 /\ tk # "none" /\ ~x[3]) THEN Planted(g1) ELSE g1
        m1 == IF isret THEN [m EXCEPT !.tags = Append(@, [name |-> "returns", anns |-> Chunk(0, k), val |-> "", desc |-> d])]
              ELSE [m EXCEPT !.params = Append(@, [name |-> nm, anns |-> Chunk(0, k), desc |-> d])]
    IN Step(l, Ign(GPre(GAf(g2, x[5]), x[6]), x[5], Chunk(0, k), nm), m1,
            IF late THEN "paramlate" ELSE IF isdup THEN (IF isret THEN "returns2" ELSE "dupparam")
            ELSE IF k > 0 /\ tk # "none" /\ ~x[3] THEN "nocolon" ELSE "") :
    x \in { y \in Indents \X (0..MaxParamAnns) \X BOOLEAN \X {"none", "plain"} \X AFDom \X PreDom :
              LET gd == IF isdup \/ late THEN Planted(gg) ELSE gg IN
              /\ (y[2] = 0 => ~y[3])
              /\ (y[2] > 0 /\ y[4] # "none" /\ ~y[3] => MayPlant(gd, "nocolon") /\ y[5] = "none" /\ ~y[6])
              /\ y[5] \in AFs(gd, y[2])
              /\ y[6] \in Pres(GAf(gd, y[5])) } }

GenParam(gg, m) ==
  (IF gg.np < MaxParams THEN ParamLine(gg, m, ParamNames[gg.np + 1], FALSE, FALSE) ELSE {})
  \cup (IF AtReturns /\ ~gg.ret /\ "returns" \in TagNames /\ gg.nt < MaxTags
        THEN ParamLine([gg EXCEPT !.nt = @ + 1], m, "returns", FALSE, FALSE) ELSE {})
  \cup (IF MayPlant(gg, "dupparam") /\ gg.np > 0 THEN ParamLine(gg, m, ParamNames[1], TRUE, FALSE) ELSE {})
  \cup (IF MayPlant(gg, "returns2") /\ gg.ret /\ AtReturns THEN ParamLine(gg, m, "returns", TRUE, FALSE) ELSE {})
GenLateParam(gg, m) ==       \* fault "paramlate": a parameter after the description started
  IF MayPlant(gg, "paramlate") /\ gg.np < MaxParams THEN ParamLine(gg, m, ParamNames[gg.np + 1], FALSE, TRUE) ELSE {}

\* ---- continuation line of a parameter / tag: "(ann) (ann)[: text]"
CanAnnotate(gg, m) == gg.ck = "param" \/ CurM(m, gg.ck).name = "returns"
MaxA(gg) == IF gg.ck = "param" THEN MaxParamAnns ELSE MaxTagAnns
\* ---- fault "dupparen": continuation line "(a~) (fresh ...) <parentheses fault>" of a field that already has "a"
DupAFs(gg) == IF MayPlant(gg, "dupparen") THEN FaultKinds \cap FailingAnnFaults ELSE {}
GenIdContDup(gg, m) ==
  IF m.name \in NoAnnForms \/ gg.nc >= MaxCont \/ gg.na = 0 \/ gg.na >= MaxIdAnns THEN {}
  ELSE { Step([Line0 EXCEPT !.ind = x[1], !.anns = <<DupId>> \o Chunk(gg.na, x[2]), !.acolon = x[3], !.af = x[4]],
              Ign(GAf([gg EXCEPT !.na = @ + x[2], !.nc = @ + 1], x[4]), x[4], <<DupId>> \o Chunk(gg.na, x[2]), "id"),
              m, "") :
         x \in Indents \X (1..(MaxIdAnns - gg.na)) \X BOOLEAN \X DupAFs(gg) }
GenPartContDup(gg, m) ==
  IF ~CanAnnotate(gg, m) \/ gg.txt > 0 \/ gg.nc >= MaxCont \/ gg.na = 0 \/ gg.na >= MaxA(gg) THEN {}
  ELSE { Step([Line0 EXCEPT !.ind = x[1], !.anns = <<DupId>> \o Chunk(gg.na, x[2]), !.acolon = x[3], !.af = x[4]],
              Ign(GAf([gg EXCEPT !.na = @ + x[2], !.nc = @ + 1, !.fs = TRUE], x[4]), x[4],
                  <<DupId>> \o Chunk(gg.na, x[2]), CurM(m, gg.ck).name),
              m, "") :
         x \in Indents \X (1..(MaxA(gg) - gg.na)) \X BOOLEAN \X DupAFs(gg) }

GenPartCont(gg, m) ==
  IF ~CanAnnotate(gg, m) \/ gg.txt > 0 \/ gg.nc >= MaxCont THEN {}
  ELSE { LET k == x[2]  tk == x[4]
             cur == CurM(m, gg.ck)
             l == [Line0 EXCEPT !.ind = x[1], !.anns = Chunk(gg.na, k), !.acolon = x[3], !.t = tk,
                                !.n = IF tk = "none" THEN 0 ELSE 1, !.af = x[5], !.pre = x[6]]
             g1 == [gg EXCEPT !.na = @ + k, !.nc = @ + 1, !.fs = TRUE, !.txt = IF tk = "none" THEN 0 ELSE 1]
             g2 == IF tk # "none" /\ ~x[3] THEN Planted(g1) ELSE g1
             m1 == SetCurM(m, gg.ck, [cur EXCEPT !.anns = @ \o Chunk(gg.na, k),
                                                 !.desc = IF tk = "none" THEN @ ELSE <<[ind |-> 0, t |-> tk, n |-> 1]>>])
         IN Step(l, Ign(GPre(GAf(g2, x[5]), x[6]), x[5], Chunk(gg.na, k), cur.name), m1,
                 IF tk # "none" /\ ~x[3] THEN "nocolon" ELSE "") :
         x \in { y \in Indents \X (1..(MaxA(gg) - gg.na)) \X BOOLEAN \X {"none", "plain"} \X AFDom \X PreDom :
                   /\ (y[4] # "none" /\ ~y[3] => MayPlant(gg, "nocolon") /\ y[5] = "none" /\ ~y[6])
                   /\ y[5] \in AFs(gg, y[2])
                   /\ y[6] \in Pres(GAf(gg, y[5])) } }

\* ---- a text line of a parameter / tag description
TextKinds(first, ind, ref) == {"plain"} \cup (IF first THEN {} ELSE {"paren"}) \cup (IF ind > ref THEN {"taglike"} ELSE {})
GenPartText(gg, m) ==
  IF gg.txt >= MaxPartLines THEN {}
  ELSE { LET cur == CurM(m, gg.ck)
             ln == [ind |-> x[1], t |-> x[2], n |-> gg.txt + 1]
             d == IF gg.txt = 0
                  THEN (IF gg.fs THEN <<E, ln>> ELSE <<[ln EXCEPT !.ind = 0]>>)    \* text begins below the part line
                  ELSE cur.desc \o Es(gg.pend) \o <<ln>>
         IN Step([Line0 EXCEPT !.ind = x[1], !.t = x[2], !.n = gg.txt + 1, !.pre = x[3]],
                 GPre([gg EXCEPT !.txt = @ + 1, !.pend = 0], x[3]),
                 SetCurM(m, gg.ck, [cur EXCEPT !.desc = d]), "") :
         x \in { y \in Indents \X {"plain", "paren", "taglike"} \X PreDom :
                   y[2] \in TextKinds(gg.txt = 0, y[1], gg.ref) /\ y[3] \in Pres(gg) } }

\* ---- empty lines
GenSep(gg, m) == { Step(EmptyLine, [gg EXCEPT !.ph = "desc", !.ck = "none", !.ref = 0, !.txt = 0, !.pend = 0, !.lead = 0, !.npara = 0, !.dn = 0], m, "") }
GenTagEmpty(gg, m) == IF gg.txt > 0 /\ gg.pend < MaxNoise THEN { Step(EmptyLine, [gg EXCEPT !.pend = @ + 1], m, "") } ELSE {}
GenDescEmpty(gg, m) ==
  IF m.desc = <<>> THEN (IF gg.lead < MaxNoise THEN { Step(EmptyLine, [gg EXCEPT !.lead = @ + 1], m, "") } ELSE {})
  ELSE IF gg.pend < MaxNoise THEN { Step(EmptyLine, [gg EXCEPT !.pend = @ + 1], m, "") } ELSE {}

\* ---- a text line of the block description
GenDescText(gg, m) ==
  LET newpara == gg.pend > 0 \/ m.desc = <<>>
  IN IF (newpara /\ gg.npara >= MaxParas) \/ (~newpara /\ gg.txt >= MaxDescLines) THEN {}
     ELSE { Step([Line0 EXCEPT !.ind = x[1], !.t = x[2], !.n = gg.dn + 1, !.pre = x[3]],
                 GPre([gg EXCEPT !.txt = IF newpara THEN 1 ELSE @ + 1, !.npara = IF newpara THEN @ + 1 ELSE @,
                                 !.dn = @ + 1, !.pend = 0], x[3]),
                 [m EXCEPT !.desc = @ \o Es(gg.pend) \o <<[ind |-> x[1], t |-> x[2], n |-> gg.dn + 1]>>], "") :
            x \in { y \in (IF m.desc = <<>> THEN {0} ELSE Indents) \X {"plain", "paren", "taglike"} \X PreDom :
                      y[2] \in TextKinds(m.desc = <<>>, y[1], 0) /\ y[3] \in Pres(gg) } }

\* ---- "Name: [annotations][:] [value][:] [text]"
TagLine(gg, m, nm, isdup) ==
  { LET k == x[2]  tk == x[4]  v == x[5]
        l == [Line0 EXCEPT !.k = "tag", !.name = nm, !.ind = x[1], !.anns = Chunk(0, k), !.acolon = x[3], !.t = tk,
                           !.n = IF tk = "none" THEN 0 ELSE 1, !.val = v, !.vcolon = x[6], !.af = x[7], !.pre = x[8]]
        d == IF tk = "none" THEN <<>> ELSE <<[ind |-> 0, t |-> tk, n |-> 1]>>
        g1 == [gg EXCEPT !.ph = "tag", !.ck = "tag", !.na = k, !.nc = 0, !.ref = x[1], !.pend = 0,
                         !.txt = IF tk = "none" THEN 0 ELSE 1, !.fs = k > 0 \/ tk # "none" \/ v # "",
                         !.nt = IF isdup THEN @ ELSE @ + 1, !.used = @ \cup {nm}, !.ret = @ \/ nm = "returns"]
        g2 == IF isdup \/ (k > 0 /\ tk # "none" /\ ~x[3]) THEN Planted(g1) ELSE g1
    IN Step(l, Ign(GPre(GAf(g2, x[7]), x[8]), x[7], Chunk(0, k), nm),
            [m EXCEPT !.tags = Append(@, [name |-> nm, anns |-> Chunk(0, k), val |-> v, desc |-> d])],
            IF isdup THEN (IF nm = "returns" THEN "returns2" ELSE "duptag")
            ELSE IF k > 0 /\ tk # "none" /\ ~x[3] THEN "nocolon" ELSE "") :
    x \in { y \in {i \in Indents : i <= gg.ref} \X (0..MaxTagAnns) \X BOOLEAN \X {"none", "plain"} \X {"", "v"} \X BOOLEAN
                  \X AFDom \X PreDom :
              LET gd == IF isdup THEN Planted(gg) ELSE gg IN
              /\ (nm # "returns" => y[2] = 0)               \* only Returns: takes annotations
              /\ (nm = "returns" => y[5] = "")              \* only Since/Deprecated/Stability take a value
              /\ (y[2] = 0 => ~y[3])
              /\ (y[5] = "" => ~y[6])
              /\ (y[2] > 0 /\ y[4] # "none" /\ ~y[3] => MayPlant(gd, "nocolon") /\ y[7] = "none" /\ ~y[8])
              /\ y[7] \in AFs(gd, y[2])
              /\ y[8] \in Pres(GAf(gd, y[7])) } }

GenTag(gg, m) ==
  (IF gg.nt < MaxTags THEN UNION { TagLine(gg, m, nm, FALSE) : nm \in TagNames \ gg.used } ELSE {})
  \cup (IF MayPlant(gg, "duptag") THEN UNION { TagLine(gg, m, nm, TRUE) : nm \in gg.used \ {"returns"} } ELSE {})
  \cup (IF MayPlant(gg, "returns2") /\ gg.ret THEN TagLine(gg, m, "returns", TRUE) ELSE {})
GenAttrs(gg, m) ==          \* fault "attrs": malformed deprecated "Attributes:" tag
  IF MayPlant(gg, "attrs")
  THEN { Step([Line0 EXCEPT !.k = "tag", !.name = "attributes", !.ind = i, !.af = "attrs"], Planted(gg), m, "attrs") :
         i \in {j \in Indents : j <= gg.ref} }
  ELSE {}

\* generator classes (one per kind of line the grammar allows) and the phases in which each may follow
GenDepTag(gg, m) ==         \* fault "deptag": a (well-formed) deprecated tag-style annotation, e.g. "Rename to: x"
  IF MayPlant(gg, "deptag")
  THEN { Step([Line0 EXCEPT !.k = "tag", !.name = "renameto", !.ind = i], Planted(gg), m, "deptag") :
         i \in {j \in Indents : j <= gg.ref} }
  ELSE {}

GenClasses == {"ident", "noident", "idcont", "param", "lateparam", "partcont", "parttext", "sep", "tagempty",
               "descempty", "desctext", "tag", "attrs", "deptag"}
GenClass(c, gg, m) ==
  CASE c = "ident"     -> GenIdent(gg, m)
    [] c = "noident"   -> GenNoIdent(gg, m)
    [] c = "idcont"    -> GenIdCont(gg, m) \cup GenIdContDup(gg, m)
    [] c = "param"     -> GenParam(gg, m)
    [] c = "lateparam" -> GenLateParam(gg, m)
    [] c = "partcont"  -> GenPartCont(gg, m) \cup GenPartContDup(gg, m)
    [] c = "parttext"  -> GenPartText(gg, m)
    [] c = "sep"       -> GenSep(gg, m)
    [] c = "tagempty"  -> GenTagEmpty(gg, m)
    [] c = "descempty" -> GenDescEmpty(gg, m)
    [] c = "desctext"  -> GenDescText(gg, m)
    [] c = "tag"       -> GenTag(gg, m)
    [] c = "attrs"     -> GenAttrs(gg, m)
    [] c = "deptag"    -> GenDepTag(gg, m)
ClassesAt(ph) ==
  CASE ph = "open"  -> {"ident", "noident"}
    [] ph = "ident" -> {"idcont", "param", "sep", "tag", "attrs", "deptag"}
    [] ph = "param" -> {"partcont", "parttext", "param", "sep", "tag", "attrs", "deptag"}
    [] ph = "desc"  -> {"descempty", "desctext", "tag", "lateparam", "attrs", "deptag"}
    [] ph = "tag"   -> {"partcont", "parttext", "tagempty", "tag", "lateparam", "attrs", "deptag"}
    [] OTHER -> {}
GenNext(gg, m) == UNION { GenClass(c, gg, m) : c \in ClassesAt(gg.ph) }

-----------------------------------------------------------------------------
(* ---------------- behaviours ------------------------------------------- *)
\* source line (1-based) on which the k-th emitted line stands
SrcLine(gg, k) == StartLine + k - (IF gg.alone THEN 0 ELSE 1)

\* property-level bookkeeping: which diagnostics (source line, kind) the text gives cause for.
\*  - the planted fault itself, at the line that carries it (a malformed "Attributes:" tag is also a deprecated tag);
\*  - once a fault has been planted, later parameter / tag lines may stand where the parser no longer expects
\*    them, and a description line beginning with a parenthesis may read as annotations (the fault changed what
\*    the preceding lines mean): the offending text of such a diagnostic is that later line itself.
FaultDiagKinds(fk) == IF fk = "attrs" THEN {"attrs", "deprecated_tag"}
                      ELSE IF fk = "deptag" THEN {"deprecated_tag"}
                      ELSE IF fk = "pre" THEN {"pretext"} ELSE {fk}
Conseq(l) == IF l.k = "tag" THEN {"tagunexpected"}
             ELSE IF l.k = "param" THEN {"paramlate"}
             ELSE IF l.k = "text" /\ l.t = "paren" /\ l.anns = <<>>
                  THEN {"nocolon", "unknown"}   \* text beginning with a parenthesis, read as annotations once the part lost its description
             ELSE {}
Permits(src, l, fk, nf) == {<<src, kd>> : kd \in (IF fk # "" THEN FaultDiagKinds(fk) ELSE {})
                                                 \cup (IF fk # "" /\ HasDup(l) THEN {"dupann"} ELSE {})
                                                 \cup (IF nf > 0 THEN Conseq(l) ELSE {})}

Opens == {"alone"} \cup (IF MaxFaults > 0 THEN FaultKinds \cap {"codebefore", "opentext", "oneline"} ELSE {})
Init ==
  /\ model = M0 /\ lines = <<>>
  /\ \E o \in Opens :
       /\ pc = IF o = "oneline" THEN "done" ELSE "gen"
       /\ g = [G0 EXCEPT !.alone = o \notin {"opentext", "oneline"},
                         !.nf = IF o \in {"codebefore", "oneline"} THEN 1 ELSE 0]   \* "opentext" is the rider, not a counted fault
       /\ ps = IF o = "alone" THEN PS0 ELSE AddDiags(PS0, <<o>>)           \* Position(filename, lineno)
       /\ expected = IF o = "alone" THEN {} ELSE {<<StartLine, o>>}

EmitX(x) ==
  /\ ps' = PL(ps, x.line)
  /\ g' = x.g /\ model' = x.m
  /\ lines' = IF KeepLines THEN Append(lines, x.line) ELSE lines
  /\ expected' = expected \cup Permits(SrcLine(g, g.ln + 1), x.line, x.fk, x.g.nf)
  /\ UNCHANGED pc
\* one action per branch of the loop body (used by SpecByClass: TLC reports coverage per line class)
Emit(b) == pc = "gen" /\ \E x \in GenNext(g, model) : Branch(Pre(ps, x.line), x.line) = b /\ EmitX(x)
SeeIdent == Emit("ident")
SeeParam == Emit("param")
SeeEmptyInHeader == Emit("emptyhdr")
SeeTag == Emit("tag")
ContinueAnnotations == Emit("cont_ann")
AppendDescription == Emit("cont_desc")
AppendPartDescription == Emit("cont_part")
\* the same seven actions as one (the generator's successor set is evaluated once per state)
SeeLine == pc = "gen" /\ \E x \in GenNext(g, model) : EmitX(x)

\* the closing token; fault "codeafter": code behind it, diagnosed at lineno + comment_lines_len - 1
Finish ==
  /\ pc = "gen" /\ g.ph \notin {"open"}
  /\ pc' = "done"
  /\ \E c \in {"alone"} \cup (IF MayPlant(g, "codeafter") THEN {"codeafter"} ELSE {}) :
       LET last == SrcLine(g, g.ln + 1)
           s1 == Fin(ps)
       IN /\ ps' = IF c = "alone" THEN s1
                   ELSE [s1 EXCEPT !.diags = <<[line |-> last, kind |-> "codeafter"]>> \o @]
          /\ expected' = IF c = "alone" THEN expected ELSE expected \cup {<<last, "codeafter">>}
          /\ g' = IF c = "alone" THEN g ELSE Planted(g)
  /\ UNCHANGED <<model, lines>>

NextByClass == SeeIdent \/ SeeParam \/ SeeEmptyInHeader \/ SeeTag \/ ContinueAnnotations
               \/ AppendDescription \/ AppendPartDescription \/ Finish
Next == SeeLine \/ Finish
Spec == Init /\ [][Next]_vars
SpecByClass == Init /\ [][NextByClass]_vars

-----------------------------------------------------------------------------
(* ---------------- property layer ---------------------------------------- *)
WellFormed == g.nf = 0 /\ g.alone
Done == pc = "done"

\* C10: for every model and every layout the parser recovers exactly the model, silently
RoundTrip == (Done /\ WellFormed) => (Tree(ps) = model /\ ps.diags = <<>>)

\* C10: parse(write(parse(x))) = parse(x)
KnownDeviation(name) == name \in Known
WriterFix == (Done /\ WellFormed /\ ~(KnownDeviation("writer_action_identifier") /\ ps.name = "action"))
             => ParseAll(Write(Tree(ps))) = Tree(ps)

\* C11: every diagnostic carries the 1-based source line of the offending text and is of a kind that text
\*      gives cause for (single planted fault, opening token alone on its line)
LostPosition == \E i \in 1..Len(ps.diags) : ps.diags[i].line = 0
DiagAtFault == (Done /\ g.alone /\ g.nf <= 1 /\ ~(KnownDeviation("validate_position_lost_on_continuation") /\ LostPosition))
               => \A i \in 1..Len(ps.diags) : <<ps.diags[i].line, ps.diags[i].kind>> \in expected
\* C11: a malformed annotation is ignored rather than half-applied
PartAnns(tr, part) == IF part = "id" THEN RangeOf(tr.anns)
                      ELSE UNION ({RangeOf(tr.params[i].anns) : i \in {j \in 1..Len(tr.params) : tr.params[j].name = part}}
                                  \cup {RangeOf(tr.tags[i].anns) : i \in {j \in 1..Len(tr.tags) : tr.tags[j].name = part}})
IgnoredNotHalfApplied == Done => \A pa \in g.ign : pa[2] \notin PartAnns(Tree(ps), pa[1])
\* a planted fault is diagnosed (vacuity guard of DiagAtFault; not part of the statement)
FaultDiagnosed == (Done /\ g.nf = 1 /\ g.alone) => ps.diags # <<>>

TypeOK == /\ pc \in {"gen", "done"}
          /\ ps.in_part \in {"none", "ident", "params", "desc", "tags"}
          /\ g.nf <= MaxFaults + 1
=============================================================================

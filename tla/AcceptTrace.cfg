INIT TInit
NEXT TNext
CHECK_DEADLOCK FALSE

SPECIFICATION Spec
CONSTANTS
  Dev = {"UnderscoreLeak"}
  Mode = "prefix"
  AnnSet = {"-"}
INVARIANT I_Absent
CHECK_DEADLOCK FALSE

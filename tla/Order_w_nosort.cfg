SPECIFICATION Spec
CONSTANTS
  SortNamespace = FALSE
  SortIncludes = TRUE
  SortMembers = TRUE
  MainPosFix = TRUE
  CacheFaithful = TRUE
  LastBlockWins = TRUE
  AppendInPlace = TRUE
  DupBodies = FALSE
  DupBlocks = FALSE
  DepOverlap = FALSE
  FullPerm = FALSE
  Inputs <- MC_Small
INVARIANT Deterministic
INVARIANT SiblingOrder
CHECK_DEADLOCK FALSE

INIT CInit
NEXT CNext
CONSTANTS
  SortNamespace = TRUE
  SortIncludes = TRUE
  SortMembers = TRUE
  MainPosFix = TRUE
  CacheFaithful = TRUE
  LastBlockWins = TRUE
  AppendInPlace = TRUE
  DupBodies = FALSE
  DupBlocks = FALSE
  DepOverlap = FALSE
  FullPerm = FALSE
  Inputs <- MC_Small
CHECK_DEADLOCK FALSE

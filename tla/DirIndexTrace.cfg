INIT TInit
NEXT TNext
CONSTANTS
  Pool <- T_Empty
  Absent <- T_None
  MaxN = 0
  HMax = 0
  Keys <- T_None
  AbsentKey = "K0"
  MaxKeyN = 0
  MaxEntries = 65535
  SizeDomain <- T_None
  FinalCompare = TRUE
  Clamp = "zero"
  SizeBits = 16
  Boundary = 0
CHECK_DEADLOCK FALSE

SPECIFICATION Spec
CONSTANTS
  Procs <- MC_Procs2
  SVer <- MC_SVerMixed2
  MaxEdits = 1
  MaxIno = 4
  AllowCopy = TRUE
  MaxCrashes = 3
  Coarse = TRUE
  StatByName = FALSE
  StampFirst = FALSE
  KnownCauses = {"parse_edit_store","copy_window","equal_mtime"}
CHECK_DEADLOCK FALSE
INVARIANT TypeOK
INVARIANT NoStaleUnexplained
INVARIANT NoTorn
INVARIANT NoCrossVersion
INVARIANT PurgeEffective

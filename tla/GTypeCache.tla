----------------------------- MODULE GTypeCache -----------------------------
(***************************************************************************)
(* C14, repository level: g_irepository_find_by_gtype() keeps a NEGATIVE   *)
(* cache (priv->unknown_gtypes) of GTypes no loaded typelib knows; the     *)
(* sentence "these lookups agree with repository-level find-by-gtype" must *)
(* hold for every HISTORY of lookups and registrations, eager or lazy.     *)
(*                                                                         *)
(* State: reg (namespaces registered, eagerly or lazily - both tables are  *)
(* searched), unknown (the negative cache), last (observation of the last  *)
(* call).  Actions = the public calls: Find(t) and Register(ns, lazy).     *)
(* register_internal() clears the cache after EVERY registration; the      *)
(* what-if switch LazyKeepsCache models a registration path that returns   *)
(* before the cache is cleared.                                            *)
(***************************************************************************)
EXTENDS Naturals, FiniteSets, TLC

CONSTANTS NSs,            \* namespaces
          Types,          \* GTypes
          Owner,          \* [Types -> NSs \cup {"none"}]: the namespace whose typelib registers the type
          LazyKeepsCache  \* BOOLEAN what-if (FALSE = the code)

VARIABLES reg, unknown, last
vars == <<reg, unknown, last>>

Init == reg = {} /\ unknown = {} /\ last = [op |-> "init", t |-> "", found |-> FALSE, truth |-> FALSE]

\* what the typelib-level lookups (g_typelib_get_dir_entry_by_gtype_name over the registered typelibs) say
Truth(t) == Owner[t] \in reg

Find(t) ==
    /\ LET found == IF t \in unknown THEN FALSE ELSE Truth(t)
       IN /\ last' = [op |-> "find", t |-> t, found |-> found, truth |-> Truth(t)]
          /\ unknown' = IF ~found THEN unknown \cup {t} ELSE unknown
    /\ UNCHANGED reg

Register(ns, lazy) ==
    /\ ns \notin reg
    /\ reg' = reg \cup {ns}
    /\ unknown' = IF lazy /\ LazyKeepsCache THEN unknown ELSE {}
    /\ last' = [op |-> "register", t |-> ns, found |-> FALSE, truth |-> FALSE]

Next == (\E t \in Types : Find(t)) \/ (\E ns \in NSs, lazy \in BOOLEAN : Register(ns, lazy))
Spec == Init /\ [][Next]_vars

\* the property: every repository-level answer equals the typelib-level truth
RepoAgrees == last.op = "find" => last.found = last.truth
\* the invariant that makes it so: the negative cache never holds a type some registered typelib knows
CacheSound == \A t \in unknown : ~Truth(t)
=============================================================================

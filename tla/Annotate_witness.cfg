SPECIFICATION MCSpec
CONSTANTS
  Dev = {}
  Which = "witness"
  Cases <- NoCases
INVARIANT ImplSatisfiesProperty
CHECK_DEADLOCK FALSE

INIT Init
NEXT Next
CONSTANTS
  Dev = {"barepointer"}
  Family = "quark"
  Size = "t"
INVARIANT ImplSatisfiesPropertyModuloKnown
INVARIANT ImplSatisfiesExtra
INVARIANT WellFormed
CHECK_DEADLOCK FALSE

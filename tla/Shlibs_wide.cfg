INIT MCInit
NEXT MCNext
CONSTANTS
  Themes = {"wide"}
  ML = 1
  MW = 1
  EML = 1
  EMW = 1
  LaML = 0
  Extras = FALSE
  Variant = "asis"
  Gran = "case"
  Cases <- MC_None
  LaCases <- MC_None
CHECK_DEADLOCK FALSE
ALIAS Alias
INVARIANT TypeOK
INVARIANT Inv_Property
INVARIANT Inv_EqualsResolve

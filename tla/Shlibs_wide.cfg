SPECIFICATION Spec
CONSTANTS
  Themes = {"wide"}
  ML = 1
  MW = 1
  EML = 1
  EMW = 1
  LaML = 0
  Variant = "asis"
  Gran = "case"
  Cases <- MC_Cases
  LaCases <- MC_LaCases
CHECK_DEADLOCK FALSE
ALIAS Alias
INVARIANT TypeOK
INVARIANT Inv_Property
INVARIANT Inv_EqualsResolve

--------------------------- MODULE CommentBlockGen ---------------------------
(***************************************************************************)
(* Case export for C10 / C11: TLC runs behaviours of CommentBlock.tla      *)
(* (generator GenNext: grammar + layout freedom + fault planting, in lock  *)
(* step with the parser PL) whose nondeterministic choices are resolved by *)
(* seeded choice indices supplied by the harness (RND_FILE), checks the    *)
(* module's invariants on them, and serialises each finished behaviour as  *)
(* an abstract case                                                        *)
(*    [open, close, lines, model, faults (line index + kind), ign,         *)
(*     spectree / specdiags = what the spec's own parser made of it]       *)
(* into CASES_DIR/<i>.json.  With the constants of the model-checked       *)
(* configurations these are behaviours TLC explores exhaustively there;    *)
(* with larger constants they are instances beyond the exhaustive bound.   *)
(***************************************************************************)
EXTENDS CommentBlock, Json, IOUtils, SequencesExt

GAllForms == {"symbol", "prop", "signal", "field", "section", "action"}
GInd012 == {0, 1, 2}
GInd0123 == {0, 1, 2, 3}
GTagsAll == {"returns", "since", "deprecated", "stability"}
GNoFaults == {}
GKnown == {"writer_action_identifier", "validate_position_lost_on_continuation"}
GAllFaults == {"unbal", "dbl", "empty", "stray", "kv", "unknown", "nocolon", "dupparam", "duptag", "returns2",
               "paramlate", "pre", "codebefore", "codeafter", "oneline", "noident", "attrs"}
GRiderFaults == GAllFaults \cup {"opentext"}

Rnd == JsonDeserialize(IOEnv.RND_FILE)      \* sequence of sequences of naturals (choice indices)
EndPct == 14                                 \* a walk that may end does so with this probability per step

VARIABLES ci, k, rs
gvars == <<vars, ci, k, rs>>

OpenKinds == SetToSeq(Opens)
CloseKinds(gg) == <<"alone">> \o (IF MayPlant(gg, "codeafter") THEN <<"codeafter">> ELSE <<>>)

GInit ==
  /\ ci \in 1..Len(Rnd) /\ k = 3 /\ rs = Rnd[ci]
  /\ model = M0 /\ lines = <<>>
  /\ LET o == OpenKinds[(rs[1] % Len(OpenKinds)) + 1] IN
       /\ pc = IF o = "oneline" THEN "last" ELSE "gen"
       /\ g = [G0 EXCEPT !.alone = o \notin {"opentext", "oneline"},
                         !.nf = IF o \in {"codebefore", "oneline"} THEN 1 ELSE 0, !.open = o]
       /\ ps = IF o = "alone" THEN PS0 ELSE AddDiags(PS0, <<o>>)
       /\ expected = IF o = "alone" THEN {} ELSE {StartLine}

\* one line is emitted and parsed (the successor set of the generator is evaluated once and made concrete) ...
GEmit(Sq) ==
  /\ \E x \in {Sq[(rs[k + 1] % Len(Sq)) + 1]} : EmitX(x)
  /\ k' = k + 2 /\ UNCHANGED <<ci, rs>>
\* ... or the closing token is reached
GFinish ==
  /\ pc' = "last"
  /\ LET ck == CloseKinds(g)
         c == IF g.ph = "open" THEN "alone" ELSE ck[(rs[2] % Len(ck)) + 1]
         last == SrcLine(g, g.ln + 1)
         s1 == Fin(ps)
     IN /\ ps' = IF c = "alone" THEN s1 ELSE [s1 EXCEPT !.diags = <<[line |-> last, kind |-> "codeafter"]>> \o @]
        /\ expected' = IF c = "alone" THEN expected ELSE expected \cup {last}
        /\ g' = IF c = "alone" THEN g ELSE [Planted(g) EXCEPT !.close = "codeafter"]
  /\ UNCHANGED <<model, lines, ci, k, rs>>
GStep ==
  /\ pc = "gen"
  /\ \E Sq \in {SetToSeq(GenNext(g, model))} :
       IF Sq = <<>> \/ k + 1 > Len(rs) \/ (g.ph # "open" /\ rs[k] % 100 < EndPct) THEN GFinish ELSE GEmit(Sq)

\* the finished behaviour is written out, then the module's invariants are evaluated on the "done" state
GOut ==
  /\ pc = "last" /\ pc' = "done"
  /\ JsonSerialize(IOEnv.CASES_DIR \o "/" \o ToString(ci) \o ".json",
        [i |-> ci, open |-> g.open, close |-> g.close, lines |-> lines, model |-> model, faults |-> g.faults,
         ign |-> SetToSeq(g.ign), nf |-> g.nf, complete |-> g.ph # "open",
         spectree |-> Tree(ps), specdiags |-> ps.diags, expected |-> SetToSeq(expected)])
  /\ UNCHANGED <<g, model, lines, ps, expected, ci, k, rs>>

GNext == GStep \/ GOut
GSpec == GInit /\ [][GNext]_gvars
=============================================================================

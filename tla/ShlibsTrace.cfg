INIT TInit
NEXT TNext
CONSTANTS
  Cases = {}
  LaCases = {}
  Variant = "asis"
  Gran = "case"
CHECK_DEADLOCK FALSE

INIT Init
NEXT Next
CONSTANTS
  Defects = {}
  Rich = TRUE
  AllModels = FALSE
  KindSel = {}
INVARIANTS ReadableInv FixedPointInv AgreeInv
CHECK_DEADLOCK FALSE

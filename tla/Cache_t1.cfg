SPECIFICATION Spec
CONSTANTS
  Procs <- MC_Procs3
  SVer <- MC_SVerSame
  MaxEdits = 2
  MaxIno = 3
  AllowCopy = FALSE
  MaxCrashes = 3
  Coarse = FALSE
  StatByName = FALSE
  StampFirst = FALSE
  KnownCauses = {"parse_edit_store","copy_window"}
CHECK_DEADLOCK FALSE
INVARIANT TypeOK
INVARIANT NoStaleUnexplained
INVARIANT NoTorn
INVARIANT NoCrossVersion
INVARIANT PurgeEffective

SPECIFICATION Spec
CONSTANTS
  N = 3
  Kinds <- K_hosted
  TKs <- TK_method
  AllowList = FALSE
  AllowNSkip = FALSE
  AllowVSkip = FALSE
  AllowReturn = FALSE
  AllowMoved = FALSE
  AllowHost = TRUE
  AllowRename = FALSE
  MaxFunctions = 1
  Stepwise = FALSE
  AliasRecheck = TRUE
  CallableWalks = 2
  RenameScopeCheck = TRUE
  COrder = TRUE
  Orders <- Id3
  KnownShapes <- Known_c
  ExportViol = 1
  ExportOk = 7
INVARIANT NoUnknownViolation
CHECK_DEADLOCK FALSE

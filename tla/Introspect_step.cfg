SPECIFICATION Spec
CONSTANTS
  N = 2
  Kinds <- K_callables
  TKs <- TK_core
  AllowList = FALSE
  AllowNSkip = FALSE
  AllowVSkip = FALSE
  AllowReturn = TRUE
  AllowMoved = FALSE
  MaxFunctions = 1
  Stepwise = TRUE
  COrder = FALSE
  Orders <- Perm2
  KnownShapes <- Known_any
  ExportViol = 0
  ExportOk = 0
INVARIANT NoUnknownViolation
PROPERTY MonotoneStep
CHECK_DEADLOCK FALSE

INIT CInit
NEXT CNext
CONSTANTS
  Dev = {}
  Family = "chain"
  Size = "q"
CHECK_DEADLOCK FALSE

INIT Init
NEXT Next
CONSTANTS
  FlatLen = 4
  Mode = "misc"
INVARIANT EnumOKAll
CHECK_DEADLOCK FALSE

INIT Init
NEXT Next
CONSTANTS
  FlatLen = 4
  Mode = "misc"
  EnumCap32 = TRUE
  UnionFieldCallback = TRUE
  Small = FALSE
INVARIANT EnumOKAll
CHECK_DEADLOCK FALSE

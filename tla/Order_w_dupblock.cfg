SPECIFICATION Spec
CONSTANTS
  SortNamespace = TRUE
  SortIncludes = TRUE
  SortMembers = TRUE
  MainPosFix = TRUE
  CacheFaithful = TRUE
  LastBlockWins = TRUE
  AppendInPlace = TRUE
  DupBodies = FALSE
  DupBlocks = TRUE
  DepOverlap = FALSE
  FullPerm = FALSE
  Inputs <- MC_Small
INVARIANT Deterministic
INVARIANT SiblingOrder
CHECK_DEADLOCK FALSE

SPECIFICATION Spec
CONSTANTS
  Which = "callbacks"
  Cases <- MC_Cases
INVARIANT ImplSatisfiesProperty
CHECK_DEADLOCK FALSE

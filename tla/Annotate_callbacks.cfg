SPECIFICATION MCSpec
CONSTANTS
  Dev = {}
  Which = "callbacks"
  Cases <- NoCases
INVARIANT ImplSatisfiesProperty
CHECK_DEADLOCK FALSE

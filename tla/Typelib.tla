------------------------------ MODULE Typelib ------------------------------
(***************************************************************************)
(* C06  "A compiled typelib encodes exactly the API of the GIR it came     *)
(*       from"   and   C09 "The repository API and g-ir-generate report    *)
(*       what the typelib contains".                                       *)
(*                                                                         *)
(* Part 1  element relation: abstract GIR element -> abstract blob fields  *)
(*         property layer:   <Kind>Clauses(env, g, b)  named clauses       *)
(*         implementation:   Build<Kind>(env, g)       transcribed from    *)
(*                           girepository/girparser.c (attribute defaults) *)
(*                           and girnode.c (_g_ir_node_build_typelib)      *)
(* Part 2  layout: blob sizes of gitypelib-internal.h, the writer's        *)
(*         sequential allocation of a container blob (WriterLayout), the   *)
(*         format's closed-form section arithmetic (MemberOffset, C09) and *)
(*         the arithmetic of the C accessors as written (AccessorOffset);  *)
(*         invariants Aligned4 / InBounds / NoOverlap / NoHole /           *)
(*         ReaderMeetsWriter / AccessorsMeetFormat.                        *)
(* Part 3  document level (directory, header strings, dependencies), the   *)
(*         layout invariants on the extents of a decoded file, the reader  *)
(*         view of a decoded container, determinism, acceptance.           *)
(* Parts 4-5 (accessor relation, g-ir-generate relation): TypelibApi.tla.  *)
(*                                                                         *)
(* GIR attribute values are carried as the strings written in the file:    *)
(* "" = attribute absent, "0", "1", or the word.  Integers (closure,       *)
(* destroy, length, fixed-size) use -1 for "absent".                       *)
(* Blob fields are the integers the independent decoder (harness/tlabs.py) *)
(* reads from the file; strings are resolved strings, "" = offset 0.       *)
(***************************************************************************)
EXTENDS Naturals, Integers, Sequences, FiniteSets, TLC

B(x) == IF x THEN 1 ELSE 0
Dep(a, bit) == (a = "1" => bit = 1) /\ (a = "" => bit = 0)      \* deprecated="0" is not written by any producer: silent
Is1(a) == a = "1"
Has(a) == a # ""
Sentinel == 1023                 \* ACCESSOR_SENTINEL = ASYNC_SENTINEL = 0x3ff
U16None == 65535                 \* (guint16) -1

RECURSIVE SumSeq(_)
SumSeq(s) == IF s = <<>> THEN 0 ELSE Head(s) + SumSeq(Tail(s))
SeqToSet(s) == {s[i] : i \in 1..Len(s)}
NoDup(s) == Cardinality(SeqToSet(s)) = Len(s)
Names(ms) == [i \in 1..Len(ms) |-> ms[i].name]
\* members written with introspectable="0" or shadowed-by are dropped by the parser
Kept(ms) == SelectSeq(ms, LAMBDA m : m.intro)

---------------------------------------------------------------------------
(* Types.  A GIR type is the PRE-ORDER sequence of its nodes                *)
(*   [k, rns, rname, hasct, stars, gptr, zt, len, fsize, nchild]           *)
(*   k in basic | ref | array | glist | gslist | ghash | error            *)
(*   basic: rname = the basic type name;  ref: (rns, rname) as written     *)
(*   array: rname = "" | "Array" | "PtrArray" | "ByteArray" (in GLib)      *)
(*   hasct/stars/gptr: c:type present / number of trailing '*' / starts    *)
(*   with gpointer|gconstpointer                                          *)
(* A decoded type is the pre-order sequence of                             *)
(*   [tag, pointer, simple, zt, hl, hs, at, dim, n, rns, rname]            *)
(*   (rns, rname) = namespace and name of the directory entry an interface *)
(*   type points at (own namespace for local entries).                     *)
(* env = [ns, aliases <<[ns, name, tbasic, tns, tname]>>, ptrs {<<ns,n>>}]  *)

BasicTag == [ none |-> 0, gpointer |-> 0, gboolean |-> 1, gint8 |-> 2, guint8 |-> 3, gint16 |-> 4, guint16 |-> 5,
              gint32 |-> 6, guint32 |-> 7, gint64 |-> 8, guint64 |-> 9, gfloat |-> 10, gdouble |-> 11, GType |-> 12,
              utf8 |-> 13, filename |-> 14, gunichar |-> 21,
              \* integer aliases resolved by size and signedness (x86-64)
              gchar |-> 2, guchar |-> 3, gshort |-> 4, gushort |-> 5, gint |-> 6, guint |-> 7, glong |-> 8, gulong |-> 9,
              gssize |-> 8, gsize |-> 9, gintptr |-> 8, guintptr |-> 9 ]
BasicNames == DOMAIN BasicTag
BasicPointer(n) == B(n \in {"gpointer", "utf8", "filename"})
TagArray == 15
TagInterface == 16
TagOfKind(k) == CASE k = "array" -> 15 [] k = "ref" -> 16 [] k = "glist" -> 17 [] k = "gslist" -> 18
                  [] k = "ghash" -> 19 [] k = "error" -> 20 [] OTHER -> 0
IsContainerKind(k) == k \in {"array", "glist", "gslist", "ghash"}
ArrayTypeCode(n) == CASE n = "Array" -> 1 [] n = "PtrArray" -> 2 [] n = "ByteArray" -> 3 [] OTHER -> 0

GPointerNode == [k |-> "basic", rns |-> "", rname |-> "gpointer", hasct |-> FALSE, stars |-> 0, gptr |-> FALSE,
                 zt |-> "", len |-> -1, fsize |-> -1, nchild |-> 0]

\* "Default to pointer for unspecified containers": a container written without element types gets gpointer ones
RECURSIVE Expand(_)
Expand(gs) == IF gs = <<>> THEN <<>>
              ELSE LET h == Head(gs)
                       d == IF IsContainerKind(h.k) /\ h.nchild = 0
                            THEN (IF h.k = "ghash" THEN <<GPointerNode, GPointerNode>> ELSE <<GPointerNode>>)
                            ELSE <<>>
                   IN <<h>> \o d \o Expand(Tail(gs))

\* alias expansion: follow [ns.name -> target] at most 4 steps (chains in the generated documents are shorter)
AliasOf(env, ns, n) == {i \in 1..Len(env.aliases) : env.aliases[i].ns = ns /\ env.aliases[i].name = n}
RECURSIVE ResolveRef(_, _, _, _)
ResolveRef(env, ns, n, fuel) ==
    LET hit == AliasOf(env, ns, n) IN
    IF hit = {} \/ fuel = 0 THEN [basic |-> "", ns |-> ns, n |-> n]
    ELSE LET a == env.aliases[CHOOSE i \in hit : \A j \in hit : j <= i] IN   \* g_hash_table_replace: the last one wins
         IF a.tbasic # "" THEN [basic |-> a.tbasic, ns |-> "", n |-> ""]
         ELSE ResolveRef(env, IF a.tns = "" THEN a.ns ELSE a.tns, a.tname, fuel - 1)
Resolved(env, nd) == IF nd.k = "ref" THEN ResolveRef(env, IF nd.rns = "" THEN env.ns ELSE nd.rns, nd.rname, 4)
                     ELSE [basic |-> (IF nd.k = "basic" THEN nd.rname ELSE ""), ns |-> "", n |-> ""]

\* pointer depth the parser derives from c:type; one level is taken off for (in)out parameters
CtypeDepth(nd) == IF nd.hasct THEN nd.stars + B(nd.gptr) ELSE 0
\* ctx: [out (the type belongs to an out/inout PARAMETER), field (belongs to a FIELD)]
NodePointer(env, ctx, nd) ==
    IF nd.k = "array" THEN B(~(ArrayTypeCode(nd.rname) = 0 /\ nd.fsize >= 0 /\ ctx.field))
    ELSE LET r == Resolved(env, nd)
             base == IF r.basic # "" THEN BasicPointer(r.basic) ELSE IF nd.k = "ref" THEN 0 ELSE 1
             d0 == CtypeDepth(nd)
             d1 == IF ctx.out /\ d0 > 0 THEN d0 - 1 ELSE d0
             d2 == d1 + B(r.basic = "" /\ nd.k = "ref" /\ <<r.ns, r.n>> \in env.ptrs)
         IN IF d2 > 0 THEN 1 ELSE base

NodeTag(env, nd) == LET r == Resolved(env, nd) IN IF r.basic # "" THEN BasicTag[r.basic] ELSE TagOfKind(nd.k)

\* one node of the property layer; silent (TRUE) about fields the tag does not have
NodeClauses(env, ctx, nd, bn) ==
    LET r == Resolved(env, nd)
        isC == nd.k = "array" /\ ArrayTypeCode(nd.rname) = 0
        hl == isC /\ nd.len >= 0
        hs == isC /\ nd.fsize >= 0
    IN [ TypeTag     |-> bn.tag = NodeTag(env, nd) /\ bn.simple = B(r.basic # ""),
         TypePointer |-> bn.pointer = NodePointer(env, ctx, nd),
         TypeArray   |-> (nd.k = "array" /\ ~(nd.len >= 0 /\ nd.fsize >= 0)) =>       \* one dimension field: both has no encoding, silent
                            /\ bn.at = ArrayTypeCode(nd.rname)
                            /\ bn.hl = B(hl) /\ bn.hs = B(hs)
                            /\ bn.zt = B(isC /\ (IF Has(nd.zt) THEN Is1(nd.zt) ELSE ~(hl \/ hs)))
                            /\ bn.dim = (IF hl THEN nd.len ELSE IF hs THEN nd.fsize ELSE U16None)
                            /\ bn.n = 1,
         TypeParams  |-> (nd.k \in {"glist", "gslist"} => bn.n = 1) /\ (nd.k = "ghash" => bn.n = 2) /\ (nd.k = "error" => bn.n = 0),
         \* an interface reference resolves (through the directory) to the named entry, local or cross-namespace
         TypeInterfaceRef |-> (nd.k = "ref" /\ r.basic = "") => (bn.rns = r.ns /\ bn.rname = r.n) ]
NodeNames == {"TypeTag", "TypePointer", "TypeArray", "TypeParams", "TypeInterfaceRef"}

TypeClauses(env, ctx, gs, bs) ==
    LET es == Expand(gs) IN
    [c \in NodeNames \cup {"TypeShape"} |->
        IF c = "TypeShape" THEN Len(bs) = Len(es)
        ELSE Len(bs) = Len(es) => \A i \in 1..Len(es) : NodeClauses(env, ctx, es[i], bs[i])[c]]
TypeOK(env, ctx, gs, bs) == \A c \in NodeNames \cup {"TypeShape"} : TypeClauses(env, ctx, gs, bs)[c]

\* implementation-shaped: start_type / parse_type_internal / end_type_top, node by node
BuildNode(env, ctx, nd) ==
    IF nd.k = "array"
    THEN LET at == ArrayTypeCode(nd.rname)
             hl == at = 0 /\ nd.len >= 0
             hs == at = 0 /\ nd.fsize >= 0
             zt == IF at # 0 THEN FALSE ELSE IF nd.zt # "" THEN nd.zt = "1" ELSE ~(hl \/ hs)
             ptr == IF hs /\ ctx.field THEN 0 ELSE 1
         IN [tag |-> 15, pointer |-> ptr, simple |-> 0, zt |-> B(zt), hl |-> B(hl), hs |-> B(hs), at |-> at,
             dim |-> (IF hl THEN nd.len ELSE IF hs THEN nd.fsize ELSE U16None), n |-> 1, rns |-> "", rname |-> ""]
    ELSE LET r == Resolved(env, nd)        \* parse_type: resolve_aliases unless basic, then parse_type_internal
             depth0 == IF nd.hasct THEN nd.stars + (IF nd.gptr THEN 1 ELSE 0) ELSE 0
             depth1 == IF ctx.out /\ depth0 > 0 THEN depth0 - 1 ELSE depth0
             basicp == IF r.basic # "" THEN BasicPointer(r.basic) ELSE IF nd.k = "ref" THEN 0 ELSE 1
             depth2 == IF r.basic = "" /\ nd.k = "ref" /\ <<r.ns, r.n>> \in env.ptrs THEN depth1 + 1 ELSE depth1
             tag == IF r.basic # "" THEN BasicTag[r.basic] ELSE TagOfKind(nd.k)
         IN [tag |-> tag, pointer |-> (IF depth2 > 0 THEN 1 ELSE basicp), simple |-> B(r.basic # ""),
             zt |-> 0, hl |-> 0, hs |-> 0, at |-> 0, dim |-> -1,
             n |-> (CASE nd.k \in {"glist", "gslist"} -> 1 [] nd.k = "ghash" -> 2 [] OTHER -> 0),
             rns |-> (IF r.basic = "" /\ nd.k = "ref" THEN r.ns ELSE ""),
             rname |-> (IF r.basic = "" /\ nd.k = "ref" THEN r.n ELSE "")]
BuildType(env, ctx, gs) == LET es == Expand(gs) IN [i \in 1..Len(es) |-> BuildNode(env, ctx, es[i])]

NoCtx == [out |-> FALSE, field |-> FALSE]
FieldCtx == [out |-> FALSE, field |-> TRUE]

---------------------------------------------------------------------------
(* Arg:  g = [name, dir, ca, allow_none, nullable, optional, transfer, scope, closure, destroy, skip, retval, type] *)
ScopeCode(s) == CASE s = "call" -> 1 [] s = "async" -> 2 [] s = "notified" -> 3 [] s = "forever" -> 4 [] OTHER -> 0
IsOut(g) == g.dir \in {"out", "inout"}
ArgCtx(g) == [out |-> IsOut(g), field |-> FALSE]

ArgClauses(env, g, b) == [
    ArgName            |-> b.name = g.name,
    ArgDirection       |-> b.in = B(g.dir # "out") /\ b.out = B(IsOut(g)),
    ArgCallerAllocates |-> b.caller_allocates = B(g.dir = "out" /\ Is1(g.ca)),            \* only for out
    ArgNullable        |-> b.nullable = B(Is1(g.nullable) \/ (Is1(g.allow_none) /\ ~IsOut(g))),
    ArgOptional        |-> b.optional = B(Is1(g.optional) \/ (Is1(g.allow_none) /\ IsOut(g))),
    ArgTransfer        |-> b.transfer_ownership = B(g.transfer = "full") /\ b.transfer_container_ownership = B(g.transfer = "container"),
    ArgScope           |-> b.scope = ScopeCode(g.scope),
    ArgClosure         |-> b.closure = g.closure,                                         \* absent = -1
    ArgDestroy         |-> b.destroy = g.destroy,
    ArgSkip            |-> b.skip = B(Is1(g.skip)),
    ArgReturnValue     |-> b.return_value = B(Is1(g.retval)),
    ArgType            |-> TypeOK(env, ArgCtx(g), g.type, b.type) ]
ArgNames == {"ArgName", "ArgDirection", "ArgCallerAllocates", "ArgNullable", "ArgOptional", "ArgTransfer", "ArgScope",
             "ArgClosure", "ArgDestroy", "ArgSkip", "ArgReturnValue", "ArgType"}

\* start_parameter, statement by statement
BuildArg(env, g) ==
    LET d == IF g.dir = "out" THEN [in |-> 0, out |-> 1, ca |-> (IF g.ca = "" THEN 0 ELSE B(g.ca = "1"))]
             ELSE IF g.dir = "inout" THEN [in |-> 1, out |-> 1, ca |-> 0]
             ELSE [in |-> 1, out |-> 0, ca |-> 0]
        opt0 == B(g.optional = "1")
        nul0 == B(g.nullable = "1")
        opt1 == IF g.allow_none = "1" /\ d.out = 1 THEN 1 ELSE opt0
        nul1 == IF g.allow_none = "1" /\ d.out = 0 THEN 1 ELSE nul0
        tr == CASE g.transfer = "none" -> <<0, 0>> [] g.transfer = "container" -> <<0, 1>> [] g.transfer = "full" -> <<1, 0>>
        sc == IF g.scope = "call" THEN 1 ELSE IF g.scope = "async" THEN 2 ELSE IF g.scope = "notified" THEN 3
              ELSE IF g.scope = "forever" THEN 4 ELSE 0
    IN [name |-> g.name, in |-> d.in, out |-> d.out, caller_allocates |-> d.ca, nullable |-> nul1, optional |-> opt1,
        transfer_ownership |-> tr[1], transfer_container_ownership |-> tr[2], return_value |-> B(g.retval = "1"),
        scope |-> sc, skip |-> B(g.skip = "1"), closure |-> g.closure, destroy |-> g.destroy,
        type |-> BuildType(env, [out |-> d.out = 1, field |-> FALSE], g.type)]

---------------------------------------------------------------------------
(* Signature: g = [ckind (function|method|constructor|callback|signal|vfunc), transfer, nullable, allow_none, skip,  *)
(*                 throws, inst (""|none|full), params <<names>>, rtype]                                             *)
SigClauses(env, g, b) == [
    SigMayReturnNull |-> \* nullable="1" says so; allow-none on a return value is not part of the documented schema: silent
                         (Is1(g.nullable) => b.may_return_null = 1) /\ ((~Is1(g.nullable) /\ ~Is1(g.allow_none)) => b.may_return_null = 0),
    SigCallerOwns    |-> b.caller_owns_return_value = B(g.transfer = "full") /\ b.caller_owns_return_container = B(g.transfer = "container"),
    SigSkipReturn    |-> b.skip_return = B(Is1(g.skip)),
    SigInstanceTransfer |-> b.instance_transfer_ownership = B(g.inst = "full"),
    SigThrows        |-> g.ckind # "signal" => b.throws = B(Is1(g.throws)),
    SigArgsInOrder   |-> b.n_arguments = Len(g.params) /\ b.arg_names = g.params,
    SigReturnType    |-> TypeOK(env, NoCtx, g.rtype, b.return_type) ]
SigNames == {"SigMayReturnNull", "SigCallerOwns", "SigSkipReturn", "SigInstanceTransfer", "SigThrows", "SigArgsInOrder", "SigReturnType"}

\* start_return_value + the four signature writers of _g_ir_node_build_typelib.
\* dev = what-if switches: behaviours of EARLIER versions of the code, each repaired by a fix: commit
\*   "skip_only_function": only the FUNCTION writer copied skip_return (before ca5fac5)
BuildSig(env, g, dev) ==
    [may_return_null |-> B(g.nullable = "1"),
     caller_owns_return_value |-> B(g.transfer = "full"), caller_owns_return_container |-> B(g.transfer = "container"),
     skip_return |-> IF "skip_only_function" \in dev /\ g.ckind \notin {"function", "method", "constructor"} THEN 0 ELSE B(g.skip = "1"),
     instance_transfer_ownership |-> IF g.ckind = "callback" THEN 0 ELSE B(g.inst = "full"),
     throws |-> IF g.ckind = "signal" THEN 0 ELSE B(g.throws = "1"),
     n_arguments |-> Len(g.params), arg_names |-> g.params, return_type |-> BuildType(env, NoCtx, g.rtype)]

---------------------------------------------------------------------------
(* Function: g = [ckind, name, shadows, cid, deprecated, throws, setprop, getprop, props <<property names of the container>>] *)
(* b additionally carries prop_name = name of the container's index-th property ("" when index is out of range)              *)
FnIsAccessor(g) == g.ckind \in {"method", "constructor"} /\ (Has(g.setprop) \/ Has(g.getprop))
FunctionClauses(g, b) == [
    FnName        |-> b.name = (IF Has(g.shadows) THEN g.shadows ELSE g.name),
    FnSymbol      |-> b.symbol = g.cid,
    FnDeprecated  |-> Dep(g.deprecated, b.deprecated),
    FnConstructor |-> b.constructor = B(g.ckind = "constructor"),
    FnIsStatic    |-> b.is_static = B(g.ckind = "function"),
    FnThrows      |-> b.throws = B(Is1(g.throws)),
    FnAccessor    |-> IF FnIsAccessor(g)
                      THEN IF Has(g.setprop) /\ Has(g.getprop)          \* both written: not a valid combination, either reading
                           THEN b.setter + b.getter = 1 /\ b.prop_name = (IF b.setter = 1 THEN g.setprop ELSE g.getprop)
                           ELSE /\ b.setter = B(Has(g.setprop)) /\ b.getter = B(~Has(g.setprop))
                                /\ b.prop_name = (IF Has(g.setprop) THEN g.setprop ELSE g.getprop)
                      ELSE b.setter = 0 /\ b.getter = 0 /\ b.index = 0,
    FnWrapsVfunc  |-> b.wraps_vfunc = 0,
    FnAsync       |-> b.is_async = 0 /\ b.sync_or_async = Sentinel /\ b.finish = Sentinel ]
FunctionNames == {"FnName", "FnSymbol", "FnDeprecated", "FnConstructor", "FnIsStatic", "FnThrows", "FnAccessor", "FnWrapsVfunc", "FnAsync"}

IndexOf(s, x) == IF \E i \in 1..Len(s) : s[i] = x THEN (CHOOSE i \in 1..Len(s) : s[i] = x /\ \A j \in 1..(i - 1) : s[j] # x) - 1 ELSE -1
NameAt(s, i) == IF i >= 0 /\ i < Len(s) THEN s[i + 1] ELSE ""
\* start_function + G_IR_NODE_FUNCTION writer (10-bit index field)
BuildFunction(g) ==
    LET method == g.ckind \in {"method", "constructor"}
        setter == method /\ g.setprop # ""
        getter == method /\ g.setprop = "" /\ g.getprop # ""
        idx == IF setter THEN IndexOf(g.props, g.setprop) ELSE IF getter THEN IndexOf(g.props, g.getprop) ELSE 0
        idx10 == idx % 1024
    IN [name |-> (IF g.shadows # "" THEN g.shadows ELSE g.name), symbol |-> g.cid, deprecated |-> B(g.deprecated # ""),
        setter |-> B(setter), getter |-> B(getter), constructor |-> B(g.ckind = "constructor"), wraps_vfunc |-> 0,
        throws |-> B(g.throws = "1"), index |-> idx10, prop_name |-> NameAt(g.props, idx10),
        is_static |-> B(~method), is_async |-> 0, sync_or_async |-> Sentinel, finish |-> Sentinel]

---------------------------------------------------------------------------
(* Property: g = [name, readable, writable, construct, construct_only, transfer, setter, getter, deprecated, methods, type] *)
(* b: setter/getter raw indices and setter_name/getter_name = name of that method of the container ("" if none)             *)
PropertyClauses(env, g, b) == [
    PropName      |-> b.name = g.name,
    PropDeprecated |-> Dep(g.deprecated, b.deprecated),
    PropFlags     |-> /\ b.readable = B(g.readable = "" \/ Is1(g.readable)) /\ b.writable = B(Is1(g.writable))
                      /\ b.construct = B(Is1(g.construct)) /\ b.construct_only = B(Is1(g.construct_only)),
    PropTransfer  |-> b.transfer_ownership = B(g.transfer = "full") /\ b.transfer_container_ownership = B(g.transfer = "container"),
    PropSetter    |-> IF Has(g.setter) THEN b.setter # Sentinel /\ b.setter_name = g.setter ELSE b.setter = Sentinel,
    PropGetter    |-> IF Has(g.getter) THEN b.getter # Sentinel /\ b.getter_name = g.getter ELSE b.getter = Sentinel,
    PropType      |-> TypeOK(env, NoCtx, g.type, b.type) ]
PropertyNames == {"PropName", "PropDeprecated", "PropFlags", "PropTransfer", "PropSetter", "PropGetter", "PropType"}

\*   "prop_deprecated_unread": start_property did not read deprecated= (before 43698fe)
BuildProperty(env, g, dev) ==
    LET si == IF g.setter # "" THEN IndexOf(g.methods, g.setter) % 1024 ELSE Sentinel
        gi == IF g.getter # "" THEN IndexOf(g.methods, g.getter) % 1024 ELSE Sentinel
        tr == IF g.transfer = "full" THEN <<1, 0>> ELSE IF g.transfer = "container" THEN <<0, 1>> ELSE <<0, 0>>   \* absent = none
    IN [name |-> g.name, deprecated |-> (IF "prop_deprecated_unread" \in dev THEN 0 ELSE B(g.deprecated # "")),
        readable |-> B(g.readable = "" \/ g.readable = "1"), writable |-> B(g.writable = "1"),
        construct |-> B(g.construct = "1"), construct_only |-> B(g.construct_only = "1"),
        transfer_ownership |-> tr[1], transfer_container_ownership |-> tr[2],
        setter |-> si, getter |-> gi, setter_name |-> (IF si = Sentinel THEN "" ELSE NameAt(g.methods, si)),
        getter_name |-> (IF gi = Sentinel THEN "" ELSE NameAt(g.methods, gi)), type |-> BuildType(env, NoCtx, g.type)]

---------------------------------------------------------------------------
(* Signal: g = [name, when, no_recurse, detailed, action, no_hooks, deprecated] *)
SignalClauses(g, b) == [
    SignalName  |-> b.name = g.name,
    SignalWhen  |-> /\ b.run_last = B(g.when \in {"", "last", "LAST"}) /\ b.run_first = B(g.when \in {"first", "FIRST"})
                    /\ b.run_cleanup = B(g.when \in {"cleanup", "CLEANUP"}),
    SignalFlags |-> /\ b.no_recurse = B(Is1(g.no_recurse)) /\ b.detailed = B(Is1(g.detailed)) /\ b.action = B(Is1(g.action))
                    /\ b.no_hooks = B(Is1(g.no_hooks)),
    SignalDeprecated |-> Dep(g.deprecated, b.deprecated) ]
SignalNames == {"SignalName", "SignalWhen", "SignalFlags", "SignalDeprecated"}
BuildSignal(g) ==
    LET last == g.when = "" \/ g.when \in {"last", "LAST"}
        first == ~last /\ g.when \in {"first", "FIRST"}
    IN [name |-> g.name, deprecated |-> B(g.deprecated = "1"), run_first |-> B(first), run_last |-> B(last),
        run_cleanup |-> B(~last /\ ~first), no_recurse |-> B(g.no_recurse = "1"), detailed |-> B(g.detailed = "1"),
        action |-> B(g.action = "1"), no_hooks |-> B(g.no_hooks = "1")]

(* VFunc: g = [name, invoker, offset (-1 absent), throws, methods];  b: invoker raw index, invoker_name *)
VFuncClauses(g, b) == [
    VFuncName    |-> b.name = g.name,
    VFuncInvoker |-> IF Has(g.invoker) THEN b.invoker # Sentinel /\ b.invoker_name = g.invoker ELSE b.invoker = Sentinel,
    VFuncOffset  |-> b.struct_offset = (IF g.offset >= 0 THEN g.offset ELSE U16None),
    VFuncThrows  |-> b.throws = B(Is1(g.throws)),
    VFuncAsync   |-> b.is_async = 0 /\ b.sync_or_async = Sentinel /\ b.finish = Sentinel ]
VFuncNames == {"VFuncName", "VFuncInvoker", "VFuncOffset", "VFuncThrows", "VFuncAsync"}
BuildVFunc(g) ==
    LET ii == IF g.invoker # "" THEN IndexOf(g.methods, g.invoker) % 1024 ELSE Sentinel IN
    [name |-> g.name, invoker |-> ii, invoker_name |-> (IF ii = Sentinel THEN "" ELSE NameAt(g.methods, ii)),
     struct_offset |-> (IF g.offset >= 0 THEN g.offset ELSE U16None), throws |-> B(g.throws = "1"),
     is_async |-> 0, sync_or_async |-> Sentinel, finish |-> Sentinel]

(* Field: g = [name, readable, writable, bits (-1 absent), intro, cb (has an embedded callback), type] *)
FieldClauses(env, g, b) == [
    FieldName     |-> b.name = g.name,
    FieldReadable |-> b.readable = B(g.readable # "0"),          \* "Fields are assumed to be read-only": readable unless readable="0"
    FieldWritable |-> b.writable = B(Is1(g.writable)),
    FieldBits     |-> b.bits = (IF g.bits >= 0 THEN g.bits ELSE 0),
    FieldEmbedded |-> b.has_embedded_type = B(g.cb /\ g.intro),
    \* a field that is not introspectable keeps its slot with an opaque pointer type
    FieldType     |-> ~(g.cb /\ g.intro) => TypeOK(env, FieldCtx, IF g.intro THEN g.type ELSE <<GPointerNode>>, b.type) ]
FieldNames == {"FieldName", "FieldReadable", "FieldWritable", "FieldBits", "FieldEmbedded", "FieldType"}
\* start_field + G_IR_NODE_FIELD writer, as they are
BuildField(env, g) ==
    [name |-> g.name, readable |-> B(g.readable = "" \/ g.readable = "0"), writable |-> B(g.writable = "1"), bits |-> 0,
     has_embedded_type |-> B(g.cb /\ g.intro),
     type |-> BuildType(env, FieldCtx, IF g.intro THEN g.type ELSE <<GPointerNode>>)]

---------------------------------------------------------------------------
(* 64-bit values as limbs: [neg, l <<l0..l3>>] little-endian base 2^16 *)
Base == 65536
Zero4 == <<0, 0, 0, 0>>
RECURSIVE NegLimbs(_, _, _)
NegLimbs(l, i, carry) == IF i > 4 THEN <<>>
                         ELSE LET s == (Base - 1) - l[i] + carry IN <<s % Base>> \o NegLimbs(l, i + 1, s \div Base)
TwosComplement(v) == IF v.neg /\ v.l # Zero4 THEN NegLimbs(v.l, 1, 1) ELSE v.l
Low32(v) == LET t == TwosComplement(v) IN <<t[1], t[2]>>

(* Enum value: g = [name, v, deprecated, cid];  b = [name, value32 <<l0,l1>> (the stored gint32 as unsigned limbs), unsigned_value, deprecated] *)
ValueClauses(g, b) == [
    ValueName  |-> b.name = g.name,
    ValueValue |-> b.value32 = Low32(g.v),
    ValueUnsigned |-> b.unsigned_value = B(~g.v.neg \/ g.v.l = Zero4),
    ValueDeprecated |-> Dep(g.deprecated, b.deprecated) ]
ValueNames == {"ValueName", "ValueValue", "ValueUnsigned", "ValueDeprecated"}
BuildValue(g) == [name |-> g.name, value32 |-> Low32(g.v), unsigned_value |-> B(~g.v.neg \/ g.v.l = Zero4),
                  deprecated |-> B(g.deprecated # "")]

(* Constant: g = [name, deprecated, value (canonical text), type];  b = [name, deprecated, value (decoded text), size, type] *)
ConstSizeOfTag(t) == CASE t = 1 -> 4 [] t \in {2, 3} -> 1 [] t \in {4, 5} -> 2 [] t \in {6, 7} -> 4 [] t \in {8, 9} -> 8
                       [] t = 10 -> 4 [] t = 11 -> 8 [] t = 21 -> 4 [] OTHER -> -1
\* the constant writer of _g_ir_node_build_typelib; "no_unichar_constant": no case for gunichar, size stayed 0 and the compiler's
\* own validator then refused the file (before 403fa2b)
BuildConstSize(t, dev) == IF t = 21 /\ "no_unichar_constant" \in dev THEN 0 ELSE ConstSizeOfTag(t)
ConstantClauses(env, g, b) == [
    ConstName       |-> b.name = g.name,
    ConstDeprecated |-> Dep(g.deprecated, b.deprecated),
    ConstType       |-> TypeOK(env, NoCtx, g.type, b.type),
    ConstValue      |-> b.value = g.value,
    ConstSize       |-> LET sz == ConstSizeOfTag(NodeTag(env, g.type[1])) IN sz >= 0 => b.size = sz ]
ConstantNames == {"ConstName", "ConstDeprecated", "ConstType", "ConstValue", "ConstSize"}

---------------------------------------------------------------------------
(* References by name: g side [ns, n] as written ("" = own namespace, n = "" = absent);                  *)
(* b side [ns, n] = what the stored directory index resolves to (own namespace for local entries).      *)
RefMatches(env, gr, br) == IF gr.n = "" THEN br.n = "" /\ br.ns = ""
                           ELSE br.n = gr.n /\ br.ns = (IF gr.ns = "" THEN env.ns ELSE gr.ns)
RefsMatch(env, grs, brs) == Len(grs) = Len(brs) /\ \A i \in 1..Len(grs) : RefMatches(env, grs[i], brs[i])

SameSet(gnames, bnames) == SeqToSet(bnames) = SeqToSet(gnames) /\ NoDup(bnames)
GTypeOK(g, b) == IF Has(g.gtype_name) THEN b.unregistered = 0 /\ b.gtype_name = g.gtype_name /\ b.gtype_init = g.gtype_init
               ELSE b.unregistered = 1 /\ b.gtype_name = "" /\ b.gtype_init = ""

(* Struct / boxed / union: g = [tag (record|boxed|union), name, deprecated, gtype_name, gtype_init, gtype_struct_for, foreign, *)
(*                              copy_func, free_func, fields <<[name,intro,cb]>>, methods <<[name,intro]>>]                   *)
StructClauses(env, g, b) == [
    StructKind       |-> b.blob_type = (CASE g.tag = "record" -> 3 [] g.tag = "boxed" -> 4 [] g.tag = "union" -> 11),
    StructName       |-> b.name = g.name,
    StructDeprecated |-> Dep(g.deprecated, b.deprecated),
    StructGType      |-> GTypeOK(g, b),
    StructFlags      |-> g.tag = "record" => (b.is_gtype_struct = B(Has(g.gtype_struct_for)) /\ b.foreign = B(Is1(g.foreign))),
    StructFuncs      |-> b.copy_func = g.copy_func /\ b.free_func = g.free_func,
    StructFieldsInOrder  |-> b.field_names = Names(g.fields) /\ b.n_fields = Len(g.fields),
    StructMethodsSameSet |-> SameSet(Names(Kept(g.methods)), b.method_names) /\ b.n_methods = Len(b.method_names) ]
StructNames == {"StructKind", "StructName", "StructDeprecated", "StructGType", "StructFlags", "StructFuncs",
                "StructFieldsInOrder", "StructMethodsSameSet"}

(* Enum / flags: g = [tag (enumeration|bitfield), name, deprecated, gtype_name, gtype_init, error_domain, values <<names>>, methods] *)
EnumClauses(env, g, b) == [
    EnumKind        |-> b.blob_type = (IF g.tag = "bitfield" THEN 6 ELSE 5),
    EnumName        |-> b.name = g.name,
    EnumDeprecated  |-> Dep(g.deprecated, b.deprecated),
    EnumGType       |-> GTypeOK(g, b),
    EnumErrorDomain |-> b.error_domain = g.error_domain,
    EnumValuesInOrder |-> b.value_names = g.values /\ b.n_values = Len(g.values),
    EnumMethodsSameSet |-> SameSet(Names(Kept(g.methods)), b.method_names) /\ b.n_methods = Len(b.method_names) ]
EnumNames == {"EnumKind", "EnumName", "EnumDeprecated", "EnumGType", "EnumErrorDomain", "EnumValuesInOrder", "EnumMethodsSameSet"}

(* Object: g = [name, deprecated, abstract, final, fundamental, gtype_name, gtype_init, parent [ns,n], gtype_struct [ns,n],      *)
(*              ref_func, unref_func, set_value_func, get_value_func, interfaces <<[ns,n]>>, fields, properties, methods,       *)
(*              signals, vfuncs, constants  (each <<[name, intro(, cb)]>>)]                                                     *)
NCallbackFields(fs) == Cardinality({i \in 1..Len(fs) : fs[i].cb /\ fs[i].intro})
ObjectClauses(env, g, b) == [
    ObjKind         |-> b.blob_type = 7,
    ObjName         |-> b.name = g.name,
    ObjFlags        |-> /\ Dep(g.deprecated, b.deprecated) /\ b.abstract = B(Is1(g.abstract)) /\ b.final = B(Is1(g.final))
                        /\ b.fundamental = B(Has(g.fundamental)),
    ObjGType        |-> b.gtype_name = g.gtype_name /\ b.gtype_init = g.gtype_init,
    ObjFuncs        |-> /\ b.ref_func = g.ref_func /\ b.unref_func = g.unref_func /\ b.set_value_func = g.set_value_func
                        /\ b.get_value_func = g.get_value_func,
    ObjParent       |-> RefMatches(env, g.parent, b.parent),
    ObjGTypeStruct  |-> RefMatches(env, g.gtype_struct, b.gtype_struct),
    ObjInterfacesInOrder |-> RefsMatch(env, g.interfaces, b.interfaces) /\ b.n_interfaces = Len(g.interfaces),
    ObjFieldsInOrder     |-> b.field_names = Names(g.fields) /\ b.n_fields = Len(g.fields) /\ b.n_field_callbacks = NCallbackFields(g.fields),
    ObjPropertiesSameSet |-> SameSet(Names(Kept(g.properties)), b.property_names) /\ b.n_properties = Len(b.property_names),
    ObjMethodsSameSet    |-> SameSet(Names(Kept(g.methods)), b.method_names) /\ b.n_methods = Len(b.method_names),
    ObjSignalsSameSet    |-> SameSet(Names(Kept(g.signals)), b.signal_names) /\ b.n_signals = Len(b.signal_names),
    ObjVFuncsSameSet     |-> SameSet(Names(Kept(g.vfuncs)), b.vfunc_names) /\ b.n_vfuncs = Len(b.vfunc_names),
    ObjConstantsSameSet  |-> SameSet(Names(Kept(g.constants)), b.constant_names) /\ b.n_constants = Len(b.constant_names) ]
ObjectNames == {"ObjKind", "ObjName", "ObjFlags", "ObjGType", "ObjFuncs", "ObjParent", "ObjGTypeStruct", "ObjInterfacesInOrder",
                "ObjFieldsInOrder", "ObjPropertiesSameSet", "ObjMethodsSameSet", "ObjSignalsSameSet", "ObjVFuncsSameSet",
                "ObjConstantsSameSet"}

(* Interface: g = [name, deprecated, gtype_name, gtype_init, gtype_struct, prerequisites, properties, methods, signals, vfuncs, constants] *)
InterfaceClauses(env, g, b) == [
    IfaceKind       |-> b.blob_type = 8,
    IfaceName       |-> b.name = g.name,
    IfaceDeprecated |-> Dep(g.deprecated, b.deprecated),
    IfaceGType      |-> b.gtype_name = g.gtype_name /\ b.gtype_init = g.gtype_init,
    IfaceGTypeStruct |-> RefMatches(env, g.gtype_struct, b.gtype_struct),
    IfacePrerequisitesInOrder |-> RefsMatch(env, g.prerequisites, b.prerequisites) /\ b.n_prerequisites = Len(g.prerequisites),
    IfacePropertiesSameSet |-> SameSet(Names(Kept(g.properties)), b.property_names) /\ b.n_properties = Len(b.property_names),
    IfaceMethodsSameSet    |-> SameSet(Names(Kept(g.methods)), b.method_names) /\ b.n_methods = Len(b.method_names),
    IfaceSignalsSameSet    |-> SameSet(Names(Kept(g.signals)), b.signal_names) /\ b.n_signals = Len(b.signal_names),
    IfaceVFuncsSameSet     |-> SameSet(Names(Kept(g.vfuncs)), b.vfunc_names) /\ b.n_vfuncs = Len(b.vfunc_names),
    IfaceConstantsSameSet  |-> SameSet(Names(Kept(g.constants)), b.constant_names) /\ b.n_constants = Len(b.constant_names) ]
InterfaceNames == {"IfaceKind", "IfaceName", "IfaceDeprecated", "IfaceGType", "IfaceGTypeStruct", "IfacePrerequisitesInOrder",
                   "IfacePropertiesSameSet", "IfaceMethodsSameSet", "IfaceSignalsSameSet", "IfaceVFuncsSameSet", "IfaceConstantsSameSet"}

(* Callback entry: g = [name, deprecated] *)
CallbackClauses(g, b) == [ CallbackKind |-> b.blob_type = 2, CallbackName |-> b.name = g.name,
                           CallbackDeprecated |-> Dep(g.deprecated, b.deprecated) ]
CallbackNames == {"CallbackKind", "CallbackName", "CallbackDeprecated"}

(* Attributes of one node: g.attrs / b.attrs = <<[name, value]>>; b = the AttributeBlobs whose offset is the node's offset *)
AttrPairs(s) == {<<s[i].name, s[i].value>> : i \in 1..Len(s)}
AttributeLookup(table, off) == {<<table[i].name, table[i].value>> : i \in {j \in 1..Len(table) : table[j].offset = off}}
AttrClauses(g, b) == [ Attributes |-> AttrPairs(b.attrs) = AttrPairs(g.attrs) /\ Len(b.attrs) = Cardinality(AttrPairs(g.attrs)) ]
AttrNames == {"Attributes"}
(* where the parser attaches an <attribute> child and whether the builder emits it; role = position of the element that carries it. *)
(*   "attrs_to_container": attributes of fields, properties, member constants and enumeration members went to the container       *)
(*                         (before f9052ff);  "cb_return_attrs_dropped": the CALLBACK and VFUNC writers did not register the      *)
(*                         return value's attributes (before 803c7ba)                                                             *)
AttrRoles == {"entry", "callable", "param", "return_function", "return_signal", "return_callback", "return_vfunc", "field", "property",
              "member_constant", "enum_member"}
BuildAttrs(role, g, dev) ==
    [attrs |-> IF role \in {"field", "property", "member_constant", "enum_member"} /\ "attrs_to_container" \in dev THEN <<>>
               ELSE IF role \in {"return_callback", "return_vfunc"} /\ "cb_return_attrs_dropped" \in dev THEN <<>>
               ELSE g.attrs]

---------------------------------------------------------------------------
(* Part 2: layout.  Blob sizes as gitypelib-internal.h defines the structs. *)
Size == [ header |-> 112, entry |-> 12, function |-> 20, callback |-> 12, signal |-> 16, vfunc |-> 20, arg |-> 16,
          property |-> 16, field |-> 16, value |-> 12, attribute |-> 12, constant |-> 24, error_domain |-> 16,
          signature |-> 8, enum |-> 24, struct |-> 32, object |-> 60, interface |-> 40, union |-> 40 ]

HeaderSizesMatch(h) ==
    /\ h.entry_blob_size = Size.entry /\ h.function_blob_size = Size.function /\ h.callback_blob_size = Size.callback
    /\ h.signal_blob_size = Size.signal /\ h.vfunc_blob_size = Size.vfunc /\ h.arg_blob_size = Size.arg
    /\ h.property_blob_size = Size.property /\ h.field_blob_size = Size.field /\ h.value_blob_size = Size.value
    /\ h.attribute_blob_size = Size.attribute /\ h.constant_blob_size = Size.constant
    /\ h.error_domain_blob_size = Size.error_domain /\ h.signature_blob_size = Size.signature
    /\ h.enum_blob_size = Size.enum /\ h.struct_blob_size = Size.struct /\ h.object_blob_size = Size.object
    /\ h.interface_blob_size = Size.interface /\ h.union_blob_size = Size.union

Align4(x) == ((x + 3) \div 4) * 4
Pad2(n) == 2 * (n + (n % 2))            \* a guint16 index array padded to a 32-bit boundary

(* Counts of a container blob: [ni, cbs (one BOOLEAN per field: has an embedded callback), np, nm, ns, nv, nc, nvals] *)
(* kind in object | interface | struct | union | enum.   ni = n_interfaces / n_prerequisites.                        *)
NF(c) == Len(c.cbs)
NFC(c) == Cardinality({i \in 1..Len(c.cbs) : c.cbs[i]})
\* bytes taken by the first k fields: k FieldBlobs plus one CallbackBlob after every field with an embedded type
\* (closed form rather than a recursion: containers of the 16-bit boundary documents have thousands of fields)
FieldsSize(cbs, k) == Size.field * k + Size.callback * Cardinality({j \in 1..k : cbs[j]})

HeadSize(kind) == CASE kind = "object" -> Size.object [] kind = "interface" -> Size.interface [] kind = "struct" -> Size.struct
                    [] kind = "union" -> Size.union [] kind = "enum" -> Size.enum
Sections(kind) == CASE kind = "object" -> <<"fields", "properties", "methods", "signals", "vfuncs", "constants">>
                    [] kind = "interface" -> <<"properties", "methods", "signals", "vfuncs", "constants">>
                    [] kind \in {"struct", "union"} -> <<"fields", "methods">>
                    [] kind = "enum" -> <<"values", "methods">>
Count(c, sec) == CASE sec = "fields" -> NF(c) [] sec = "properties" -> c.np [] sec = "methods" -> c.nm [] sec = "signals" -> c.ns
                   [] sec = "vfuncs" -> c.nv [] sec = "constants" -> c.nc [] sec = "values" -> c.nvals
ElemSize(sec) == CASE sec = "fields" -> Size.field [] sec = "properties" -> Size.property [] sec = "methods" -> Size.function
                   [] sec = "signals" -> Size.signal [] sec = "vfuncs" -> Size.vfunc [] sec = "constants" -> Size.constant
                   [] sec = "values" -> Size.value

(* THE READER'S VIEW (C09): offset, relative to the start of the container blob, of the i-th (0-based) member of a section, *)
(* as the format lays the sections out: header, index array padded to even, fields (+ one CallbackBlob after each field     *)
(* with an embedded type), properties, methods, signals, vfuncs, constants.                                                 *)
SectionSize(c, sec) == IF sec = "fields" THEN Size.field * NF(c) + Size.callback * NFC(c) ELSE ElemSize(sec) * Count(c, sec)
RECURSIVE Before(_, _, _)
Before(c, secs, sec) == IF secs = <<>> \/ Head(secs) = sec THEN 0 ELSE SectionSize(c, Head(secs)) + Before(c, Tail(secs), sec)
SectionStart(kind, c, sec) ==
    HeadSize(kind) + (IF kind \in {"object", "interface"} THEN Pad2(c.ni) ELSE 0) + Before(c, Sections(kind), sec)
MemberOffset(kind, c, sec, i) ==
    SectionStart(kind, c, sec) + (IF sec = "fields" THEN FieldsSize(c.cbs, i) ELSE ElemSize(sec) * i)
EmbeddedCallbackOffset(kind, c, i) == MemberOffset(kind, c, "fields", i) + Size.field
FixedSize(kind, c) == LET secs == Sections(kind) last == secs[Len(secs)] IN SectionStart(kind, c, last) + SectionSize(c, last)

(* THE WRITER'S VIEW (C06): _g_ir_node_build_typelib moves one cursor through the container: header, 2 bytes per interface, *)
(* ALIGN_VALUE(4), then the members of each section in turn (a field with a callback is followed by its CallbackBlob),      *)
(* ALIGN_VALUE(4) between sections.  Result: <<[sec, i, off, size]>> in allocation order and the final cursor.              *)
RECURSIVE WriteMembers(_, _, _, _, _)
WriteMembers(c, sec, i, n, cur) ==
    IF i = n THEN [items |-> <<>>, cur |-> cur]
    ELSE LET sz == IF sec = "fields" THEN Size.field + (IF c.cbs[i + 1] THEN Size.callback ELSE 0) ELSE ElemSize(sec)
             rest == WriteMembers(c, sec, i + 1, n, cur + sz)
         IN [items |-> <<[sec |-> sec, i |-> i, off |-> cur, size |-> sz]>> \o rest.items, cur |-> rest.cur]
RECURSIVE WriteSections(_, _, _, _)
WriteSections(kind, c, secs, cur) ==
    IF secs = <<>> THEN [items |-> <<>>, cur |-> cur]
    ELSE LET start == IF kind \in {"object", "interface"} THEN Align4(cur) ELSE cur
             w == WriteMembers(c, Head(secs), 0, Count(c, Head(secs)), start)
             rest == WriteSections(kind, c, Tail(secs), w.cur)
         IN [items |-> w.items \o rest.items, cur |-> rest.cur]
WriterLayout(kind, c) ==
    WriteSections(kind, c, Sections(kind), HeadSize(kind) + (IF kind \in {"object", "interface"} THEN 2 * c.ni ELSE 0))
\* _g_ir_node_get_size: the space reserved for the fixed part before the variable part (strings, signatures, types) starts
GetSize(kind, c) == HeadSize(kind) + (IF kind \in {"object", "interface"} THEN Pad2(c.ni) ELSE 0)
                    + SumSeq([k \in 1..Len(Sections(kind)) |-> SectionSize(c, Sections(kind)[k])])

LayoutAligned4(kind, c) == \A k \in 1..Len(WriterLayout(kind, c).items) : WriterLayout(kind, c).items[k].off % 4 = 0
LayoutInBounds(kind, c) == LET w == WriterLayout(kind, c) IN
    /\ w.cur <= GetSize(kind, c)
    /\ \A k \in 1..Len(w.items) : w.items[k].off >= HeadSize(kind) /\ w.items[k].off + w.items[k].size <= GetSize(kind, c)
LayoutNoOverlap(kind, c) == LET it == WriterLayout(kind, c).items IN
    \A k \in 1..(Len(it) - 1) : it[k].off + it[k].size <= it[k + 1].off
LayoutNoHole(kind, c) == WriterLayout(kind, c).cur = GetSize(kind, c)
\* the reader finds every member where the writer put it
ReaderMeetsWriter(kind, c) == LET it == WriterLayout(kind, c).items IN
    /\ \A k \in 1..Len(it) : MemberOffset(kind, c, it[k].sec, it[k].i) = it[k].off
    /\ FixedSize(kind, c) = WriterLayout(kind, c).cur

LayoutAll(kind, c) ==
    LET w == WriterLayout(kind, c)
        it == w.items
        gs == GetSize(kind, c)
    IN /\ \A k \in 1..Len(it) : it[k].off % 4 = 0                                                      \* Aligned4
       /\ w.cur <= gs /\ \A k \in 1..Len(it) : it[k].off >= HeadSize(kind) /\ it[k].off + it[k].size <= gs   \* InBounds
       /\ \A k \in 1..(Len(it) - 1) : it[k].off + it[k].size <= it[k + 1].off                            \* NoOverlap
       /\ w.cur = gs                                                                                   \* NoHole
       /\ \A k \in 1..Len(it) : MemberOffset(kind, c, it[k].sec, it[k].i) = it[k].off                    \* ReaderMeetsWriter
       /\ FixedSize(kind, c) = w.cur

(* THE ACCESSORS' VIEW (C09, implementation-shaped): the offset arithmetic of giobjectinfo.c, giinterfaceinfo.c, gistructinfo.c,   *)
(* giunioninfo.c and gienuminfo.c as written.  Fields of objects and structs are walked one by one looking at has_embedded_type;  *)
(* the later sections of an object add n_fields field blobs and n_field_callbacks callback blobs.  unionWalks = TRUE: giunioninfo.c  *)
(* walks the fields like gistructinfo.c (since fix f2204c4); FALSE: it multiplies, as it did before (kept as a what-if).          *)
IndexPad(c) == (c.ni + (c.ni % 2)) * 2
ObjFieldsBytes(c) == NF(c) * Size.field + NFC(c) * Size.callback
ObjectAccessor(c, sec, i) ==
    LET base == Size.object + IndexPad(c)
        f == ObjFieldsBytes(c)
    IN CASE sec = "fields" -> base + FieldsSize(c.cbs, i)
         [] sec = "properties" -> base + f + i * Size.property
         [] sec = "methods" -> base + f + c.np * Size.property + i * Size.function
         [] sec = "signals" -> base + f + c.np * Size.property + c.nm * Size.function + i * Size.signal
         [] sec = "vfuncs" -> base + f + c.np * Size.property + c.nm * Size.function + c.ns * Size.signal + i * Size.vfunc
         [] sec = "constants" -> base + f + c.np * Size.property + c.nm * Size.function + c.ns * Size.signal + c.nv * Size.vfunc
                                 + i * Size.constant
InterfaceAccessor(c, sec, i) ==
    LET base == Size.interface + IndexPad(c)
    IN CASE sec = "properties" -> base + i * Size.property
         [] sec = "methods" -> base + c.np * Size.property + i * Size.function
         [] sec = "signals" -> base + c.np * Size.property + c.nm * Size.function + i * Size.signal
         [] sec = "vfuncs" -> base + c.np * Size.property + c.nm * Size.function + c.ns * Size.signal + i * Size.vfunc
         [] sec = "constants" -> base + c.np * Size.property + c.nm * Size.function + c.ns * Size.signal + c.nv * Size.vfunc
                                 + i * Size.constant
AccessorOffset(kind, c, sec, i, unionWalks) ==
    CASE kind = "object" -> ObjectAccessor(c, sec, i)
      [] kind = "interface" -> InterfaceAccessor(c, sec, i)
      [] kind = "struct" -> (IF sec = "fields" THEN Size.struct + FieldsSize(c.cbs, i)
                             ELSE Size.struct + FieldsSize(c.cbs, NF(c)) + i * Size.function)
      [] kind = "union" -> (IF unionWalks
                            THEN (IF sec = "fields" THEN Size.union + FieldsSize(c.cbs, i)
                                  ELSE Size.union + FieldsSize(c.cbs, NF(c)) + i * Size.function)
                            ELSE (IF sec = "fields" THEN Size.union + i * Size.field
                                  ELSE Size.union + NF(c) * Size.field + i * Size.function))
      [] kind = "enum" -> (IF sec = "values" THEN Size.enum + i * Size.value
                           ELSE Size.enum + c.nvals * Size.value + i * Size.function)
AccessorsMeetFormat(kind, c, unionWalks) ==
    \A k \in 1..Len(Sections(kind)) : LET sec == Sections(kind)[k] IN
        \A i \in 0..(Count(c, sec) - 1) : AccessorOffset(kind, c, sec, i, unionWalks) = MemberOffset(kind, c, sec, i)

(* File-level layout invariants on a sorted list of extents <<[at, size]>> (all fixed structures and strings the decoder met) *)
ExtAligned4(ext) == \A k \in 1..Len(ext) : ext[k].what # "string" /\ ext[k].what # "constant-value" => ext[k].at % 4 = 0
ExtStringsAligned4(ext) == \A k \in 1..Len(ext) : ext[k].at % 4 = 0
ExtInBounds(ext, size) == \A k \in 1..Len(ext) : ext[k].at >= 0 /\ ext[k].at + ext[k].size <= size
ExtNoOverlap(ext) == \A k \in 1..(Len(ext) - 1) : ext[k].at + ext[k].size <= ext[k + 1].at


---------------------------------------------------------------------------
(* Part 3 (C06): the document level and the layout of a decoded file.                                                        *)
(* gdoc = [ns, version, shlib, cprefix, deps <<"Ns-Ver">>, entries <<[name, bt]>>]  top-level elements that are kept          *)
(*        (introspectable, not shadowed, not <alias>), in document order, bt = blob type the element kind maps to            *)
(* bdoc = [namespace, nsversion, shared_library, c_prefix, deps (the dependency string split at "|"), n_entries,             *)
(*         n_local_entries, local <<[name, bt]>> (directory entries with the local bit, directory order),                    *)
(*         xrefs <<[name, ns, bt, after]>> (directory entries without the local bit; after = no local entry follows)]                                           *)
PairSet(s) == {<<s[i].name, s[i].bt>> : i \in 1..Len(s)}
DocClauses(g, b) == [
    DocNamespace     |-> b.namespace = g.ns /\ b.nsversion = g.version,
    DocSharedLibrary |-> b.shared_library = g.shlib,
    DocCPrefix       |-> b.c_prefix = g.cprefix,
    DocDependencies  |-> SeqToSet(b.deps) = SeqToSet(g.deps) /\ NoDup(b.deps),
    DocEntriesSameSet |-> PairSet(b.local) = PairSet(g.entries) /\ Len(b.local) = Len(g.entries) /\ NoDup(Names(b.local)),
    DocCounts        |-> b.n_local_entries = Len(b.local) /\ b.n_entries = Len(b.local) + Len(b.xrefs),
    DocXrefs         |-> /\ \A i \in 1..Len(b.xrefs) : b.xrefs[i].bt = 0 /\ b.xrefs[i].ns # "" /\ b.xrefs[i].after
                         /\ Cardinality({<<b.xrefs[i].ns, b.xrefs[i].name>> : i \in 1..Len(b.xrefs)}) = Len(b.xrefs) ]
DocNames == {"DocNamespace", "DocSharedLibrary", "DocCPrefix", "DocDependencies", "DocEntriesSameSet", "DocCounts", "DocXrefs"}
\* what the code does beyond the statement (reported as DRIFT, never a verdict): directory order = document order
DocOrderDrift(g, b) == Names(b.local) = Names(g.entries)

(* lay = [size (bytes in the file), hsize (Header.size), sizes (the blob sizes recorded in the header), directory, attributes,   *)
(*        ext <<[at, size, what]>> sorted by at: every fixed structure, string and constant value the decoder met,           *)
(*        attr_offsets <<AttributeBlob.offset in table order>>]                                                              *)
RECURSIVE NonDecreasing(_, _)
NonDecreasing(s, k) == IF k >= Len(s) THEN TRUE ELSE s[k] <= s[k + 1] /\ NonDecreasing(s, k + 1)
LayoutClauses(lay) == [
    LayoutHeaderSizes |-> HeaderSizesMatch(lay.sizes),
    LayoutFileSize    |-> lay.hsize = lay.size,
    LayoutAligned     |-> ExtStringsAligned4(lay.ext) /\ lay.directory % 4 = 0 /\ lay.attributes % 4 = 0,
    LayoutInBounds    |-> ExtInBounds(lay.ext, lay.size),
    LayoutNoOverlap   |-> ExtNoOverlap(lay.ext),
    LayoutAttrSorted  |-> \A k \in 1..(Len(lay.attr_offsets) - 1) : lay.attr_offsets[k] <= lay.attr_offsets[k + 1] ]
LayoutNames == {"LayoutHeaderSizes", "LayoutFileSize", "LayoutAligned", "LayoutInBounds", "LayoutNoOverlap", "LayoutAttrSorted"}

(* A container blob as the decoder walked it: con = [kind, at, counts (as in part 2), members <<[sec, i, at, cbat]>>, end]       *)
(* cbat = offset of the CallbackBlob embedded after a field, 0 if none.  The format's closed form must give the same places.  *)
ContainerClauses(con) == [
    ReaderView |-> /\ \A k \in 1..Len(con.members) :
                        LET m == con.members[k] IN
                        /\ m.at = con.at + MemberOffset(con.kind, con.counts, m.sec, m.i)
                        /\ (m.cbat # 0 => m.cbat = con.at + EmbeddedCallbackOffset(con.kind, con.counts, m.i))
                   /\ con.end = con.at + FixedSize(con.kind, con.counts) ]
ContainerNames == {"ReaderView"}

(* determinism: det = [rc1, rc2, sha1, sha2]  (two runs of the compiler on the same file) *)
DetClauses(det) == [ Deterministic |-> det.rc1 = det.rc2 /\ det.sha1 = det.sha2 ]
DetNames == {"Deterministic"}
(* acceptance: acc = [rc, validated (the compiler's own g_typelib_validate did not complain), decoded (the independent decoder  *)
(* could read the file)]: whenever the compiler accepts the document the file must validate and decode                        *)
AcceptClauses(acc) == [ Validates |-> acc.rc = 0 => (acc.validated /\ acc.decoded) ]
AcceptNames == {"Validates"}

\* attributes of an enumeration member: the compiler additionally records c:identifier; the statement is silent about that
ValueAttrClauses(g, b) == [ Attributes |-> LET extra == {<<"c:identifier", g.cid>>} IN
                                           /\ AttrPairs(b.attrs) \ extra = AttrPairs(g.attrs) \ extra
                                           /\ Len(b.attrs) = Cardinality(AttrPairs(b.attrs)) ]
=============================================================================

INIT Init
NEXT Next
CONSTANTS
  EmptyPrefixBug = TRUE
  U8Mod16 = FALSE
INVARIANT EnumOK
CHECK_DEADLOCK FALSE

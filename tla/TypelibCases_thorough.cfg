INIT CInit
NEXT Next
CONSTANTS
  Dev = {}
  Kinds = {}
  Strict = TRUE
  Full = TRUE
  MaxCnt = 2
CHECK_DEADLOCK FALSE

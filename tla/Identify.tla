------------------------------ MODULE Identify ------------------------------
(***************************************************************************)
(* C03: identifier-level annotations and tags land on the right GIR        *)
(* element.  giscanner/maintransformer.py: _get_annotation_name,           *)
(* _apply_annotations_annotated/_property/_signal/_field/_constant,        *)
(* _apply_annotation_rename_to, _pair_class_virtuals, _pass_read_-         *)
(* annotations2; giscanner/girwriter.py emission.                          *)
(*                                                                         *)
(* Part A  rename-to as the state machine the second annotation pass runs  *)
(*         over the functions of the namespace in walk order.              *)
(* Part B  which block documents a virtual method (own block vs invoker).  *)
(* Part C  the association relation block(key(n)) -> attributes(n), used   *)
(*         by IdentifyTrace on observations of the real scanner.           *)
(***************************************************************************)
EXTENDS Naturals, Sequences, FiniteSets, TLC

CONSTANTS
    RefuseShadowedSource,    \* FALSE = code before the fix: a function that is already shadowed-by
                             \*         another one could still be made to shadow a third, and a function
                             \*         could rename-to itself
    OwnBlockWins             \* FALSE = code before the fix: the invoker's block was applied over
                             \*         the virtual method's own block

---------------------------------------------------------------------------
\* Part A: rename-to
Funcs == {"a", "b", "c"}
None == "-"
Targets == Funcs \cup {None, "missing"}

VARIABLES order,      \* walk order of the namespace: a permutation of Funcs as a sequence
          ann,        \* [Funcs -> Targets]: the (rename-to X) annotation of each function's block
          i,          \* position in the walk
          shadowedBy, shadows,   \* the two AST fields
          warned      \* functions whose rename-to was refused with a warning
avars == <<order, ann, i, shadowedBy, shadows, warned>>

Perms == {s \in [1..3 -> Funcs] : \A x, y \in 1..3 : x # y => s[x] # s[y]}

AInit == /\ order \in Perms /\ ann \in [Funcs -> Targets] /\ i = 1
         /\ shadowedBy = [f \in Funcs |-> None] /\ shadows = [f \in Funcs |-> None] /\ warned = {}

\* _apply_annotation_rename_to(node, chain, block), one function per step
ApplyRename ==
    /\ i <= 3
    /\ LET f == order[i]
           t == ann[f]
       IN  /\ IF t = None THEN UNCHANGED <<shadowedBy, shadows, warned>>
              ELSE IF t = "missing" THEN warned' = warned \cup {f} /\ UNCHANGED <<shadowedBy, shadows>>
              ELSE IF shadowedBy[t] # None THEN warned' = warned \cup {f} /\ UNCHANGED <<shadowedBy, shadows>>
              ELSE IF shadows[t] # None THEN warned' = warned \cup {f} /\ UNCHANGED <<shadowedBy, shadows>>
              ELSE IF RefuseShadowedSource /\ (shadowedBy[f] # None \/ t = f)
                   THEN warned' = warned \cup {f} /\ UNCHANGED <<shadowedBy, shadows>>
              ELSE /\ shadowedBy' = [shadowedBy EXCEPT ![t] = f]
                   /\ shadows' = [shadows EXCEPT ![f] = t]
                   /\ UNCHANGED warned
    /\ i' = i + 1 /\ UNCHANGED <<order, ann>>

ANext == ApplyRename
ASpec == AInit /\ [][ANext]_avars

\* what GIRWriter._write_function_common emits: shadowed-by if set, ELSE shadows
EmShadowedBy(f) == shadowedBy[f]
EmShadows(f) == IF shadowedBy[f] # None THEN None ELSE shadows[f]

\* property layer: the emitted pair is mutual
Mutual == i > 3 =>
    /\ \A f, g \in Funcs : EmShadows(f) = g => EmShadowedBy(g) = f
    /\ \A f, g \in Funcs : EmShadowedBy(g) = f => EmShadows(f) = g
\* and a rename-to that was not refused with a warning is honoured
Honoured == i > 3 => \A f \in Funcs :
    (ann[f] \in Funcs /\ f \notin warned) => (EmShadows(f) = ann[f] /\ EmShadowedBy(ann[f]) = f)

---------------------------------------------------------------------------
\* Part B: the documentation source of a virtual method
\* facts: own (the class struct has a block "ClassStruct::vfunc"), matched (an invoker method was
\* paired by name/signature or by a (virtual) annotation), invBlock (the invoker has a block)
VfuncSourceImpl(own, matched, invBlock) ==
    IF matched /\ invBlock /\ (~own \/ ~OwnBlockWins) THEN "invoker"
    ELSE IF own THEN "own" ELSE "none"
\* property: own block if there is one, else inherited from the invoker
VfuncSourceProp(own, matched, invBlock) ==
    IF own THEN "own" ELSE IF matched /\ invBlock THEN "invoker" ELSE "none"
VfuncOK == \A own, matched, invBlock \in BOOLEAN :
    VfuncSourceImpl(own, matched, invBlock) = VfuncSourceProp(own, matched, invBlock)

=============================================================================

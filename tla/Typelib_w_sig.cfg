INIT Init
NEXT Next
CONSTANTS
  Kinds = {"sig"}
  Strict = TRUE
  Full = TRUE
  MaxCnt = 1
INVARIANT BuildEncodes
CHECK_DEADLOCK FALSE

----------------------------- MODULE TypelibMC -----------------------------
(***************************************************************************)
(* Exhaustive configurations for Typelib.tla.                              *)
(*  Part 1: for every element kind the attribute cross product; TLC checks *)
(*          Build<Kind>(g) (the transcription of girparser.c/girnode.c)    *)
(*          against <Kind>Clauses (the property layer)  -- inv BuildEncodes *)
(*  Part 2: every container shape with 0..3 members per section, odd and   *)
(*          even index arrays, every subset of fields with an embedded     *)
(*          callback: the writer's cursor walk vs the format's section     *)
(*          arithmetic (MemberOffset, used by C09)       -- inv Layout*     *)
(* Known deviations of the code from the property layer are confined by    *)
(* Strict = FALSE (cases where the code is expected to agree); the         *)
(* Typelib_w_*.cfg configurations set Strict = TRUE for one kind and make  *)
(* TLC exhibit the deviation of the CURRENT code (expected to FAIL):        *)
(* w_field (field readable inverted, bits not written: known findings).    *)
(* Dev = what-if switches for the behaviours of EARLIER versions, each     *)
(* repaired by a fix: commit, each with a witness configuration that must  *)
(* FAIL: w_sig, w_prop, w_attrs, w_rattrs, w_unichar (BuildEncodes),       *)
(* w_union (InvAccessor), w_uniondep, w_boxed, w_genenum, w_genunion,      *)
(* w_gendouble, w_genstring (InvApi).                                      *)
(* The real code is judged on ALL cases (TypelibCases exports Strict).     *)
(***************************************************************************)
EXTENDS TypelibApi

CONSTANTS Dev,        \* what-if switches: behaviours of EARLIER versions of the code (each repaired by a fix: commit); {} = the code as it is
          Kinds,      \* which case families this configuration explores
          Strict,     \* TRUE: include the inputs on which the CURRENT code deviates (known findings: field readable= / bits=)
          Full,       \* TRUE: all three spellings ("", "0", "1") of every boolean attribute; FALSE: "" and "1" where "0" = ""
          MaxCnt      \* members per section in the container shapes of part 2 (0..MaxCnt)

Tri == {"", "0", "1"}
TriQ == IF Full THEN Tri ELSE {"", "1"}
Env == [ns |-> "Tst",
        aliases |-> << [ns |-> "Tst", name |-> "AInt", tbasic |-> "gint32", tns |-> "", tname |-> ""],
                       [ns |-> "Tst", name |-> "ARec", tbasic |-> "", tns |-> "", tname |-> "Rec"],
                       [ns |-> "Tst", name |-> "AChain", tbasic |-> "", tns |-> "", tname |-> "ARec"],
                       [ns |-> "Tst", name |-> "AExt", tbasic |-> "", tns |-> "GLib", tname |-> "Bytes"],
                       [ns |-> "GLib", name |-> "Quark", tbasic |-> "guint32", tns |-> "", tname |-> ""] >>,
        ptrs |-> {<<"Tst", "Dis">>}]

---------------------------------------------------------------------------
\* type nodes
Leaf(k, rns, rname, hasct, stars, gptr) ==
    [k |-> k, rns |-> rns, rname |-> rname, hasct |-> hasct, stars |-> stars, gptr |-> gptr, zt |-> "", len |-> -1, fsize |-> -1, nchild |-> 0]
CtypeShapes == {<<FALSE, 0, FALSE>>, <<TRUE, 0, FALSE>>, <<TRUE, 1, FALSE>>, <<TRUE, 2, FALSE>>, <<TRUE, 0, TRUE>>, <<TRUE, 1, TRUE>>}
BasicLeaves == {Leaf("basic", "", n, c[1], c[2], c[3]) : n \in BasicNames, c \in CtypeShapes}
Refs == {<<"", "Rec">>, <<"", "Dis">>, <<"", "En">>, <<"", "AInt">>, <<"", "ARec">>, <<"", "AChain">>, <<"", "AExt">>,
         <<"GLib", "Bytes">>, <<"GLib", "Quark">>, <<"GObject", "Object">>, <<"Tst", "Rec">>}
RefLeaves == {Leaf("ref", r[1], r[2], c[1], c[2], c[3]) : r \in Refs, c \in CtypeShapes}
ErrorLeaf == Leaf("error", "GLib", "Error", TRUE, 1, FALSE)
SomeLeaves == {Leaf("basic", "", "gint32", FALSE, 0, FALSE), Leaf("basic", "", "utf8", TRUE, 1, FALSE),
               Leaf("basic", "", "gpointer", TRUE, 0, TRUE), Leaf("ref", "", "Rec", TRUE, 1, FALSE),
               Leaf("ref", "GLib", "Bytes", TRUE, 1, FALSE), Leaf("ref", "", "AInt", FALSE, 0, FALSE),
               Leaf("basic", "", "guint8", TRUE, 0, FALSE)}
ArrayHeads == {[k |-> "array", rns |-> "", rname |-> n, hasct |-> FALSE, stars |-> 0, gptr |-> FALSE, zt |-> z, len |-> l, fsize |-> f, nchild |-> c] :
                  n \in {"", "Array", "PtrArray", "ByteArray"}, z \in Tri, l \in {-1, 0, 2}, f \in {-1, 4}, c \in {0, 1}}
ListHeads == {[k |-> kk, rns |-> "GLib", rname |-> "", hasct |-> TRUE, stars |-> 1, gptr |-> FALSE, zt |-> "", len |-> -1, fsize |-> -1, nchild |-> c] :
                  kk \in {"glist", "gslist"}, c \in {0, 1}}
HashHeads == {[k |-> "ghash", rns |-> "GLib", rname |-> "", hasct |-> TRUE, stars |-> 1, gptr |-> FALSE, zt |-> "", len |-> -1, fsize |-> -1, nchild |-> c] : c \in {0, 2}}
Arity(h) == IF h.k = "ghash" THEN h.nchild ELSE h.nchild
Depth1 == {<<l>> : l \in BasicLeaves \cup RefLeaves \cup {ErrorLeaf}}
Depth2 == {<<h>> : h \in {x \in ArrayHeads \cup ListHeads \cup HashHeads : x.nchild = 0}}
          \cup {<<h, l>> : h \in {x \in ArrayHeads \cup ListHeads : x.nchild = 1}, l \in SomeLeaves}
          \cup {<<h, l1, l2>> : h \in {x \in HashHeads : x.nchild = 2}, l1 \in SomeLeaves, l2 \in SomeLeaves}
SmallHeads == {x \in ArrayHeads : x.nchild = 1 /\ x.zt = "" /\ x.rname \in {"", "PtrArray"} /\ x.fsize = -1} \cup {x \in ListHeads : x.nchild = 1}
Depth3 == {<<h1, h2, l>> : h1 \in SmallHeads, h2 \in SmallHeads, l \in SomeLeaves}
          \cup {<<h, l, h2, l2>> : h \in {x \in HashHeads : x.nchild = 2}, l \in {Leaf("basic", "", "utf8", TRUE, 1, FALSE)},
                                   h2 \in SmallHeads, l2 \in SomeLeaves}
TypeShapes == Depth1 \cup Depth2 \cup Depth3
Ctxs == {[out |-> FALSE, field |-> FALSE], [out |-> TRUE, field |-> FALSE], [out |-> FALSE, field |-> TRUE]}
TypeCases == {[type |-> t, ctx |-> c] : t \in TypeShapes, c \in Ctxs}

Int32T == <<Leaf("basic", "", "gint32", FALSE, 0, FALSE)>>
Utf8T == <<Leaf("basic", "", "utf8", TRUE, 1, FALSE)>>
RecT == <<Leaf("ref", "", "Rec", TRUE, 1, FALSE)>>

---------------------------------------------------------------------------
\* the interacting attributes (direction, caller-allocates, allow-none, nullable, optional) x transfer x scope exhaustively;
\* the four independent ones (closure, destroy, skip, retval) through a covering set of joint values
Indep == {<<-1, -1, "", "">>, <<0, 1, "1", "1">>, <<2, -1, "1", "">>, <<-1, 1, "0", "0">>, <<1, 0, "", "1">>, <<1, 2, "", "">>}
ArgCases == {[name |-> "a", dir |-> d, ca |-> ca, allow_none |-> an, nullable |-> nu, optional |-> op, transfer |-> tr, scope |-> sc,
              closure |-> x[1], destroy |-> x[2], skip |-> x[3], retval |-> x[4], type |-> Utf8T] :
                d \in {"", "in", "out", "inout"}, ca \in TriQ, an \in TriQ, nu \in TriQ, op \in TriQ, tr \in {"none", "container", "full"},
                sc \in {"", "call", "async", "notified", "forever"}, x \in Indep}

SigCases == {[ckind |-> k, transfer |-> tr, nullable |-> nu, allow_none |-> an, skip |-> sk, throws |-> th, inst |-> it,
              params |-> ps, rtype |-> rt] :
                k \in {"function", "method", "constructor", "callback", "signal", "vfunc"}, tr \in {"none", "container", "full"},
                nu \in TriQ, an \in {"", "1"}, sk \in TriQ, th \in TriQ, it \in {"", "none", "full"},
                ps \in {<<>>, <<"a", "b", "c">>}, rt \in (IF Full THEN {Int32T, RecT} ELSE {RecT})}
\* a callback or plain function has no instance parameter
SigAgrees(g) == g.ckind \in {"function", "callback"} => g.inst = ""
SigCasesOK == {g \in SigCases : SigAgrees(g)}

Props3 == <<"pa", "pb", "pc">>
FnCases == {[ckind |-> k, name |-> "f", shadows |-> sh, cid |-> "tst_f", deprecated |-> dp, throws |-> th, setprop |-> sp,
             getprop |-> gp, props |-> Props3] :
                k \in {"function", "method", "constructor"}, sh \in {"", "g"}, dp \in Tri, th \in Tri,
                sp \in {"", "pa", "pc"}, gp \in {"", "pb"}}

Methods3 == <<"ma", "mb", "mc">>
PropCases == {[name |-> "p", readable |-> r, writable |-> w, construct |-> c, construct_only |-> co, transfer |-> tr,
               setter |-> s, getter |-> gt, deprecated |-> "", methods |-> Methods3, type |-> ty] :
                r \in Tri, w \in TriQ, c \in TriQ, co \in TriQ, tr \in {"", "none", "container", "full"},
                s \in {"", "ma", "mc"}, gt \in {"", "mb"}, ty \in {Int32T, Utf8T}}
PropCasesAll == PropCases \cup {[p EXCEPT !.deprecated = "1"] : p \in {q \in PropCases : q.construct = "" /\ q.construct_only = "" /\ q.type = Int32T}}

SignalCases == {[name |-> "s", when |-> w, no_recurse |-> nr, detailed |-> d, action |-> a, no_hooks |-> nh, deprecated |-> dp] :
                  w \in {"", "first", "last", "cleanup", "FIRST", "LAST", "CLEANUP"}, nr \in TriQ, d \in TriQ, a \in TriQ, nh \in TriQ, dp \in Tri}
VFuncCases == {[name |-> "v", invoker |-> i, offset |-> o, throws |-> th, methods |-> Methods3] :
                  i \in {"", "ma", "mc"}, o \in {-1, 0, 16, 65534}, th \in Tri}
FieldCases == {[name |-> "f", readable |-> r, writable |-> w, bits |-> b, intro |-> i, cb |-> c, type |-> ty] :
                  r \in Tri, w \in Tri, b \in {-1, 0, 3}, i \in BOOLEAN, c \in BOOLEAN, ty \in {Int32T, RecT}}
FieldAgrees(g) == g.readable = "" /\ g.bits <= 0       \* readable="0"/"1" are inverted, bits is not written
FieldCasesOK == {g \in FieldCases : FieldAgrees(g)}

Mags == {<<0, 0, 0, 0>>, <<1, 0, 0, 0>>, <<65535, 0, 0, 0>>, <<0, 1, 0, 0>>, <<65535, 32767, 0, 0>>, <<0, 32768, 0, 0>>,
         <<65535, 65535, 0, 0>>, <<0, 0, 1, 0>>, <<5, 0, 1, 0>>}
ValueCases == {c \in {[name |-> "v", v |-> [neg |-> n, l |-> m], deprecated |-> d, cid |-> "TST_V"] : n \in BOOLEAN, m \in Mags, d \in Tri} :
                  ~(c.v.neg /\ c.v.l = Zero4)}

OneAttr == <<[name |-> "k", value |-> "v"]>>
AttrCases == {[role |-> r, attrs |-> a] : r \in AttrRoles, a \in {<<>>, OneAttr, OneAttr \o <<[name |-> "k2", value |-> ""]>>}}
ConstTags == (1..11) \cup {21}
ApiCases == {[infoKind |-> ik[1], bt |-> ik[2], bit |-> b, methods |-> ms, class |-> cl] :
                ik \in {<<"struct", 3>>, <<"boxed", 4>>, <<"enum", 5>>, <<"flags", 6>>, <<"object", 7>>, <<"interface", 8>>, <<"union", 11>>},
                b \in {0, 1}, ms \in {<<>>, <<"m0", "m1">>}, cl \in ConstClasses}

---------------------------------------------------------------------------
\* container shapes for part 2
Cnt == 0..MaxCnt
CbSubsets == UNION {[1..n -> BOOLEAN] : n \in 0..MaxCnt}
Shapes(kind) ==
    CASE kind = "object" -> {[ni |-> ni, cbs |-> cb, np |-> np, nm |-> nm, ns |-> ns, nv |-> nv, nc |-> nc, nvals |-> 0] :
                                ni \in Cnt, cb \in CbSubsets, np \in Cnt, nm \in Cnt, ns \in Cnt, nv \in Cnt, nc \in Cnt}
      [] kind = "interface" -> {[ni |-> ni, cbs |-> <<>>, np |-> np, nm |-> nm, ns |-> ns, nv |-> nv, nc |-> nc, nvals |-> 0] :
                                ni \in Cnt, np \in Cnt, nm \in Cnt, ns \in Cnt, nv \in Cnt, nc \in Cnt}
      [] kind \in {"struct", "union"} -> {[ni |-> 0, cbs |-> cb, np |-> 0, nm |-> nm, ns |-> 0, nv |-> 0, nc |-> 0, nvals |-> 0] :
                                cb \in CbSubsets, nm \in Cnt}
      [] kind = "enum" -> {[ni |-> 0, cbs |-> <<>>, np |-> 0, nm |-> nm, ns |-> 0, nv |-> 0, nc |-> 0, nvals |-> nv] : nv \in Cnt, nm \in Cnt}
ContainerKinds == {"object", "interface", "struct", "union", "enum"}

---------------------------------------------------------------------------
VARIABLES kind, g
vars == <<kind, g>>
Init == \/ kind = "arg" /\ "arg" \in Kinds /\ g \in ArgCases
        \/ kind = "type" /\ "type" \in Kinds /\ g \in TypeCases
        \/ kind = "sig" /\ "sig" \in Kinds /\ g \in SigCasesOK
        \/ kind = "function" /\ "function" \in Kinds /\ g \in FnCases
        \/ kind = "property" /\ "property" \in Kinds /\ g \in PropCasesAll
        \/ kind = "signal" /\ "signal" \in Kinds /\ g \in SignalCases
        \/ kind = "vfunc" /\ "vfunc" \in Kinds /\ g \in VFuncCases
        \/ kind = "field" /\ "field" \in Kinds /\ g \in (IF Strict THEN FieldCases ELSE FieldCasesOK)
        \/ kind = "value" /\ "value" \in Kinds /\ g \in ValueCases
        \/ kind = "attrs" /\ "attrs" \in Kinds /\ g \in AttrCases
        \/ kind = "constsize" /\ "constsize" \in Kinds /\ g \in ConstTags
        \/ kind = "api" /\ "api" \in Kinds /\ g \in ApiCases
        \/ \E k \in ContainerKinds : kind = k /\ "layout" \in Kinds /\ g \in Shapes(k)
Next == UNCHANGED vars

All(cl, names) == \A c \in names : cl[c]
BuildEncodes ==
    CASE kind = "arg" -> All(ArgClauses(Env, g, BuildArg(Env, g)), ArgNames)
      [] kind = "type" -> TypeOK(Env, g.ctx, g.type, BuildType(Env, g.ctx, g.type))
      [] kind = "sig" -> All(SigClauses(Env, g, BuildSig(Env, g, Dev)), SigNames)
      [] kind = "function" -> All(FunctionClauses(g, BuildFunction(g)), FunctionNames)
      [] kind = "property" -> All(PropertyClauses(Env, g, BuildProperty(Env, g, Dev)), PropertyNames)
      [] kind = "signal" -> All(SignalClauses(g, BuildSignal(g)), SignalNames)
      [] kind = "vfunc" -> All(VFuncClauses(g, BuildVFunc(g)), VFuncNames)
      [] kind = "field" -> All(FieldClauses(Env, g, BuildField(Env, g)), FieldNames)
      [] kind = "value" -> All(ValueClauses(g, BuildValue(g)), ValueNames)
      [] kind = "attrs" -> AttrClauses(g, BuildAttrs(g.role, g, Dev)).Attributes
      [] kind = "constsize" -> BuildConstSize(g, Dev) = ConstSizeOfTag(g)
      [] OTHER -> TRUE

IsShape == kind \in ContainerKinds
\* Aligned4 /\ InBounds /\ NoOverlap /\ NoHole /\ ReaderMeetsWriter on one evaluation of the writer's walk
InvLayout == IsShape => LayoutAll(kind, g)
\* the C accessors (as transcribed in Typelib!AccessorOffset) compute the place the format prescribes.  "union_multiplies": the
\* union arithmetic of before fix f2204c4 (plain multiplication, embedded CallbackBlobs ignored)
InvAccessor == IsShape => AccessorsMeetFormat(kind, g, "union_multiplies" \notin Dev)
\* the other accessors / g-ir-generate, where they are more than a field read (TypelibApi part 4b)
InvApi == kind = "api" => ImplMeetsApi(g, Dev)
\* sanity of the type vocabulary: what Build produces for an interface reference names a (namespace, name) pair
InvTypeSane == kind = "type" => \A i \in 1..Len(BuildType(Env, g.ctx, g.type)) :
                  LET n == BuildType(Env, g.ctx, g.type)[i] IN (n.tag = 16) => (n.rname # "" /\ n.rns # "")
=============================================================================

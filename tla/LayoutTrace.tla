---------------------------- MODULE LayoutTrace ----------------------------
(***************************************************************************)
(* C08 on observations of the REAL code (batch idiom, DESIGN A.2).  Every  *)
(* record is one declaration that was rendered both as a GIR element,      *)
(* compiled by the g-ir-compiler built from the working tree, and as a C   *)
(* declaration compiled by gcc on this machine:                            *)
(*                                                                         *)
(*  rk = "layout": [id, rk, kind ("struct"|"union"), ms (members, the      *)
(*       records of Layout.tla), produced (a typelib was written), via     *)
(*       ("compiler": the real g-ir-compiler, warnings are fatal;          *)
(*        "lenient": the same sources with g_log_set_always_fatal          *)
(*        neutralised, so that what the library RECORDS for unsizable      *)
(*        members can be seen),                                            *)
(*       tl  = [size, align, offs]  StructBlob/UnionBlob.size (as int32),  *)
(*             .alignment, FieldBlob.struct_offset per member of ms (-2:   *)
(*             no field), decoded from the bytes by harness/tlabs.py,      *)
(*       api = [ok, size, align, offs] the same through                    *)
(*             g_struct_info_get_size/_alignment, g_union_info_*,          *)
(*             g_field_info_get_offset (harness/cdrv/drv_c08.c),           *)
(*       gcc = [ok, size, align, offs, signed] sizeof/_Alignof/offsetof]   *)
(*  rk = "enum":   [.., lo, hi (ranks of the smallest/largest enumerator), *)
(*       produced, storage (EnumBlob.storage_type), api.size =             *)
(*       g_enum_info_get_storage_type, gcc = [ok, size, signed, ..]]       *)
(*                                                                         *)
(* Clauses: the property layer of Layout.tla, literally.  SPEC_* clauses   *)
(* calibrate the ABI transcription against gcc: their failure is a         *)
(* MACHINERY failure, never a violation.  DRIFT_* compare the              *)
(* implementation-shaped layer with the observation: a note, no verdict.   *)
(***************************************************************************)
EXTENDS Layout, Json, IOUtils, SequencesExt

Obs == JsonDeserialize(IOEnv.TRACE_FILE)
Idx == 1..Len(Obs)

IsL(r) == r.rk = "layout"
IsE(r) == r.rk = "enum"
\* the observation as seen through the repository API
ViaApi(r) == [r EXCEPT !.tl = [size |-> r.api.size, align |-> r.api.align, offs |-> r.api.offs]]

LayoutClauses == {"TypelibEqualsGcc", "ApiEqualsGcc", "ApiReads", "Compiled", "UnknownAsUnknown", "ApiUnknownAsUnknown"}
EnumClauses   == {"EnumSizeEqualsGcc", "EnumSignEqualsGcc", "ApiEnumStorage"}
SpecClauses   == {"SPEC_LayoutEqualsGcc", "SPEC_EnumEqualsGcc"}
DriftClauses  == {"DRIFT_ImplLayout", "DRIFT_ImplEnum"}
ClauseNames   == LayoutClauses \cup EnumClauses \cup SpecClauses \cup DriftClauses

Antecedent(r, c) ==
    CASE c = "TypelibEqualsGcc"      -> IsL(r) /\ Known(r) /\ r.produced /\ r.gcc.ok
      [] c = "ApiEqualsGcc"          -> IsL(r) /\ Known(r) /\ r.produced /\ r.gcc.ok /\ r.api.ok
      [] c = "Compiled"              -> IsL(r) /\ Known(r)
      [] c = "ApiReads"              -> r.produced
      [] c = "UnknownAsUnknown"      -> IsL(r) /\ ~Known(r) /\ r.produced
      [] c = "ApiUnknownAsUnknown"   -> IsL(r) /\ ~Known(r) /\ r.produced /\ r.api.ok
      [] c = "EnumSizeEqualsGcc"     -> IsE(r) /\ r.produced
      [] c = "EnumSignEqualsGcc"     -> IsE(r) /\ r.produced
      [] c = "ApiEnumStorage"        -> IsE(r) /\ r.produced /\ r.api.ok
      [] c = "SPEC_LayoutEqualsGcc"  -> IsL(r)
      [] c = "SPEC_EnumEqualsGcc"    -> IsE(r)
      [] c = "DRIFT_ImplLayout"      -> IsL(r)
      [] c = "DRIFT_ImplEnum"        -> IsE(r) /\ r.produced

Clause(r, c) ==
    CASE c = "TypelibEqualsGcc"      -> IsL(r) => TypelibEqualsGcc(r)
      [] c = "ApiEqualsGcc"          -> (IsL(r) /\ r.api.ok) => TypelibEqualsGcc(ViaApi(r))
      [] c = "Compiled"              -> IsL(r) => Compiled(r)
      \* what the compiler stored can be read back through the repository API at all (no crash, an answer for the declaration)
      [] c = "ApiReads"              -> r.produced => r.api.ok
      [] c = "UnknownAsUnknown"      -> IsL(r) => UnknownRecordedAsUnknown(r)
      [] c = "ApiUnknownAsUnknown"   -> (IsL(r) /\ r.api.ok) => UnknownRecordedAsUnknown(ViaApi(r))
      [] c = "EnumSizeEqualsGcc"     -> IsE(r) => EnumSizeEqualsGcc([r EXCEPT !.gcc = [size |-> r.gcc.size, signed |-> r.gcc.signed]])
      [] c = "EnumSignEqualsGcc"     -> IsE(r) => EnumSignEqualsGcc([r EXCEPT !.gcc = [size |-> r.gcc.size, signed |-> r.gcc.signed]])
      \* the API reports the stored storage type, and its width/signedness are gcc's
      [] c = "ApiEnumStorage"        -> (IsE(r) /\ r.produced /\ r.api.ok) =>
                                           /\ StorageSize(r.api.size) = r.gcc.size
                                           /\ StorageSigned(r.api.size) = r.gcc.signed
      [] c = "SPEC_LayoutEqualsGcc"  -> IsL(r) => SpecEqualsGcc(r)
      [] c = "SPEC_EnumEqualsGcc"    -> IsE(r) => (r.gcc.ok /\ EnumSpecEqualsGcc(r))
      [] c = "DRIFT_ImplLayout"      -> IsL(r) =>
                                           LET E == Encode(ImplLayout(r.kind, r.ms), r.via = "compiler") IN
                                           /\ r.produced = E.produced
                                           /\ r.produced => /\ r.tl.size = E.size /\ r.tl.align = E.align
                                                            /\ r.tl.offs = ExpandOffs(r.ms, E.offs, 1, 1)
      [] c = "DRIFT_ImplEnum"        -> (IsE(r) /\ r.produced) => r.storage = TagNum[EnumImplTag(r.lo, r.hi)]

\* class of the failing input (part of the signature of a finding)
Detail(r, c) ==
    IF IsE(r) THEN EnumRangeClass(r.lo, r.hi)
    ELSE IF HasAnon(r.ms) THEN "anonymous-struct-or-union-member"
    ELSE IF HasAnyHidden(r.ms) THEN "member-type-not-described"
    ELSE IF ~Known(r) THEN "void-member"
    ELSE IF r.gcc.ok /\ \E j \in 1..Len(r.gcc.offs) : r.gcc.offs[j] >= 65535 THEN "offset-beyond-16-bits"
    ELSE IF HasWideEnum(r.ms) THEN "member-enum-beyond-32-bits"
    ELSE IF HasUnionCallback(r.kind, r.ms) THEN "inline-callback-in-union"
    ELSE "plain"

Failing(r) == {c \in ClauseNames : ~Clause(r, c)}
Rejected == UNION { {<<Obs[i].id, c, Detail(Obs[i], c)>> : c \in Failing(Obs[i])} : i \in Idx }
Exercised == [c \in ClauseNames |-> Cardinality({i \in Idx : Antecedent(Obs[i], c)})]

ASSUME JsonSerialize(IOEnv.VERDICT_FILE, [n |-> Len(Obs), rejected |-> SetToSeq(Rejected), exercised |-> Exercised])

VARIABLE done
Init == done = FALSE
Next == ~done /\ done' = TRUE
=============================================================================

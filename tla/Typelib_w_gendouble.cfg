INIT Init
NEXT Next
CONSTANTS
  Dev = {"gen_percent_f"}
  Kinds = {"api"}
  Strict = FALSE
  Full = FALSE
  MaxCnt = 1
INVARIANT InvApi
CHECK_DEADLOCK FALSE

SPECIFICATION Spec
CONSTANTS
  Dev = {"NoMovedTo"}
  Mode = "pairq"
  AnnSet = {"-"}
INVARIANT I_Once
CHECK_DEADLOCK FALSE

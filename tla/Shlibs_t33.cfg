INIT MCInit
NEXT MCNext
CONSTANTS
  Themes = {"foo3", "pango3", "meta3"}
  ML = 3
  MW = 3
  EML = 2
  EMW = 2
  LaML = 0
  Extras = FALSE
  Variant = "asis"
  Gran = "case"
  Cases <- MC_None
  LaCases <- MC_None
CHECK_DEADLOCK FALSE
ALIAS Alias
INVARIANT TypeOK
INVARIANT Inv_Property
INVARIANT Inv_EqualsResolve

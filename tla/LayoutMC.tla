------------------------------ MODULE LayoutMC ------------------------------
(* Exhaustive configurations for Layout: TLC checks implementation layer => property layer
   (the clauses of Layout evaluated on the observation the implementation layer predicts, with
   the ABI layer in the role of gcc), plus sanity invariants of the ABI layer itself.
   Mode selects the case space:
     "flat"  all member sequences of length <= 4 over 14 member kinds (depth <= 2), struct and union
     "nest"  all sequences of length <= 2 over 230 members: 10 leaves and every struct/union of
             1..2 leaves (leaves include arrays and the unknown member) -- nesting depth 2 (+arrays)
     "misc"  every enumeration value range over the 34 valid ranks; environments of 2-3 named
             declarations referring to each other (sharing, cycles, unresolved names);
             arrays of structs/unions, arrays of arrays, empty structs
     "anon"  anonymous inline struct/union members   (impl /= ABI: witness of a finding)
     "wide"  members that are enumerations needing 64 bits (with EnumCap32 = TRUE, the code before fix
             7607f22, impl /= ABI: what-if witness)
     "ucb"   inline callback members of unions (with UnionFieldCallback = FALSE, the code before fix
             927c0d9, the parser aborts: what-if witness)
     "hidden" by-value members whose type the GIR does not describe (impl /= property: witness)
   Small = TRUE shrinks "nest" (5 leaves instead of 10) and drops the environments of "misc":
   the quick tier.  FlatLen bounds the sequence length of "flat". *)
EXTENDS Layout
CONSTANTS Mode, FlatLen, Small

Seqs(S, n) == UNION {[1..k -> S] : k \in 0..n}
Seqs1(S, n) == UNION {[1..k -> S] : k \in 1..n}
Kinds2 == {"struct", "union"}
LCase(kd, s) == [kind |-> kd, ms |-> s, lo |-> 0, hi |-> 0, env |-> <<>>]

K14 == { Sc("uint8"), Sc("int16"), Sc("int"), Sc("long"), Sc("float"), Sc("double"), Sc("pointer"), Sc("boolean"),
         En(R("-1"), R("1")), Sc("callback"), Sc("unknown"), Arr(3, Sc("uint8")),
         St(<<Sc("uint8"), Arr(2, Sc("int16"))>>), Un(<<Sc("double"), Arr(3, Sc("uint8"))>>) }

A3 == {Sc("uint8"), Sc("int32"), Sc("double")}
I10 == IF Small THEN A3 \cup {Arr(3, Sc("uint8")), Sc("unknown")}
       ELSE A3 \cup {Arr(n, a) : n \in {1, 3}, a \in A3} \cup {Sc("unknown")}
Inner == {St(s) : s \in Seqs1(I10, 2)} \cup {Un(s) : s \in Seqs1(I10, 2)}

\* misc: arrays of composites, empty struct, every scalar kind once, pointer flavours
S1 == St(<<Sc("uint8"), Sc("int32")>>)
U1 == Un(<<Sc("uint8"), Arr(3, Sc("uint8"))>>)
M8 == { Arr(2, S1), Arr(3, U1), Arr(2, Arr(3, Sc("int16"))), Arr(2, Arr(2, S1)), St(<<>>), Arr(2, En(R("0"), R("255"))),
        St(<<Sc("uint8"), St(<<Sc("int16"), Un(<<Sc("double"), Sc("uint8")>>)>>)>>), Arr(2, Sc("cbref")) }
AllScalars == {Sc(k) : k \in ScalarKinds}
\* environments of named declarations
EM2 == {Sc("uint8"), Sc("double"), Ref(1), Ref(2), Ref(3), Sc("unknown"), Arr(2, Ref(1))}      \* Ref(3) is unresolved
Decl2 == {[kind |-> kd, ms |-> s] : kd \in Kinds2, s \in Seqs1(EM2, 2)}
EM3 == {Sc("uint8"), Ref(1), Ref(2), Ref(3)}
Decl3 == {[kind |-> "struct", ms |-> s] : s \in Seqs1(EM3, 2)}

\* The case space is grown as a tree (one member / declaration / bound appended per step) so that
\* TLC's workers share the work; every state is one case and the invariants are checked on each.
Members == CASE Mode = "flat" -> K14
             [] Mode = "nest" -> I10 \cup Inner
             [] Mode = "misc" -> M8 \cup {Sc("uint8"), Sc("double")}
             [] Mode = "anon" -> {Sc("uint8"), Sc("double"), ASt(<<Sc("int32"), Sc("uint8")>>), AUn(<<Sc("double"), Sc("uint8")>>)}
             [] Mode = "wide" -> {Sc("uint8"), Sc("int32"), En(R("0"), R("4294967296")), En(R("-1"), R("2147483648")),
                                  En(R("-2147483649"), R("0"))}
             [] Mode = "ucb" -> {Sc("uint8"), Sc("double"), Sc("callback"), Un(<<Sc("callback"), Sc("uint8")>>), Sc("cbref")}
             [] Mode = "hidden" -> {Sc("uint8"), Sc("double"), Sc("hid3"), Sc("hid8"), Sc("hid12"), Sc("hid16")}
             [] OTHER -> {}
MaxLen == CASE Mode = "flat" -> FlatLen [] Mode = "nest" -> 2 [] OTHER -> 3

VARIABLE c
Init == \/ c \in {LCase(kd, <<>>) : kd \in Kinds2}
        \/ Mode = "misc" /\ \/ c \in {LCase(kd, <<Sc("uint8"), a, Sc("uint8")>>) : kd \in Kinds2, a \in AllScalars}
                             \/ c \in {[kind |-> "enum", ms |-> <<>>, lo |-> l, hi |-> l, env |-> <<>>] : l \in ValidRanks}
                             \/ (~Small /\ c \in {[kind |-> "env", ms |-> <<>>, lo |-> 2, hi |-> 0, env |-> <<a>>] : a \in Decl2})
                             \/ (~Small /\ c \in {[kind |-> "env", ms |-> <<>>, lo |-> 3, hi |-> 0, env |-> <<a>>] : a \in Decl3})
Next == \/ /\ c.kind \in Kinds2 /\ Len(c.ms) < MaxLen
           /\ \E m \in Members : c' = [c EXCEPT !.ms = Append(@, m)]
        \/ /\ c.kind = "enum" /\ c.lo = c.hi
           /\ \E h \in ValidRanks : h > c.lo /\ c' = [c EXCEPT !.hi = h]
        \/ /\ c.kind = "env" /\ Len(c.env) < c.lo
           /\ \E d \in (IF c.lo = 2 THEN Decl2 ELSE Decl3) : c' = [c EXCEPT !.env = Append(@, d)]

---------------------------------------------------------------------------
IsLayout == c.kind \in Kinds2
\* the observation the implementation layer predicts; the ABI layer stands in for gcc
ObsOf(kd, ms, wf) ==
    LET A == CLayout(kd, ms)
        E == Encode(ImplLayout(kd, ms), wf) IN
    [kind |-> kd, ms |-> ms, produced |-> E.produced,
     tl |-> [size |-> E.size, align |-> E.align, offs |-> IF E.produced THEN ExpandOffs(ms, E.offs, 1, 1) ELSE <<>>],
     gcc |-> [ok |-> A.known, size |-> A.size, align |-> A.align, offs |-> A.offs]]
PropertyOn(r) == TypelibEqualsGcc(r) /\ Compiled(r) /\ UnknownRecordedAsUnknown(r)
\* outside: the recorded deviations of the implementation layer (each has a witness configuration)
InStatement(kd, ms) == /\ ~HasAnon(ms) /\ ~HasHidden(ms)
                       /\ EnumCap32 => ~HasWideEnum(ms)
                       /\ ~UnionFieldCallback => ~HasUnionCallback(kd, ms)

Sane == IsLayout => IF c.kind = "union" THEN SaneUnion(c.ms) ELSE SaneStruct(c.ms)
\* implementation layer => property layer, for g-ir-compiler (warnings fatal) and for the library code
\* running to completion (warnings not fatal)
ImplSatisfiesProperty == (IsLayout /\ InStatement(c.kind, c.ms)) => PropertyOn(ObsOf(c.kind, c.ms, TRUE)) /\ PropertyOn(ObsOf(c.kind, c.ms, FALSE))
ImplSatisfiesPropertyAll == IsLayout => PropertyOn(ObsOf(c.kind, c.ms, TRUE)) /\ PropertyOn(ObsOf(c.kind, c.ms, FALSE))   \* witness configs
\* what the implementation layer says beyond the property: g-ir-compiler produces a typelib exactly
\* for the declarations it can size, and the unknown encoding is size -1 / alignment 63 / 0xFFFF
ImplShape == IsLayout =>
    LET L == ImplLayout(c.kind, c.ms) IN
    /\ (L.st = "fatal") = ParserAborts(c.kind, c.ms)
    /\ Encode(L, TRUE).produced = (L.st = "ok")
    /\ (InStatement(c.kind, c.ms) => ((L.st = "ok") = AbiLayout(c.kind, c.ms).known))
    /\ L.st = "unknown" => LET E == Encode(L, FALSE) IN E.size = -1 /\ E.align = 63
    /\ L.st = "ok" => IsPow2(L.align)                        \* GI_ALIGN's precondition
\* the anonymous members are simply absent from what the implementation computes
AnonDropped == (IsLayout /\ ~ParserAborts(c.kind, c.ms)) => ImplLayout(c.kind, c.ms) = ImplLayout(c.kind, ParsedMembers(c.ms))

EnumImplSize(l, h) == StorageSize(TagNum[EnumImplTag(l, h)])
EnumImplSigned(l, h) == StorageSigned(TagNum[EnumImplTag(l, h)])
EnumOK == (c.kind = "enum" /\ (EnumCap32 => ~EnumWide(c.lo, c.hi))) =>
             EnumImplSize(c.lo, c.hi) = EnumAbi(c.lo, c.hi).size /\ EnumImplSigned(c.lo, c.hi) = EnumAbi(c.lo, c.hi).signed
EnumOKAll == c.kind = "enum" => EnumImplSize(c.lo, c.hi) = EnumAbi(c.lo, c.hi).size       \* witness
\* the recorded deviation, exactly: compute_enum_storage_type never goes beyond 4 bytes
EnumWideIs4 == (EnumCap32 /\ c.kind = "enum" /\ EnumWide(c.lo, c.hi)) =>
                  /\ EnumImplSize(c.lo, c.hi) = 4
                  /\ EnumRangeClass(c.lo, c.hi) # "fits-32-bits"
                  /\ EnumImplSigned(c.lo, c.hi) = EnumAbi(c.lo, c.hi).signed
EnumClassExact == c.kind = "enum" => (EnumWide(c.lo, c.hi) <=> EnumRangeClass(c.lo, c.hi) # "fits-32-bits")

\* named declarations: expand references (cycle / dangling become unsizable leaves)
RECURSIVE Unfold(_, _, _), UnfoldSeq(_, _, _)
Unfold(env, m, fuel) ==
    IF m.k = "ref"
    THEN IF m.n \notin 1..Len(env) THEN Sc("dangling")
         ELSE IF fuel = 0 THEN Sc("cycle")
         ELSE Mk(env[m.n].kind, 0, 0, 0, UnfoldSeq(env, env[m.n].ms, fuel - 1))
    ELSE IF m.sub = <<>> THEN m ELSE [m EXCEPT !.sub = UnfoldSeq(env, m.sub, fuel)]
UnfoldSeq(env, ms, fuel) == [i \in 1..Len(ms) |-> Unfold(env, ms[i], fuel)]
EnvOK == c.kind = "env" => \A i \in 1..Len(c.env) :
    LET L == ImplNode(c.env, {}, i)
        U == UnfoldSeq(c.env, c.env[i].ms, Len(c.env))
        A == AbiLayout(c.env[i].kind, U) IN
    /\ (L.st = "ok") => (A.known /\ L.size = A.size /\ L.align = A.align /\ L.offs = A.offs)
    /\ A.known => L.st = "ok"
    /\ L.st = "fatal" => HasKind(U, {"dangling"})
    /\ (HasKind(U, {"cycle"}) /\ ~HasKind(U, {"dangling"})) => L.st = "unknown"     \* a cycle is never given a concrete layout
=============================================================================

------------------------------ MODULE CacheProp ------------------------------
(***************************************************************************)
(* C18 at the public API: one record per CacheStore.load() call observed   *)
(* on the real code, with the ground truth the harness knows from driving  *)
(* the run (which source versions were current at call and return, whether *)
(* an mtime was ever stamped on superseded content of the inode read).     *)
(* Used for every run (NoRaise, InRange) and as the fallback verdict for   *)
(* runs that no longer follow the implementation-shaped layer (DRIFT).     *)
(***************************************************************************)
EXTENDS Naturals, Sequences, FiniteSets, TLC, Json, IOUtils, SequencesExt

Obs == JsonDeserialize(IOEnv.TRACE_FILE)

\* [id, p, startVer, endVer, k, ver, raised, stampStale, statMtime, srcStatMtime, mustPurge, checkedAt, inoPutAt]
\* statMtime / srcStatMtime: the stat results load() itself obtained for the entry and the source (-1: it did not stat)
Stale(r) == r.k = "data" /\ r.ver < r.startVer
Validated(r) == r.statMtime >= 0 /\ r.srcStatMtime >= 0
Cause(r) == IF ~Validated(r) THEN "not_validated"
            ELSE IF r.statMtime < r.srcStatMtime THEN "older_entry_used"
            ELSE IF r.statMtime = r.srcStatMtime THEN "equal_mtime"
            ELSE IF r.stampStale THEN "stamp_on_superseded" ELSE "other"

Clauses(r) == [
    NoRaise  |-> ~r.raised,                                   \* broken entries are discarded, never raised
    InRange  |-> r.k = "data" => (r.ver >= 1 /\ r.ver <= r.endVer),   \* a complete parse of a real version
    NoStale  |-> ~Stale(r),
    \* "an entry older than its source file is never used" -- on the stat results the code itself saw
    OlderNeverUsed |-> (r.k = "data" /\ Validated(r)) => r.statMtime >= r.srcStatMtime,
    \* "a change of scanner version discards all entries"
    \* checkedAt: where this process itself looked and found another version's stamp (mustPurge), or,
    \* when it found its own version's stamp, where the process that WROTE that stamp had looked
    NoCrossVersion |-> (r.k = "data" /\ (r.mustPurge \/ r.checkedAt > 0)) => r.inoPutAt >= r.checkedAt ]

Names == {"NoRaise", "InRange", "NoStale", "OlderNeverUsed", "NoCrossVersion"}
Rejected == { <<Obs[i].id, c, IF c = "NoStale" THEN Cause(Obs[i]) ELSE "-">> :
                 <<i, c>> \in { q \in (1..Len(Obs)) \X Names : ~Clauses(Obs[q[1]])[q[2]] } }
Exercised == [c \in Names |-> Cardinality({i \in 1..Len(Obs) : Obs[i].k = "data" \/ c = "NoRaise"})]

ASSUME JsonSerialize(IOEnv.VERDICT_FILE, [n |-> Len(Obs), rejected |-> SetToSeq(Rejected), exercised |-> Exercised])

VARIABLE done
Init == done = FALSE
Next == ~done /\ done' = TRUE
=============================================================================

INIT Init
NEXT Next
CONSTANTS
  Dev = {"prop_deprecated_unread"}
  Kinds = {"property"}
  Strict = FALSE
  Full = FALSE
  MaxCnt = 1
INVARIANT BuildEncodes
CHECK_DEADLOCK FALSE

INIT TInit
NEXT TNext
CONSTANTS
  Forms = {}
  Indents = {}
  MaxIdAnns = 0
  MaxParams = 0
  MaxParamAnns = 0
  MaxPartLines = 0
  MaxDescLines = 0
  MaxParas = 0
  MaxTags = 0
  TagNames = {}
  MaxTagAnns = 0
  MaxCont = 0
  MaxNoise = 0
  AtReturns = FALSE
  FaultKinds = {}
  MaxFaults = 1
  KeepLines = FALSE
  Known = {}
  StartLine = 0
CHECK_DEADLOCK FALSE

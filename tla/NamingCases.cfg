INIT CInit
NEXT Scan
CONSTANTS
  Dev = {}
  Mode = "prefix"
  AnnSet = {"-", "method", "constructor"}
CHECK_DEADLOCK FALSE

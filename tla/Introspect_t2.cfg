SPECIFICATION Spec
CONSTANTS
  N = 4
  Kinds <- K_callables
  TKs <- TK_chain4
  AllowList = FALSE
  AllowNSkip = FALSE
  AllowVSkip = FALSE
  AllowReturn = FALSE
  AllowMoved = FALSE
  AllowHost = FALSE
  AllowRename = FALSE
  MaxFunctions = 1
  Stepwise = FALSE
  AliasRecheck = TRUE
  CallableWalks = 2
  RenameScopeCheck = TRUE
  COrder = FALSE
  Orders <- Id4
  KnownShapes <- Known_any
  ExportViol = 1
  ExportOk = 997
INVARIANT NoUnknownViolation
CHECK_DEADLOCK FALSE

----------------------------- MODULE TypelibApi -----------------------------
(***************************************************************************)
(* C09  "The repository API and g-ir-generate report what the typelib      *)
(*       contains".                                                        *)
(*                                                                         *)
(* Part 4  the accessor relation: for every info the repository API hands  *)
(*   out, what each accessor must return given the blob the format puts at *)
(*   that place.  g = the blob as the independent decoder (tlabs) read it, *)
(*   plus pos = where the format's section arithmetic (Typelib!MemberOffset)*)
(*   says the info lives; b = what harness/cdrv/drv_walk.c printed for the *)
(*   calls it made on the real library.                                    *)
(* Part 5  the g-ir-generate relation: x = an element of the XML written   *)
(*   by g-ir-generate, projected with ElementTree; g = the decoded blob.   *)
(***************************************************************************)
EXTENDS Typelib

\* GITransfer / GIDirection / flag values of the public headers (gitypes.h, gobject)
ApiTransfer(full, container) == IF full = 1 THEN 2 ELSE IF container = 1 THEN 1 ELSE 0
ApiDirection(in, out) == IF in = 1 /\ out = 1 THEN 2 ELSE IF out = 1 THEN 1 ELSE 0

(* pos = [mode, base, ckind, counts, sec, i]                                                                     *)
(*   abs:      the info is a directory entry at offset base                                                      *)
(*   member:   i-th member of section sec of the container blob of kind ckind at base with the given counts      *)
(*   arg:      i-th ArgBlob of the signature at base                                                             *)
(*   embedded: the CallbackBlob following the FieldBlob at base                                                  *)
ExpectedOff(p) == CASE p.mode = "abs" -> p.base
                    [] p.mode = "member" -> p.base + MemberOffset(p.ckind, p.counts, p.sec, p.i)
                    [] p.mode = "arg" -> p.base + Size.signature + Size.arg * p.i
                    [] p.mode = "embedded" -> p.base + Size.field

AttrSeqSet(s) == {<<s[i].name, s[i].value>> : i \in 1..Len(s)}
AttrIterOK(stored, iterated) == AttrSeqSet(iterated) = AttrSeqSet(stored) /\ Len(iterated) = Len(stored)
AttrByNameOK(stored, probes) ==
    \A k \in 1..Len(probes) :
        LET p == probes[k]
            vals == {stored[i].value : i \in {j \in 1..Len(stored) : stored[j].name = p.q}}
        IN ((p.found = 1) <=> (vals # {})) /\ (p.found = 1 => p.value \in vals)

BaseClauses(g, b) == [
    ApiName       |-> b.name = g.name,
    ApiOffset     |-> b.off = ExpectedOff(g.pos),
    ApiDeprecated |-> b.dep = g.deprecated,                   \* 0 for blobs without a deprecated flag
    ApiAttrIter   |-> AttrIterOK(g.attrs, b.at),
    ApiAttrByName |-> AttrByNameOK(g.attrs, b.ab) ]
BaseNames == {"ApiName", "ApiOffset", "ApiDeprecated", "ApiAttrIter", "ApiAttrByName"}

\* types: pre-order lists on both sides
TChildren(tag) == CASE tag \in {15, 17, 18} -> 1 [] tag = 19 -> 2 [] OTHER -> 0
ApiTypeNode(a, d) ==
    /\ a.tag = d.tag /\ a.ptr = d.pointer /\ a.n = TChildren(d.tag)
    /\ (d.tag = 15 => /\ a.aty = d.at /\ a.azt = d.zt
                      /\ a.alen = (IF d.hl = 1 THEN d.dim ELSE -1)
                      /\ a.asize = (IF d.hs = 1 THEN d.dim ELSE -1))
    /\ (d.tag = 16 => a.ins = d.rns /\ a.iname = d.rname)
ApiTypeOK(at, dt) == Len(at) = Len(dt) /\ \A i \in 1..Len(dt) : ApiTypeNode(at[i], dt[i])

(* callables: g additionally [ckind, sig (decoded SignatureBlob), blob_throws, constructor, is_static, rattrs, rtype] *)
CallableClauses(g, b) == [
    ApiCanThrow     |-> b.can_throw = B(g.sig.throws = 1 \/ (g.ckind \in {"function", "vfunc"} /\ g.blob_throws = 1)),
    ApiIsMethod     |-> b.is_method = (CASE g.ckind = "function" -> B(g.constructor = 0 /\ g.is_static = 0)
                                         [] g.ckind \in {"vfunc", "signal"} -> 1 [] OTHER -> 0),
    ApiCallerOwns   |-> b.owns = ApiTransfer(g.sig.caller_owns_return_value, g.sig.caller_owns_return_container),
    ApiMayReturnNull |-> b.null = g.sig.may_return_null,
    ApiSkipReturn   |-> b.skipret = g.sig.skip_return,
    ApiInstanceTransfer |-> b.inst = (IF g.sig.instance_transfer_ownership = 1 THEN 2 ELSE 0),
    ApiNArgs        |-> b.n_args = g.sig.n_arguments,
    ApiReturnType   |-> ApiTypeOK(b.rt, g.rtype),
    ApiReturnAttrIter |-> AttrIterOK(g.rattrs, b.rat),
    ApiReturnAttrByName |-> AttrByNameOK(g.rattrs, b.rab) ]
CallableNames == {"ApiCanThrow", "ApiIsMethod", "ApiCallerOwns", "ApiMayReturnNull", "ApiSkipReturn", "ApiInstanceTransfer", "ApiNArgs",
                  "ApiReturnType", "ApiReturnAttrIter", "ApiReturnAttrByName"}

(* a reference to a member of the container by index: cref = [has, base, ckind, counts, names]                              *)
MemberRefOK(cref, sec, idx, r) == r.name = NameAt(cref.names, idx) /\ r.off = cref.base + MemberOffset(cref.ckind, cref.counts, sec, idx)
NoRefOK(r) == r.name = "" /\ r.off = -1

FunctionApiClauses(g, b) == [
    ApiFnFlags    |-> b.flags = B(g.constructor = 0 /\ g.is_static = 0) + 2 * g.constructor + 4 * g.getter + 8 * g.setter
                                + 16 * g.wraps_vfunc + 32 * g.throws,
    ApiFnSymbol   |-> b.symbol = g.symbol,
    \* "Only GIFunctionInfo with the flag GI_FUNCTION_IS_GETTER or GI_FUNCTION_IS_SETTER have a property set"
    ApiFnProperty |-> IF (g.getter = 1 \/ g.setter = 1) /\ g.props.has THEN MemberRefOK(g.props, "properties", g.index, b.prop)
                      ELSE NoRefOK(b.prop) ]
FunctionApiNames == {"ApiFnFlags", "ApiFnSymbol", "ApiFnProperty"}

SignalApiClauses(g, b) == [
    ApiSignalFlags |-> b.flags = g.run_first + 2 * g.run_last + 4 * g.run_cleanup + 8 * g.no_recurse + 16 * g.detailed
                                 + 32 * g.action + 64 * g.no_hooks,
    ApiSignalClosure |-> b.tse = g.true_stops_emit /\ (g.has_class_closure = 0 => NoRefOK(b.cc)) ]
SignalApiNames == {"ApiSignalFlags", "ApiSignalClosure"}

VFuncApiClauses(g, b) == [
    ApiVFuncFlags   |-> b.flags = g.must_chain_up + 2 * g.must_be_implemented + 4 * g.must_not_be_implemented + 8 * g.throws,
    ApiVFuncOffset  |-> b.soff = g.struct_offset,
    ApiVFuncInvoker |-> IF g.invoker = Sentinel THEN NoRefOK(b.invoker) ELSE MemberRefOK(g.methods, "methods", g.invoker, b.invoker),
    ApiVFuncSignal  |-> g.class_closure = 0 => NoRefOK(b.signal) ]
VFuncApiNames == {"ApiVFuncFlags", "ApiVFuncOffset", "ApiVFuncInvoker", "ApiVFuncSignal"}

ArgApiClauses(g, b) == [
    ApiArgDirection |-> b.dir = ApiDirection(g.in, g.out),
    ApiArgFlags     |-> /\ b.ca = g.caller_allocates /\ b.opt = g.optional /\ b.retval = g.return_value /\ b.null = g.nullable
                        /\ b.skip = g.skip,
    ApiArgTransfer  |-> b.transfer = ApiTransfer(g.transfer_ownership, g.transfer_container_ownership),
    ApiArgScope     |-> b.scope = g.scope,
    ApiArgClosure   |-> b.closure = g.closure /\ b.destroy = g.destroy,
    ApiArgType      |-> ApiTypeOK(b.type, g.type) ]
ArgApiNames == {"ApiArgDirection", "ApiArgFlags", "ApiArgTransfer", "ApiArgScope", "ApiArgClosure", "ApiArgType"}

FieldApiClauses(g, b) == [
    ApiFieldFlags  |-> b.flags = g.readable + 2 * g.writable,
    ApiFieldBits   |-> b.bits = g.bits /\ b.soff = g.struct_offset,
    ApiFieldType   |-> b.emb = g.has_embedded_type /\ (g.has_embedded_type = 0 => ApiTypeOK(b.type, g.type)) ]
FieldApiNames == {"ApiFieldFlags", "ApiFieldBits", "ApiFieldType"}

PropertyApiClauses(g, b) == [
    ApiPropFlags    |-> b.flags = g.readable + 2 * g.writable + 4 * g.construct + 8 * g.construct_only,
    ApiPropTransfer |-> b.transfer = ApiTransfer(g.transfer_ownership, g.transfer_container_ownership),
    ApiPropType     |-> ApiTypeOK(b.type, g.type),
    \* "The setter is only available for G_PARAM_WRITABLE properties that are also not G_PARAM_CONSTRUCT_ONLY"
    ApiPropSetter   |-> IF g.writable = 1 /\ g.construct_only = 0 /\ g.setter # Sentinel
                        THEN MemberRefOK(g.methods, "methods", g.setter, b.setter) ELSE NoRefOK(b.setter),
    \* "The getter is only available for G_PARAM_READABLE properties"
    ApiPropGetter   |-> IF g.readable = 1 /\ g.getter # Sentinel
                        THEN MemberRefOK(g.methods, "methods", g.getter, b.getter) ELSE NoRefOK(b.getter) ]
PropertyApiNames == {"ApiPropFlags", "ApiPropTransfer", "ApiPropType", "ApiPropSetter", "ApiPropGetter"}

IsNumericTag(t) == t \in (1..11) \cup {21}
ConstantApiClauses(g, b) == [
    ApiConstType  |-> ApiTypeOK(b.type, g.type),
    ApiConstValue |-> LET t == g.type[1] IN
                      /\ ((t.simple = 1 /\ IsNumericTag(t.tag)) => b.vhex = g.value_hex)
                      /\ ((t.simple = 1 /\ t.tag \in {13, 14}) => b.vstr = g.value),
    ApiConstSize  |-> b.size = g.size ]
ConstantApiNames == {"ApiConstType", "ApiConstValue", "ApiConstSize"}

\* g_value_info_get_value: the stored gint32, zero-extended when unsigned_value is set, sign-extended otherwise (four 16-bit limbs)
ValueApiClauses(g, b) == [
    ApiValue |-> b.vl = (IF g.unsigned_value = 0 /\ g.value32[2] >= 32768 THEN <<g.value32[1], g.value32[2], 65535, 65535>>
                         ELSE <<g.value32[1], g.value32[2], 0, 0>>) ]
ValueApiNames == {"ApiValue"}

(* containers: g = header fields + [at, kind, counts, names [fields, methods, signals, vfuncs] (member names in blob order)];  *)
(*             b = header accessors + counts + find probes <<[k, q, off, name]>>                                          *)
FindSec(k) == CASE k = "m" -> "methods" [] k = "s" -> "signals" [] k = "v" -> "vfuncs" [] k = "f" -> "fields"
FindOK(g, probes) ==
    \A j \in 1..Len(probes) :
        LET p == probes[j]
            sec == FindSec(p.k)
            idx == IndexOf(g.names[sec], p.q)
        IN IF idx = -1 THEN p.off = -1 /\ p.name = ""
           ELSE p.off = g.at + MemberOffset(g.kind, g.counts, sec, idx) /\ p.name = p.q
RegTypeOK(g, b) == b.tname = g.gtype_name /\ b.tinit = g.gtype_init
RefOK(gr, br) == br.ns = gr.ns /\ br.name = gr.n
RefsOK(grs, brs) == Len(grs) = Len(brs) /\ \A i \in 1..Len(grs) : RefOK(grs[i], brs[i].r)

StructApiClauses(g, b) == [
    ApiRegisteredType |-> RegTypeOK(g, b),
    ApiStructHeader |-> /\ b.size = g.size /\ b.align = g.alignment /\ b.gts = g.is_gtype_struct /\ b.foreign = g.foreign
                        /\ b.copy = g.copy_func /\ b.free = g.free_func,
    ApiCounts       |-> b.n_fields = g.n_fields /\ b.n_methods = g.n_methods,
    ApiFind         |-> FindOK(g, b.find) ]
StructApiNames == {"ApiRegisteredType", "ApiStructHeader", "ApiCounts", "ApiFind"}

UnionApiClauses(g, b) == [
    ApiRegisteredType |-> RegTypeOK(g, b),
    ApiUnionHeader  |-> /\ b.size = g.size /\ b.align = g.alignment /\ b.disc = g.discriminated /\ b.doff = g.discriminator_offset
                        /\ b.copy = g.copy_func /\ b.free = g.free_func,
    ApiCounts       |-> b.n_fields = g.n_fields /\ b.n_methods = g.n_methods,
    ApiFind         |-> FindOK(g, b.find) ]
UnionApiNames == {"ApiRegisteredType", "ApiUnionHeader", "ApiCounts", "ApiFind"}

EnumApiClauses(g, b) == [
    ApiRegisteredType |-> RegTypeOK(g, b),
    ApiEnumHeader   |-> b.storage = g.storage_type /\ b.domain = g.error_domain,
    ApiCounts       |-> b.n_values = g.n_values /\ b.n_methods = g.n_methods ]
EnumApiNames == {"ApiRegisteredType", "ApiEnumHeader", "ApiCounts"}

ObjectApiClauses(g, b) == [
    ApiRegisteredType |-> RegTypeOK(g, b),
    ApiObjectFlags  |-> b.abstract = g.abstract /\ b.final = g.final /\ b.fund = g.fundamental,
    ApiObjectFuncs  |-> b.ref = g.ref_func /\ b.unref = g.unref_func /\ b.setv = g.set_value_func /\ b.getv = g.get_value_func,
    ApiObjectParent |-> RefOK(g.parent, b.parent) /\ RefOK(g.gtype_struct, b.cstruct),
    ApiInterfaces   |-> b.n_ifs = g.n_interfaces /\ RefsOK(g.interfaces, b.ifs),
    ApiCounts       |-> /\ b.n_fields = g.n_fields /\ b.n_properties = g.n_properties /\ b.n_methods = g.n_methods
                        /\ b.n_signals = g.n_signals /\ b.n_vfuncs = g.n_vfuncs /\ b.n_constants = g.n_constants,
    ApiFind         |-> FindOK(g, b.find) ]
ObjectApiNames == {"ApiRegisteredType", "ApiObjectFlags", "ApiObjectFuncs", "ApiObjectParent", "ApiInterfaces", "ApiCounts", "ApiFind"}

InterfaceApiClauses(g, b) == [
    ApiRegisteredType |-> RegTypeOK(g, b),
    ApiIfaceStruct  |-> RefOK(g.gtype_struct, b.cstruct),
    ApiInterfaces   |-> b.n_ifs = g.n_prerequisites /\ RefsOK(g.prerequisites, b.ifs),
    ApiCounts       |-> /\ b.n_properties = g.n_properties /\ b.n_methods = g.n_methods
                        /\ b.n_signals = g.n_signals /\ b.n_vfuncs = g.n_vfuncs /\ b.n_constants = g.n_constants,
    ApiFind         |-> FindOK(g, b.find) ]
InterfaceApiNames == {"ApiRegisteredType", "ApiIfaceStruct", "ApiInterfaces", "ApiCounts", "ApiFind"}

(* the namespace: g = [namespace, nsversion, shared_library, c_prefix, deps, n_local, entries <<[i, bt, name, offset]>>]         *)
(*                b = [ns, version, shlib, cprefix, deps, n_infos, infos <<[i, t, name, off]>>] (same indices, same order)     *)
NamespaceApiClauses(g, b) == [
    ApiHeader    |-> /\ b.ns = g.namespace /\ b.version = g.nsversion /\ b.shlib = g.shared_library /\ b.cprefix = g.c_prefix
                     /\ SeqToSet(b.deps) = SeqToSet(g.deps),
    ApiNInfos    |-> b.n_infos = g.n_local,
    \* every directory entry reported once, under its index, with the right kind, name and blob
    ApiDirectory |-> /\ Len(b.infos) = Len(g.entries)
                     /\ \A k \in 1..Len(g.entries) :
                           /\ b.infos[k].i = g.entries[k].i /\ b.infos[k].t = g.entries[k].bt
                           /\ b.infos[k].name = g.entries[k].name /\ b.infos[k].off = g.entries[k].offset,
    \* no accessor of any info of the entry refused its argument (g_critical / g_warning counted by the driver)
    ApiNoCritical |-> \A k \in 1..Len(b.infos) : b.infos[k].crit = 0 ]
NamespaceApiNames == {"ApiHeader", "ApiNInfos", "ApiDirectory", "ApiNoCritical"}

---------------------------------------------------------------------------
(* Part 4b: the accessors and g-ir-generate AS WRITTEN, where they do more than read one field (implementation-shaped layer of C09; *)
(* the section arithmetic is Typelib!AccessorOffset).  dev = behaviours of earlier versions, each repaired by a fix: commit:        *)
(*   "union_not_deprecated"  g_base_info_is_deprecated had no case for unions (before 5e762b5)                                     *)
(*   "boxed_refused"         g_struct_info_get_copy/free_function emitted a critical for boxed infos (before 9e9f49a)              *)
(*   "gen_no_enum_methods"   write_enum_info wrote the members only (before d05070a)                                               *)
(*   "gen_union_no_prefix"   write_union_info wrote type-name= / get-type= without glib: (before 0aee3e2)                          *)
(*   "gen_percent_f"         floating point constants printed with %f (before 66699dc)                                             *)
(*   "gen_raw_newline"       string constants written with literal line feeds / tabs (before cb67ae0)                              *)
ImplIsDeprecated(infoKind, bit, dev) == IF infoKind = "union" /\ "union_not_deprecated" \in dev THEN 0 ELSE bit
ImplCopyFreeCriticals(infoKind, dev) == IF infoKind = "boxed" /\ "boxed_refused" \in dev THEN 2 ELSE 0
ImplGenMethods(bt, methods, dev) == IF bt \in {5, 6} /\ "gen_no_enum_methods" \in dev THEN <<>> ELSE methods
ImplGenTypeName(bt, name, dev) == IF bt = 11 /\ "gen_union_no_prefix" \in dev THEN "" ELSE name
\* constants by class of value: does the text g-ir-generate writes read back to the stored value?
ConstClasses == {"integer", "six_decimals", "seventeen_digits", "tiny", "plain_string", "string_with_newline"}
ImplGenPreserves(class, dev) == /\ ~(class \in {"seventeen_digits", "tiny"} /\ "gen_percent_f" \in dev)
                                /\ ~(class = "string_with_newline" /\ "gen_raw_newline" \in dev)
\* the property layer on such a case [infoKind, bt, bit, methods, class]
ImplMeetsApi(c, dev) == /\ ImplIsDeprecated(c.infoKind, c.bit, dev) = c.bit              \* ApiDeprecated
                        /\ ImplCopyFreeCriticals(c.infoKind, dev) = 0                    \* ApiNoCritical
                        /\ ImplGenMethods(c.bt, c.methods, dev) = c.methods              \* GenMembers
                        /\ ImplGenTypeName(c.bt, "TstT", dev) = "TstT"                   \* GenRegisteredType
                        /\ ImplGenPreserves(c.class, dev)                                \* GenConstValue

---------------------------------------------------------------------------
(* Part 5: g-ir-generate.  x = an element of the XML it wrote, projected with ElementTree (attribute values as written,    *)
(* "" = absent; integers -1 = absent; children by kind, in document order);  g = the decoded blob.                        *)
W(bit) == IF bit = 1 THEN "1" ELSE ""
TransferWord(full, container) == IF full = 1 THEN "full" ELSE IF container = 1 THEN "container" ELSE "none"
ScopeWord(s) == CASE s = 1 -> "call" [] s = 2 -> "async" [] s = 3 -> "notified" [] s = 4 -> "forever" [] OTHER -> ""
TagWord == <<"gboolean", "gint8", "guint8", "gint16", "guint16", "gint32", "guint32", "gint64", "guint64", "gfloat", "gdouble",
             "GType", "utf8", "filename">>
ArrayWord(at) == CASE at = 1 -> "GLib.Array" [] at = 2 -> "GLib.PtrArray" [] at = 3 -> "GLib.ByteArray" [] OTHER -> ""
\* names in the XML are projected to [ns, n]: "Ns.Name" is split at the dot, an unqualified name belongs to the document's own
\* namespace, an absent attribute is ["", ""]
QRefOK(gr, xr) == xr.n = gr.n /\ xr.ns = (IF gr.n = "" THEN "" ELSE gr.ns)

\* xt = pre-order list [el ("type" | "array"), name, length, fixed, zt, n (child elements)], dt = decoded type
GenTypeNode(own, x, d) ==
    CASE d.tag = 0 -> x.el = "type" /\ x.name = (IF d.pointer = 1 THEN "any" ELSE "none") /\ x.n = 0
      [] d.tag \in 1..14 -> x.el = "type" /\ x.name = TagWord[d.tag] /\ x.n = 0
      [] d.tag = 21 -> x.el = "type" /\ x.name = "gunichar" /\ x.n = 0
      [] d.tag = 15 -> /\ x.el = "array" /\ x.name = ArrayWord(d.at) /\ x.n = 1
                       /\ x.length = (IF d.hl = 1 THEN d.dim ELSE -1) /\ x.fixed = (IF d.hs = 1 THEN d.dim ELSE -1) /\ x.zt = W(d.zt)
      [] d.tag = 16 -> x.el = "type" /\ x.qns = d.rns /\ x.qn = d.rname /\ x.n = 0
      [] d.tag = 17 -> x.el = "type" /\ x.name = "GLib.List" /\ x.n = 1
      [] d.tag = 18 -> x.el = "type" /\ x.name = "GLib.SList" /\ x.n = 1
      [] d.tag = 19 -> x.el = "type" /\ x.name = "GLib.HashTable" /\ x.n = 2
      [] d.tag = 20 -> x.el = "type" /\ x.name = "GLib.Error" /\ x.n = 0
      [] OTHER -> FALSE
GenTypeOK(own, xt, dt) == Len(xt) = Len(dt) /\ \A i \in 1..Len(dt) : GenTypeNode(own, xt[i], dt[i])

GenArgOK(own, x, d) ==
    /\ x.name = d.name /\ x.transfer = TransferWord(d.transfer_ownership, d.transfer_container_ownership)
    /\ x.direction = (IF d.in = 1 /\ d.out = 1 THEN "inout" ELSE IF d.out = 1 THEN "out" ELSE "")
    /\ (d.out = 1 /\ d.in = 0 => x.ca = (IF d.caller_allocates = 1 THEN "1" ELSE "0"))
    /\ x.allow_none = W(d.nullable) /\ x.retval = W(d.return_value) /\ x.optional = W(d.optional) /\ x.scope = ScopeWord(d.scope)
    /\ x.closure = (IF d.closure >= 0 THEN d.closure ELSE -1) /\ x.destroy = (IF d.destroy >= 0 THEN d.destroy ELSE -1)
    /\ x.skip = W(d.skip) /\ AttrSeqSet(x.attrs) = AttrSeqSet(d.attrs)

(* callables: g = [own, ckind, name, deprecated, symbol, constructor, is_static, setter, getter, prop_name, can_throw, sig, args, *)
(*                 rtype, attrs, rattrs];  x = [tag, name, cid, deprecated, throws, setprop, getprop, rtransfer, rnull, rskip,   *)
(*                 rtype, args, attrs, rattrs]                                                                                  *)
GenCallableClauses(g, x) == [
    GenName     |-> x.name = g.name,
    GenTag      |-> x.tag = (CASE g.ckind = "function" -> (IF g.constructor = 1 THEN "constructor" ELSE IF g.is_static = 0 THEN "method" ELSE "function")
                               [] g.ckind = "callback" -> "callback" [] g.ckind = "signal" -> "glib:signal" [] OTHER -> "virtual-method"),
    GenSymbol   |-> g.ckind = "function" => x.cid = g.symbol,
    GenDeprecated |-> x.deprecated = W(g.deprecated),
    GenThrows   |-> x.throws = W(B(g.sig.throws = 1 \/ (g.ckind \in {"function", "vfunc"} /\ g.blob_throws = 1))),
    GenAccessor |-> g.ckind = "function" => /\ x.setprop = (IF g.setter = 1 THEN g.prop_name ELSE "")
                                            /\ x.getprop = (IF g.getter = 1 /\ g.setter = 0 THEN g.prop_name ELSE ""),
    GenReturn   |-> /\ x.rtransfer = TransferWord(g.sig.caller_owns_return_value, g.sig.caller_owns_return_container)
                    /\ x.rnull = W(g.sig.may_return_null) /\ x.rskip = W(g.sig.skip_return),
    GenReturnType |-> GenTypeOK(g.own, x.rtype, g.rtype),
    GenArgs     |-> Len(x.args) = Len(g.args) /\ \A i \in 1..Len(g.args) : GenArgOK(g.own, x.args[i], g.args[i]),
    GenArgTypes |-> Len(x.args) = Len(g.args) => \A i \in 1..Len(g.args) : GenTypeOK(g.own, x.args[i].type, g.args[i].type),
    GenAttrs    |-> AttrSeqSet(x.attrs) = AttrSeqSet(g.attrs) /\ AttrSeqSet(x.rattrs) = AttrSeqSet(g.rattrs) ]
GenCallableNames == {"GenName", "GenTag", "GenSymbol", "GenDeprecated", "GenThrows", "GenAccessor", "GenReturn", "GenReturnType",
                     "GenArgs", "GenArgTypes", "GenAttrs"}

GenSignalClauses(g, x) == [
    GenSignalFlags |-> /\ x.when = (IF g.run_first = 1 THEN "FIRST" ELSE IF g.run_last = 1 THEN "LAST" ELSE IF g.run_cleanup = 1 THEN "CLEANUP" ELSE "")
                       /\ x.no_recurse = W(g.no_recurse) /\ x.detailed = W(g.detailed) /\ x.action = W(g.action) /\ x.no_hooks = W(g.no_hooks) ]
GenVFuncClauses(g, x) == [
    GenVFuncOffset  |-> x.offset = g.struct_offset,
    GenVFuncInvoker |-> x.invoker = (IF g.invoker = Sentinel THEN "" ELSE NameAt(g.methods, g.invoker)) ]

GenPropertyClauses(g, x) == [
    GenName       |-> x.name = g.name,
    GenDeprecated |-> x.deprecated = W(g.deprecated),
    GenPropFlags  |-> /\ x.readable = (IF g.readable = 1 THEN "" ELSE "0") /\ x.writable = W(g.writable) /\ x.construct = W(g.construct)
                      /\ x.construct_only = W(g.construct_only),
    \* g.setter / g.getter = the stored 10-bit indices (Sentinel = none), g.methods = the method names of the container in blob order
    GenPropAccessors |-> /\ x.setter = (IF g.writable = 1 /\ g.construct_only = 0 /\ g.setter # Sentinel THEN NameAt(g.methods, g.setter) ELSE "")
                         /\ x.getter = (IF g.readable = 1 /\ g.getter # Sentinel THEN NameAt(g.methods, g.getter) ELSE ""),
    GenPropTransfer |-> x.transfer = TransferWord(g.transfer_ownership, g.transfer_container_ownership),
    GenPropType   |-> GenTypeOK(g.own, x.type, g.type),
    GenAttrs      |-> AttrSeqSet(x.attrs) = AttrSeqSet(g.attrs) ]
GenPropertyNames == {"GenName", "GenDeprecated", "GenPropFlags", "GenPropAccessors", "GenPropTransfer", "GenPropType", "GenAttrs"}

GenFieldClauses(g, x) == [
    GenName       |-> x.name = g.name,
    GenFieldFlags |-> x.readable = (IF g.readable = 1 THEN "" ELSE "0") /\ x.writable = W(g.writable) /\ x.bits = (IF g.bits > 0 THEN g.bits ELSE -1),
    \* a field whose type REFERS to a named callback is written by g-ir-generate as an inline <callback> of that name: accepted
    GenFieldType  |-> IF g.has_embedded_type = 1 THEN x.has_callback
                      ELSE IF x.has_callback THEN (g.type[1].tag = 16 /\ x.cbname = g.type[1].rname)
                      ELSE GenTypeOK(g.own, x.type, g.type),
    GenAttrs      |-> AttrSeqSet(x.attrs) = AttrSeqSet(g.attrs) ]
GenFieldNames == {"GenName", "GenFieldFlags", "GenFieldType", "GenAttrs"}

\* g.value = the value as canonical text (integers decimal, booleans 0/1, strings verbatim, floating point shortest repr);
\* x.value = the written text, canonicalised the same way
GenConstantClauses(g, x) == [
    GenName      |-> x.name = g.name,
    GenConstType |-> GenTypeOK(g.own, x.type, g.type),
    GenConstValue |-> x.value = g.value,
    GenAttrs     |-> AttrSeqSet(x.attrs) = AttrSeqSet(g.attrs) ]
GenConstantNames == {"GenName", "GenConstType", "GenConstValue", "GenAttrs"}

(* containers: g = [own, bt, name, deprecated, gtype_name, gtype_init, ..., fields, methods, properties, signals, vfuncs, constants,  *)
(*                  values <<[name, text, deprecated]>> (names in blob order), refs];  x = the same from the XML children          *)
TagOfBlob(bt) == CASE bt = 1 -> "function" [] bt = 2 -> "callback" [] bt = 3 -> "record" [] bt = 4 -> "glib:boxed" [] bt = 5 -> "enumeration"
                   [] bt = 6 -> "bitfield" [] bt = 7 -> "class" [] bt = 8 -> "interface" [] bt = 9 -> "constant" [] bt = 11 -> "union"
                   [] OTHER -> "?"
GenContainerClauses(g, x) == [
    GenName        |-> x.name = g.name /\ x.tag = TagOfBlob(g.bt),
    GenDeprecated  |-> x.deprecated = W(g.deprecated),
    GenRegisteredType |-> x.type_name = g.gtype_name /\ x.get_type = g.gtype_init,
    GenStructFlags |-> g.bt = 3 => (x.is_gtype_struct = W(g.is_gtype_struct) /\ x.foreign = W(g.foreign)),
    GenFuncs       |-> g.bt \in {3, 11} => (x.copy = g.copy_func /\ x.free = g.free_func),
    GenEnumDomain  |-> g.bt \in {5, 6} => x.error_domain = g.error_domain,
    GenObjectFlags |-> g.bt = 7 => /\ x.abstract = W(g.abstract) /\ x.final = W(g.final) /\ x.fundamental = W(g.fundamental)
                                   /\ x.ref = g.ref_func /\ x.unref = g.unref_func /\ x.setv = g.set_value_func /\ x.getv = g.get_value_func
                                   /\ QRefOK(g.parent, x.parent),
    GenTypeStruct  |-> g.bt \in {7, 8} => QRefOK(g.gtype_struct, x.type_struct),
    GenInterfaces  |-> g.bt \in {7, 8} => (Len(x.refs) = Len(g.refs) /\ \A i \in 1..Len(g.refs) : QRefOK(g.refs[i], x.refs[i])),
    GenMembers     |-> /\ x.fields = g.fields /\ x.methods = g.methods /\ x.properties = g.properties /\ x.signals = g.signals
                       /\ x.vfuncs = g.vfuncs /\ x.constants = g.constants,
    \* g.values[i] = [name, deprecated, u (unsigned_value), signed, unsigned (the stored gint32 read either way, decimal text)]
    GenValues      |-> /\ Len(x.values) = Len(g.values)
                       /\ \A i \in 1..Len(g.values) : /\ x.values[i].name = g.values[i].name /\ x.values[i].deprecated = W(g.values[i].deprecated)
                                                       /\ x.values[i].text = (IF g.values[i].u = 1 THEN g.values[i].unsigned ELSE g.values[i].signed),
    GenAttrs       |-> AttrSeqSet(x.attrs) = AttrSeqSet(g.attrs) ]
GenContainerNames == {"GenName", "GenDeprecated", "GenRegisteredType", "GenStructFlags", "GenFuncs", "GenEnumDomain", "GenObjectFlags",
                      "GenTypeStruct", "GenInterfaces", "GenMembers", "GenValues", "GenAttrs"}

(* the document: g = [namespace, nsversion, shared_library, c_prefix, deps, entries <<[bt, name]>>];                       *)
(*               x = [name, version, shlib, cprefix, includes <<"Ns-Ver">>, entries <<[tag, name]>>]                     *)
GenNamespaceClauses(g, x) == [
    GenHeader   |-> x.name = g.namespace /\ x.version = g.nsversion /\ x.shlib = g.shared_library /\ x.cprefix = g.c_prefix,
    GenIncludes |-> SeqToSet(x.includes) = SeqToSet(g.deps),
    GenEntries  |-> x.entries = [i \in 1..Len(g.entries) |-> [tag |-> TagOfBlob(g.entries[i].bt), name |-> g.entries[i].name]] ]
GenNamespaceNames == {"GenHeader", "GenIncludes", "GenEntries"}

Merge2(r1, n1, r2) == [c \in DOMAIN r1 \cup DOMAIN r2 |-> IF c \in n1 THEN r1[c] ELSE r2[c]]

ApiClauseRec(k, g, b) ==
    CASE k = "api_function"  -> Merge2(BaseClauses(g, b), BaseNames, Merge2(CallableClauses(g, b), CallableNames, FunctionApiClauses(g, b)))
      [] k = "api_callback"  -> Merge2(BaseClauses(g, b), BaseNames, CallableClauses(g, b))
      [] k = "api_signal"    -> Merge2(BaseClauses(g, b), BaseNames, Merge2(CallableClauses(g, b), CallableNames, SignalApiClauses(g, b)))
      [] k = "api_vfunc"     -> Merge2(BaseClauses(g, b), BaseNames, Merge2(CallableClauses(g, b), CallableNames, VFuncApiClauses(g, b)))
      [] k = "api_arg"       -> Merge2(BaseClauses(g, b), BaseNames, ArgApiClauses(g, b))
      [] k = "api_field"     -> Merge2(BaseClauses(g, b), BaseNames, FieldApiClauses(g, b))
      [] k = "api_property"  -> Merge2(BaseClauses(g, b), BaseNames, PropertyApiClauses(g, b))
      [] k = "api_constant"  -> Merge2(BaseClauses(g, b), BaseNames, ConstantApiClauses(g, b))
      [] k = "api_value"     -> Merge2(BaseClauses(g, b), BaseNames, ValueApiClauses(g, b))
      [] k = "api_struct"    -> Merge2(BaseClauses(g, b), BaseNames, StructApiClauses(g, b))
      [] k = "api_union"     -> Merge2(BaseClauses(g, b), BaseNames, UnionApiClauses(g, b))
      [] k = "api_enum"      -> Merge2(BaseClauses(g, b), BaseNames, EnumApiClauses(g, b))
      [] k = "api_object"    -> Merge2(BaseClauses(g, b), BaseNames, ObjectApiClauses(g, b))
      [] k = "api_interface" -> Merge2(BaseClauses(g, b), BaseNames, InterfaceApiClauses(g, b))
      [] k = "api_namespace" -> NamespaceApiClauses(g, b)
      [] k = "gen_function"  -> GenCallableClauses(g, b)
      [] k = "gen_callback"  -> GenCallableClauses(g, b)
      [] k = "gen_signal"    -> Merge2(GenCallableClauses(g, b), GenCallableNames, GenSignalClauses(g, b))
      [] k = "gen_vfunc"     -> Merge2(GenCallableClauses(g, b), GenCallableNames, GenVFuncClauses(g, b))
      [] k = "gen_property"  -> GenPropertyClauses(g, b)
      [] k = "gen_field"     -> GenFieldClauses(g, b)
      [] k = "gen_constant"  -> GenConstantClauses(g, b)
      [] k = "gen_container" -> GenContainerClauses(g, b)
      [] k = "gen_namespace" -> GenNamespaceClauses(g, b)
      [] OTHER -> [Unknown |-> FALSE]

ApiNamesOf(k) ==
    CASE k = "api_function"  -> BaseNames \cup CallableNames \cup FunctionApiNames
      [] k = "api_callback"  -> BaseNames \cup CallableNames
      [] k = "api_signal"    -> BaseNames \cup CallableNames \cup SignalApiNames
      [] k = "api_vfunc"     -> BaseNames \cup CallableNames \cup VFuncApiNames
      [] k = "api_arg"       -> BaseNames \cup ArgApiNames
      [] k = "api_field"     -> BaseNames \cup FieldApiNames
      [] k = "api_property"  -> BaseNames \cup PropertyApiNames
      [] k = "api_constant"  -> BaseNames \cup ConstantApiNames
      [] k = "api_value"     -> BaseNames \cup ValueApiNames
      [] k = "api_struct"    -> BaseNames \cup StructApiNames
      [] k = "api_union"     -> BaseNames \cup UnionApiNames
      [] k = "api_enum"      -> BaseNames \cup EnumApiNames
      [] k = "api_object"    -> BaseNames \cup ObjectApiNames
      [] k = "api_interface" -> BaseNames \cup InterfaceApiNames
      [] k = "api_namespace" -> NamespaceApiNames
      [] k \in {"gen_function", "gen_callback"} -> GenCallableNames
      [] k = "gen_signal"    -> GenCallableNames \cup {"GenSignalFlags"}
      [] k = "gen_vfunc"     -> GenCallableNames \cup {"GenVFuncOffset", "GenVFuncInvoker"}
      [] k = "gen_property"  -> GenPropertyNames
      [] k = "gen_field"     -> GenFieldNames
      [] k = "gen_constant"  -> GenConstantNames
      [] k = "gen_container" -> GenContainerNames
      [] k = "gen_namespace" -> GenNamespaceNames
      [] OTHER -> {"Unknown"}
=============================================================================

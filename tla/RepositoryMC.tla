--------------------------- MODULE RepositoryMC ---------------------------
(* Exhaustive / simulation configurations of Repository.tla (property C17). *)
EXTENDS Repository

MC_NS == {"VfA", "VfB", "VfC"}
MC_Dirs3 == {1, 2, 3}
MC_Dirs2 == {1, 2}

MC_VChars ==
    ("2" :> <<"2">>) @@
    ("1.0" :> <<"1", ".", "0">>) @@ ("1.9" :> <<"1", ".", "9">>) @@ ("1.10" :> <<"1", ".", "1", "0">>) @@
    ("2.0" :> <<"2", ".", "0">>) @@ ("1" :> <<"1">>) @@ ("1.x" :> <<"1", ".", "x">>) @@ ("x" :> <<"x">>) @@
    ("1.0.1" :> <<"1", ".", "0", ".", "1">>) @@ ("01.09" :> <<"0", "1", ".", "0", "9">>)

D(n, v) == [ns |-> n, ver |-> v]
\* a file whose contents agree with its name / a copy of other contents under this name
F(n, v, deps) == [fns |-> n, fver |-> v, ins |-> n, iver |-> v, deps |-> deps]
M(n, v, n2, v2, deps) == [fns |-> n, fver |-> v, ins |-> n2, iver |-> v2, deps |-> deps]

\* version election over directories, one mismatching copy
DiskVersions == (1 :> {F("VfA", "1.9", <<>>), F("VfA", "1.0", <<>>)})
             @@ (2 :> {F("VfA", "1.10", <<>>), F("VfA", "1.9", <<>>), F("VfB", "1.0", <<>>)})
             @@ (3 :> {M("VfA", "2.0", "VfA", "1.0", <<>>), F("VfB", "1.0", <<>>), M("VfB", "1.9", "VfC", "1.9", <<>>)})
\* dependency graphs: diamond, conflicting diamond
DiskDeps == (1 :> {F("VfA", "1.0", <<D("VfB", "1.0"), D("VfC", "1.0")>>)})
         @@ (2 :> {F("VfB", "1.0", <<>>), F("VfC", "1.0", <<D("VfB", "1.0")>>),
                   F("VfA", "2.0", <<D("VfC", "2.0"), D("VfB", "1.0")>>)})
         @@ (3 :> {F("VfB", "2.0", <<>>), F("VfC", "2.0", <<D("VfB", "2.0")>>), F("VfB", "1.0", <<>>)})
\* missing and mismatching dependencies, dependency on another version of the requirer's namespace
DiskBad == (1 :> {F("VfA", "1.0", <<D("VfB", "1.0"), D("VfC", "1.0")>>), F("VfA", "1.9", <<D("VfC", "1.9")>>)})
        @@ (2 :> {F("VfB", "1.0", <<>>), M("VfC", "1.9", "VfC", "2.0", <<>>),
                  F("VfB", "2.0", <<D("VfA", "2.0")>>), F("VfA", "2.0", <<>>), F("VfA", "1.10", <<D("VfB", "2.0")>>)})
\* names that do not parse, equal versions spelled differently in one directory
DiskOdd == (1 :> {F("VfA", "1", <<>>), F("VfA", "1.0", <<>>), F("VfA", "1.x", <<>>), F("VfA", "x", <<>>),
                  F("VfB", "1.0.1", <<>>), F("VfB", "x", <<>>)})
        @@ (2 :> {F("VfA", "1.0", <<>>), F("VfA", "01.09", <<>>), F("VfB", "1.x", <<>>)})
\* numerically EQUAL versions spelled differently in DIFFERENT directories ("1" = "1.0", "2" = "2.0"): the
\* earliest directory wins among equals, whatever the spelling; "01.09" = "1.9" likewise
DiskEqual == (1 :> {F("VfA", "1", <<>>), F("VfB", "2.0", <<>>), F("VfC", "1.9", <<>>)})
          @@ (2 :> {F("VfA", "1.0", <<>>), F("VfB", "2", <<>>), F("VfC", "01.09", <<>>)})
          @@ (3 :> {F("VfA", "1.0", <<>>), F("VfB", "2", <<>>)})
\* a chain Top -> Mid -> Leaf where Top does not name Leaf itself, Mid also in a private directory
DiskChain == (1 :> {F("VfA", "1.0", <<D("VfB", "1.0")>>), F("VfB", "1.0", <<D("VfC", "1.0")>>), F("VfC", "1.0", <<>>)})
          @@ (2 :> {F("VfB", "1.0", <<D("VfC", "1.0")>>)})
\* simulation: everything at once
DiskAll == (1 :> {F("VfA", "1.9", <<>>), F("VfA", "1.0", <<D("VfB", "1.0"), D("VfC", "1.0")>>)})
        @@ (2 :> {F("VfA", "1.10", <<>>), F("VfA", "1.9", <<>>), F("VfB", "1.0", <<>>), F("VfC", "1.0", <<D("VfB", "1.0")>>),
                  F("VfA", "2.0", <<D("VfC", "2.0"), D("VfB", "1.0")>>), F("VfC", "1.9", <<D("VfA", "1.9")>>)})
        @@ (3 :> {M("VfA", "2.0", "VfA", "1.0", <<D("VfB", "1.0"), D("VfC", "1.0")>>), M("VfB", "1.9", "VfC", "1.9", <<D("VfA", "1.9")>>),
                  F("VfB", "2.0", <<>>), F("VfC", "2.0", <<D("VfB", "2.0")>>), F("VfA", "1", <<>>), F("VfA", "1.x", <<>>)})

MC_EnvA == {<<1>>, <<1, 2>>, <<2, 1>>}
MC_EnvB == {<<1, 2>>, <<3, 2, 1>>}
MC_EnvC == {<<1, 2>>, <<2>>}
MC_EnvD == {<<>>, <<2>>}
MC_EnvS == {<<>>, <<1>>, <<2, 1>>, <<3, 2>>}
MC_AllOps == {"Prepend", "Require", "RequirePrivate", "LoadMem"} \cup QueryOps
MC_OpsElect == {"Prepend", "Require", "Version", "TypelibPath", "EnumerateVersions", "IsRegistered", "LoadedNamespaces"}
MC_OpsDeps == {"Prepend", "Require", "LoadedNamespaces", "ImmediateDeps", "Deps", "Version"}
MC_OpsOdd == {"Prepend", "Require", "EnumerateVersions", "Version", "TypelibPath"}
MC_OpsLazy == {"Require", "LoadMem", "LoadedNamespaces", "Deps", "TypelibPath"}
MC_OpsPriv == {"Prepend", "RequirePrivate", "Require", "TypelibPath", "EnumerateVersions"}
MC_V4 == {"1.0", "1.9", "1.10", "2.0"}
MC_V12 == {"1.0", "2.0"}
MC_VOdd == {"1", "1.0", "1.x", "x"}
MC_Eager == {FALSE}
MC_Both == {TRUE, FALSE}
\* <<clause, cause>> pairs broken by the DESIGN as transcribed in the I-layer (each is replayed on the real code)
MC_KnownDesign == {}
MC_None == {}
\* what-if switches of the witness configurations (deviations of the code before the fix: commits)
MC_DevVersionless == {"versionless_mismatch"}
MC_DevLazyKey == {"lazy_key_reuse"}
MC_DevMem == {"mem_conflict_dead", "closure_replace"}
MC_DevClosure == {"closure_replace"}
MC_DevLazyDep == {"lazy_dep_accepted"}
MC_Skip == {<<"SKIP", "SKIP">>}
\* witness searches: TLC's counterexample to "no step has this root cause" is replayed on the real code
NoW_versionless == \A b \in last.broken : b[2] # "versionless_mismatch"
NoW_lazy_upgrade == \A b \in last.broken : b[2] # "lazy_upgrade"
NoW_lazy_dependency == \A b \in last.broken : b[2] # "lazy_dependency"
NoW_mem_other == \A b \in last.broken : b[2] # "mem_other_version"
NoW_closure_conflict == \A b \in last.broken : b[2] # "closure_conflict"
\* coverage witnesses (no property violation): a failed call that leaves dependencies registered,
\* a numeric election 1.10 > 1.9 decided against the earlier directory, a dependency conflict
NoW_partial == FailedCallChangesNothing
NoW_numeric == ~(last.c.op = "Require" /\ last.c.ver = NONE /\ last.o.res = "ok" /\ "VfA" \in DOMAIN loaded
                 /\ loaded["VfA"].c.ver = "1.10" /\ loaded["VfA"].dir # path[1])
NoW_depconflict == ~(last.c.op = "Require" /\ last.o.res = "CONFLICT" /\ last.c.ns \notin DOMAIN loaded
                     /\ DOMAIN loaded # DOMAIN last.pre)
MC_DiskVersions == {DiskVersions}
MC_DiskDeps == {DiskDeps}
MC_DiskBad == {DiskBad}
MC_DiskOdd == {DiskOdd}
MC_DiskAll == {DiskAll}
MC_DiskEqual == {DiskEqual}
MC_DiskChain == {DiskChain}
MC_EnvF == {<<1>>, <<1, 2>>}
MC_V1 == {"1.0"}
MC_EnvE == {<<1, 2, 3>>, <<3, 2, 1>>, <<2>>, <<>>}
MC_VEq == {"1", "1.0", "2"}
=============================================================================

INIT Init
NEXT Next
CONSTANTS
  Dev = {}
  Kinds = {"arg", "type", "sig", "function", "property", "signal", "vfunc", "field", "value", "attrs", "constsize", "api"}
  Strict = FALSE
  Full = TRUE
  MaxCnt = 1
INVARIANT BuildEncodes
INVARIANT InvTypeSane
INVARIANT InvApi
CHECK_DEADLOCK FALSE

INIT Init
NEXT Next
CONSTANTS
  Kinds = {"arg", "type", "sig", "function", "property", "signal", "vfunc", "field", "value"}
  Strict = FALSE
  Full = TRUE
  MaxCnt = 1
INVARIANT BuildEncodes
INVARIANT InvTypeSane
CHECK_DEADLOCK FALSE

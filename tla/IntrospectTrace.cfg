INIT Init
NEXT Next
CHECK_DEADLOCK FALSE
CONSTANT AliasRecheck = TRUE
CONSTANT RenameScopeCheck = TRUE
CONSTANT CallableWalks = 2

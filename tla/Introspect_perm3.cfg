SPECIFICATION Spec
CONSTANTS
  N = 3
  Kinds <- K_callables
  TKs <- TK_chain4
  AllowList = FALSE
  AllowNSkip = FALSE
  AllowVSkip = FALSE
  AllowReturn = TRUE
  AllowMoved = FALSE
  AllowHost = FALSE
  AllowRename = FALSE
  MaxFunctions = 1
  Stepwise = FALSE
  AliasRecheck = TRUE
  CallableWalks = 2
  RenameScopeCheck = TRUE
  COrder = FALSE
  Orders <- Perm3
  KnownShapes <- Known_any
  ExportViol = 0
  ExportOk = 0
INVARIANT NoUnknownViolation
CHECK_DEADLOCK FALSE

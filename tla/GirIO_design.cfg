INIT Init
NEXT Next
CONSTANTS
  Defects = {}
  Rich = FALSE
  AllModels = FALSE
  KindSel = {}
INVARIANTS ReadableInv FixedPointInv AgreeInv
CHECK_DEADLOCK FALSE

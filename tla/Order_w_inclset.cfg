SPECIFICATION Spec
CONSTANTS
  SortNamespace = TRUE
  SortIncludes = FALSE
  SortMembers = TRUE
  MainPosFix = TRUE
  CacheFaithful = TRUE
  LastBlockWins = TRUE
  AppendInPlace = TRUE
  DupBodies = FALSE
  DupBlocks = FALSE
  DepOverlap = FALSE
  FullPerm = FALSE
  Inputs <- MC_Small
INVARIANT Deterministic
INVARIANT SiblingOrder
CHECK_DEADLOCK FALSE

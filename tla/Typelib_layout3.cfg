INIT Init
NEXT Next
CONSTANTS
  Kinds = {"layout"}
  Strict = FALSE
  Full = FALSE
  MaxCnt = 3
INVARIANT InvLayout
INVARIANT InvAccessor
CHECK_DEADLOCK FALSE

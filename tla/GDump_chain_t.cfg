INIT Init
NEXT Next
CONSTANTS
  Dev = {"barepointer"}
  Family = "chain"
  Size = "t"
INVARIANT ImplSatisfiesPropertyModuloKnown
INVARIANT ImplSatisfiesExtra
INVARIANT WellFormed
CHECK_DEADLOCK FALSE

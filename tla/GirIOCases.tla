----------------------------- MODULE GirIOCases -----------------------------
(* Exports (a) the channel vocabulary of GirIO.tla -- which fields the harness has to copy out of the real
   giscanner.ast objects for each node kind, which attributes / child elements out of the real XML --
   and (b) the channel cases replayed against the real writer/reader pair (S->C): every node kind x
   section x combination of representative values that GirIOMC explores (TIER = thorough), or at most 100
   TLC-random (-seed) models per (kind, section) (TIER = quick).
   A case is the complete abstract model of one node: [k, sec, m]. *)
EXTENDS GirIOMC, Json, IOUtils, Randomization, SequencesExt

Vocabulary == [k \in Kinds |-> [fields |-> SetToSeq(Fields(k)), attrs |-> SetToSeq(Attrs(k)),
                                 dflt |-> [f \in Fields(k) |-> FRow(k, f).d],
                                 api |-> [f \in Fields(k) |-> FRow(k, f).api]]]
CasesOf(k, s) == LET all == {[k |-> k, sec |-> s, m |-> mm] : mm \in Models(k, s)}
                 IN IF IOEnv.TIER = "thorough" \/ Cardinality(all) <= 100 THEN all ELSE RandomSubset(100, all)
AllCases == UNION {UNION {CasesOf(k, s) : s \in Sections(k)} : k \in Kinds}

ASSUME JsonSerialize(IOEnv.CASES_FILE, [vocabulary |-> Vocabulary, cases |-> SetToSeq(AllCases)])
=============================================================================

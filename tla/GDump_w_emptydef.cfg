INIT Init
NEXT Next
CONSTANTS
  Dev = {"barepointer", "emptydef"}
  Family = "flags"
  Size = "q"
INVARIANT ImplSatisfiesPropertyModuloKnown
CHECK_DEADLOCK FALSE

------------------------------ MODULE Defaults ------------------------------
(***************************************************************************)
(* C02 -- "Undocumented APIs get the documented default ownership, types   *)
(* and roles": what g-ir-scanner emits for declarations WITHOUT any        *)
(* annotation.                                                             *)
(*                                                                         *)
(* Two kinds of case                                                       *)
(*   "val": one value (a C type spelling in parameter / return / field /   *)
(*          constant position).  A spelling is abstracted as               *)
(*          [base word(s), pointer depth, qualifiers per level] where      *)
(*          quals[1] are the qualifiers of the base type and quals[k+1]    *)
(*          those of the k-th '*' ("", "c", "v", "cv").                    *)
(*          `const char * const *` = [char, 2, <<"c","c","">>].            *)
(*          ann = "" for the un-annotated cases; the tiny supplement       *)
(*          ann \in {out, inout, outcaller, outcallee} carries ONLY a      *)
(*          direction annotation so that the "out and inout parameters     *)
(*          transfer fully unless caller-allocated" default is observable. *)
(*          alias = TRUE: the value is declared with a typedef name of the  *)
(*          scanned namespace (`typedef <spelling> FooAlias;  FooAlias f    *)
(*          (void);`): the spelling then describes the typedef's TARGET and *)
(*          the use site is the bare typedef name.                         *)
(*   "arr": one callable (function / method / callback typedef) whose      *)
(*          parameters are a sequence of roles                             *)
(*            cb  callback typedef of the namespace                        *)
(*            ud  gpointer whose name ends in "user_data" (exactly         *)
(*                "user_data" when it is the only ud of the callable)      *)
(*            pt  gpointer named "ptr" (not a user-data name)              *)
(*            dn  GDestroyNotify          as  GAsyncReadyCallback          *)
(*            in  int                     er  GError**                     *)
(*                                                                         *)
(* IMPLEMENTATION-SHAPED LAYER (ImplVal, ImplArr): transcription of        *)
(*   ast.type_names, Transformer._canonicalize_ctype /                     *)
(*   create_type_from_ctype_string / _create_bare_container_type /         *)
(*   _create_complete_source_type / _create_type_from_base / _create_const *)
(*   / _create_callback, ast.TypeContainer.__init__,                       *)
(*   MainTransformer._get_transfer_default* / _pass_callable_defaults /    *)
(*   _apply_annotations_param_ret_common (gpointer nullable) /             *)
(*   _pass3_callable_callbacks / _pass3_callable_throws, GIRWriter.        *)
(* PROPERTY LAYER (ValHolds, ArrHolds): the sentences of the statement     *)
(*   over observables only; silent (TRUE) where the statement is silent.   *)
(***************************************************************************)
EXTENDS Naturals, Integers, Sequences, FiniteSets, TLC

\* what-if switches: deviations of EARLIER versions of the code, each repaired by a fix: commit
\*   "D1" (before ab2ecd0) the qualifier of a void base was dropped from c:type
\*   "D2" (before 9f7b6a8) a pointer to C99 bool stayed unresolved instead of gboolean
\*   "D3" (before 8c1eceb) a constant cast to GType got the alias GObject.Type
\* {} = the current code
CONSTANT Dev

Group(t, S) == [s \in S |-> t]
HasC(q) == q \in {"c", "cv"}

-----------------------------------------------------------------------------
(* The documented table (ast.type_names): spelling -> canonical GI type.   *)
(* Shared by both layers: it IS the documented mapping; the layers differ  *)
(* in how a spelling with pointers / qualifiers / position is looked up.   *)
TypeNames ==
    Group("none",     {"none", "void"}) @@
    Group("gpointer", {"gpointer", "gconstpointer", "any", "id"}) @@
    Group("gboolean", {"gboolean", "boolean"}) @@
    Group("gint8",    {"gint8", "signed char", "int8_t"}) @@
    Group("guint8",   {"guint8", "unsigned char", "uint8_t", "guchar"}) @@
    Group("gint16",   {"gint16", "int16_t"}) @@
    Group("guint16",  {"guint16", "uint16_t", "gunichar2"}) @@
    Group("gint32",   {"gint32", "int32_t"}) @@
    Group("guint32",  {"guint32", "uint32_t"}) @@
    Group("gint64",   {"gint64", "int64_t", "goffset"}) @@
    Group("guint64",  {"guint64", "uint64_t"}) @@
    Group("gchar",    {"gchar", "char"}) @@
    Group("gshort",   {"gshort", "short", "signed short"}) @@
    Group("gushort",  {"gushort", "unsigned short", "unsigned short int"}) @@
    Group("gint",     {"gint", "int", "signed int", "signed", "grefcount", "gatomicrefcount"}) @@
    Group("guint",    {"guint", "unsigned int", "unsigned", "uint"}) @@
    Group("glong",    {"glong", "long", "signed long"}) @@
    Group("gulong",   {"gulong", "unsigned long", "unsigned long int", "ulong"}) @@
    Group("gsize",    {"gsize", "size_t"}) @@
    Group("gssize",   {"gssize", "ssize_t"}) @@
    Group("gintptr",  {"gintptr", "intptr_t"}) @@
    Group("guintptr", {"guintptr", "uintptr_t"}) @@
    Group("long long", {"long long", "signed long long"}) @@
    Group("unsigned long long", {"unsigned long long"}) @@
    Group("gfloat",   {"gfloat", "float"}) @@
    Group("gdouble",  {"gdouble", "double"}) @@
    Group("long double", {"long double"}) @@
    Group("gunichar", {"gunichar"}) @@
    Group("time_t", {"time_t"}) @@ Group("off_t", {"off_t"}) @@ Group("dev_t", {"dev_t"}) @@
    Group("gid_t", {"gid_t"}) @@ Group("pid_t", {"pid_t"}) @@ Group("socklen_t", {"socklen_t"}) @@
    Group("uid_t", {"uid_t"}) @@
    Group("GType",    {"GType"}) @@
    Group("utf8",     {"utf8", "gchararray"}) @@
    Group("filename", {"filename"}) @@
    Group("va_list",  {"va_list"})

\* the four keys of the table that carry a '*'
PtrNames == (<<"char", 1>> :> "utf8") @@ (<<"gchar", 1>> :> "utf8") @@
            (<<"void", 1>> :> "gpointer") @@ (<<"FILE", 1>> :> "gpointer")

\* C99 bool: "used to be treated exactly as gboolean ... continue for now"
BoolWords == {"_Bool", "bool"}

\* ast.BASIC_GIR_TYPES ("basic types")
BasicNames == {"gintptr", "guintptr", "gboolean", "gint8", "guint8", "gint16", "guint16", "gint32", "guint32",
               "gint64", "guint64", "gchar", "gshort", "gushort", "gint", "guint", "glong", "gulong", "gsize",
               "gssize", "long long", "unsigned long long", "time_t", "off_t", "gfloat", "gdouble", "long double",
               "gunichar", "GType", "dev_t", "gid_t", "pid_t", "socklen_t", "uid_t"}

T(tag, name, elems) == [tag |-> tag, name |-> name, elems |-> elems]
Containers ==
    ("GList" :> T("type", "GLib.List", <<"gpointer">>)) @@
    ("GSList" :> T("type", "GLib.SList", <<"gpointer">>)) @@
    ("GHashTable" :> T("type", "GLib.HashTable", <<"gpointer", "gpointer">>)) @@
    ("GArray" :> T("array", "GLib.Array", <<"gpointer">>)) @@
    ("GPtrArray" :> T("array", "GLib.PtrArray", <<"gpointer">>)) @@
    ("GByteArray" :> T("array", "GLib.ByteArray", <<"guint8">>))

\* types of the scanned namespace used by the cases (GIR-local names) and their node kind
NsTypes == ("FooRec" :> "Rec") @@ ("FooEnum" :> "Enum")
NsKind  == ("FooRec" :> "record") @@ ("FooEnum" :> "enum")

StrvArray == T("array", "", <<"utf8">>)
Plain(name) == T("type", name, <<>>)
Silent == T("silent", "", <<>>)

Positions == {"param", "return", "field", "constant"}
Anns == {"", "out", "inout", "outcaller", "outcallee"}

-----------------------------------------------------------------------------
(*                IMPLEMENTATION-SHAPED LAYER  --  values                  *)

\* Transformer._canonicalize_ctype on base + '*' x depth: whole-string lookup first (keeps
\* char* -> utf8 from becoming gchar*), otherwise strip one '*', canonicalise, append it again.
\* Result <<canonical base, remaining pointer depth>>.
RECURSIVE Canon(_, _)
Canon(b, d) ==
    IF d = 0 THEN (IF b \in DOMAIN TypeNames THEN <<TypeNames[b], 0>> ELSE <<b, 0>>)
    ELSE IF <<b, d>> \in DOMAIN PtrNames THEN <<PtrNames[<<b, d>>], 0>>
    ELSE LET c == Canon(b, d - 1) IN <<c[1], c[2] + 1>>

\* Transformer.create_type_from_ctype_string (+ type resolution, + the _create_const side effect)
ImplType(b, d, pos) ==
    LET c  == Canon(b, d)
        \* `if base in ('_Bool', 'bool')` (what-if D2: `if canonical in ...`, compared WITH the pointers,
        \* so only depth 0)
        cb == IF c[1] \in BoolWords /\ (c[2] = 0 \/ "D2" \notin Dev) THEN "gboolean" ELSE c[1]
    IN  IF (pos = "return" /\ cb = "utf8" /\ c[2] = 1) \/ cb = "GStrv" THEN StrvArray
        ELSE IF cb \in DOMAIN TypeNames
             \* what-if D3: _create_const called _resolve_type_from_ctype on the fundamental type: the ctype
             \* GType also matches the alias GObject.Type, and the writer prefers target_giname
             THEN Plain(IF pos = "constant" /\ TypeNames[cb] = "GType" /\ "D3" \in Dev THEN "GObject.Type" ELSE TypeNames[cb])
        ELSE IF cb \in DOMAIN Containers THEN Containers[cb]
        ELSE IF cb \in DOMAIN NsTypes THEN Plain(NsTypes[cb])
        ELSE Plain("")                                      \* unresolved: <type c:type=".."/> without a name

\* Transformer._create_complete_source_type: qualifiers are kept at every level (what-if D1: a void
\* base returned 'void' before looking at them)
ImplCQuals(c) == IF c.base = "void" /\ "D1" \in Dev THEN [c.quals EXCEPT ![1] = ""] ELSE c.quals

\* is_const as computed by _create_type_from_base: outermost node is a pointer whose pointee is const
IsConstPtr(c) == c.depth >= 1 /\ HasC(c.quals[c.depth])

\* ast.TypeContainer.__init__ (const => none) then MainTransformer._get_transfer_default_return
ImplRetTransfer(c, ty) ==
    IF IsConstPtr(c) THEN "none"
    ELSE IF ty.tag = "type" /\ ty.name \in (BasicNames \cup {"gpointer", "none"}) THEN "none"
    ELSE IF ty.tag = "type" /\ ty.name = "utf8" THEN "full"
    ELSE IF ty.tag = "type" /\ c.base \in DOMAIN NsKind /\ NsKind[c.base] = "enum" THEN "none"
    ELSE ""                    \* no default: records, containers, arrays, filename, unresolved ...

\* _apply_annotations_param_ret_common for a bare direction annotation
ImplCallerAlloc(c) ==
    CASE c.ann = "outcaller" -> TRUE
      [] c.ann = "out" -> c.base \in DOMAIN NsKind /\ NsKind[c.base] = "record" /\ c.depth <= 1
      [] OTHER -> FALSE
ImplDirection(c) == IF c.pos # "param" THEN "" ELSE
                    CASE c.ann = "" -> "in" [] c.ann = "inout" -> "inout" [] OTHER -> "out"
\* _get_transfer_default_param
ImplParamTransfer(c) == IF ImplDirection(c) = "in" THEN "none"
                        ELSE IF ImplCallerAlloc(c) THEN "none" ELSE "full"

\* MainTransformer._get_transfer_default_return for a value whose type is an ast.Alias of the
\* namespace: the use site is neither basic nor const, so the default is that of the alias TARGET
\* (_get_transfer_default_returntype_basic(target.target): basic / const / gpointer / none -> none,
\* utf8 -> full, anything else no default)
ImplRetTransferAlias(c) ==
    LET ty == ImplType(c.base, c.depth, "param") IN
    IF IsConstPtr(c) THEN "none"
    ELSE IF ty.tag = "type" /\ ty.name \in (BasicNames \cup {"gpointer", "none"}) THEN "none"
    ELSE IF ty.tag = "type" /\ ty.name = "utf8" THEN "full"
    ELSE ""

ImplValAlias(c) ==
    [present |-> TRUE, tag |-> "type", name |-> "Alias", elems |-> <<>>,
     cbase |-> "FooAlias", cdepth |-> 0, cquals |-> <<"">>,
     transfer |-> CASE c.pos = "param" -> "none"
                    [] c.pos = "return" -> ImplRetTransferAlias(c)
                    [] OTHER -> "",
     nullable |-> FALSE,
     direction |-> IF c.pos = "param" THEN "in" ELSE "",
     callerAlloc |-> FALSE]

ImplVal(c) ==
    IF c.alias THEN ImplValAlias(c) ELSE
    LET ty == ImplType(c.base, c.depth, c.pos) IN
    [present |-> TRUE, tag |-> ty.tag, name |-> ty.name, elems |-> ty.elems,
     cbase |-> c.base, cdepth |-> c.depth, cquals |-> ImplCQuals(c),
     transfer |-> CASE c.pos = "param" -> ImplParamTransfer(c)
                    [] c.pos = "return" -> ImplRetTransfer(c, ty)
                    [] OTHER -> "",                          \* fields and constants carry no transfer
     \* "gpointer parameters and return values are always nullable"
     nullable |-> c.pos \in {"param", "return"} /\ ty = Plain("gpointer"),
     direction |-> ImplDirection(c),
     callerAlloc |-> c.pos = "param" /\ ImplCallerAlloc(c)]

-----------------------------------------------------------------------------
(*                      PROPERTY LAYER  --  values                         *)

\* "C type spellings map to the canonical introspection types (int to gint, char* to utf8, a returned
\*  char** to an array of utf8, _Bool to gboolean, stdint and GLib aliases to their fixed-width types)"
\* Silent where the statement does not determine the outcome (char** outside return position,
\* pointers to strings, FILE by value, unknown names ...).
Expect(c) ==
    LET b == c.base  d == c.depth IN
    IF b \in {"char", "gchar"} THEN
        (IF d = 0 THEN Plain("gchar") ELSE IF d = 1 THEN Plain("utf8")
         ELSE IF d = 2 /\ c.pos = "return" THEN StrvArray ELSE Silent)
    ELSE IF b = "void" THEN
        (IF d >= 1 THEN Plain("gpointer") ELSE IF c.pos = "return" THEN Plain("none") ELSE Silent)
    ELSE IF b = "FILE" THEN (IF d = 1 THEN Plain("gpointer") ELSE Silent)
    ELSE IF b = "GStrv" THEN (IF d = 0 THEN StrvArray ELSE Silent)
    ELSE IF b \in DOMAIN Containers THEN (IF d <= 1 THEN Containers[b] ELSE Silent)
    ELSE IF b \in BoolWords THEN Plain("gboolean")
    ELSE IF b \in DOMAIN TypeNames THEN
        (IF TypeNames[b] \in {"utf8", "filename"} /\ d >= 1 THEN Silent ELSE Plain(TypeNames[b]))
    ELSE Silent

ValNames == {"TypeName", "StrvArray", "Container", "CTypeKept", "InNone", "OutFull",
             "RetBasicNone", "RetConstNone", "RetStringFull", "PtrNullable"}

\* when each clause speaks
ValAnte(cl, c, o) ==
    o.present /\
    \* (for a value declared through a typedef of the namespace the statement does not say which type
    \*  element is written; it does speak about its ownership: a typedef of a const pointer is a const
    \*  value, a typedef of char* a string, a typedef of int a basic type)
    CASE cl = "TypeName"      -> ~c.alias /\ Expect(c).tag = "type" /\ c.base \notin DOMAIN Containers
      [] cl = "StrvArray"     -> ~c.alias /\ Expect(c) = StrvArray
      [] cl = "Container"     -> ~c.alias /\ c.base \in DOMAIN Containers /\ Expect(c).tag # "silent"
      [] cl = "CTypeKept"     -> TRUE
      [] cl = "InNone"        -> c.pos = "param" /\ o.direction = "in"
      [] cl = "OutFull"       -> c.pos = "param" /\ o.direction \in {"out", "inout"}
      [] cl = "RetBasicNone"  -> c.pos = "return" /\ c.depth = 0 /\ Expect(c).tag = "type" /\ Expect(c).name \in BasicNames
      [] cl = "RetConstNone"  -> c.pos = "return" /\ IsConstPtr(c)
      [] cl = "RetStringFull" -> c.pos = "return" /\ c.base \in {"char", "gchar"} /\ c.depth = 1 /\ ~HasC(c.quals[1])
      [] cl = "PtrNullable"   -> ~c.alias /\ c.pos \in {"param", "return"} /\ Expect(c) = Plain("gpointer")

ValCons(cl, c, o) ==
    CASE cl = "TypeName"      -> o.tag = "type" /\ o.name = Expect(c).name
      [] cl = "StrvArray"     -> o.tag = "array" /\ o.name = "" /\ o.elems = <<"utf8">>
      [] cl = "Container"     -> o.tag = Expect(c).tag /\ o.name = Expect(c).name
      \* "with the original C spelling kept as c:type"
      [] cl = "CTypeKept"     -> IF c.alias THEN o.cbase = "FooAlias" /\ o.cdepth = 0 /\ o.cquals = <<"">>
                                 ELSE o.cbase = c.base /\ o.cdepth = c.depth /\ o.cquals = c.quals
      \* "in-parameters do not transfer ownership"
      [] cl = "InNone"        -> o.transfer = "none"
      \* "out and inout parameters transfer fully unless caller-allocated"
      [] cl = "OutFull"       -> o.transfer = (IF o.callerAlloc THEN "none" ELSE "full")
      \* "returned const values and basic types are not transferred"
      [] cl = "RetBasicNone"  -> o.transfer = "none"
      [] cl = "RetConstNone"  -> o.transfer = "none"
      \* "while returned non-const strings are"
      [] cl = "RetStringFull" -> o.transfer = "full"
      \* "untyped pointers are nullable"
      [] cl = "PtrNullable"   -> o.nullable

ValHolds(cl, c, o) == ValAnte(cl, c, o) => ValCons(cl, c, o)

\* Deviations that TLC found on the first version of this module and that were triaged as defects of
\* the code w.r.t. the statement; all three are repaired (see known_findings.json) and live on as the
\* what-if switches D1-D3.  ValTriaged names the (clause, case) pairs each switch must break.
ValTriaged(cl, c) ==
    ~c.alias /\
    (\/ cl = "CTypeKept" /\ c.base = "void" /\ c.quals[1] # "" /\ "D1" \in Dev
     \/ cl = "TypeName" /\ c.base \in BoolWords /\ c.depth >= 1 /\ "D2" \in Dev
     \/ cl = "TypeName" /\ c.base = "GType" /\ c.pos = "constant" /\ "D3" \in Dev)

-----------------------------------------------------------------------------
(*              IMPLEMENTATION-SHAPED LAYER  --  callables                 *)

Roles == {"cb", "ud", "pt", "dn", "as", "in", "er"}
Kinds == {"function", "method", "callback"}
IsCb(r) == r \in {"cb", "as"}                    \* an ast.Callback other than GLib.DestroyNotify

\* the naming rule shared with the harness: the only "ud" of a callable is called exactly user_data
UDExact(roles, k) == roles[k] = "ud" /\ \A j \in 1..Len(roles) : roles[j] = "ud" => j = k

\* second loop of MainTransformer._pass3_callable_callbacks: `callback_param` is the latest callback
\* seen; every later GDestroyNotify becomes its destroy (scope notified), every later gpointer whose
\* name ends in 'data' its closure; later ones overwrite earlier ones.
RECURSIVE CbLoop(_, _, _)
CbLoop(roles, k, st) ==
    IF k > Len(roles) THEN st
    ELSE LET r == roles[k] IN
         IF IsCb(r) THEN CbLoop(roles, k + 1, [st EXCEPT !.cur = k])
         ELSE IF st.cur = 0 THEN CbLoop(roles, k + 1, st)
         ELSE IF r = "dn" THEN CbLoop(roles, k + 1, [st EXCEPT !.des[st.cur] = k, !.sc[st.cur] = "notified"])
         ELSE IF r = "ud" THEN CbLoop(roles, k + 1, [st EXCEPT !.clo[st.cur] = k])
         ELSE CbLoop(roles, k + 1, st)

ImplArr(c) ==
    LET roles == c.roles
        n   == Len(roles)
        st0 == [cur |-> 0,
                \* Transformer._create_callback marks a gpointer named exactly user_data as its own closure
                clo |-> [k \in 1..n |-> IF c.kind = "callback" /\ UDExact(roles, k) THEN k ELSE 0],
                des |-> [k \in 1..n |-> 0],
                \* first loop: well-known callback types get scope async (GDestroyNotify too)
                sc  |-> [k \in 1..n |-> IF roles[k] \in {"as", "dn"} THEN "async" ELSE ""]]
        st  == CbLoop(roles, 1, st0)
        thr == n > 0 /\ roles[n] = "er"          \* _pass3_callable_throws: only the LAST parameter
        m   == IF thr THEN n - 1 ELSE n
    IN  [present |-> TRUE, throws |-> thr,
         \* indices are computed by the writer on the parameter list after the pop (and without the
         \* instance parameter), by name: 0-based position among the emitted parameters
         params |-> [k \in 1..m |-> [role |-> roles[k], scope |-> st.sc[k],
                                     closure |-> st.clo[k] - 1, destroy |-> st.des[k] - 1,
                                     transfer |-> "none",
                                     \* gpointer => nullable; Gio.AsyncReadyCallback => nullable
                                     nullable |-> roles[k] \in {"ud", "pt", "as"}]]]

-----------------------------------------------------------------------------
(*                     PROPERTY LAYER  --  callables                       *)

Trailing(c) == Len(c.roles) > 0 /\ c.roles[Len(c.roles)] = "er"
Emit(c) == IF Trailing(c) THEN Len(c.roles) - 1 ELSE Len(c.roles)
\* the emitted parameters are the declared ones (minus a trailing GError**), in order
Shape(c, o) == o.present /\ Len(o.params) = Emit(c) /\ \A k \in 1..Emit(c) : o.params[k].role = c.roles[k]
RoleAt(c, j) == IF j <= Emit(c) THEN c.roles[j] ELSE "-"
\* parameters that follow callback i before the next callback
Seg(c, i) == {j \in (i + 1)..Emit(c) : \A x \in (i + 1)..j : ~IsCb(c.roles[x])}
UDF(c, i) == {j \in Seg(c, i) : c.roles[j] = "ud"}
DNF(c, i) == {j \in Seg(c, i) : c.roles[j] = "dn"}
\* where the statement speaks: "a user_data pointer FOLLOWING a callback", "a destroy-notify FOLLOWING it":
\* anywhere in the stretch of parameters behind the callback up to the next callback, in either order
\* (foo_add_full (FooFunc func, GDestroyNotify notify, gpointer user_data) is as conventional as the
\* func, user_data, notify triple)
ClosureSites(c) == {i \in 1..Emit(c) : IsCb(c.roles[i]) /\ UDF(c, i) # {}}
DestroySites(c) == {i \in 1..Emit(c) : IsCb(c.roles[i]) /\ DNF(c, i) # {}}
AsyncSites(c) == {i \in 1..Emit(c) : c.roles[i] = "as" /\ DNF(c, i) = {}}
PtrSites(c) == {i \in 1..Emit(c) : c.roles[i] \in {"ud", "pt"}}

ArrNames == {"Throws", "Closure", "Destroy", "NotifiedScope", "AsyncScope", "ParamsInNone", "UserDataNullable"}

ArrAnte(cl, c, o) ==
    CASE cl = "Throws"  -> o.present /\ Trailing(c)
      [] cl = "Closure" -> Shape(c, o) /\ ClosureSites(c) # {}
      [] cl = "Destroy" -> Shape(c, o) /\ DestroySites(c) # {}
      [] cl = "NotifiedScope" -> Shape(c, o) /\ DestroySites(c) # {}
      [] cl = "AsyncScope" -> Shape(c, o) /\ AsyncSites(c) # {}
      [] cl = "ParamsInNone" -> o.present /\ Len(o.params) > 0
      [] cl = "UserDataNullable" -> Shape(c, o) /\ PtrSites(c) # {}

ArrCons(cl, c, o) ==
    \* "A trailing GError** parameter is removed and the callable marked as throwing"
    CASE cl = "Throws"  -> o.throws /\ Shape(c, o)
    \* "a user_data pointer following a callback becomes its closure" -- index = 0-based position among
    \* the emitted parameters; with several candidates following the same callback any of them
      [] cl = "Closure" -> (\A i \in ClosureSites(c) : (o.params[i].closure + 1) \in UDF(c, i))
    \* "a destroy-notify following it becomes its destroy with notified scope"
      [] cl = "Destroy" -> (\A i \in DestroySites(c) : (o.params[i].destroy + 1) \in DNF(c, i))
    \* (an async-ready callback that also has a destroy-notify is claimed by two sentences: either scope)
      [] cl = "NotifiedScope" -> (\A i \in DestroySites(c) :
                                    o.params[i].scope \in (IF c.roles[i] = "cb" THEN {"notified"} ELSE {"notified", "async"}))
    \* "an async-ready callback gets async scope"
      [] cl = "AsyncScope" -> (\A i \in AsyncSites(c) : o.params[i].scope = "async")
    \* "in-parameters do not transfer ownership"
      [] cl = "ParamsInNone" -> (\A k \in 1..Len(o.params) : o.params[k].transfer = "none")
    \* "untyped pointers are nullable"
      [] cl = "UserDataNullable" -> (\A i \in PtrSites(c) : o.params[i].nullable)

ArrHolds(cl, c, o) == ArrAnte(cl, c, o) => ArrCons(cl, c, o)

\* spec-level invariants of interest (DESIGN C02): every parameter has a transfer; closure / destroy
\* indices are positions of the emitted list and point at a user-data pointer / a destroy notify
ArrIndicesOK(c, o) ==
    \A k \in 1..Len(o.params) :
        LET p == o.params[k] IN
        /\ p.transfer # ""
        /\ p.closure >= 0 => (p.closure + 1 \in 1..Len(o.params) /\ o.params[p.closure + 1].role = "ud")
        /\ p.destroy >= 0 => (p.destroy + 1 \in 1..Len(o.params) /\ o.params[p.destroy + 1].role = "dn")

-----------------------------------------------------------------------------
Names(c) == IF c.k = "val" THEN ValNames ELSE ArrNames
Holds(cl, c, o) == IF c.k = "val" THEN ValHolds(cl, c, o) ELSE ArrHolds(cl, c, o)
Ante(cl, c, o) == IF c.k = "val" THEN ValAnte(cl, c, o) ELSE ArrAnte(cl, c, o)
Triaged(cl, c) == c.k = "val" /\ ValTriaged(cl, c)
Impl(c) == IF c.k = "val" THEN ImplVal(c) ELSE ImplArr(c)
=============================================================================

SPECIFICATION Spec
CONSTANTS
  Dev = {"CrossNs"}
  Mode = "pairq"
  AnnSet = {"method"}
INVARIANT I_Present
CHECK_DEADLOCK FALSE

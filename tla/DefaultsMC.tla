----------------------------- MODULE DefaultsMC -----------------------------
(* Exhaustive configurations for Defaults (C02): TLC checks, case by case,
     implementation-shaped layer  =>  property layer
   over  * every spelling = base word of the table (all keys of ast.type_names, C99 bool, FILE, GStrv,
           the six GLib containers, a record, an enum and an unknown typedef of the namespace)
           x pointer depth 0..3 x const/volatile at every level (depth 3: const only)
           x position {param, return, field, constant}                      (Mode = "types")
         * every arrangement of <= MaxParams parameters drawn from {cb, ud, pt, dn, as, in, er}
           x {function, method, callback typedef}                           (Mode = "arr")
   One state per case (Init) plus one per scanned case (Scan), so counterexamples are single cases.
   The same case sets are exported for replay against the real scanner (S->C). *)
EXTENDS Defaults, Json, IOUtils, SequencesExt

CONSTANTS Mode, MaxParams

QualSet == {"", "c", "v", "cv"}
QSeqs(d) == IF d <= 2 THEN [1..(d + 1) -> QualSet] ELSE [1..(d + 1) -> {"", "c"}]
NoQuals(d) == [i \in 1..(d + 1) |-> ""]

AllBases == (DOMAIN TypeNames) \cup BoolWords \cup (DOMAIN Containers) \cup (DOMAIN NsTypes)
            \cup {"FILE", "GStrv", "FooUnknown"}
WitnessBases == {"void", "_Bool", "GType", "int", "char"}

ValOf(B) == UNION {{[k |-> "val", pos |-> p, ann |-> "", base |-> b, depth |-> d, quals |-> q] :
                        b \in B, p \in Positions, q \in QSeqs(d)} : d \in 0..3}
\* `void` by value only makes sense as a return type
Sensible(c) == ~(c.base = "void" /\ c.depth = 0 /\ c.pos # "return")
\* supplement: a bare direction annotation (nothing else) on a pointer parameter
AnnCases == {[k |-> "val", pos |-> "param", ann |-> a, base |-> b, depth |-> d, quals |-> NoQuals(d)] :
                a \in Anns \ {""}, b \in {"int", "char", "gpointer", "FooRec", "FooEnum"}, d \in 1..2}
ValCases == {c \in ValOf(AllBases) : Sensible(c)} \cup AnnCases

RoleSeqs == UNION {[1..n -> Roles] : n \in 0..MaxParams}
ArrCases == {[k |-> "arr", kind |-> kd, roles |-> r] : kd \in Kinds, r \in RoleSeqs}

Cases == CASE Mode = "types" -> ValCases
           [] Mode = "arr" -> ArrCases
           [] Mode = "witness" -> {c \in ValOf(WitnessBases) : Sensible(c) /\ c.depth <= 1}

NoOut == [present |-> FALSE]
VARIABLES case, out
Init == case \in Cases /\ out = NoOut
Scan == out = NoOut /\ out' = Impl(case) /\ UNCHANGED case
Next == Scan
Spec == Init /\ [][Next]_<<case, out>>

Scanned == out # NoOut
\* implementation layer => property layer, except the triaged deviations D1-D3
ImplSatisfiesProperty == Scanned => \A cl \in Names(case) : Holds(cl, case, out) \/ Triaged(cl, case)
\* the same without the exemption: TLC's counterexample is the witness of a deviation
NoDeviation == Scanned => \A cl \in Names(case) : Holds(cl, case, out)
\* the exemption is not vacuous: every triaged pair really is a deviation of the implementation layer
TriagedAreDeviations == Scanned => \A cl \in Names(case) : Triaged(cl, case) => ~Holds(cl, case, out)
\* every clause is exercised by some case of the configuration is shown by the coverage of Ante below
IndicesPostRemoval == (Scanned /\ case.k = "arr") => ArrIndicesOK(case, out)
\* the statement's sentences never contradict each other on a case (both "none" and "full" demanded)
Consistent == Scanned => ~(case.k = "val" /\ ValAnte("RetStringFull", case, out) /\
                           (ValAnte("RetConstNone", case, out) \/ ValAnte("RetBasicNone", case, out)))

\* ---- case export (only when the harness asks for it)
Export == IF "CASES_FILE" \in DOMAIN IOEnv THEN ndJsonSerialize(IOEnv.CASES_FILE, SetToSeq(Cases)) ELSE TRUE
ASSUME Export
=============================================================================

----------------------------- MODULE DefaultsMC -----------------------------
(* Exhaustive configurations for Defaults (C02): TLC checks, case by case,
     implementation-shaped layer  =>  property layer
   over  * every spelling = base word of the table (all keys of ast.type_names, C99 bool, FILE, GStrv,
           the six GLib containers, a record, an enum and an unknown typedef of the namespace)
           x pointer depth 0..3 x const/volatile at every level (depth 3: const only)
           x position {param, return, field, constant}                      (Mode = "types";
           "types_q" = quick tier: every base at depth <= 1, representatives of every group deeper)
         * every arrangement of <= MaxParams parameters drawn from {cb, ud, pt, dn, as, in, er}
           x {function, method, callback typedef}                           (Mode = "arr")
   One initial state per case plus one per scanned case (Scan applies the implementation layer), so a
   counterexample is a single case.  The same case set is exported for replay against the real
   scanner (S->C) when the harness sets CASES_FILE. *)
EXTENDS Defaults, Json, IOUtils, SequencesExt

CONSTANTS Mode, MaxParams

MC_DevAll == {"D1", "D2", "D3"}
QualSet == {"", "c", "v", "cv"}
QSeqs(d) == IF d <= 2 THEN [1..(d + 1) -> QualSet] ELSE [1..(d + 1) -> {"", "c"}]
NoQuals(d) == [i \in 1..(d + 1) |-> ""]

AllBases == (DOMAIN TypeNames) \cup BoolWords \cup (DOMAIN Containers) \cup (DOMAIN NsTypes)
            \cup {"FILE", "GStrv", "FooUnknown"}
\* quick tier: representatives of every target group at depth 2..3
RepBases == {"int", "unsigned long", "char", "gchar", "void", "_Bool", "gboolean", "guint8", "gsize", "GType", "gpointer",
             "gconstpointer", "FILE", "GStrv", "GList", "GHashTable", "GByteArray", "FooRec", "FooEnum", "FooUnknown",
             "utf8", "time_t", "long long", "gdouble"}
WitnessBases == {"void", "_Bool", "GType", "int", "char"}
AnnBases == {"int", "char", "gpointer", "FooRec", "FooEnum"}

\* (operators with a dummy parameter, not zero-arity definitions: TLC pre-evaluates and deep-normalises
\*  zero-arity constant definitions at start-up.  One flat comprehension per set: unions and filters of
\*  large record sets are several times slower in TLC.)
\* `void` by value in parameter / field / constant position is not a C declaration: those 12 cases are
\* in the model (the property layer is silent on them) but are not rendered by the harness.
ValSet(B, D) == {[k |-> "val", pos |-> p, ann |-> "", base |-> b, depth |-> Len(q) - 1, quals |-> q, alias |-> FALSE] :
                    b \in B, p \in Positions, q \in UNION {QSeqs(d) : d \in D}}
\* values declared through a typedef of the namespace (`typedef <spelling> FooAlias;`), in parameter and
\* return position: every qualifier combination of depth 0..1 targets
AliasBases == {"int", "guint8", "gboolean", "double", "gsize", "char", "gchar", "gpointer", "GType", "FooRec", "FooEnum",
               "GList"}
AliasSet(z) == {[k |-> "val", pos |-> p, ann |-> "", base |-> b, depth |-> Len(q) - 1, quals |-> q, alias |-> TRUE] :
                    b \in AliasBases, p \in {"param", "return"}, q \in UNION {QSeqs(d) : d \in 0..1}}
                \cup {[k |-> "val", pos |-> p, ann |-> "", base |-> "void", depth |-> 1, quals |-> q, alias |-> TRUE] :
                    p \in {"param", "return"}, q \in QSeqs(1)}
\* supplement: a bare direction annotation (nothing else) on a pointer parameter
AnnCases(z) == {[k |-> "val", pos |-> "param", ann |-> a, base |-> b, depth |-> d, quals |-> NoQuals(d), alias |-> FALSE] :
                   a \in Anns \ {""}, b \in AnnBases, d \in 1..2}
RoleSeqs(z) == UNION {[1..n -> Roles] : n \in 0..MaxParams}

Cases(z) == CASE Mode = "types" -> ValSet(AllBases, 0..3) \cup AnnCases(z) \cup AliasSet(z)
              [] Mode = "types_q" -> ValSet(AllBases, 0..1) \cup ValSet(RepBases, 2..3) \cup AnnCases(z) \cup AliasSet(z)
              [] Mode = "witness" -> ValSet(WitnessBases, 0..1)
              [] Mode = "arr" -> {[k |-> "arr", kind |-> kd, roles |-> r] : kd \in Kinds, r \in RoleSeqs(z)}

NoOut == [present |-> FALSE]
VARIABLES case, out
vars == <<case, out>>
Init == case \in Cases(0) /\ out = NoOut
Scan == out = NoOut /\ out' = Impl(case) /\ UNCHANGED case
Next == Scan
Spec == Init /\ [][Next]_vars

Scanned == out # NoOut
\* implementation layer => property layer, except the triaged deviations D1-D3
ImplSatisfiesProperty == Scanned => \A cl \in Names(case) : Holds(cl, case, out) \/ Triaged(cl, case)
\* the same without the exemption: TLC's counterexample is the witness of a deviation
NoDeviation == Scanned => \A cl \in Names(case) : Holds(cl, case, out)
\* one witness per triaged deviation (thorough tier)
W_D1 == Scanned => Holds("CTypeKept", case, out)
W_D2 == (Scanned /\ case.base \in BoolWords) => Holds("TypeName", case, out)
W_D3 == (Scanned /\ case.base = "GType") => Holds("TypeName", case, out)
\* the exemption is not vacuous: every triaged pair really is a deviation of the implementation layer
TriagedAreDeviations == Scanned => \A cl \in Names(case) : Triaged(cl, case) => ~Holds(cl, case, out)
\* DESIGN C02: every parameter has a transfer; closure/destroy indices refer to post-removal positions
IndicesPostRemoval == (Scanned /\ case.k = "arr") => ArrIndicesOK(case, out)
\* the statement's sentences never contradict each other on a case (both "none" and "full" demanded)
Consistent == (Scanned /\ case.k = "val") =>
                 ~(ValAnte("RetStringFull", case, out) /\
                   (ValAnte("RetConstNone", case, out) \/ ValAnte("RetBasicNone", case, out)))

\* ---- case export (only when the harness asks for it)
Export == IF "CASES_FILE" \in DOMAIN IOEnv THEN ndJsonSerialize(IOEnv.CASES_FILE, SetToSeq(Cases(0))) ELSE TRUE
ASSUME Export
=============================================================================

SPECIFICATION Spec
CONSTANTS
  NS <- MC_NS
  Dirs <- MC_Dirs2
  VChars <- MC_VChars
  DiskConfigs <- MC_DiskChain
  EnvConfigs <- MC_EnvF
  MaxCalls = 3
  Ops <- MC_OpsLazy
  ReqVers <- MC_V1
  Lazies <- MC_Both
  Dev = {}
  Known <- MC_KnownDesign
CHECK_DEADLOCK FALSE
INVARIANT ImplMeetsProperty
INVARIANT OneVersionPerNs
INVARIANT DepsClosedInv

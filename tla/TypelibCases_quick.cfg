INIT CInit
NEXT Next
CONSTANTS
  Kinds = {}
  Strict = TRUE
  Full = FALSE
  MaxCnt = 1
CHECK_DEADLOCK FALSE

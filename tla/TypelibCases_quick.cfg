INIT CInit
NEXT Next
CONSTANTS
  Dev = {}
  Kinds = {}
  Strict = TRUE
  Full = FALSE
  MaxCnt = 1
CHECK_DEADLOCK FALSE

SPECIFICATION Spec
CONSTANTS
  Code = {}
  Known = {}
  Full = FALSE
  Families = {"value", "callable", "members", "compound", "types", "flags"}
INVARIANTS Inv_Doc Inv_Elem Inv_Balanced
CHECK_DEADLOCK FALSE

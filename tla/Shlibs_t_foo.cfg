SPECIFICATION Spec
CONSTANTS
  Theme = "foo"
  ML = 3
  MW = 2
  EML = 3
  EMW = 2
  Variant = "asis"
  Gran = "case"
  Cases <- MC_Cases
  LaCases <- MC_None
CHECK_DEADLOCK FALSE
ALIAS Alias
INVARIANT TypeOK
INVARIANT StepsAgree
INVARIANT Inv_Property
INVARIANT Inv_EqualsResolve
INVARIANT Inv_Progress

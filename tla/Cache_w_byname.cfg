SPECIFICATION Spec
CONSTANTS
  Procs <- MC_Procs3
  SVer <- MC_SVerSame
  MaxEdits = 1
  MaxIno = 3
  AllowCopy = FALSE
  MaxCrashes = 0
  Coarse = FALSE
  StatByName = TRUE
  StampFirst = FALSE
  KnownCauses = {}
CHECK_DEADLOCK FALSE
INVARIANT NoWitnessStatByName

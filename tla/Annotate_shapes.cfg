SPECIFICATION MCSpec
CONSTANTS
  Dev = {}
  Which = "shapes"
  Cases <- NoCases
INVARIANT ImplSatisfiesProperty
CHECK_DEADLOCK FALSE

SPECIFICATION Spec
CONSTANTS
  N = 2
  Kinds <- K_callables
  TKs <- TK_chain
  AllowList = FALSE
  AllowNSkip = FALSE
  AllowVSkip = FALSE
  AllowReturn = TRUE
  AllowMoved = FALSE
  AllowHost = FALSE
  AllowRename = FALSE
  MaxFunctions = 1
  Stepwise = TRUE
  AliasRecheck = FALSE
  CallableWalks = 2
  RenameScopeCheck = TRUE
  COrder = TRUE
  Orders <- Id2
  KnownShapes <- W_alias_cb
  ExportViol = 0
  ExportOk = 0
INVARIANT NoWitness
CHECK_DEADLOCK FALSE

INIT TInit
NEXT TNext
CONSTANTS
  Dev = {}
CHECK_DEADLOCK FALSE

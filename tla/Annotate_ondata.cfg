SPECIFICATION MCSpec
CONSTANTS
  Dev = {}
  Which = "ondata"
  Cases <- NoCases
INVARIANT ImplSatisfiesProperty
CHECK_DEADLOCK FALSE

SPECIFICATION Spec
CONSTANTS
  Which = "ondata"
  Cases <- MC_Cases
INVARIANT ImplSatisfiesProperty
CHECK_DEADLOCK FALSE

SPECIFICATION Spec
CONSTANTS
  SortNamespace = TRUE
  SortIncludes = TRUE
  SortMembers = TRUE
  MainPosFix = TRUE
  CacheFaithful = TRUE
  LastBlockWins = TRUE
  DupBodies = FALSE
  DupBlocks = FALSE
  DepOverlap = FALSE
  FullPerm = TRUE
  Inputs <- MC_Perm
INVARIANT Deterministic
INVARIANT SiblingOrder
CHECK_DEADLOCK FALSE

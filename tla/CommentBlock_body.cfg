SPECIFICATION Spec
CONSTANTS
  Forms <- OneForm
  Indents <- Ind012
  MaxIdAnns = 0
  MaxParams = 1
  MaxParamAnns = 0
  MaxPartLines = 2
  MaxDescLines = 2
  MaxParas = 2
  MaxTags = 2
  TagNames <- TagsAll
  MaxTagAnns = 2
  MaxCont = 1
  MaxNoise = 1
  AtReturns = TRUE
  FaultKinds <- NoFaults
  MaxFaults = 0
  KeepLines = FALSE
  Known <- KnownC10
  StartLine = 10
CHECK_DEADLOCK FALSE
INVARIANT TypeOK
INVARIANT RoundTrip
INVARIANT WriterFix

INIT Init
NEXT Next
CONSTANTS
  Dev = {"barepointer"}
  Family = "sig"
  Size = "q"
INVARIANT ImplSatisfiesPropertyModuloKnown
INVARIANT ImplSatisfiesExtra
INVARIANT WellFormed
CHECK_DEADLOCK FALSE

SPECIFICATION Spec
CONSTANTS
  Themes = {"foo", "pango", "sep", "meta1", "meta2"}
  ML = 2
  MW = 2
  EML = 2
  EMW = 2
  LaML = 0
  Variant = "asis"
  Gran = "case"
  Cases <- MC_Cases
  LaCases <- MC_LaCases
CHECK_DEADLOCK FALSE
ALIAS Alias
INVARIANT TypeOK
INVARIANT Inv_Property
INVARIANT Inv_EqualsResolve

SPECIFICATION TSpec
CONSTANTS
  Procs <- T_Procs
  SVer <- T_SVer
  MaxEdits = 6
  MaxIno = 12
  AllowCopy = TRUE
  MaxCrashes = 3
  Coarse = TRUE
  StatByName = FALSE
  StampFirst = FALSE
  KnownCauses = {}
CHECK_DEADLOCK FALSE

----------------------------- MODULE GDumpCases -----------------------------
(* Exports the worlds of GDumpMC -- exactly the sets TLC model-checks for the given Size -- for replay against the
   real scanner (S->C).  GDumpCases_q.cfg: the quick-tier slices; GDumpCases_t.cfg: every world of every family. *)
EXTENDS GDumpMC, Json, IOUtils, SequencesExt

ASSUME JsonSerialize(IOEnv.CASES_FILE,
         [chain |-> SetToSeq(ChainWorlds), flags |-> SetToSeq(FlagsWorlds), pair |-> SetToSeq(PairFiltered),
          sig |-> SetToSeq(SigWorlds), quark |-> SetToSeq(QuarkWorlds), iface |-> SetToSeq(IfaceWorlds)])

CInit == /\ w = <<>> /\ pc = "export" /\ ns = EmptyNs /\ asked = <<>> /\ askedQ = <<>> /\ dump = <<>> /\ dumpQ = <<>>
         /\ idx = 1 /\ btab = <<>> /\ ptab = <<>> /\ girOut = EmptyG
CNext == UNCHANGED vars
=============================================================================

-------------------------- MODULE CommentBlockTrace --------------------------
(***************************************************************************)
(* C10 -- the property layer of CommentBlock.tla evaluated by TLC on       *)
(* observations of the REAL GtkDocCommentBlockParser / Writer              *)
(* (harness/props/c10.py).                                                 *)
(*                                                                         *)
(* One record per (model, layout) case exported by TLC (CommentBlockCases) *)
(* or per upstream fixture:                                                *)
(*   id, src ("tlc" | "fixture"), form,                                    *)
(*   exp       the model: the tree the comment text means (for TLC cases   *)
(*             the exported model with the opaque ids replaced by the      *)
(*             strings written into the text; for fixtures upstream's      *)
(*             expected tree),                                             *)
(*   variants  the distinct observations over the concrete layouts of the  *)
(*             case: lay, n (how many layouts gave this observation),      *)
(*             raised, got (projected parse tree), rtok, rt = projected    *)
(*             parse(write(parse(text))),                                  *)
(*   hasabs, lines, model   the abstract case (line classes + abstract     *)
(*             tree), on which the spec's OWN parser is evaluated:         *)
(*             ParseAll(lines) # model is DRIFT (spec vs. intent), never   *)
(*             a violation.                                                *)
(* RoundTrip of CommentBlock.tla is Tree(ps) = model; here the same        *)
(* equation is stated clause by clause on the observed tree.               *)
(***************************************************************************)
EXTENDS CommentBlock, Json, IOUtils, SequencesExt

Obs == JsonDeserialize(IOEnv.TRACE_FILE)

Names(s) == [i \in 1..Len(s) |-> s[i].name]
SameParams(t, e) == t.present /\ Names(t.params) = Names(e.params)
SameTags(t, e) == t.present /\ Names(t.tags) = Names(e.tags)

\* one clause of the statement on one observation v of a block whose model is e
C10(c, e, v) ==
  LET gt == v.got IN
  CASE c = "NoRaise"     -> ~v.raised
    [] c = "Parsed"      -> gt.present
    [] c = "Identifier"  -> gt.present => gt.name = e.name
    [] c = "IdentAnns"   -> gt.present => gt.anns = e.anns
    [] c = "ParamNames"  -> gt.present => Names(gt.params) = Names(e.params)
    [] c = "ParamAnns"   -> SameParams(gt, e) => \A i \in 1..Len(e.params) : gt.params[i].anns = e.params[i].anns
    [] c = "ParamDesc"   -> SameParams(gt, e) => \A i \in 1..Len(e.params) : gt.params[i].desc = e.params[i].desc
    [] c = "BlockDesc"   -> gt.present => gt.desc = e.desc
    [] c = "TagNames"    -> gt.present => Names(gt.tags) = Names(e.tags)
    [] c = "TagAnns"     -> SameTags(gt, e) => \A i \in 1..Len(e.tags) : gt.tags[i].anns = e.tags[i].anns
    [] c = "TagValue"    -> SameTags(gt, e) => \A i \in 1..Len(e.tags) : gt.tags[i].val = e.tags[i].val
    [] c = "TagDesc"     -> SameTags(gt, e) => \A i \in 1..Len(e.tags) : gt.tags[i].desc = e.tags[i].desc
    [] c = "WriterRoundTrip" -> gt.present => (v.rtok /\ v.rt = gt)

ClauseNames == {"NoRaise", "Parsed", "Identifier", "IdentAnns", "ParamNames", "ParamAnns", "ParamDesc", "BlockDesc",
                "TagNames", "TagAnns", "TagValue", "TagDesc", "WriterRoundTrip"}

\* the spec's own parser on the abstract case (drift detector, not part of the verdict on the code)
\* (ParseAll of CommentBlock.tla, folded iteratively: fixture blocks have hundreds of lines)
ParseAllIter(ls) == Tree(Fin(FoldLeft(PL, PS0, ls)))
SpecAgrees(r) == r.hasabs => ParseAllIter(r.lines) = r.model

Fails(r, c) == {k \in 1..Len(r.variants) : ~C10(c, r.exp, r.variants[k])}
Detail(r, c) == LET k == CHOOSE k \in Fails(r, c) : \A j \in Fails(r, c) : k <= j
                IN r.form \o "/" \o r.variants[k].lay
RejectedOf(r) == { <<r.id, c, Detail(r, c)>> : c \in {d \in ClauseNames : Fails(r, d) # {}} }
                 \cup (IF SpecAgrees(r) THEN {} ELSE {<<r.id, "DRIFT:SpecParser", r.form>>})
Rejected == UNION { RejectedOf(Obs[i]) : i \in 1..Len(Obs) }

Count(P(_)) == Cardinality({i \in 1..Len(Obs) : P(Obs[i])})
HasParams(r) == r.exp.params # <<>>
HasTags(r) == r.exp.tags # <<>>
HasDesc(r) == r.exp.desc # <<>>
HasIdAnns(r) == r.exp.anns # <<>>
HasParamAnns(r) == \E i \in 1..Len(r.exp.params) : r.exp.params[i].anns # <<>>
HasParamDesc(r) == \E i \in 1..Len(r.exp.params) : r.exp.params[i].desc # <<>>
HasTagAnns(r) == \E i \in 1..Len(r.exp.tags) : r.exp.tags[i].anns # <<>>
HasTagVal(r) == \E i \in 1..Len(r.exp.tags) : r.exp.tags[i].val # ""
HasTagDesc(r) == \E i \in 1..Len(r.exp.tags) : r.exp.tags[i].desc # <<>>
AnyRec(r) == TRUE
HasAbs(r) == r.hasabs
Exercised == [ NoRaise |-> Count(AnyRec), Parsed |-> Count(AnyRec), Identifier |-> Count(AnyRec), IdentAnns |-> Count(HasIdAnns),
               ParamNames |-> Count(HasParams), ParamAnns |-> Count(HasParamAnns), ParamDesc |-> Count(HasParamDesc),
               BlockDesc |-> Count(HasDesc), TagNames |-> Count(HasTags), TagAnns |-> Count(HasTagAnns),
               TagValue |-> Count(HasTagVal), TagDesc |-> Count(HasTagDesc), WriterRoundTrip |-> Count(AnyRec),
               SpecParser |-> Count(HasAbs) ]

ASSUME JsonSerialize(IOEnv.VERDICT_FILE, [n |-> Len(Obs), rejected |-> SetToSeq(Rejected), exercised |-> Exercised])
VARIABLE done
TInit == done = FALSE /\ pc = "x" /\ g = G0 /\ model = M0 /\ lines = <<>> /\ ps = PS0 /\ expected = {}
TNext == ~done /\ done' = TRUE /\ UNCHANGED vars
=============================================================================

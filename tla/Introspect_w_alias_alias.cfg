SPECIFICATION Spec
CONSTANTS
  N = 4
  Kinds <- K_alias
  TKs <- TK_alias
  AllowList = FALSE
  AllowNSkip = FALSE
  AllowVSkip = FALSE
  AllowReturn = FALSE
  AllowMoved = FALSE
  AllowHost = FALSE
  AllowRename = FALSE
  MaxFunctions = 0
  Stepwise = TRUE
  AliasRecheck = TRUE
  CallableWalks = 2
  RenameScopeCheck = TRUE
  COrder = FALSE
  Orders <- Id4
  KnownShapes <- W_alias_alias
  ExportViol = 0
  ExportOk = 0
INVARIANT NoWitness
CHECK_DEADLOCK FALSE

SPECIFICATION Spec
CONSTANTS
  NS <- MC_NS
  Dirs <- MC_Dirs3
  VChars <- MC_VChars
  DiskConfigs <- MC_DiskAll
  EnvConfigs <- MC_EnvS
  MaxCalls = 12
  Ops <- MC_AllOps
  ReqVers <- MC_V4
  Lazies <- MC_Both
  Dev = {}
  Known <- MC_Skip
CHECK_DEADLOCK FALSE

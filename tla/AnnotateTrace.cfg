INIT TInit
NEXT TNext
CONSTANT Cases <- TraceCases
CHECK_DEADLOCK FALSE

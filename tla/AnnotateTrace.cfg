INIT TInit
NEXT TNext
CONSTANT Cases <- TraceCases
CONSTANT Dev = {}
CHECK_DEADLOCK FALSE

SPECIFICATION Spec
CONSTANTS
  Forms <- AllForms
  Indents <- Ind02
  MaxIdAnns = 2
  MaxParams = 2
  MaxParamAnns = 2
  MaxPartLines = 1
  MaxDescLines = 1
  MaxParas = 1
  MaxTags = 0
  TagNames <- TagsR
  MaxTagAnns = 0
  MaxCont = 2
  MaxNoise = 0
  AtReturns = FALSE
  FaultKinds <- NoFaults
  MaxFaults = 0
  KeepLines = FALSE
  Known <- KnownC10
  StartLine = 10
CHECK_DEADLOCK FALSE
INVARIANT TypeOK
INVARIANT RoundTrip
INVARIANT WriterFix

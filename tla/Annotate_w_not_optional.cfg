\* witness: with the earlier behaviour "not-optional" switched back on, TLC exhibits a case that breaks the property
SPECIFICATION MCSpec
CONSTANTS
  Dev = {"not-optional"}
  Which = "witness"
  Cases <- NoCases
INVARIANT NoDeviation
CHECK_DEADLOCK FALSE

------------------------------ MODULE Introspect ------------------------------
(***************************************************************************)
(* C05 "Everything left introspectable is bindable and every reference     *)
(* resolves" -- implementation-shaped layer, part 2: the state machine.    *)
(*                                                                         *)
(*   build   a namespace graph is chosen node by node (kinds and namespace *)
(*           order are chosen in Init): every graph of N nodes over the    *)
(*           configured kinds / type kinds / flags                         *)
(*   walks   one action per namespace.walk() of                            *)
(*           IntrospectablePass.validate, in the real order                *)
(*             alias analysis, skip propagation, _analyze_node,            *)
(*             callable analysis x2, property analysis, pass3,             *)
(*             back-compat removal, symbol collisions                      *)
(*           each walk visits the nodes in namespace order and every visit *)
(*           sees the flags left by the earlier visits (IntrospectWalks!   *)
(*           Visit is the transcription of the callbacks)                  *)
(*   write   GIRWriter: the abstract GIR of the final flags                *)
(*           (Stepwise = FALSE: walks and writer are one action, Finish)   *)
(*   done    property layer: Closed(gir)   (tla/IntrospectProp.tla)       *)
(*                                                                         *)
(* Namespace order.  ast.Namespace.walk iterates an OrderedDict in         *)
(* insertion order = order of the C declarations (one translation unit,    *)
(* giscanner/sourcescanner.py:_parse; the lexer only knows a typedef name  *)
(* after its declaration, scannerlexer.l:check_identifier).  COrder = TRUE *)
(* restricts the graphs to those a C header can declare in that order      *)
(* (alias/callback/function after the typedef names they use); COrder =    *)
(* FALSE explores every order.  Orders is the set of permutations          *)
(* explored; because all labelled graphs are enumerated, Orders =          *)
(* {identity} already covers every order up to renaming of the nodes       *)
(* (Introspect_perm3.cfg checks all 6 permutations of 3 nodes instead).    *)
(***************************************************************************)
EXTENDS IntrospectWalks

CONSTANTS
    N,            \* number of top-level nodes
    Kinds,        \* node kinds explored (subset of alias callback function record enum class)
    TKs,          \* type kinds explored (subset of fund valist longlong longdouble varargs unres foreign node)
    AllowList,    \* GList containers (with element kinds any, fund, unres, node)
    AllowNSkip,   \* (skip) annotations on nodes
    AllowVSkip,   \* (skip) annotations on parameters / return values
    AllowReturn,  \* callables whose one site is the return value
    AllowMoved,   \* functions that are backwards-compatibility copies (moved-to)
    AllowHost,    \* functions that are methods of a record (walked at the record's position)
    AllowRename,  \* functions carrying (rename-to <the method set_p of a class>): a target in another container
    MaxFunctions, \* functions are sinks (nothing refers to them): more than one adds nothing
    Stepwise,     \* TRUE: one action per walk; FALSE: validate() as one action (their composition, Run)
    COrder,       \* only graphs declarable in C in namespace order
    Orders,       \* permutations of 1..N explored
    KnownShapes,  \* shapes of Closed violations that are recorded findings (see NoUnknownViolation)
    ExportViol, ExportOk     \* S->C export: > 0 prints the violating final cases without padding / every k-th closed one

VARIABLES pc, kinds, order, nodes, built, st, gir,
          rej      \* Rejections(gir), evaluated once when gir is written; shapes of cases that no C header
                   \* can declare in namespace order carry the suffix @use-before-declaration

vars == <<pc, kinds, order, nodes, built, st, gir, rej>>
Nodes == 1..N

TypeDefining(k) == k \in {"alias", "callback", "record", "enum", "class"}
Pos(o, n) == CHOOSE i \in DOMAIN o : o[i] = n
EmptyGir == [ns |-> "", avail |-> <<>>, partial |-> <<>>, inferred |-> TRUE, defs |-> <<>>, uses |-> <<>>, idx |-> <<>>, pairs |-> <<>>]

Init ==
    /\ pc = "build" /\ built = 0 /\ nodes = <<>> /\ st = <<>> /\ gir = EmptyGir /\ rej = {}
    /\ kinds \in [Nodes -> Kinds]
    /\ Cardinality({n \in Nodes : kinds[n] = "function"}) <= MaxFunctions
    /\ order \in Orders
    \* classes come from the GType dump and are (re)appended after everything else
    /\ \A a, b \in Nodes : (kinds[a] = "class" /\ kinds[b] # "class") => Pos(order, b) < Pos(order, a)

---------------------------------------------------------------------------
\* the sites a node of kind k may have (what C and the annotations can express)
TkFor(role) ==
    CASE role = "target"   -> {"fund", "valist", "longlong", "unres", "foreign", "node"}
      [] role = "param"    -> {"fund", "valist", "longlong", "longdouble", "varargs", "unres", "foreign", "node"}
      [] role = "return"   -> {"fund", "longlong", "unres", "foreign", "node"}
      [] role = "field"    -> {"fund", "longlong", "unres", "foreign", "node"}
      [] role = "property" -> {"fund", "unres", "node"}
      [] OTHER             -> {}

\* may node n (declared where `order` says) name node t in a site of the given role ?
MayTarget(n, role, t) ==
    /\ t # n /\ TypeDefining(kinds[t])
    /\ role = "property" => kinds[t] = "class"         \* property types come from GType names
    /\ (COrder /\ kinds[n] \in {"alias", "callback", "function"} /\ kinds[t] # "class")
          => Pos(order, t) < Pos(order, n)             \* the typedef name is declared before its use

ContTk(role) ==
    {<<"none", tk>> : tk \in TKs \cap TkFor(role)}
    \cup (IF AllowList /\ role \in {"param", "return", "field"}
           THEN {<<"list", tk>> : tk \in {"any"} \cup ({"fund", "unres", "node"} \cap TKs)} ELSE {})
TgtSet(n, role, tk) == IF tk = "node" THEN {t \in Nodes : MayTarget(n, role, t)} ELSE {0}
\* _get_transfer_default_*: only return values of list / record / class type can lack a transfer
XferSet(role, cont, tk, t) ==
    IF role = "return" /\ (cont = "list" \/ (tk = "node" /\ kinds[t] \in {"record", "class"})) THEN BOOLEAN ELSE {TRUE}
\* (scope) / the GDestroyNotify heuristic only act on parameters whose type is an alias chain ending in a callback
ScopeSet(role, cont, tk, t) ==
    IF role = "param" /\ cont = "none" /\ tk = "node" /\ kinds[t] \in {"callback", "alias"} THEN BOOLEAN ELSE {FALSE}
VSet(role) == IF AllowVSkip /\ role \in {"param", "return"} THEN BOOLEAN ELSE {FALSE}

Sites(n, role) ==
    UNION { UNION { { [role |-> role, cont |-> ct[1], tk |-> ct[2], tgt |-> t, xfer |-> x, scope |-> sc, vskip |-> v] :
                        x \in XferSet(role, ct[1], ct[2], t), sc \in ScopeSet(role, ct[1], ct[2], t), v \in VSet(role) } :
                    t \in TgtSet(n, role, ct[2]) } :
            ct \in ContTk(role) }

Roles(k) == IF IsCallable(k) THEN {"param"} \cup (IF AllowReturn THEN {"return"} ELSE {})
            ELSE IF k = "alias" THEN {"target"} ELSE IF k = "record" THEN {"field"} ELSE {}

NodeRecs(n) ==
    LET k == kinds[n] IN
    [kind : {k}, nskip : IF AllowNSkip THEN BOOLEAN ELSE {FALSE},
     moved : IF AllowMoved /\ k = "function" THEN BOOLEAN ELSE {FALSE},
     ren : IF AllowRename /\ k = "function" THEN {0} \cup {c \in Nodes : kinds[c] = "class"} ELSE {0},
     host : IF AllowHost /\ k = "function"
              THEN {0} \cup {h \in Nodes : kinds[h] = "record" /\ (COrder => Pos(order, h) < Pos(order, n))} ELSE {0},
     site : IF k = "class" THEN Sites(n, "param")
            ELSE IF Roles(k) = {} THEN {NoSite} ELSE UNION {Sites(n, r) : r \in Roles(k)},
     psite : IF k = "class" THEN Sites(n, "property") ELSE {NoSite},
     ssite : IF k = "class" THEN {s \in Sites(n, "param") : s.tk \in {"fund", "unres", "node"} /\ s.cont = "none" /\ ~s.scope /\ ~s.vskip
                                                               /\ (s.tk = "node" => kinds[s.tgt] = "class")}
             ELSE {NoSite}]

Build ==
    /\ pc = "build" /\ built < N
    /\ \E r \in NodeRecs(built + 1) : (r.host # 0 => (~r.moved /\ r.ren = 0)) /\ nodes' = Append(nodes, r)
    /\ built' = built + 1
    /\ UNCHANGED <<pc, kinds, order, st, gir, rej>>

\* typedef chains are acyclic in C; resolve_aliases would not terminate otherwise
RECURSIVE AliasAcyclic(_, _, _)
AliasAcyclic(g, n, fuel) ==
    IF g[n].kind # "alias" \/ ~Direct(g[n].site) THEN TRUE
    ELSE fuel > 0 /\ AliasAcyclic(g, g[n].site.tgt, fuel - 1)

Case == [nodes |-> nodes, order |-> order]

\* can a C header declare the nodes in namespace order ?  (typedef names are declared before use)
CDeclarable(g, o) ==
    \A n \in DOMAIN g : /\ (g[n].kind \in {"alias", "callback", "function"} /\ g[n].site.tk = "node"
                             /\ g[g[n].site.tgt].kind # "class") => Pos(o, g[n].site.tgt) < Pos(o, n)
                          /\ (g[n].host # 0 => Pos(o, g[n].host) < Pos(o, n))
OrderTag == IF CDeclarable(nodes, order) THEN "" ELSE "@use-before-declaration"

StartWalks ==
    /\ Stepwise /\ pc = "build" /\ built = N
    /\ \A n \in Nodes : AliasAcyclic(nodes, n, N)
    /\ st' = InitSt(nodes) /\ pc' = WalkNames[1]
    /\ UNCHANGED <<kinds, order, nodes, built, gir, rej>>

---------------------------------------------------------------------------
\* one action per namespace.walk(...) of IntrospectablePass.validate
NextPc(w) == LET i == CHOOSE j \in DOMAIN WalkNames : WalkNames[j] = w IN
             IF i = Len(WalkNames) THEN "write" ELSE WalkNames[i + 1]

\* (TLC's coverage names an action after the innermost definition it unfolds before reaching a junction:
\*  each walk action is a conjunction of its own so that -coverage reports the nine walks separately)
WalkBody(w) ==
    /\ st' = Walk(w, Case, st)
    /\ pc' = NextPc(w)
    /\ UNCHANGED <<kinds, order, nodes, built, gir, rej>>

AliasAnalysis     == pc = "alias" /\ WalkBody("alias")
SkipPropagation   == pc = "skips" /\ WalkBody("skips")
AnalyzeNode       == pc = "analyze" /\ WalkBody("analyze")
CallableAnalysis1 == pc = "callable1" /\ WalkBody("callable1")
CallableAnalysis2 == pc = "callable2" /\ WalkBody("callable2")
PropertyAnalysis  == pc = "property" /\ WalkBody("property")
Pass3             == pc = "pass3" /\ WalkBody("pass3")
BackcompatRemoval == pc = "backcompat" /\ WalkBody("backcompat")
SymbolCollisions  == pc = "collisions" /\ WalkBody("collisions")

\* cheap deterministic sampling key of a case
TkIndex(tk) == CHOOSE i \in 1..9 : <<"fund", "any", "valist", "longlong", "longdouble", "varargs", "unres", "foreign", "node">>[i] = tk
RECURSIVE CodeFrom(_, _)
CodeFrom(g, n) ==
    IF n = 0 THEN 0
    ELSE (CodeFrom(g, n - 1) * 31 + g[n].site.tgt * 7 + (IF g[n].site.scope THEN 3 ELSE 0)
          + (IF g[n].site.xfer THEN 0 ELSE 5) + (IF g[n].nskip THEN 11 ELSE 0)
          + (IF g[n].site.cont = "list" THEN 13 ELSE 0) + (IF g[n].site.vskip THEN 17 ELSE 0)
          + (IF g[n].site.role = "return" THEN 19 ELSE 0) + TkIndex(g[n].site.tk)) % 1000003
Code(g) == CodeFrom(g, Len(g))

\* export filter: a violating case is printed when it has no padding, i.e. every node that the rejected
\* owners do not (transitively) refer to is a plain node (fundamental type, no flags)
Tgts(g, n) == {s.tgt : s \in {x \in {g[n].site, g[n].psite, g[n].ssite} : x.tk = "node"}} \cup (IF g[n].ren # 0 THEN {g[n].ren} ELSE {}) \cup (IF g[n].host # 0 THEN {g[n].host} ELSE {})
RECURSIVE Reach(_, _, _)
Reach(g, S, fuel) == IF fuel = 0 THEN S ELSE Reach(g, S \cup UNION {Tgts(g, n) : n \in S}, fuel - 1)
Owners(R) == {n \in Nodes : \E r \in R : r[3] \in {QN[n], FieldId[n], MethId[n], VfId[n], SigId[n], PropId[n]}}
Plain(r) == /\ ~r.nskip /\ ~r.moved /\ r.ren = 0 /\ r.host = 0 /\ r.site.tk = "fund" /\ r.site.cont = "none" /\ ~r.site.vskip /\ r.site.role # "return"
            /\ r.psite.tk = "fund" /\ r.ssite.tk = "fund"
Tight(g, R) == \A n \in Nodes \ Reach(g, Owners(R), N) : Plain(g[n])

Export(R) ==
    IF R # {} THEN (ExportViol > 0 /\ Tight(nodes, R)) =>
                       PrintT(<<"C05CASE", "viol", {r[2] : r \in R}, Case, CDeclarable(nodes, order)>>)
    ELSE (ExportOk > 0 /\ Code(nodes) % ExportOk = 0) =>
                       PrintT(<<"C05CASE", "ok", {}, Case, CDeclarable(nodes, order)>>)
Tagged(R) == LET tag == OrderTag IN {<<r[1], r[2] \o tag, r[3]>> : r \in R}

Write ==
    /\ pc = "write"
    /\ gir' = GirOf(Case, st)
    /\ rej' = Tagged(Rejections(gir'))
    /\ pc' = "done"
    /\ Export(rej')
    /\ UNCHANGED <<kinds, order, nodes, built, st>>

\* Stepwise = FALSE: IntrospectablePass.validate() (Run: the composition of the nine walks) and the writer as one
\* step; only the verdict is kept in the state (the abstract GIR is large: keeping it tripled the run time)
Finish ==
    /\ ~Stepwise /\ pc = "build" /\ built = N
    /\ \A n \in Nodes : AliasAcyclic(nodes, n, N)
    /\ rej' = Tagged(Rejections(GirOf(Case, Run(Case))))
    /\ pc' = "done"
    /\ Export(rej')
    /\ UNCHANGED <<kinds, order, nodes, built, st, gir>>

Next == Build \/ StartWalks \/ AliasAnalysis \/ SkipPropagation \/ AnalyzeNode \/ CallableAnalysis1
        \/ CallableAnalysis2 \/ PropertyAnalysis \/ Pass3 \/ BackcompatRemoval \/ SymbolCollisions \/ Write \/ Finish

Spec == Init /\ [][Next]_vars

---------------------------------------------------------------------------
\* implementation layer => property layer
ClosedAtDone == pc = "done" => rej = {}        \* rej = Rejections(gir): Closed(gir)

\* ... modulo the shapes recorded as findings: every other violation is a new candidate
NoUnknownViolation == pc = "done" => \A r \in rej : r[2] \in KnownShapes

\* witness search (KnownShapes = {s}): "no final state violates Closed with shape s"; violated = a witness exists
NoWitness == pc = "done" => \A r \in rej : r[2] \notin KnownShapes

\* sanity of the model itself: flags only ever go down; a marked node stays marked
MonotoneAct == pc \in Rng(WalkNames) =>
                   \A n \in Nodes : (st.intro[n] \/ ~st'.intro[n]) /\ (st'.skip[n] \/ ~st.skip[n])
MonotoneStep == [][MonotoneAct]_vars
=============================================================================

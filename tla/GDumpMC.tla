------------------------------ MODULE GDumpMC ------------------------------
(* Exhaustive configurations for GDump: families of small worlds in which TLC checks
   implementation layer => property layer (ImplSatisfiesPropertyModuloKnown, ImplSatisfiesExtra).  Size "t" / ("q"):
     chain  every parent chain of length <= 4 over 7 (5) ancestors: local registered, declared-but-unregistered,
            hidden (Foo-prefixed and foreign-prefixed), from included namespaces; local ancestors registered or not
     flags  every flag word 0..255 x bits 30/31 (bit 31) x 6 (2) (type, default value) combinations
     pair   every combination of runtime kind x same-named struct/union/opaque/enum declaration x Class struct x
            Iface struct x Interface struct x 6 (4) forms of the get-type function
     sig    every `when` x every flag combination x return type x parameter lists of length <= 2
            (q: when x flags with one signature, and every signature with one when/flags)
     quark  two enumerations (declared and/or registered or absent) x their error-quark functions (GQuark / other
            return type / absent) x a lone quark x a class whose symbol prefix prefixes one quark function
     iface  implemented-interface lists (<= 3 (2) of 4) x prerequisite lists (<= 2 of 4)                         *)
EXTENDS GDump

CONSTANTS Family,     \* which family of worlds
          Size        \* "q" = the quick-tier slice of the family, "t" = all of it

Us(n) == CASE n = "Obj" -> "obj" [] n = "Pa" -> "pa" [] n = "Pb" -> "pb" [] n = "So" -> "so" [] n = "Bx" -> "bx"
           [] n = "Ia" -> "ia" [] n = "Ib" -> "ib" [] n = "MyError" -> "my_error" [] n = "OtError" -> "ot_error"
           [] n = "ObjClass" -> "obj_class" [] n = "ObjIface" -> "obj_iface" [] n = "ObjInterface" -> "obj_interface"
           [] n = "My" -> "my" [] n = "ObjFunc" -> "obj_func" [] n = "OthFunc" -> "oth_func"

DType(k, n, fields) == [k |-> k, c |-> IdPfx \o n, n |-> n, us |-> Us(n), base |-> "", shape |-> "other", ret |-> "", np |-> 0,
                        first |-> "", fields |-> fields]
DCb(n, first) == [DType("callback", n, <<>>) EXCEPT !.first = first]
DFn(base, shape, ret, np) == [k |-> "fn", c |-> SymPfx \o base \o ShapeSuffix(shape), n |-> base \o ShapeSuffix(shape), us |-> "",
                              base |-> base, shape |-> shape, ret |-> ret, np |-> np, first |-> "", fields |-> <<>>]
GetType(n) == DFn(Us(n), "get_type", "GType", 0)
RT(k, n, parents, ifaces, props, sigs) ==
    [k |-> k, gt |-> IdPfx \o n, n |-> n, us |-> Us(n), fn |-> SymPfx \o Us(n) \o "_get_type", parents |-> parents,
     abstract |-> FALSE, final |-> FALSE, inst |-> FALSE, ifaces |-> ifaces, props |-> props, sigs |-> sigs]
Ext == << [gt |-> "GObject", gir |-> "GObject.Object"], [gt |-> "GInitiallyUnowned", gir |-> "GObject.InitiallyUnowned"],
          [gt |-> "GAsyncResult", gir |-> "Gio.AsyncResult"], [gt |-> "GCancellable", gir |-> "Gio.Cancellable"] >>
World(decls, reg, quarks) == [decls |-> decls, reg |-> reg, quarks |-> quarks, ext |-> Ext, ann |-> <<>>]
F(n, k, first) == [n |-> n, k |-> k, first |-> first]

SeqsUpTo(S, n) == UNION {{s \in [1..m -> S] : \A i, j \in 1..m : i # j => s[i] # s[j]} : m \in 0..n}

(* ---- chain *)
Ancestors == {"FooPa", "FooPb", "FooSo", "FooHx", "XyzHy", "GInitiallyUnowned", "GObject"}
ChainWorld(ch, locals) ==
    World(<<GetType("Obj"), DType("struct", "Obj", <<F("parent", "data", "GObject")>>), DType("struct", "So", <<>>)>>
            \o (IF locals THEN <<GetType("Pa"), GetType("Pb"), DType("struct", "Pa", <<>>)>> ELSE <<DType("struct", "Pa", <<>>)>>),
          <<RT("class", "Obj", ch, <<>>, <<>>, <<>>)>>
            \o (IF locals THEN <<RT("class", "Pa", <<"GObject">>, <<>>, <<>>, <<>>),
                                 RT("class", "Pb", <<"FooPa", "GObject">>, <<>>, <<>>, <<>>)>> ELSE <<>>),
          <<>>)
AncestorsQ == {"FooPa", "FooSo", "FooHx", "GInitiallyUnowned", "GObject"}
ChainWorlds == {ChainWorld(ch, l) : ch \in SeqsUpTo(IF Size = "q" THEN AncestorsQ ELSE Ancestors, 4), l \in BOOLEAN}

(* ---- flags *)
TyDefs == { <<"gint", FALSE, "">>, <<"gint", TRUE, "0">>, <<"gchararray", TRUE, "">>, <<"gchararray", TRUE, "NULL">>,
            <<"FooBx", FALSE, "">>, <<"FooHx", FALSE, "">> }
FlagsWorld(lo, hi, td) ==
    World(<<GetType("Obj"), GetType("Bx"), DType("struct", "Bx", <<>>)>>,
          <<RT("class", "Obj", <<"GObject">>, <<>>,
               <<[name |-> "p-a", ty |-> td[1], lo |-> lo, hi |-> hi, hasDef |-> td[2], def |-> td[3]]>>, <<>>),
            RT("boxed", "Bx", <<>>, <<>>, <<>>, <<>>)>>, <<>>)
FlagsWorlds == IF Size = "q" THEN {FlagsWorld(lo, hi, td) : lo \in 0..255, hi \in {0, 32768}, td \in {<<"gint", TRUE, "0">>, <<"gchararray", TRUE, "">>}}
               ELSE {FlagsWorld(lo, hi, td) : lo \in 0..255, hi \in {0, 16384, 32768, 49152}, td \in TyDefs}

(* ---- pair *)
VFields == <<F("pc", "data", "GObjectClass"), F("v1", "fp", "FooObj"), F("v2", "fp", "gint"), F("v3", "fp", ""),
             F("v4", "fp", "FooBx"), F("v5", "cb", "FooObjFunc"), F("v6", "cb", "FooOthFunc")>>
FnForm(form) == CASE form = "meta" -> <<GetType("Obj")>>
                  [] form = "gtype" -> <<DFn("obj", "get_gtype", "GType", 0)>>
                  [] form = "param" -> <<DFn("obj", "get_type", "GType", 1)>>
                  [] form = "notgtype" -> <<DFn("obj", "get_type", "gint", 0)>>
                  [] form = "hidden" -> <<[GetType("Obj") EXCEPT !.c = "_foo_obj_get_type"]>>
                  [] form = "absent" -> <<>>
PairWorld(kind, comp, hc, hi, hn, form) ==
    World(FnForm(form)
          \o (CASE comp = "none" -> <<>> [] comp = "enum" -> <<DType(IF kind = "flags" THEN "flags" ELSE "enum", "Obj", <<>>)>>
                [] OTHER -> <<DType(comp, "Obj", IF comp = "opaque" THEN <<>> ELSE <<F("parent", "data", "GObject")>>)>>)
          \o (IF hc THEN <<DType("struct", "ObjClass", VFields)>> ELSE <<>>)
          \o (IF hi THEN <<DType("struct", "ObjIface", VFields)>> ELSE <<>>)
          \o (IF hn THEN <<DType("struct", "ObjInterface", VFields)>> ELSE <<>>)
          \o <<DCb("ObjFunc", "FooObj"), DCb("OthFunc", "FooBx"), GetType("Bx")>>,
          (IF kind = "none" THEN <<>>
           ELSE <<[RT(kind, "Obj", IF kind \in {"class", "fundamental"} THEN <<"GObject">> ELSE <<>>, <<>>, <<>>, <<>>)
                      EXCEPT !.fn = IF form = "gtype" THEN "foo_obj_get_gtype" ELSE "foo_obj_get_type"]>>)
          \o <<RT("boxed", "Bx", <<>>, <<>>, <<>>, <<>>)>>, <<>>)
(* ---- sig *)
Whens == {"", "first", "last", "cleanup", "must-collect"}
SigRets == {"void", "gboolean", "FooObj", "FooHx", "gchararray"}
SigParamTys == {"gint", "FooObj", "FooHx", "GObject"}
ParamLists == UNION {[1..m -> SigParamTys] : m \in 0..2}
SigWorld(wh, fl, ret, ps) ==
    World(<<GetType("Obj"), DType("struct", "Obj", <<>>)>>,
          <<RT("class", "Obj", <<"GObject">>, <<>>, <<>>,
               <<[name |-> "sig-a", ret |-> ret, when |-> wh, norec |-> fl[1], det |-> fl[2], act |-> fl[3], nohooks |-> fl[4],
                  params |-> ps]>>)>>, <<>>)
SigCore == {SigWorld(wh, fl, "void", <<>>) : wh \in Whens, fl \in [1..4 -> BOOLEAN]}
           \cup {SigWorld("last", [i \in 1..4 |-> FALSE], ret, ps) : ret \in SigRets, ps \in ParamLists}
SigWorlds == IF Size = "q" THEN SigCore
             ELSE {SigWorld(wh, fl, ret, ps) : wh \in Whens, fl \in [1..4 -> BOOLEAN], ret \in SigRets, ps \in ParamLists}

(* ---- quark *)
QForms == {"good", "badret", "absent"}
QFn(base, form) == CASE form = "good" -> <<DFn(base, "error_quark", "GQuark", 0)>>
                     [] form = "badret" -> <<DFn(base, "error_quark", "gint", 0)>>
                     [] form = "absent" -> <<>>
EnumPart(n, declared, registered) ==
    [d |-> (IF declared THEN <<DType("enum", n, <<>>)>> ELSE <<>>) \o (IF registered THEN <<GetType(n)>> ELSE <<>>),
     r |-> IF registered THEN <<RT("enum", n, <<>>, <<>>, <<>>, <<>>)>> ELSE <<>>]
QuarkWorld(d1, r1, q1, d2, r2, q2, lone, cls) ==
    LET e1 == EnumPart("MyError", d1, r1)
        e2 == EnumPart("OtError", d2, r2)
        cd == IF cls THEN <<GetType("My"), DType("struct", "My", <<>>)>> ELSE <<>>      \* a class FooMy: prefix my_
        cr == IF cls THEN <<RT("class", "My", <<"GObject">>, <<>>, <<>>, <<>>)>> ELSE <<>>
    IN World(e1.d \o e2.d \o cd \o QFn("my", q1) \o QFn("ot", q2) \o (IF lone THEN QFn("lone", "good") ELSE <<>>),
             e1.r \o e2.r \o cr,
             <<[fn |-> "foo_my_error_quark", domain |-> "foo-my-error-quark"], [fn |-> "foo_ot_error_quark", domain |-> "ot-domain"],
               [fn |-> "foo_lone_error_quark", domain |-> "lone-domain"]>>)
QuarkWorlds == {QuarkWorld(d1, r1, q1, d2, r2, q2, l, c) : d1 \in BOOLEAN, r1 \in BOOLEAN, q1 \in QForms,
                                                           d2 \in BOOLEAN, r2 \in BOOLEAN, q2 \in QForms, l \in BOOLEAN, c \in BOOLEAN}

(* ---- iface *)
ImplPool == {"FooIa", "FooIb", "GAsyncResult", "FooHx"}
PrereqPool == {"FooObj", "FooIb", "GCancellable", "XyzHy"}
IfaceWorld(im, pr) ==
    World(<<GetType("Obj"), GetType("Ia"), GetType("Ib"), DType("struct", "Obj", <<>>), DType("opaque", "Ia", <<>>)>>,
          <<RT("class", "Obj", <<"GObject">>, im, <<>>, <<>>), RT("interface", "Ia", <<>>, pr, <<>>, <<>>),
            RT("interface", "Ib", <<>>, <<>>, <<>>, <<>>)>>, <<>>)
IfaceWorlds == {IfaceWorld(im, pr) : im \in SeqsUpTo(ImplPool, IF Size = "q" THEN 2 ELSE 3), pr \in SeqsUpTo(PrereqPool, 2)}

PairFiltered == {PairWorld(k, c, hc, hi, hn, f) :
                   <<k, c, f>> \in {x \in {"class", "interface", "boxed", "pointer", "fundamental", "enum", "flags", "none"}
                                         \X {"none", "struct", "union", "opaque", "enum"}
                                         \X (IF Size = "q" THEN {"meta", "gtype", "param", "absent"}
                                             ELSE {"meta", "gtype", "param", "notgtype", "hidden", "absent"}) :
                                      /\ (x[2] = "enum") => (x[1] \in {"enum", "flags"})
                                      /\ (x[1] \in {"enum", "flags"}) => (x[2] \in {"none", "enum"})
                                      /\ (x[1] = "none") => (x[3] \notin {"meta", "gtype"})},
                   hc \in BOOLEAN, hi \in BOOLEAN, hn \in BOOLEAN}

Worlds(fam) == CASE fam = "chain" -> ChainWorlds [] fam = "flags" -> FlagsWorlds [] fam = "pair" -> PairFiltered
                 [] fam = "sig" -> SigWorlds [] fam = "quark" -> QuarkWorlds [] fam = "iface" -> IfaceWorlds

Init == ImplInit(Worlds(Family))
Next == ImplNext
WellFormed == WorldOK(w)
=============================================================================

--------------------------- MODULE IntrospectWalks ---------------------------
(***************************************************************************)
(* C05, implementation-shaped layer, part 1: the walks of                  *)
(* giscanner/introspectablepass.py:IntrospectablePass.validate as pure     *)
(* operators over an abstract namespace (so that the state machine         *)
(* tla/Introspect.tla and the trace spec tla/IntrospectTrace.tla share     *)
(* them).                                                                  *)
(*                                                                         *)
(* A case  C = [nodes |-> <<NodeRec ...>>, order |-> <<permutation>>]      *)
(*   NodeRec = [kind, nskip, moved, ren, host, site, psite, ssite]         *)
(*     kind   alias | callback | function | record | enum | class          *)
(*     nskip  the node carries a (skip) annotation                         *)
(*     moved  (function) backwards-compatibility copy: has moved-to        *)
(*     ren    (function) id of a class whose method set_p the function     *)
(*            names in a (rename-to) annotation: another container; 0 none *)
(*     host   (function) id of a record whose method the function is (its  *)
(*            first C parameter is the record): MainTransformer moves it   *)
(*            into the record, the walks then visit it at the record's     *)
(*            position in the namespace, not at its own; 0 = top level     *)
(*     site   alias: the target; callback/function: its one parameter or   *)
(*            its return value; record: its one field; class: the second   *)
(*            parameter of its method `set_p`, which is also the vfunc     *)
(*            `set_p` (invoker set_p) of its class struct                  *)
(*     psite  class: type of its property `p` (inferred setter set_p)      *)
(*     ssite  class: parameter of its signal `sig`                         *)
(*   Site = [role, cont, tk, tgt, xfer, scope, vskip]                      *)
(*     role   target | param | return | field | property | none            *)
(*     cont   none | list           (GList of ...)                         *)
(*     tk     fund | any | valist | longlong | longdouble | varargs |      *)
(*            unres | foreign | node      (for cont = list: the element;   *)
(*            any = no element type given)                                 *)
(*     tgt    node id when tk = node                                       *)
(*     xfer   the value has a transfer after defaults and annotations      *)
(*     scope  the (callback) parameter has a scope after annotations and   *)
(*            the GDestroyNotify heuristic                                 *)
(*     vskip  the value carries (skip)                                     *)
(*   order = namespace order (ast.Namespace.names insertion order = the    *)
(*   order of the C declarations; GType-dump classes come last).           *)
(*                                                                         *)
(* The pass state St = per node: skip, intro (node.introspectable),        *)
(* fintro (the record's field), and for a class the flags of its members:  *)
(* pintro (property), mintro/mskip (method), vintro/vskp (vfunc),          *)
(* sintro/sskip (signal), setter (property.setter set), setprop            *)
(* (method.set_property set); dropped (internal_skipped: not written).     *)
(***************************************************************************)
EXTENDS IntrospectProp

CONSTANTS
    AliasRecheck,       \* TRUE: the code as it is (since /repo 8003e8e the two callable-analysis walks re-check
                        \* aliases); FALSE: what-if variant without that re-check (the code before the fix)
    CallableWalks,      \* 2: the code as it is (validate() walks _introspectable_callable_analysis twice);
                        \* 1: what-if variant with a single walk
    RenameScopeCheck    \* TRUE: the code as it is (since /repo 207651c MainTransformer._apply_annotation_rename_to
                        \* refuses, with a warning, a target that is not a sibling); FALSE: what-if variant that
                        \* writes shadows / shadowed-by across containers (the code before the fix)

NoSite == [role |-> "none", cont |-> "none", tk |-> "fund", tgt |-> 0, xfer |-> TRUE, scope |-> FALSE, vskip |-> FALSE]
Nm == <<"N1", "N2", "N3", "N4", "N5", "N6", "N7", "N8", "N9", "N10", "N11", "N12", "N13", "N14", "N15", "N16">>
ModelNs == "M"
\* name tables (no string concatenation while model checking)
QN      == <<"M.N1", "M.N2", "M.N3", "M.N4", "M.N5", "M.N6", "M.N7", "M.N8", "M.N9", "M.N10", "M.N11", "M.N12", "M.N13", "M.N14", "M.N15", "M.N16">>
FieldId == <<"M.N1/field:f", "M.N2/field:f", "M.N3/field:f", "M.N4/field:f", "M.N5/field:f", "M.N6/field:f", "M.N7/field:f", "M.N8/field:f", "M.N9/field:f", "M.N10/field:f", "M.N11/field:f", "M.N12/field:f", "M.N13/field:f", "M.N14/field:f", "M.N15/field:f", "M.N16/field:f">>
MethId  == <<"M.N1/method:set_p", "M.N2/method:set_p", "M.N3/method:set_p", "M.N4/method:set_p", "M.N5/method:set_p", "M.N6/method:set_p", "M.N7/method:set_p", "M.N8/method:set_p", "M.N9/method:set_p", "M.N10/method:set_p", "M.N11/method:set_p", "M.N12/method:set_p", "M.N13/method:set_p", "M.N14/method:set_p", "M.N15/method:set_p", "M.N16/method:set_p">>
VfId    == <<"M.N1/virtual-method:set_p", "M.N2/virtual-method:set_p", "M.N3/virtual-method:set_p", "M.N4/virtual-method:set_p", "M.N5/virtual-method:set_p", "M.N6/virtual-method:set_p", "M.N7/virtual-method:set_p", "M.N8/virtual-method:set_p", "M.N9/virtual-method:set_p", "M.N10/virtual-method:set_p", "M.N11/virtual-method:set_p", "M.N12/virtual-method:set_p", "M.N13/virtual-method:set_p", "M.N14/virtual-method:set_p", "M.N15/virtual-method:set_p", "M.N16/virtual-method:set_p">>
SigId   == <<"M.N1/glib:signal:sig", "M.N2/glib:signal:sig", "M.N3/glib:signal:sig", "M.N4/glib:signal:sig", "M.N5/glib:signal:sig", "M.N6/glib:signal:sig", "M.N7/glib:signal:sig", "M.N8/glib:signal:sig", "M.N9/glib:signal:sig", "M.N10/glib:signal:sig", "M.N11/glib:signal:sig", "M.N12/glib:signal:sig", "M.N13/glib:signal:sig", "M.N14/glib:signal:sig", "M.N15/glib:signal:sig", "M.N16/glib:signal:sig">>
PropId  == <<"M.N1/property:p", "M.N2/property:p", "M.N3/property:p", "M.N4/property:p", "M.N5/property:p", "M.N6/property:p", "M.N7/property:p", "M.N8/property:p", "M.N9/property:p", "M.N10/property:p", "M.N11/property:p", "M.N12/property:p", "M.N13/property:p", "M.N14/property:p", "M.N15/property:p", "M.N16/property:p">>
ClsNm   == <<"N1Class", "N2Class", "N3Class", "N4Class", "N5Class", "N6Class", "N7Class", "N8Class", "N9Class", "N10Class", "N11Class", "N12Class", "N13Class", "N14Class", "N15Class", "N16Class">>
QName(n) == QN[n]

IsCallable(k) == k \in {"callback", "function"}
Direct(s)     == s.cont = "none" /\ s.tk = "node"       \* the type names a node of this namespace (target_giname)

InitSt(g) == LET D == DOMAIN g IN
    [skip   |-> [n \in D |-> g[n].nskip],
     intro  |-> [n \in D |-> TRUE], fintro |-> [n \in D |-> TRUE], pintro |-> [n \in D |-> TRUE],
     mintro |-> [n \in D |-> TRUE], mskip  |-> [n \in D |-> FALSE],
     vintro |-> [n \in D |-> TRUE], vskp   |-> [n \in D |-> FALSE],
     sintro |-> [n \in D |-> TRUE], sskip  |-> [n \in D |-> FALSE],
     \* MainTransformer._pair_property_accessors ran before: property p <-> method set_p
     setter |-> [n \in D |-> g[n].kind = "class"], setprop |-> [n \in D |-> g[n].kind = "class"],
     dropped |-> [n \in D |-> FALSE]]

---------------------------------------------------------------------------
\* IntrospectablePass._type_is_introspectable(typeval) in pass state st
TypeIntro(st, s) ==
    CASE s.tk = "unres"                                -> FALSE     \* not typeval.resolved
      [] s.tk \in {"valist", "longlong", "longdouble"} -> FALSE     \* TYPE_VALIST, TYPE_LONG_LONG/ULONG/DOUBLE
      [] s.tk = "node"                                 -> st.intro[s.tgt] /\ ~st.skip[s.tgt]   \* target.introspectable and not target.skip
      [] OTHER                                         -> TRUE      \* other fundamentals, <varargs>, gpointer element, included namespace
\* (for a list the same test is applied to the element type, which is what s.tk describes then)

\* Transformer.resolve_aliases(lookup_typenode(type)): kind of the first non-alias node
RECURSIVE FinalKind(_, _, _)
FinalKind(g, n, fuel) ==
    IF g[n].kind = "alias" /\ fuel > 0
      THEN IF Direct(g[n].site) THEN FinalKind(g, g[n].site.tgt, fuel - 1) ELSE "other"
      ELSE g[n].kind
TargetKind(g, s) == IF Direct(s) THEN FinalKind(g, s.tgt, 16) ELSE "other"

\* IntrospectablePass._introspectable_param_analysis: does it set parent.introspectable = False ?
PADemotes(g, s) ==
    LET fk == TargetKind(g, s) IN
    IF s.vskip THEN FALSE                                            \* if node.skip: return
    ELSE IF s.cont = "none" /\ s.tk = "unres" THEN TRUE              \* not node.type.resolved
    ELSE IF s.tk = "varargs" THEN TRUE                               \* isinstance(node.type, ast.Varargs)
    ELSE IF s.cont = "list" /\ s.tk = "any" THEN TRUE                \* element_type == TYPE_ANY
    ELSE IF s.role = "param" /\ fk = "callback" /\ ~s.scope THEN TRUE   \* callback parameter without scope
    ELSE IF s.role = "return" /\ fk = "callback" THEN TRUE           \* callbacks cannot be return values
    ELSE IF s.role = "return" /\ fk = "record" THEN ~s.xfer          \* bare structure: transfer != none (then: return)
    ELSE ~s.xfer                                                     \* node.transfer is None

\* IntrospectablePass._propagate_parameter_skip
TargetSkip(st, s) == Direct(s) /\ st.skip[s.tgt]

Set(st, f, n, v) == [st EXCEPT ![f] = [@ EXCEPT ![n] = v]]
Clr(st, f, n, cond) == IF cond THEN Set(st, f, n, FALSE) ELSE st

---------------------------------------------------------------------------
\* one visit of namespace.walk(callback) at top-level node n, including the descent into the
\* members of a class (Class._walk: methods, virtual_methods, ..., signals, properties)
WalkNames == <<"alias", "skips", "analyze", "callable1", "callable2", "property", "pass3", "backcompat", "collisions">>

\* the callback of walk w applied to the callable (callback / function) n
CallableVisit(w, g, st, n) ==
    LET s == g[n].site IN
    CASE w = "skips" ->           \* _propagate_callable_skips
           IF TargetSkip(st, s) THEN Set(st, "skip", n, TRUE) ELSE st
      [] w = "analyze" ->         \* _analyze_node
           IF st.skip[n] THEN st ELSE Clr(st, "intro", n, PADemotes(g, s))
      [] w \in {"callable1", "callable2"} ->     \* _introspectable_callable_analysis
           IF st.skip[n] THEN st ELSE Clr(st, "intro", n, ~TypeIntro(st, s))
      [] w = "backcompat" ->      \* _remove_non_reachable_backcompat_copies
           IF st.skip[n] THEN st
           ELSE IF g[n].kind = "function" /\ g[n].moved /\ ~st.intro[n] THEN Set(st, "dropped", n, TRUE) ELSE st
      [] OTHER -> st

\* Record._walk: the methods of record h (the functions hosted by it; at most two are followed, in id order).  The
\* walk descends into them only when the callback returned True on the record: every callback but the two that
\* always return True starts with "if obj.skip: return False"
Hosted(g, h) == {m \in DOMAIN g : g[m].kind = "function" /\ g[m].host = h}
MethodsVisit(w, g, st, h) ==
    LET H == Hosted(g, h) IN
    IF H = {} \/ (st.skip[h] /\ w \notin {"alias", "skips"}) THEN st
    ELSE LET m1 == CHOOSE m \in H : \A k \in H : m <= k
             a  == CallableVisit(w, g, st, m1)
             R  == H \ {m1}
         IN  IF R = {} THEN a ELSE CallableVisit(w, g, a, CHOOSE m \in R : \A k \in R : m <= k)

Visit(w, g, st, n) ==
    LET k == g[n].kind  s == g[n].site  ps == g[n].psite  ss == g[n].ssite IN
    IF w = "callable2" /\ CallableWalks < 2 THEN st
    ELSE IF k = "function" /\ g[n].host # 0 THEN st          \* visited with its record, see MethodsVisit
    ELSE IF IsCallable(k) THEN CallableVisit(w, g, st, n)
    ELSE IF k = "record" THEN
        MethodsVisit(w, g,
            CASE w \in {"analyze", "pass3"} ->      \* _analyze_node / _introspectable_pass3: the field
                   IF st.skip[n] THEN st ELSE Clr(st, "fintro", n, ~TypeIntro(st, s))
              [] OTHER -> st, n)
    ELSE
    CASE w = "alias" ->           \* _introspectable_alias_analysis (always returns True)
           Clr(st, "intro", n, k = "alias" /\ ~TypeIntro(st, s))
      [] w = "skips" ->           \* _propagate_callable_skips (always returns True)
           IF k = "class" THEN
               LET a == IF TargetSkip(st, s) THEN Set(Set(st, "mskip", n, TRUE), "vskp", n, TRUE) ELSE st
               IN  IF TargetSkip(a, ss) THEN Set(a, "sskip", n, TRUE) ELSE a
           ELSE st
      [] w = "analyze" ->         \* _analyze_node
           IF st.skip[n] THEN st
           ELSE IF k = "class" THEN
               LET a == Clr(st, "mintro", n, ~st.mskip[n] /\ PADemotes(g, s))
                   b == Clr(a, "vintro", n, ~a.vskp[n] /\ PADemotes(g, s))
               IN  Clr(b, "sintro", n, ~b.sskip[n] /\ PADemotes(g, ss))
           ELSE st
      [] w \in {"callable1", "callable2"} ->     \* _introspectable_callable_analysis (walked twice)
           IF st.skip[n] THEN st
           \* /repo 8003e8e: "an alias whose target turned out not to be introspectable is not either"
           ELSE IF k = "alias" THEN Clr(st, "intro", n, AliasRecheck /\ ~TypeIntro(st, s))
           ELSE IF k = "class" THEN
               LET a == Clr(st, "mintro", n, ~st.mskip[n] /\ ~TypeIntro(st, s))
                   b == Clr(a, "vintro", n, ~a.vskp[n] /\ ~TypeIntro(a, s))
               IN  Clr(b, "sintro", n, ~b.sskip[n] /\ ~TypeIntro(b, ss))
           ELSE st
      [] w = "property" ->        \* _introspectable_property_analysis
           IF st.skip[n] \/ k # "class" THEN st
           ELSE IF TypeIntro(st, ps) THEN st
           ELSE Set(Set(Set(st, "pintro", n, FALSE), "setter", n, FALSE), "setprop", n, FALSE)
      [] w = "pass3" ->           \* _introspectable_pass3
           IF st.skip[n] THEN st
           ELSE IF k = "class" THEN Clr(st, "sintro", n, ~st.sskip[n] /\ ~TypeIntro(st, ss))
           ELSE st
      [] OTHER -> st              \* back-compat removal: functions only; _introspectable_symbol_collisions: diagnostics only

\* namespace.walk(callback): the nodes in namespace order, each visit sees the effects of the earlier ones.
\* Unrolled fold, at most 12 nodes, written as nested applications:
\*  - TLC does not cache the lazily evaluated parameters of RECURSIVE operators, so a recursive fold
\*    re-evaluates the whole prefix at every use of the accumulator;
\*  - TLC's coverage/cost model (-coverage) expands a LET definition at each of its occurrences and once more
\*    from the LET's context, so a chain of LET accumulators s1 .. s12 / r1 .. r9 makes a tree that is quadratic
\*    (exponential if an accumulator is named twice) in Visit bodies: java.lang.OutOfMemoryError before the
\*    first state.  Nested applications keep it linear: 12 Visit bodies per walk, 9 walks per Run.
MaxNodes == 12
VisitAt(w, g, o, i, st) == IF i <= Len(o) THEN Visit(w, g, st, o[i]) ELSE st
Walk(w, C, st) ==
    VisitAt(w, C.nodes, C.order, 12, VisitAt(w, C.nodes, C.order, 11, VisitAt(w, C.nodes, C.order, 10,
    VisitAt(w, C.nodes, C.order, 9, VisitAt(w, C.nodes, C.order, 8, VisitAt(w, C.nodes, C.order, 7,
    VisitAt(w, C.nodes, C.order, 6, VisitAt(w, C.nodes, C.order, 5, VisitAt(w, C.nodes, C.order, 4,
    VisitAt(w, C.nodes, C.order, 3, VisitAt(w, C.nodes, C.order, 2, VisitAt(w, C.nodes, C.order, 1, st))))))))))))

\* IntrospectablePass.validate(): the nine walks in their real order.
\* Each walk's result is bound by a set constructor: TLC evaluates the inner singleton completely before the
\* outer body, so the Java stack never holds more than one walk (nested lazy parameters would make it hold
\* all 9 x 12 visits: StackOverflowError), and there is still no LET chain for the cost model to expand.
Run(C) ==
    CHOOSE r \in
      {Walk(WalkNames[9], C, r8) : r8 \in {Walk(WalkNames[8], C, r7) : r7 \in {Walk(WalkNames[7], C, r6) : r6 \in
      {Walk(WalkNames[6], C, r5) : r5 \in {Walk(WalkNames[5], C, r4) : r4 \in {Walk(WalkNames[4], C, r3) : r3 \in
      {Walk(WalkNames[3], C, r2) : r2 \in {Walk(WalkNames[2], C, r1) : r1 \in {Walk(WalkNames[1], C, InitSt(C.nodes))}}}}}}}}} : TRUE

---------------------------------------------------------------------------
\* GIRWriter: the abstract GIR of the final state (same record shapes as harness/c05proj.py emits)
Marked(st, n) == st.skip[n] \/ ~st.intro[n]                 \* _append_node_generic

TkName(s) == CASE s.tk = "fund" -> "gint" [] s.tk = "any" -> "gpointer" [] s.tk = "valist" -> "va_list"
               [] s.tk = "longlong" -> "long long" [] s.tk = "longdouble" -> "long double"
               [] s.tk = "foreign" -> "GLib.Bytes" [] s.tk = "node" -> Nm[s.tgt] [] OTHER -> ""
QFund(nm) == CASE nm = "gint" -> "M.gint" [] nm = "gpointer" -> "M.gpointer" [] nm = "va_list" -> "M.va_list"
               [] nm = "long long" -> "M.long long" [] nm = "long double" -> "M.long double" [] OTHER -> ""
TkQ(s)   == IF s.tk = "node" THEN QName(s.tgt) ELSE IF s.tk = "foreign" THEN "GLib.Bytes"
            ELSE IF s.tk = "unres" THEN "" ELSE QFund(TkName(s))
TkNs(s)  == IF s.tk = "foreign" THEN "GLib" ELSE IF TkName(s) = "" THEN "" ELSE ModelNs

U(id, okind, site, marked, tag, name, q, tns, depth, nkids, kid1, s) ==
    [id |-> id, okind |-> okind, site |-> site, marked |-> marked, tag |-> tag, name |-> name, q |-> q, tns |-> tns,
     depth |-> depth, nkids |-> nkids, kid1 |-> kid1, hasXfer |-> s.xfer /\ s.role \in {"param", "return"},
     hasScope |-> s.scope, vskip |-> s.vskip]

SiteUses(id, okind, marked, s) ==
    IF s.role = "none" THEN <<>>
    ELSE IF s.cont = "list" THEN
        << U(id, okind, s.role, marked, "type", "GLib.List", "GLib.List", "GLib", 0, 1, TkName(s), s),
           U(id, okind, "element", marked, "type", TkName(s), TkQ(s), TkNs(s), 1, 0, "", s) >>
    ELSE << U(id, okind, s.role, marked, IF s.tk = "varargs" THEN "varargs" ELSE "type",
              TkName(s), TkQ(s), TkNs(s), 0, 0, "", s) >>

GirKind(k) == IF k = "enum" THEN "enumeration" ELSE k

NodeUses(g, st, n) ==
    LET k == g[n].kind  q == QName(n)  m == Marked(st, n) IN
    CASE k = "alias"    -> SiteUses(q, "alias", m, g[n].site)
      [] k = "callback" -> SiteUses(q, "callback", m, g[n].site)
      [] k = "function" -> IF st.dropped[n] THEN <<>>
                           ELSE IF g[n].host # 0 THEN SiteUses(q, "method", m \/ Marked(st, g[n].host), g[n].site)
                           ELSE SiteUses(q, "function", m, g[n].site)
      [] k = "record"   -> SiteUses(FieldId[n], "field", m \/ ~st.fintro[n], g[n].site)
      [] k = "class"    -> SiteUses(MethId[n], "method", m \/ st.mskip[n] \/ ~st.mintro[n], g[n].site)
                           \o SiteUses(VfId[n], "virtual-method", m \/ st.vskp[n] \/ ~st.vintro[n], g[n].site)
                           \o SiteUses(SigId[n], "glib:signal", m \/ st.sskip[n] \/ ~st.sintro[n], g[n].ssite)
                           \o SiteUses(PropId[n], "property", m \/ ~st.pintro[n], g[n].psite)
      [] OTHER          -> <<>>

\* a callback-typed parameter of a callback gets its scope from a following GDestroyNotify: destroy index 1 of 2
NodeIdx(g, st, n) ==
    IF g[n].kind = "callback" /\ g[n].site.role = "param" /\ g[n].site.scope /\ TargetKind(g, g[n].site) = "callback"
      THEN << [id |-> QName(n), kind |-> "destroy", idx |-> 1, n |-> 2, marked |-> Marked(st, n),
                pname |-> "destroy", want |-> "destroy"] >>
      ELSE <<>>

\* the function whose (rename-to) names the method set_p of class c: a function can be shadowed once ("already
\* shadowed by" refusal); with several candidates the first one wins (the configurations have one function)
Renamer(g, c) == LET R == {m \in DOMAIN g : g[m].kind = "function" /\ g[m].ren = c} IN
                 IF R = {} THEN 0 ELSE CHOOSE m \in R : \A k \in R : m <= k

NodePairs(g, st, n) ==
    LET q == QName(n) IN
    IF g[n].kind = "function" /\ ~st.dropped[n] /\ g[n].host # 0
      THEN << P("fn", QName(g[n].host), Nm[n], "method", "") >>
    ELSE IF g[n].kind = "function" /\ ~st.dropped[n]
      THEN << P("fn", ModelNs, Nm[n], "function", "") >>
           \* (rename-to <method of another container>): refused since /repo 207651c
           \o (IF g[n].ren # 0 /\ ~RenameScopeCheck /\ Renamer(g, g[n].ren) = n
                 THEN << P("fn", ModelNs, Nm[n], "shadows", "set_p") >> ELSE <<>>)
    ELSE IF g[n].kind # "class" THEN <<>>
    ELSE << P("typestruct", ModelNs, Nm[n], "type-struct", ClsNm[n]),
            P("typestruct", ModelNs, ClsNm[n], "is-gtype-struct-for", Nm[n]),
            P("fn", q, "set_p", "method", ""),
            P("prop", q, "p", "property", ""),
            P("vfunc", q, "set_p", "invoker", "set_p") >>
         \o (IF st.setter[n] THEN << P("prop", q, "p", "setter", "set_p") >> ELSE <<>>)
         \o (IF st.setprop[n] THEN << P("fn", q, "set_p", "set-property", "p") >> ELSE <<>>)
         \o (IF ~RenameScopeCheck /\ Renamer(g, n) # 0
               THEN << P("fn", q, "set_p", "shadowed-by", Nm[Renamer(g, n)]) >> ELSE <<>>)

RECURSIVE Cat(_, _, _, _)
Cat(F(_, _, _), g, st, n) == IF n = 0 THEN <<>> ELSE Cat(F, g, st, n - 1) \o F(g, st, n)

ForeignDefs == {"GLib.Bytes", "GLib.List", "GLib.DestroyNotify"}
DefNames(g) == {QName(n) : n \in {m \in DOMAIN g : g[m].kind # "function"}} \cup ForeignDefs
NodeOf(g, q) == CHOOSE n \in DOMAIN g : QName(n) = q

GirOf(C, st) ==
    LET g == C.nodes IN
    [ns |-> ModelNs, avail |-> <<ModelNs, "GLib">>, partial |-> <<>>, inferred |-> TRUE,
     defs |-> [q \in DefNames(g) |->
                 IF q \in ForeignDefs
                   THEN [kind |-> IF q = "GLib.DestroyNotify" THEN "callback" ELSE "record", intro |-> TRUE, target |-> ""]
                   ELSE LET n == NodeOf(g, q) IN
                        [kind |-> GirKind(g[n].kind), intro |-> ~Marked(st, n),
                         target |-> IF g[n].kind = "alias" THEN TkQ(g[n].site) ELSE ""]],
     uses |-> Cat(NodeUses, g, st, Len(g)),
     idx |-> Cat(NodeIdx, g, st, Len(g)),
     pairs |-> Cat(NodePairs, g, st, Len(g))]

\* marks the model predicts for the top-level elements (compared with the real output: DRIFT)
Marks(C, st) == [n \in DOMAIN C.nodes |-> [marked |-> Marked(st, n) \/ (C.nodes[n].host # 0 /\ Marked(st, C.nodes[n].host)),
                                           dropped |-> st.dropped[n]]]
=============================================================================

------------------------------- MODULE Shlibs -------------------------------
(***************************************************************************)
(* C19 -- library names resolve to the right shared objects or fail        *)
(* loudly.   giscanner/shlibs.py: _ldd_library_pattern,                    *)
(* resolve_from_ldd_output, sanitize_shlib_path, _resolve_libtool;         *)
(* giscanner/utils.py: extract_libtool_shlib, _extract_dlname_field.       *)
(*                                                                         *)
(* Text is carried EXACTLY: a character is a one-character string, a name  *)
(* (request, file name, reported entry, message) the sequence of its       *)
(* characters.  A listing is a sequence of lines, a line a sequence of     *)
(* words, a word a record [dc, bc]: dc = directory part ("" or ending in   *)
(* "/", possibly with components that look like libraries), bc = base name.*)
(* Cases are ENUMERATED from the structured view of a word                 *)
(*    [dir kind, prefix, stem, separator after the stem, rest, colon]      *)
(* (ShlibsMC!W, harness mkword) with bc = pfx \o stem \o sep \o rest \o colon; *)
(* both layers below reason on dc/bc alone, so no convention about where a *)
(* stem ends is trusted.                                                   *)
(*                                                                         *)
(*   property layer        Resolve / Clauses : the statement of C19        *)
(*   implementation layer  RegexMatch, ScanWord, ScanLine, Finish, Run and *)
(*                         the actions Start..Return: transcription of the *)
(*                         code (Variant # "asis": deliberate deviations,  *)
(*                         used to show the property layer tells them      *)
(*                         apart)                                          *)
(***************************************************************************)
EXTENDS Integers, Sequences, FiniteSets, SequencesExt, TLC

CONSTANTS Cases,        \* ldd cases   [t |-> "ldd", reqs, files, listing]
          LaCases,      \* .la cases   [t |-> "la", name, lines]
          Variant,      \* implementation variant explored by the actions ("asis" = the code)
          Gran          \* "word": small steps; "case": one step per case

Lower == {"a","b","c","d","e","f","g","h","i","j","k","l","m","n","o","p","q","r","s","t","u","v","w","x","y","z"}
Upper == {"A","B","C","D","E","F","G","H","I","J","K","L","M","N","O","P","Q","R","S","T","U","V","W","X","Y","Z"}
Digit == {"0","1","2","3","4","5","6","7","8","9"}
IdChars == Lower \cup Upper \cup Digit \cup {"_", "-"}      \* "a letter, digit, underscore or hyphen"
White == {" ", "\t", "\n", "\r", "\f"}
LIB == <<"l","i","b">>

Chars(cs) == {cs[i] : i \in 1..Len(cs)}
Suffix(s, k) == SubSeq(s, k, Len(s))
HasPrefix(s, p) == Len(p) <= Len(s) /\ SubSeq(s, 1, Len(p)) = p
Occurs(hay, needle) == \E k \in 1..(Len(hay) - Len(needle) + 1) : SubSeq(hay, k, k + Len(needle) - 1) = needle
\* os.path.basename on posix: everything after the last "/"
Basename(cs) == LET sl == {i \in 1..Len(cs) : cs[i] = "/"}
                IN IF sl = {} THEN cs ELSE Suffix(cs, Max(sl) + 1)

FC(w) == w.dc \o w.bc                                       \* the word as printed
EndsWithColon(line) == Len(line) > 0 /\ LET f == FC(line[Len(line)]) IN Len(f) > 0 /\ f[Len(f)] = ":"

WFWord(w) == /\ \A i \in 1..Len(w.bc) : w.bc[i] # "/" /\ w.bc[i] \notin White
             /\ \A i \in 1..Len(w.dc) : w.dc[i] \notin White
             /\ w.dc = <<>> \/ w.dc[Len(w.dc)] = "/"
             /\ Len(w.dc) + Len(w.bc) > 0
WFReq(r) == r # <<>> /\ \A i \in 1..Len(r) : r[i] # "/" /\ r[i] \notin White
WFCase(c) == /\ \A i \in 1..Len(c.reqs) : WFReq(c.reqs[i])
             /\ \A i \in 1..Len(c.listing) : \A j \in 1..Len(c.listing[i]) : WFWord(c.listing[i][j])

-----------------------------------------------------------------------------
(***************************************************************************)
(* PROPERTY LAYER (ldd): the base-name rule and Resolve                    *)
(***************************************************************************)
\* "base name is lib<name> followed by a character other than a letter, digit, underscore or hyphen"
\* (index arithmetic instead of SubSeq: the trace specs evaluate this a few million times)
PrefixAt(s, k, p) == k + Len(p) - 1 <= Len(s) /\ \A i \in 1..Len(p) : s[k + i - 1] = p[i]      \* p occurs in s at position k
MatchAtP(s, k, p) == PrefixAt(s, k, p) /\ k + Len(p) <= Len(s) /\ s[k + Len(p)] \notin IdChars    \* ... followed by a non-identifier character
MatchesBase(bc, r) == MatchAtP(bc, 1, LIB \o r)

Pos(c) == UNION {{<<i, j>> : j \in 1..Len(c.listing[i])} : i \in 1..Len(c.listing)}
Before(p, q) == p[1] < q[1] \/ (p[1] = q[1] /\ p[2] < q[2])      \* line order, then word order
At(c, p) == c.listing[p[1]][p[2]]
Hdr(c) == {p \in Pos(c) : EndsWithColon(c.listing[p[1]])}        \* header lines naming the binary
Live(c) == Pos(c) \ Hdr(c)
\* C19 speaks about library NAMES.  A request that names an existing file is the scanner's other input form
\* ("library given as a path": linked by path in ccompiler.get_external_link_flags, no pattern here) and is
\* left to the code; the remaining requests of the same call are still judged.
Named(c) == {i \in 1..Len(c.reqs) : c.reqs[i] \notin ToSet(c.files)}
ReqSet(c) == {c.reqs[i] : i \in Named(c)}
M(c, r) == {p \in Live(c) : MatchesBase(At(c, p).bc, r)}
FirstOf(S) == CHOOSE p \in S : \A q \in S : q = p \/ Before(p, q)
F(c, r) == FirstOf(M(c, r))
Missing(c) == {r \in ReqSet(c) : M(c, r) = {}}

\* the expected resolution: per request the first matching word, by base name; or failure naming the missing ones
\* (a name is the sequence of its characters)
Resolve(c) == LET missing == Missing(c)
              IN IF missing # {}
                 THEN [kind |-> "exit", files |-> {}, missing |-> missing]
                 ELSE [kind |-> "ok", files |-> {At(c, F(c, r)).bc : r \in ReqSet(c)}, missing |-> {}]

\* the quantifier's precondition: no single listed file could satisfy two requests
Unambiguous(c) == \A p \in Live(c) : LET bc == At(c, p).bc
                                      IN Cardinality({i \in Named(c) : MatchesBase(bc, c.reqs[i])}) <= 1
InDomain(c) == WFCase(c) /\ Unambiguous(c)

\* an outcome is [kind |-> "ok" | "exit" | "other", out |-> sequence of reported names, msgc |-> message characters]
Forms(w) == {w.bc, FC(w)}                 \* a reported entry denotes a word by its base name or in full

\* words that must NOT be taken for request r although they resemble it
NearMiss(w, r) ==
  LET p == LIB \o r
  IN /\ ~MatchAtP(w.bc, 1, p)
     /\ \/ PrefixAt(w.bc, 1, p)                                               \* libpangoft2, libfoo-bar, libfoo_x, bare libfoo
        \/ \E k \in 2..Len(w.bc) : MatchAtP(w.bc, k, p)                         \* liblibfoo.so, xlibfoo.so
        \/ \E a \in 1..Len(w.dc) : (a = 1 \/ w.dc[a - 1] = "/") /\ PrefixAt(w.dc, a, p)   \* .../libpango-1.0/...

\* The clauses of the statement, and when each of them speaks (vacuity accounting).
\* (LET values are computed once per judgement; m, first, missing tabulate M, F, Missing above.)
Judge(c, o) ==
  LET pos == Pos(c)
      hdr == {p \in pos : EndsWithColon(c.listing[p[1]])}
      live == pos \ hdr
      reqs == ReqSet(c)
      named == Named(c)
      m == TLCEval([r \in reqs |-> {p \in live : MatchesBase(At(c, p).bc, r)}])     \* TLCEval: tabulate (a function constructor is lazy in TLC)
      missing == {r \in reqs : m[r] = {}}
      first == TLCEval([r \in reqs \ missing |-> FirstOf(m[r])])
      dom == /\ WFCase(c)
             /\ \A p \in live : \A i, j \in named : (i < j /\ p \in m[c.reqs[i]]) => p \notin m[c.reqs[j]]
      outs == 1..Len(o.out)
      hdrT == \E p \in hdr : \E r \in reqs : MatchesBase(At(c, p).bc, r)
      sibT == \E p \in live : \E r \in reqs : NearMiss(At(c, p), r)
      Loud == o.kind = "exit" /\ \A r \in missing : Occurs(o.msgc, r)
      OnlyRightFiles == \A k \in outs : \E r \in reqs : \E p \in m[r] : o.out[k] \in Forms(At(c, p))
      Faithful == (o.kind = "ok" => OnlyRightFiles) /\ (missing # {} => Loud)
  IN [cl |-> [
  \* every request has a listed file obeying the rule => success, every request represented, nothing foreign
  RightFile    |-> (dom /\ missing = {}) =>
                     /\ o.kind = "ok"
                     /\ \A r \in reqs : \E k \in outs : \E p \in m[r] : o.out[k] \in Forms(At(c, p))
                     /\ OnlyRightFiles,
  \* ... and it is the FIRST such file in line/word order, one per request
  FirstListed  |-> (dom /\ missing = {} /\ o.kind = "ok") =>
                     /\ Len(o.out) = Cardinality(reqs)
                     /\ \A k \in outs : \E r \in reqs : o.out[k] \in Forms(At(c, first[r])),
  \* reported by base name
  ByBaseName   |-> (dom /\ o.kind = "ok") =>
                     \A k \in outs : (\E p \in pos : o.out[k] \in Forms(At(c, p)))
                                        => (\E p \in pos : o.out[k] = At(c, p).bc),
  \* header lines naming the binary are ignored even when the binary looks like a requested library
  HeaderIgnored |-> (dom /\ hdrT) => Faithful,
  \* pango never resolves to pangoft2 / pango-1.0's directory, foo never to libfoo-bar / liblibfoo
  NeverPrefixSibling |-> (dom /\ sibT) => Faithful,
  \* any unresolved request => the scan stops with an error naming it
  FailLoudly   |-> (dom /\ missing # {}) => Loud ],
  sp |-> [
  RightFile    |-> dom /\ missing = {} /\ reqs # {},
  FirstListed  |-> dom /\ missing = {} /\ \E r \in reqs : \E p, q \in m[r] : At(c, p).bc # At(c, q).bc,
  ByBaseName   |-> dom /\ missing = {} /\ \E r \in reqs : At(c, first[r]).dc # <<>>,
  HeaderIgnored |-> dom /\ hdrT,
  NeverPrefixSibling |-> dom /\ sibT,
  FailLoudly   |-> dom /\ missing # {} ],
  dom |-> dom ]

ClauseNames == {"RightFile", "FirstListed", "ByBaseName", "HeaderIgnored", "NeverPrefixSibling", "FailLoudly"}
Clauses(c, o) == Judge(c, o).cl
Failed(c, o) == LET cl == Clauses(c, o) IN {n \in ClauseNames : ~cl[n]}
AllClauses(c, o) == Failed(c, o) = {}

-----------------------------------------------------------------------------
(***************************************************************************)
(* IMPLEMENTATION LAYER (ldd)                                              *)
(*   re.compile(r"^(.*[/])?lib%s[^/A-Za-z0-9_-][^/]*$" % re.escape(name),  *)
(*              re.VERBOSE).match(word)                                    *)
(***************************************************************************)
Variants == {"asis", "noescape", "nodash", "narrow", "noanchor", "last", "silent", "fullpath", "nocolon", "dirsok"}

Prohibited(v) == IF v = "nodash" THEN (IdChars \ {"-"}) \cup {"/"}      \* [^/A-Za-z0-9_]
                 ELSE IF v = "narrow" THEN IdChars \cup {"/", "."}      \* [^/A-Za-z0-9_.-]
                 ELSE IdChars \cup {"/"}
\* re.escape makes every request character literal; without it "." would match any character
Lit(v, pc, ch) == pc = ch \/ (v = "noescape" /\ pc = ".")

RegexMatch(v, fc, r) ==
  LET n == Len(fc)
      pat == LIB \o r
      m == Len(pat)
  IN \E k \in 0..n :                                  \* k characters consumed by the optional group (.*[/])?
       /\ k = 0 \/ fc[k] = "/" \/ v = "noanchor"      \* group absent, or anything ending in a slash
       /\ k + m + 1 <= n
       /\ \A i \in 1..m : Lit(v, pat[i], fc[k + i])   \* lib<name>, literally
       /\ fc[k + m + 1] \notin Prohibited(v)          \* [^/A-Za-z0-9_-]
       /\ v = "dirsok" \/ \A i \in (k + m + 2)..n : fc[i] # "/"    \* [^/]*$

RemoveIdx(s, i) == SubSeq(s, 1, i - 1) \o SubSeq(s, i + 1, Len(s))
Dedup(s) == FoldLeft(LAMBDA acc, x : IF x \in ToSet(acc) THEN acc ELSE Append(acc, x), <<>>, s)
JoinComma(ps) == IF ps = <<>> THEN <<>> ELSE FoldLeft(LAMBDA acc, x : acc \o <<",", " ">> \o x, ps[1], Tail(ps))
ErrHead == <<"E","R","R","O","R",":"," ">>

\* patterns = {} ; for library in libraries: if not os.path.isfile(library): patterns[library] = ...
\* (a dict: insertion order, one entry per distinct name)
Patterns(c) == Dedup(SelectSeq(c.reqs, LAMBDA r : r \notin ToSet(c.files)))

\* for library, pattern in patterns.items(): if pattern.match(word): del patterns[library]; shlibs.append(m.group()); break
ScanWord(v, s, w) ==
  LET hits == {i \in 1..Len(s.pats) : RegexMatch(v, FC(w), s.pats[i])}
  IN IF hits = {} THEN s
     ELSE [pats |-> RemoveIdx(s.pats, Min(hits)), shl |-> Append(s.shl, FC(w))]
\* if line.endswith(':'): continue ; for word in line.split(): ...
SkipsLine(v, line) == v # "nocolon" /\ EndsWithColon(line)
ScanLine(v, s, line) == IF SkipsLine(v, line) THEN s
                        ELSE FoldLeft(LAMBDA a, w : ScanWord(v, a, w), s, line)
\* sanitize_shlib_path (non-Darwin): os.path.basename
Sanitize(v, fc) == IF v = "fullpath" THEN fc ELSE Basename(fc)
\* if len(patterns) > 0: raise SystemExit("ERROR: ...: " + ", ".join(patterns.keys())) ; return shlibs
Finish(v, s) == IF s.pats # <<>> /\ v # "silent"
                THEN [kind |-> "exit", out |-> <<>>, msgc |-> ErrHead \o JoinComma(s.pats)]
                ELSE [kind |-> "ok", out |-> [i \in 1..Len(s.shl) |-> Sanitize(v, s.shl[i])], msgc |-> <<>>]
ListingOf(v, c) == IF v = "last" THEN Reverse([i \in 1..Len(c.listing) |-> Reverse(c.listing[i])]) ELSE c.listing
Run(v, c) == IF Patterns(c) = <<>> THEN [kind |-> "ok", out |-> <<>>, msgc |-> <<>>]      \* if len(patterns) == 0: return []
             ELSE Finish(v, FoldLeft(LAMBDA a, ln : ScanLine(v, a, ln), [pats |-> Patterns(c), shl |-> <<>>], ListingOf(v, c)))

-----------------------------------------------------------------------------
(***************************************************************************)
(* LIBTOOL ARCHIVES.  A .la file is a sequence of lines (characters).      *)
(***************************************************************************)
DLKEY == <<"d","l","n","a","m","e","=","'">>
\* property-level reading: the first line   dlname='<value>'
LaLines(a) == {i \in 1..Len(a.lines) : LET l == a.lines[i] IN HasPrefix(l, DLKEY) /\ Len(l) > Len(DLKEY) /\ l[Len(l)] = "'"}
LaHas(a) == LaLines(a) # {}
LaVal(a) == LET l == a.lines[Min(LaLines(a))] IN SubSeq(l, Len(DLKEY) + 1, Len(l) - 1)
LaKind(a) == IF ~LaHas(a) THEN "dlname_absent"
             ELSE IF LaVal(a) = <<>> THEN "dlname_empty"
             ELSE IF "/" \in Chars(LaVal(a)) THEN (IF Basename(LaVal(a)) = <<>> THEN "dlname_is_directory" ELSE "dlname_with_path")
             ELSE "dlname_plain"
LaWF(a) == /\ \A i \in 1..Len(a.lines) : "\n" \notin Chars(a.lines[i])
           /\ LaHas(a) => "'" \notin Chars(LaVal(a))
           /\ a.name # <<>>
LaIn(a) == LaWF(a) /\ Cardinality(LaLines(a)) <= 1         \* libtool writes the field once; otherwise the statement does not say which one counts

LaClauses(a, o) == [
  \* libtool archives resolve to their dlname
  LaDlname    |-> (LaIn(a) /\ LaKind(a) = "dlname_plain") => (o.kind = "ok" /\ o.out = <<LaVal(a)>>),
  \* old libtools wrote a path: the statement does not say which form is reported, but nothing else may be
  LaPath      |-> (LaIn(a) /\ LaKind(a) = "dlname_with_path" /\ o.kind = "ok" /\ o.out # <<>>) =>
                     o.out \in {<<LaVal(a)>>, <<Basename(LaVal(a))>>},
  \* a requested archive that does not resolve stops the scan with an error naming it
  LaFailLoudly |-> LaIn(a) => ( (o.kind = "ok" => o.out # <<>>)
                               /\ ((LaKind(a) \in {"dlname_absent", "dlname_empty", "dlname_is_directory"})
                                     => (o.kind = "exit" /\ Occurs(o.msgc, a.name))) ) ]
LaClauseNames == {"LaDlname", "LaPath", "LaFailLoudly"}
LaSpeaks(a) == [LaDlname |-> LaIn(a) /\ LaKind(a) = "dlname_plain",
                LaPath |-> LaIn(a) /\ LaKind(a) = "dlname_with_path",
                LaFailLoudly |-> LaIn(a) /\ LaKind(a) # "dlname_plain"]

\* implementation: _libtool_pat = re.compile("dlname='([A-z0-9\\.\\-\\+/]+)'\n").search(data)
LtClass == Upper \cup Lower \cup {"[", "\\", "]", "^", "_", "`"} \cup Digit \cup {".", "-", "+", "/"}      \* A-z is the ASCII range 0x41..0x7A
LaText(a) == FoldLeft(LAMBDA acc, l : acc \o l \o <<"\n">>, <<>>, a.lines)      \* every line newline-terminated
LaSearch(txt) ==
  LET n == Len(txt)
      d == Len(DLKEY)
      RunLen(s) == LET stops == {k \in 0..(n - s - d + 1) : s + d + k > n \/ txt[s + d + k] \notin LtClass} IN Min(stops)
      ok(s) == /\ s + d - 1 <= n /\ SubSeq(txt, s, s + d - 1) = DLKEY
               /\ LET k == RunLen(s) IN k >= 1 /\ s + d + k + 1 <= n /\ txt[s + d + k] = "'" /\ txt[s + d + k + 1] = "\n"
      starts == {s \in 1..n : ok(s)}
  IN IF starts = {} THEN [found |-> FALSE, val |-> <<>>]
     ELSE LET s == Min(starts) IN [found |-> TRUE, val |-> SubSeq(txt, s + d, s + d + RunLen(s) - 1)]
\* extract_libtool_shlib (non-Darwin): None, or os.path.basename(dlname);
\* _resolve_libtool: "if shlib: shlibs.append(shlib)" -- an unresolved archive is dropped without a word
LaRun(a) == LET m == LaSearch(LaText(a))
                sh == IF m.found THEN Basename(m.val) ELSE <<>>
            IN [kind |-> "ok", out |-> IF sh = <<>> THEN <<>> ELSE <<sh>>, msgc |-> <<>>]

-----------------------------------------------------------------------------
(***************************************************************************)
(* The implementation layer as actions (one per line class / word outcome) *)
(* Gran = "word": the scanning loop in small steps.                        *)
(* Gran = "case": one step per case (outcome = Run), for the larger bounds;*)
(* StepsAgree ties the two together.                                       *)
(* The state holds the case itself (Init == case \in Cases, idiom A.1/A.4).  *)
(***************************************************************************)
VARIABLES case, st, outcome
vars == <<case, st, outcome>>
None == [kind |-> "none", out |-> <<>>, msgc |-> <<>>]
Idle == [pc |-> "start", li |-> 0, wi |-> 0, pats |-> <<>>, shl |-> <<>>]

InitOn(S) == /\ case \in S
             /\ st = Idle
             /\ outcome = None
Init == InitOn(Cases \cup LaCases)

IsLdd == case.t = "ldd"
Small == IsLdd /\ Gran = "word"
Lst == ListingOf(Variant, case)
Start == /\ Small /\ st.pc = "start" /\ Patterns(case) # <<>>
         /\ st' = [st EXCEPT !.pc = "scan", !.li = 1, !.wi = 1, !.pats = Patterns(case)]
         /\ UNCHANGED <<case, outcome>>
ReturnEmpty == /\ Small /\ st.pc = "start" /\ Patterns(case) = <<>>               \* if len(patterns) == 0: return []
               /\ st' = [st EXCEPT !.pc = "done"]
               /\ outcome' = [kind |-> "ok", out |-> <<>>, msgc |-> <<>>]
               /\ UNCHANGED case
AtLine == Small /\ st.pc = "scan" /\ st.li <= Len(Lst)
HeaderLine == /\ AtLine /\ st.wi = 1 /\ SkipsLine(Variant, Lst[st.li])              \* if line.endswith(':'): continue
              /\ st' = [st EXCEPT !.li = @ + 1]
              /\ UNCHANGED <<case, outcome>>
EmptyLine == /\ AtLine /\ Len(Lst[st.li]) = 0
             /\ st' = [st EXCEPT !.li = @ + 1]
             /\ UNCHANGED <<case, outcome>>
WordStep(hit) == /\ AtLine /\ st.wi <= Len(Lst[st.li]) /\ ~SkipsLine(Variant, Lst[st.li])
                 /\ LET s2 == ScanWord(Variant, [pats |-> st.pats, shl |-> st.shl], Lst[st.li][st.wi])
                        eol == st.wi = Len(Lst[st.li])
                    IN /\ hit = (s2.pats # st.pats)
                       /\ st' = [st EXCEPT !.wi = IF eol THEN 1 ELSE @ + 1, !.li = IF eol THEN @ + 1 ELSE @,
                                           !.pats = s2.pats, !.shl = s2.shl]
                 /\ UNCHANGED <<case, outcome>>
WordHit == WordStep(TRUE)          \* del patterns[library]; shlibs.append(m.group()); break
WordMiss == WordStep(FALSE)
AtEnd == Small /\ st.pc = "scan" /\ st.li > Len(Lst)
Fail == /\ AtEnd /\ st.pats # <<>> /\ Variant # "silent"                            \* raise SystemExit(...)
        /\ st' = [st EXCEPT !.pc = "done"]
        /\ outcome' = Finish(Variant, [pats |-> st.pats, shl |-> st.shl])
        /\ UNCHANGED case
Return == /\ AtEnd /\ (st.pats = <<>> \/ Variant = "silent")                        \* return shlibs (then sanitize)
          /\ st' = [st EXCEPT !.pc = "done"]
          /\ outcome' = Finish(Variant, [pats |-> st.pats, shl |-> st.shl])
          /\ UNCHANGED case
ScanAll == /\ IsLdd /\ Gran = "case" /\ st.pc = "start"
           /\ st' = [st EXCEPT !.pc = "done"] /\ outcome' = Run(Variant, case) /\ UNCHANGED case
LaResolved == /\ ~IsLdd /\ st.pc = "start" /\ LaRun(case).out # <<>>
              /\ st' = [st EXCEPT !.pc = "done"] /\ outcome' = LaRun(case) /\ UNCHANGED case
LaDropped == /\ ~IsLdd /\ st.pc = "start" /\ LaRun(case).out = <<>>
             /\ st' = [st EXCEPT !.pc = "done"] /\ outcome' = LaRun(case) /\ UNCHANGED case

Next == Start \/ ReturnEmpty \/ HeaderLine \/ EmptyLine \/ WordHit \/ WordMiss \/ Fail \/ Return \/ ScanAll
        \/ LaResolved \/ LaDropped
Spec == Init /\ [][Next]_vars
Alias == [case |-> case, st |-> st, outcome |-> outcome,
          failed |-> IF st.pc = "done" /\ IsLdd THEN Failed(case, outcome) ELSE {}]

-----------------------------------------------------------------------------
(* implementation layer => property layer *)
Done == st.pc = "done"
TypeOK == /\ st.pc \in {"pick", "start", "scan", "done"}      \* "pick": ShlibsMC is still choosing the lines of the case
          /\ Done <=> outcome # None
          /\ (IsLdd /\ st.pc = "scan") => Len(st.pats) + Len(st.shl) = Len(Patterns(case))
\* the small-step machine and the functional transcription agree
StepsAgree == (Done /\ IsLdd) => outcome = Run(Variant, case)
\* all clauses of C19 (one evaluation per finished case)
Inv_Property == (Done /\ IsLdd) => Failed(case, outcome) = {}
\* the same, clause by clause (witness configurations name the clause they expect to break)
Inv_RightFile == (Done /\ IsLdd) => Clauses(case, outcome).RightFile
Inv_FirstListed == (Done /\ IsLdd) => Clauses(case, outcome).FirstListed
Inv_ByBaseName == (Done /\ IsLdd) => Clauses(case, outcome).ByBaseName
Inv_HeaderIgnored == (Done /\ IsLdd) => Clauses(case, outcome).HeaderIgnored
Inv_NeverPrefixSibling == (Done /\ IsLdd) => Clauses(case, outcome).NeverPrefixSibling
Inv_FailLoudly == (Done /\ IsLdd) => Clauses(case, outcome).FailLoudly
\* under the precondition the outcome IS the spec's resolution (as a set of names; the statement fixes no order)
Inv_EqualsResolve == (Done /\ IsLdd /\ InDomain(case)) =>
                        LET res == Resolve(case)
                        IN /\ outcome.kind = res.kind
                           /\ outcome.kind = "ok" => ToSet(outcome.out) = res.files
\* while scanning, what has been collected are first matches of distinct requests
Inv_Progress == (Small /\ Variant = "asis" /\ st.pc = "scan" /\ st.wi = 1 /\ InDomain(case)) =>
                   \A k \in 1..Len(st.shl) : \E r \in ReqSet(case) : M(case, r) # {} /\ st.shl[k] = FC(At(case, F(case, r)))
Inv_LaDlname == (Done /\ ~IsLdd) => LaClauses(case, outcome).LaDlname
Inv_LaPath == (Done /\ ~IsLdd) => LaClauses(case, outcome).LaPath
Inv_LaFailLoudly == (Done /\ ~IsLdd) => LaClauses(case, outcome).LaFailLoudly
=============================================================================

SPECIFICATION CSpec
CONSTANTS
  Forms <- CAllForms
  Indents <- CInd02
  MaxIdAnns = 2
  MaxParams = 1
  MaxParamAnns = 2
  MaxPartLines = 1
  MaxDescLines = 1
  MaxParas = 1
  MaxTags = 1
  TagNames <- CTagsRS
  MaxTagAnns = 1
  MaxCont = 1
  MaxNoise = 0
  AtReturns = TRUE
  FaultKinds <- CNoFaults
  MaxFaults = 0
  KeepLines = TRUE
  Known <- CKnown
  StartLine = 1
CHECK_DEADLOCK FALSE
INVARIANT RoundTrip
INVARIANT WriterFix

SPECIFICATION MCSpec
CONSTANTS
  Dev = {}
  Which = "quick"
  Cases <- NoCases
INVARIANT ImplSatisfiesProperty
CHECK_DEADLOCK FALSE

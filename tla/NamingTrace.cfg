INIT Init
NEXT Next
CONSTANTS
  Dev = {}
CHECK_DEADLOCK FALSE

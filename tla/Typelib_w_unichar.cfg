INIT Init
NEXT Next
CONSTANTS
  Dev = {"no_unichar_constant"}
  Kinds = {"constsize"}
  Strict = FALSE
  Full = FALSE
  MaxCnt = 1
INVARIANT BuildEncodes
CHECK_DEADLOCK FALSE

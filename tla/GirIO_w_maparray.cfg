INIT Init
NEXT Next
CONSTANTS
  Defects = {"map_array_child"}
  Rich = FALSE
  AllModels = FALSE
  KindSel = {"map"}
INVARIANTS ReadableInv FixedPointInv AgreeInv
CHECK_DEADLOCK FALSE

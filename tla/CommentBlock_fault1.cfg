SPECIFICATION Spec
CONSTANTS
  Forms <- OneForm
  Indents <- Ind0
  MaxIdAnns = 1
  MaxParams = 1
  MaxParamAnns = 1
  MaxPartLines = 1
  MaxDescLines = 1
  MaxParas = 1
  MaxTags = 1
  TagNames <- TagsRS
  MaxTagAnns = 1
  MaxCont = 1
  MaxNoise = 0
  AtReturns = TRUE
  FaultKinds <- AllFaults
  MaxFaults = 1
  KeepLines = FALSE
  Known <- KnownC11
  StartLine = 10
CHECK_DEADLOCK FALSE
INVARIANT TypeOK
INVARIANT DiagAtFault
INVARIANT IgnoredNotHalfApplied
INVARIANT FaultDiagnosed

INIT Init
NEXT Next
CONSTANTS
  Defects = {"bare_container"}
  Rich = FALSE
  AllModels = FALSE
  KindSel = {"type"}
INVARIANTS ReadableInv FixedPointInv AgreeInv
CHECK_DEADLOCK FALSE

------------------------------ MODULE Annotate ------------------------------
(***************************************************************************)
(* C01 -- Parameter and return annotations are reflected exactly in the    *)
(* GIR.                                                                    *)
(*                                                                         *)
(* One abstract case = one callable (function / method / callback typedef) *)
(* with a return value and a short parameter list; every value carries its *)
(* C declaration class [ck, ptr, const] and an annotation record.          *)
(*                                                                         *)
(*  PART 1  vocabulary and the default typing table (what Transformer      *)
(*          makes of a C declaration; an assumption of this module that    *)
(*          the trace spec re-validates on every observation: DRIFT)       *)
(*  PART 2  implementation-shaped layer: Impl(case), a transcription of    *)
(*          MainTransformer._apply_annotations_* (application order and    *)
(*          validity rules), _pass3_callable_callbacks/_throws and         *)
(*          GIRWriter._write_parameter/_write_return_type/_write_type      *)
(*  PART 3  property layer: the statement of C01 as named clauses over     *)
(*          observables only (case, emitted attributes, warned names, the  *)
(*          attributes of the same case scanned WITHOUT the questioned     *)
(*          annotation).  Silent wherever statement and documentation are. *)
(*  PART 4  the model: Init == case \in Cases, invariant Impl => Property  *)
(*          (modulo the named deviation classes of PART 3b).               *)
(***************************************************************************)
EXTENDS Integers, Sequences, FiniteSets, TLC

CONSTANT Cases,       \* set of abstract cases explored by the model (see AnnotateMC.tla)
         Dev          \* what-if switches: deviation classes (PART 3b) of EARLIER versions of the code, each repaired
                      \* by a fix: commit.  Dev = {} is the current code; a witness configuration Annotate_w_<class>.cfg
                      \* switches one old behaviour back on and lets TLC exhibit the case on which it breaks the property

(***************************************************************************)
(* PART 1 -- vocabulary                                                    *)
(***************************************************************************)
EmptyAnn == [transfer |-> "", dir |-> "", nullable |-> FALSE, optional |-> FALSE, allownone |-> FALSE,
             notn |-> "", skip |-> FALSE, array |-> FALSE, alen |-> 0, afixed |-> -1, azt |-> "",
             et |-> <<>>, type |-> "", scope |-> "", closure |-> -1, destroy |-> 0, attrs |-> ""]

Val(c, i)  == IF i = 1 THEN c.ret ELSE c.params[i - 1]      \* value 1 = return, 1+k = k-th parameter
NVals(c)   == Len(c.params) + 1
IsRet(i)   == i = 1
HasArray(a) == a.array \/ a.alen > 0 \/ a.afixed >= 0 \/ a.azt # ""
SeqSet(s)   == {s[j] : j \in DOMAIN s}
\* TLC keeps [i \in S |-> e] as a closure that re-evaluates e on every application: force a tuple
Eager(f, n) == SubSeq(f, 1, n)

BasicKinds     == {"int", "bool", "double"}
EnumKinds      == {"enumT", "flagsT"}
RecordKinds    == {"recordT", "boxedT", "unionT"}
ObjectKinds    == {"objectT", "ifaceT", "cancellable"}
CallbackKinds  == {"callbackT", "destroyNotify", "asyncReady"}
ListKinds      == {"GList", "GSList"}
GArrayKinds    == {"GArray", "GPtrArray", "GByteArray"}
ContainerKinds == ListKinds \cup GArrayKinds \cup {"GHashTable"}

\* ---- the default typing table -------------------------------------------------------------
\* cls: none basic string any enum record class iface callback alias list map garr unknown
T0 == [cls |-> "basic", name |-> "gint", gi |-> "", stars |-> 0, const |-> FALSE, gtype |-> FALSE,
       elems |-> <<>>, isArr |-> FALSE, atype |-> "", alen |-> 0, afixed |-> -1, azt |-> TRUE, resolved |-> TRUE]
Ty(cls, name, gi) == [T0 EXCEPT !.cls = cls, !.name = name, !.gi = gi]

BaseType(ck, ptr, isRet) ==
  CASE ck = "void"     -> IF ptr = 0 THEN Ty("none", "none", "") ELSE Ty("any", "gpointer", "")
    [] ck = "int"      -> Ty("basic", "gint", "")
    [] ck = "bool"     -> Ty("basic", "gboolean", "")
    [] ck = "double"   -> Ty("basic", "gdouble", "")
    [] ck = "char"     -> IF ptr = 0 THEN Ty("basic", "gchar", "")
                          ELSE IF isRet /\ ptr = 2
                               THEN [Ty("garr", "", "") EXCEPT !.isArr = TRUE, !.elems = <<"utf8">>]   \* char** return: C array of utf8
                               ELSE Ty("string", "utf8", "")
    [] ck = "gpointer" -> Ty("any", "gpointer", "")
    [] ck = "enumT"    -> Ty("enum", "Enum", "Foo.Enum")
    [] ck = "flagsT"   -> Ty("enum", "Flags", "Foo.Flags")
    [] ck = "recordT"  -> Ty("record", "Rec", "Foo.Rec")
    [] ck = "unionT"   -> Ty("record", "Uni", "Foo.Uni")
    [] ck = "boxedT"   -> [Ty("record", "Box", "Foo.Box") EXCEPT !.gtype = TRUE]
    [] ck = "objectT"  -> Ty("class", "Obj", "Foo.Obj")
    [] ck = "ifaceT"   -> Ty("iface", "Iface", "Foo.Iface")
    [] ck = "callbackT" -> Ty("callback", "Callback", "Foo.Callback")
    [] ck = "GList"    -> [Ty("list", "GLib.List", "") EXCEPT !.elems = <<"gpointer">>]
    [] ck = "GSList"   -> [Ty("list", "GLib.SList", "") EXCEPT !.elems = <<"gpointer">>]
    [] ck = "GHashTable" -> [Ty("map", "GLib.HashTable", "") EXCEPT !.elems = <<"gpointer", "gpointer">>]
    [] ck = "GArray"   -> [Ty("garr", "", "") EXCEPT !.isArr = TRUE, !.atype = "GLib.Array", !.elems = <<"gpointer">>]
    [] ck = "GPtrArray" -> [Ty("garr", "", "") EXCEPT !.isArr = TRUE, !.atype = "GLib.PtrArray", !.elems = <<"gpointer">>]
    [] ck = "GByteArray" -> [Ty("garr", "", "") EXCEPT !.isArr = TRUE, !.atype = "GLib.ByteArray", !.elems = <<"guint8">>]
    [] ck = "aliasT"   -> Ty("alias", "Int", "Foo.Int")
    [] ck = "gvariant" -> [Ty("record", "GLib.Variant", "GLib.Variant") EXCEPT !.gtype = TRUE]
    [] ck = "gclosure" -> [Ty("record", "GObject.Closure", "GObject.Closure") EXCEPT !.gtype = TRUE]
    [] ck = "destroyNotify" -> Ty("callback", "GLib.DestroyNotify", "GLib.DestroyNotify")
    [] ck = "asyncReady" -> Ty("callback", "Gio.AsyncReadyCallback", "Gio.AsyncReadyCallback")
    [] ck = "cancellable" -> Ty("class", "Gio.Cancellable", "Gio.Cancellable")
    [] OTHER           -> [Ty("unknown", "", "") EXCEPT !.resolved = FALSE]

\* number of '*' at the end of the ctype string the scanner keeps (gpointer & callback typedefs have none of their own)
InitType(v, isRet) == [BaseType(v.ck, v.ptr, isRet) EXCEPT !.stars = v.ptr, !.const = (v.const /\ v.ptr = 1)]

\* (type T) / (element-type T) spellings of the fixed grammar
SpellType(s) ==
  CASE s = "utf8"     -> Ty("string", "utf8", "")
    [] s = "filename" -> Ty("string", "filename", "")
    [] s = "guint8"   -> Ty("basic", "guint8", "")
    [] s = "gint"     -> Ty("basic", "gint", "")
    [] s = "int"      -> Ty("basic", "gint", "")
    [] s = "gpointer" -> Ty("any", "gpointer", "")
    [] s = "Foo.Rec"  -> Ty("record", "Rec", "Foo.Rec")
    [] s = "FooRec"   -> Ty("record", "Rec", "Foo.Rec")
    [] s = "FooObj"   -> Ty("class", "Obj", "Foo.Obj")
    [] s = "Foo.Obj"  -> Ty("class", "Obj", "Foo.Obj")
    [] s = "Foo.Enum" -> Ty("enum", "Enum", "Foo.Enum")
    [] s = "GLib.Variant" -> [Ty("record", "GLib.Variant", "GLib.Variant") EXCEPT !.gtype = TRUE]
    [] s = "GLib.List(utf8)" -> [Ty("list", "GLib.List", "") EXCEPT !.elems = <<"utf8">>]
    [] s = "GLib.HashTable(utf8,Foo.Rec)" -> [Ty("map", "GLib.HashTable", "") EXCEPT !.elems = <<"utf8", "Rec">>]
    [] OTHER          -> [Ty("unknown", "", "") EXCEPT !.resolved = FALSE]
SpellName(s)     == SpellType(s).name
SpellResolved(s) == SpellType(s).resolved
SpellSimple(s)   == SpellResolved(s) /\ SpellType(s).elems = <<>>

(***************************************************************************)
(* PART 2 -- implementation-shaped layer                                   *)
(***************************************************************************)
RCls(ty) == IF ty.cls = "alias" THEN "basic" ELSE ty.cls     \* Transformer.resolve_aliases

DefaultReturnTransfer(ty) ==
  IF ty.cls \in {"basic", "any", "none"} \/ ty.const THEN "none"
  ELSE IF ty.cls = "string" /\ ty.name = "utf8" THEN "full"
  ELSE IF ty.cls \in {"alias", "enum"} THEN "none"
  ELSE IF ty.cls = "record" /\ ty.gtype THEN "full"
  ELSE ""

DefaultTransfer(n, isRet) ==      \* _get_transfer_default
  IF n.ty.cls = "none" THEN "none"
  ELSE IF isRet THEN DefaultReturnTransfer(n.ty)
  ELSE IF n.dir \in {"out", "inout"} THEN (IF n.ca THEN "none" ELSE "full")
  ELSE "none"

InitNode(v, isRet) ==
  LET ty == InitType(v, isRet)
  IN [dir |-> IF isRet THEN "out" ELSE "", ca |-> FALSE,
      transfer |-> IF isRet THEN DefaultReturnTransfer(ty) ELSE "none",      \* _pass_callable_defaults
      nullable |-> FALSE, notNullable |-> FALSE, optional |-> FALSE, skip |-> FALSE,
      scope |-> "", closure |-> 0, destroy |-> 0, ty |-> ty, attrs |-> "", warned |-> {}]

InitNodes(c) == Eager([i \in 1..NVals(c) |-> InitNode(Val(c, i), IsRet(i))], NVals(c))

IsPointerType(n, isRet) ==        \* _is_pointer_type
  \/ (~isRet /\ n.dir \in {"out", "inout"})
  \/ (RCls(n.ty) # "basic" /\ ~("nullable-on-enum-value" \notin Dev /\ n.ty.cls = "enum"))
  \/ (n.ty.cls = "basic" /\ n.ty.stars >= 1)
  \/ ("alias-pointer-not-a-pointer" \notin Dev /\ n.ty.cls = "alias" /\ n.ty.stars >= 1)
  \/ ("nullable-on-enum-value" \notin Dev /\ n.ty.cls = "enum" /\ n.ty.stars >= 1)

Warn(n, w) == [n EXCEPT !.warned = @ \cup {w}]

\* ---- (type T) -----------------------------------------------------------------------------
TypeStage(n, a) ==
  IF a.type = "" THEN n
  ELSE LET t  == SpellType(a.type)
           t2 == [t EXCEPT !.stars = n.ty.stars,                           \* _resolve_toplevel keeps the ctype; is_const is
                           !.const = (n.ty.const /\ t.elems = <<>>)]       \* copied to the base type, lost when it takes arguments
           n2 == [n EXCEPT !.ty = t2]
       IN IF t.resolved THEN n2 ELSE Warn(n2, "unknown-type")

\* ---- (in) (out) (inout) -------------------------------------------------------------------
AnnDirOf(a) == CASE a.dir = "inout" -> "inout"
                 [] a.dir \in {"out", "outcaller", "outcallee"} -> "out"
                 [] a.dir = "in" -> "in"
                 [] OTHER -> ""
DirStage(n, a, isRet) ==
  LET d  == AnnDirOf(a)
      ca == CASE a.dir = "outcaller" -> TRUE
              [] a.dir = "out" -> (n.ty.gi # "" /\ RCls(n.ty) = "record" /\ n.ty.stars < 2 /\ ~n.ty.isArr)
              [] OTHER -> FALSE
  IN IF d = "" \/ d = n.dir THEN n
     ELSE LET n2 == [n EXCEPT !.dir = d, !.ca = ca]
          IN [n2 EXCEPT !.transfer = DefaultTransfer(n2, isRet)]      \* toggling the direction resets the transfer default

\* ---- (transfer X) -------------------------------------------------------------------------
TransferStage(n, a, isRet) ==
  LET cls == RCls(n.ty) IN
  CASE a.transfer = "" -> n
    [] a.transfer = "floating" ->
         IF cls \in {"class", "iface"} \/ n.ty.gi \in {"GLib.Variant", "GObject.Closure"}
         THEN [n EXCEPT !.transfer = "none"] ELSE Warn(n, "transfer")
    [] a.transfer = "container" ->
         IF HasArray(a) \/ cls \in {"garr", "list", "map"}
         THEN [n EXCEPT !.transfer = "container"] ELSE Warn(n, "transfer")
    [] OTHER ->
         IF ~IsPointerType(n, isRet) THEN Warn(n, "transfer") ELSE [n EXCEPT !.transfer = a.transfer]

\* ---- (array ...) / (element-type ...) -------------------------------------------------------
ElemNames(et) == Eager([j \in DOMAIN et |-> SpellName(et[j])], Len(et))
ElemWarn(n, et) == IF \E j \in DOMAIN et : ~SpellResolved(et[j]) THEN Warn(n, "unknown-type") ELSE n
ElemBasicSmall(name) == name \in {"guint8", "gint", "gboolean", "gdouble", "gchar"}      \* BASIC_GIR_TYPES \ POINTER_TYPES

CheckArrayElem(n) ==         \* _check_array_element_type
  IF ~n.ty.isArr THEN n
  ELSE LET n1 == IF n.ty.atype = "GLib.PtrArray" /\ ElemBasicSmall(n.ty.elems[1]) THEN Warn(n, "element-type") ELSE n
       IN IF n.ty.atype = "GLib.ByteArray" /\ n.ty.elems[1] \notin {"guint8", "gint8", "gchar"}
          THEN Warn(n1, "element-type") ELSE n1

ArrayNode(n, a) ==           \* _apply_annotations_array, the part that touches the annotated node
  LET elems == IF Len(a.et) > 0 THEN <<SpellName(a.et[1])>>
               ELSE IF n.ty.isArr THEN n.ty.elems
               ELSE <<n.ty.name>>
      zt    == a.azt \in {"bare", "1"}
      arr   == [n.ty EXCEPT !.cls = "garr", !.isArr = TRUE, !.name = "", !.gi = "",
                            !.atype = (IF n.ty.isArr THEN n.ty.atype ELSE ""),
                            !.elems = elems, !.azt = zt, !.alen = a.alen, !.afixed = a.afixed, !.resolved = TRUE]
      n1    == IF Len(a.et) > 0 /\ ~SpellResolved(a.et[1]) THEN Warn(n, "unknown-type") ELSE n
  IN [n1 EXCEPT !.ty = arr]

ElementTypeNode(n, a) ==     \* _apply_annotations_element_type
  LET k == Len(a.et) IN
  CASE n.ty.cls = "list" -> IF k = 1 THEN ElemWarn([n EXCEPT !.ty.elems = ElemNames(a.et)], a.et) ELSE Warn(n, "element-type")
    [] n.ty.cls = "map"  -> IF k = 2 THEN ElemWarn([n EXCEPT !.ty.elems = ElemNames(a.et)], a.et) ELSE Warn(n, "element-type")
    [] n.ty.isArr        -> IF k = 1 THEN ElemWarn([n EXCEPT !.ty.elems = ElemNames(a.et)], a.et) ELSE Warn(n, "element-type")
    [] OTHER             -> Warn(n, "element-type")

ContainerStage(nodes, i, a) ==
  LET n == nodes[i] IN
  IF HasArray(a)
  THEN LET n2 == CheckArrayElem(ArrayNode(n, a))
           s1 == [nodes EXCEPT ![i] = n2]
       IN IF a.alen > 0
          THEN LET t  == a.alen + 1
                   lp == [s1[t] EXCEPT !.dir = n.dir]             \* the length parameter follows the array's direction
               IN [s1 EXCEPT ![t] = IF n.dir = "out" THEN [lp EXCEPT !.transfer = "full"] ELSE lp]
          ELSE s1
  ELSE IF Len(a.et) > 0 THEN [nodes EXCEPT ![i] = CheckArrayElem(ElementTypeNode(n, a))]
  ELSE [nodes EXCEPT ![i] = CheckArrayElem(n)]

\* ---- nullable / optional / allow-none / not / skip / attributes ------------------------------
NullStage(n, a, isRet) ==
  LET n0 == IF n.ty.cls = "any" /\ ~n.ty.isArr THEN [n EXCEPT !.nullable = TRUE] ELSE n
      n1 == IF a.nullable
            THEN IF IsPointerType(n0, isRet) THEN [n0 EXCEPT !.nullable = TRUE, !.notNullable = FALSE]
                 ELSE Warn(n0, "nullable")
            ELSE n0
      n2 == IF a.optional
            THEN IF ~isRet /\ n1.dir \in {"out", "inout"} THEN [n1 EXCEPT !.optional = TRUE] ELSE Warn(n1, "optional")
            ELSE n1
      n3 == IF a.allownone
            THEN IF ~isRet /\ n2.dir = "out" THEN [n2 EXCEPT !.optional = TRUE]
                 ELSE IF IsPointerType(n2, isRet) THEN [n2 EXCEPT !.nullable = TRUE]
                 ELSE Warn(n2, "allow-none")
            ELSE n2
      n4 == IF n3.dir # "out" /\ n3.ty.gi \in {"Gio.AsyncReadyCallback", "Gio.Cancellable"} /\ ~n3.ty.isArr
            THEN [n3 EXCEPT !.nullable = TRUE] ELSE n3
      n5 == IF a.notn = "optional" /\ "not-optional" \notin Dev THEN [n4 EXCEPT !.optional = FALSE]
            ELSE IF a.notn # "" THEN [n4 EXCEPT !.nullable = FALSE, !.notNullable = TRUE]    \* earlier: any (not ...) was read as (not nullable)
            ELSE n4
      n6 == IF a.skip THEN [n5 EXCEPT !.skip = TRUE] ELSE n5
  IN [n6 EXCEPT !.attrs = a.attrs]

\* ---- scope / closure / destroy ---------------------------------------------------------------
ParamCallbackStage(nodes, i, a) ==          \* _apply_annotations_param_callback (functions, methods)
  LET n == nodes[i] IN
  IF RCls(n.ty) # "callback" \/ n.ty.isArr
  THEN [nodes EXCEPT ![i].warned = @ \cup ((IF a.scope # "" THEN {"scope"} ELSE {}) \cup
                                           (IF a.destroy > 0 THEN {"destroy"} ELSE {}) \cup
                                           (IF a.closure >= 0 THEN {"closure"} ELSE {}))]
  ELSE LET s1 == IF a.scope # "" THEN [nodes EXCEPT ![i].scope = a.scope] ELSE nodes
           s2 == IF a.destroy > 0
                 THEN [s1 EXCEPT ![i].destroy = a.destroy, ![i].scope = "notified", ![a.destroy + 1].scope = "notified"]
                 ELSE s1
       IN IF a.closure > 0
          THEN LET s3 == [s2 EXCEPT ![i].closure = a.closure]
               IN IF RCls(s3[a.closure + 1].ty) # "any" \/ s3[a.closure + 1].ty.isArr
                  THEN (IF "closure-target-not-gpointer" \notin Dev THEN [s2 EXCEPT ![i] = Warn(s2[i], "closure")]
                        ELSE [s3 EXCEPT ![i] = Warn(s3[i], "closure")])           \* earlier: warned about and applied all the same
                  ELSE s3
          ELSE s2

ParamClosureStage(nodes, i, a) ==           \* _apply_annotations_param_closure (callback typedefs)
  LET n == nodes[i] IN
  IF a.closure < 0 THEN nodes
  ELSE IF a.closure > 0 THEN [nodes EXCEPT ![i] = Warn(n, "closure")]
  ELSE LET n2 == [n EXCEPT !.closure = i - 1]
       IN [nodes EXCEPT ![i] = IF RCls(n.ty) # "any" \/ n.ty.isArr
                               THEN Warn(IF "closure-target-not-gpointer" \notin Dev THEN n ELSE n2, "closure") ELSE n2]

\* warnings of the comment-block validator: annotations that are not allowed on a Returns: tag
Conflict(a) == (a.notn = "nullable" /\ (a.nullable \/ a.allownone)) \/ (a.notn = "optional" /\ a.optional)
ParserStage(n, a, isRet) ==
  IF ~isRet THEN (IF Conflict(a)
                  THEN Warn(n, "conflict") ELSE n)
  ELSE [n EXCEPT !.warned = @ \cup ((IF a.dir # "" THEN {AnnDirOf(a)} ELSE {}) \cup
                                    (IF a.scope # "" THEN {"scope"} ELSE {}) \cup
                                    (IF a.closure >= 0 THEN {"closure"} ELSE {}) \cup
                                    (IF a.destroy > 0 THEN {"destroy"} ELSE {}) \cup
                                    (IF Conflict(a)
                                     THEN {"conflict"} ELSE {}))]

ProcValue(c, nodes, i) ==                   \* _apply_annotations_param / _apply_annotations_return
  LET v     == Val(c, i)
      isRet == IsRet(i)
      dropped == isRet /\ v.ck = "void" /\ v.ptr = 0 /\ v.ann # EmptyAnn     \* "invalid return annotation": tag ignored
      a     == IF dropped THEN EmptyAnn ELSE v.ann
      s0    == [nodes EXCEPT ![i] = ParserStage(IF dropped THEN Warn(nodes[i], "return") ELSE nodes[i], v.ann, isRet)]
      s1    == IF isRet THEN s0
               ELSE IF c.kind \in {"function", "method"} THEN ParamCallbackStage(s0, i, a)
               ELSE ParamClosureStage(s0, i, a)
      n3    == TransferStage(DirStage(TypeStage(s1[i], a), a, isRet), a, isRet)
      s2    == ContainerStage([s1 EXCEPT ![i] = n3], i, a)
  IN [s2 EXCEPT ![i] = NullStage(s2[i], a, isRet)]

RECURSIVE ProcParams(_, _, _)
ProcParams(c, nodes, k) == IF k > Len(c.params) THEN nodes ELSE ProcParams(c, ProcValue(c, nodes, k + 1), k + 1)

Annotated(c) == ProcValue(c, ProcParams(c, InitNodes(c), 1), 1)      \* parameters in order, then the return value

\* ---- _pass3_callable_callbacks ----------------------------------------------------------------
IsCb(n)      == RCls(n.ty) = "callback" /\ ~n.ty.isArr
IsDestroy(n) == IsCb(n) /\ n.ty.gi = "GLib.DestroyNotify"
IsWellKnownCb(n) == IsCb(n) /\ n.ty.gi \in {"GLib.DestroyNotify", "Gio.AsyncReadyCallback"}

\* k: parameter being visited, cb: value index of the current callback parameter (0 = none),
\* ac / ad: values whose closure / destroy was annotated explicitly (the annotation beats the convention; earlier it did not)
RECURSIVE Pair(_, _, _, _, _, _)
Pair(c, nodes, k, cb, ac, ad) ==
  IF k > Len(c.params) THEN nodes
  ELSE LET i == k + 1
           n == nodes[i]
       IN IF IsCb(n) /\ ~IsDestroy(n) THEN Pair(c, nodes, k + 1, i, ac, ad)
          ELSE IF cb = 0 THEN Pair(c, nodes, k + 1, cb, ac, ad)
          ELSE IF IsDestroy(n)
               THEN Pair(c, [nodes EXCEPT ![cb].destroy = IF cb \in ad THEN @ ELSE k, ![cb].scope = "notified", ![cb].transfer = "none"],
                         k + 1, cb, ac, ad)
          ELSE IF n.ty.cls = "any" /\ ~n.ty.isArr /\ c.params[k].ud
               THEN Pair(c, [nodes EXCEPT ![cb].closure = IF cb \in ac THEN @ ELSE k], k + 1, cb, ac, ad)
          ELSE Pair(c, nodes, k + 1, cb, ac, ad)

RECURSIVE ClosureNullable(_, _, _)
ClosureNullable(c, nodes, k) ==
  IF k > Len(c.params) THEN nodes
  ELSE LET t == nodes[k + 1].closure IN
       IF t > 0 /\ ~nodes[t + 1].notNullable
       THEN ClosureNullable(c, [nodes EXCEPT ![t + 1].nullable = TRUE], k + 1)
       ELSE ClosureNullable(c, nodes, k + 1)

Pass3(c, nodes) ==
  LET s1 == Eager([i \in 1..NVals(c) |-> IF i > 1 /\ IsWellKnownCb(nodes[i])
                                           THEN [nodes[i] EXCEPT !.scope = "async", !.transfer = "none"] ELSE nodes[i]], NVals(c))
      ac == IF "overridden-by-convention" \notin Dev THEN {i \in 1..NVals(c) : s1[i].closure # 0} ELSE {}
      ad == IF "overridden-by-convention" \notin Dev THEN {i \in 1..NVals(c) : s1[i].destroy # 0} ELSE {}
  IN ClosureNullable(c, Pair(c, s1, 1, 0, ac, ad), 1)

Final(c) == Pass3(c, Annotated(c))

\* ---- GIRWriter ------------------------------------------------------------------------------
\* parameter k of the case is emitted at index k-1: the instance parameter of a method has been
\* moved to <instance-parameter> and a trailing GError** has been removed before indices are computed.
\* Some declaration shapes are emitted TWICE from shared return / parameter objects (case fields shape, copy):
\*   "movedto": a function named like a type prefix without the underscore (foo_recs_x next to FooRec) is kept as
\*              <function> (copy 2: self is parameter 0) and cloned into a <method moved-to=...> (copy 1);
\*   "vfunc":   a class-structure slot becomes a <virtual-method> (copy 1) and stays a <field><callback> of the
\*              class structure (copy 2: self is parameter 0).
\* Every index counts among the <parameter>s of the element it is written on.
Shape(c) == IF "shape" \in DOMAIN c THEN c.shape ELSE "plain"
Copy(c)  == IF "copy" \in DOMAIN c THEN c.copy ELSE 1
EmittedIndex(c, k) == IF Copy(c) = 2 THEN k ELSE k - 1

Write(c, nodes, i) ==
  LET n     == nodes[i]
      isRet == IsRet(i)
      dirOut == IF n.dir \in {"out", "inout"} THEN n.dir ELSE "in"
      nul   == n.nullable /\ ~n.notNullable
      ty    == n.ty
  IN [present |-> TRUE,
      idx |-> IF isRet THEN -1 ELSE EmittedIndex(c, i - 1),
      transfer |-> n.transfer,
      direction |-> IF isRet THEN "in" ELSE dirOut,
      callerAllocates |-> IF isRet \/ dirOut = "in" THEN "" ELSE IF n.ca THEN "1" ELSE "0",
      nullable |-> nul,
      allowNone |-> ~isRet /\ ((nul /\ n.dir # "out") \/ (n.optional /\ n.dir = "out")),
      optional |-> ~isRet /\ n.optional,
      skip |-> n.skip,
      scope |-> IF isRet THEN "" ELSE n.scope,
      closure |-> IF isRet \/ n.closure = 0 THEN -1 ELSE EmittedIndex(c, n.closure),
      destroy |-> IF isRet \/ n.destroy = 0 THEN -1 ELSE EmittedIndex(c, n.destroy),
      tkind |-> IF ty.isArr THEN "array" ELSE "type",
      tname |-> IF ty.isArr THEN ty.atype ELSE ty.name,
      alen |-> IF ty.isArr /\ ty.alen > 0 THEN EmittedIndex(c, ty.alen) ELSE -1,
      afixed |-> IF ty.isArr THEN ty.afixed ELSE -1,
      azt |-> IF ~ty.isArr THEN "" ELSE IF ~ty.azt THEN "0" ELSE IF ty.afixed >= 0 \/ ty.alen > 0 THEN "1" ELSE "",
      elems |-> ty.elems,
      attrs |-> IF n.attrs = "kv" THEN {<<"c01.key", "val">>, <<"c01.other", "x">>} ELSE {}]

OutOf(c, f)   == Eager([i \in 1..NVals(c) |-> Write(c, f, i)], NVals(c))
ImplOut(c)    == OutOf(c, Final(c))

\* the same case with one annotation group of value i removed
Without(c, i, g) ==
  LET a == Val(c, i).ann
      b == CASE g = "transfer"  -> [a EXCEPT !.transfer = ""]
             [] g = "nullable"  -> [a EXCEPT !.nullable = FALSE]
             [] g = "optional"  -> [a EXCEPT !.optional = FALSE]
             [] g = "allownone" -> [a EXCEPT !.allownone = FALSE]
             [] g = "scope"     -> [a EXCEPT !.scope = ""]
             [] g = "closure"   -> [a EXCEPT !.closure = -1]
             [] g = "destroy"   -> [a EXCEPT !.destroy = 0]
             [] g = "et"        -> [a EXCEPT !.et = <<>>]
             [] OTHER           -> EmptyAnn
  IN IF i = 1 THEN [c EXCEPT !.ret.ann = b] ELSE [c EXCEPT !.params[i - 1].ann = b]

ImplWo(c, out) ==
  Eager([i \in 1..NVals(c) |->
     LET a == Val(c, i).ann
         W(g) == ImplOut(Without(c, i, g))[i]
         wt == IF a.transfer = "" THEN out[i] ELSE W("transfer")
         wn == IF ~a.nullable THEN out[i] ELSE W("nullable")
         wp == IF ~a.optional THEN out[i] ELSE W("optional")
         wa == IF ~a.allownone THEN out[i] ELSE W("allownone")
         ws == IF a.scope = "" THEN out[i] ELSE W("scope")
         wc == IF a.closure < 0 THEN out[i] ELSE W("closure")
         wd == IF a.destroy = 0 THEN out[i] ELSE W("destroy")
         we == IF a.et = <<>> THEN out[i] ELSE W("et")
     IN [transfer |-> wt.transfer, nullable |-> wn.nullable, optional |-> wp.optional,
         anNullable |-> wa.nullable, anOptional |-> wa.optional,
         scope |-> ws.scope, closure |-> wc.closure, destroy |-> wd.destroy,
         etElems |-> we.elems, etTname |-> we.tname, etTkind |-> we.tkind]], NVals(c))

\* the observation record the property layer judges; for the model it is what Impl predicts
ImplObs(c) ==
  LET f   == Final(c)
      out == OutOf(c, f)
  IN [case |-> c, out |-> out, warned |-> Eager([i \in 1..NVals(c) |-> f[i].warned], NVals(c)), wo |-> ImplWo(c, out),
      retBare |-> IF c.ret.ck = "void" /\ c.ret.ptr = 0 /\ c.ret.ann # EmptyAnn THEN ImplOut(Without(c, 1, "all"))[1] ELSE out[1]]

(***************************************************************************)
(* PART 3 -- property layer (observables only)                             *)
(*   r = [case, out, warned, wo, retBare];  i = value index                *)
(***************************************************************************)
\* ---- site predicates: what statement + documentation say about a C declaration --------------
CPointer(v)  == v.ptr >= 1 \/ v.ck \in ({"gpointer"} \cup CallbackKinds)        \* a pointer in C
PlainValue(v) == v.ptr = 0 /\ v.ck \in (BasicKinds \cup {"char", "aliasT"})       \* plain integer / boolean / double by value
NonPointer(v) == v.ptr = 0 /\ v.ck \in (BasicKinds \cup EnumKinds \cup {"char", "aliasT"})
DeclDir(v)   == LET d == AnnDirOf(v.ann) IN IF d = "" THEN "in" ELSE d
IsParam(i)   == i > 1
Callish(c)   == c.kind \in {"function", "method"}

\* parameters that some (array length=) annotation names, and the direction that annotation carries
LenSources(c, k) == {j \in 1..NVals(c) : HasArray(Val(c, j).ann) /\ Val(c, j).ann.alen = k /\
                                         ~(j = 1 /\ Val(c, 1).ck = "void" /\ Val(c, 1).ptr = 0)}
IsLenTarget(c, i) == IsParam(i) /\ LenSources(c, i - 1) # {}
\* destroy-notify parameters that the pairing convention attaches to the callback parameter i:
\* later parameters of type GDestroyNotify up to the next callback parameter
\* (a parameter that is certainly a callback ends the search; one whose type is overridden by (type) / (array) may
\* or may not be one any more, so the sets below over-approximate and the clauses using them stay silent)
RECURSIVE FollowingUntilCb(_, _)
FollowingUntilCb(c, k) == IF k > Len(c.params) THEN {}
                          ELSE IF /\ c.params[k].ck \in {"callbackT", "asyncReady"} /\ c.params[k].ptr = 0
                                  /\ c.params[k].ann.type = "" /\ ~HasArray(c.params[k].ann) THEN {}
                          ELSE {k} \cup FollowingUntilCb(c, k + 1)
\* (a (type T) written on the notifier does not exclude it: an unresolvable T leaves the C type in place)
ConvDestroy(c, i) == {k \in FollowingUntilCb(c, i) : c.params[k].ck = "destroyNotify"}
ConvClosure(c, i) == {k \in FollowingUntilCb(c, i) : c.params[k].ck \in {"gpointer", "void"} /\ c.params[k].ud}
NoTypeTricks(c) == \A j \in 1..NVals(c) : Val(c, j).ann.type = "" /\ ~(IsParam(j) /\ HasArray(Val(c, j).ann) /\ Val(c, j).ck \in CallbackKinds)

\* the record judged for value i
O(r, i)  == r.out[i]
A(r, i)  == Val(r.case, i).ann
V(r, i)  == Val(r.case, i)
W(r, i)  == r.warned[i]
Spoken(r, i) == O(r, i).present /\ ~(IsRet(i) /\ V(r, i).ck = "void" /\ V(r, i).ptr = 0)

\* Every clause is  Ante(name) => Cons(name):  the antecedent says when the statement speaks about value i
\* (it mentions the case only, plus "the value was emitted"), the consequent constrains observables.

\* ---- ownership transfer (floating meaning none) -----------------------------------------------------
TransferJudged(r, i) == /\ Spoken(r, i) /\ A(r, i).transfer # "" /\ A(r, i).type = ""
                        /\ V(r, i).ck \notin CallbackKinds /\ V(r, i).ck \notin {"unknownT", "void"}
                        /\ ~IsLenTarget(r.case, i)
TransferValid(r, i) ==
  LET v == V(r, i)  a == A(r, i) IN
  CASE a.transfer = "floating"  -> v.ck \in (ObjectKinds \cup {"gvariant", "gclosure"}) /\ v.ptr >= 1
    [] a.transfer = "container" -> HasArray(a) \/ (v.ck \in ContainerKinds /\ v.ptr >= 1) \/ (IsRet(i) /\ v.ck = "char" /\ v.ptr = 2)
    [] OTHER                    -> CPointer(v) \/ (IsParam(i) /\ DeclDir(v) \in {"out", "inout"})
TransferInvalid(r, i) ==
  LET v == V(r, i)  a == A(r, i) IN
  CASE a.transfer = "floating"  -> ~(v.ck \in (ObjectKinds \cup {"gvariant", "gclosure"}))
    [] a.transfer = "container" -> ~HasArray(a) /\ (v.ck \in (BasicKinds \cup EnumKinds \cup RecordKinds \cup ObjectKinds \cup {"aliasT", "gvariant", "gclosure"})
                                                    \/ (v.ck = "char" /\ v.ptr <= 1))
    [] OTHER                    -> PlainValue(v) /\ (IsRet(i) \/ DeclDir(v) = "in")
DocTransfer(t) == IF t = "floating" THEN "none" ELSE t
A_Transfer(r, i)    == TransferJudged(r, i) /\ TransferValid(r, i)
K_Transfer(r, i)    == O(r, i).transfer = DocTransfer(A(r, i).transfer)
A_TransferBad(r, i) == TransferJudged(r, i) /\ TransferInvalid(r, i)
K_TransferBad(r, i) == "transfer" \in W(r, i) /\ O(r, i).transfer = r.wo[i].transfer

\* ---- direction and caller-allocation ------------------------------------------------------------------
A_Direction(r, i) == Spoken(r, i) /\ IsParam(i) /\ A(r, i).dir # "" /\ ~IsLenTarget(r.case, i)
K_Direction(r, i) == O(r, i).direction = DeclDir(V(r, i))
AllocJudged(r, i) == Spoken(r, i) /\ IsParam(i) /\ ~IsLenTarget(r.case, i) /\ A(r, i).type = "" /\ ~HasArray(A(r, i))
A_CallerAllocates(r, i) == AllocJudged(r, i) /\ A(r, i).dir \in {"outcaller", "outcallee"}
K_CallerAllocates(r, i) == O(r, i).callerAllocates = (IF A(r, i).dir = "outcaller" THEN "1" ELSE "0")
\* (out) "automatically determines allocation": the documented rule is single vs double indirection on a structure
A_CallerAllocatesInferred(r, i) == AllocJudged(r, i) /\ A(r, i).dir = "out" /\ V(r, i).ck \in RecordKinds /\ V(r, i).ptr \in {1, 2}
K_CallerAllocatesInferred(r, i) == O(r, i).callerAllocates = (IF V(r, i).ptr = 1 THEN "1" ELSE "0")
\* "Default Annotations" of the documentation: (in) parameters are (transfer none), (inout) and (out) parameters
\* (transfer full), (transfer none) if caller-allocates -- the transfer an annotated direction brings when none is written
A_DirectionTransfer(r, i) == /\ Spoken(r, i) /\ IsParam(i) /\ A(r, i).dir # "" /\ A(r, i).transfer = "" /\ A(r, i).type = ""
                             /\ ~IsLenTarget(r.case, i) /\ V(r, i).ck \notin (CallbackKinds \cup {"unknownT", "void"})
K_DirectionTransfer(r, i) == O(r, i).transfer = (IF O(r, i).direction = "in" \/ O(r, i).callerAllocates = "1" THEN "none" ELSE "full")
\* a direction / scope / closure / destroy annotation on a return value is not valid there
A_ReturnOnlyParam(r, i) == LET a == A(r, i) IN Spoken(r, i) /\ IsRet(i) /\ (a.dir # "" \/ a.scope # "" \/ a.closure >= 0 \/ a.destroy > 0)
K_ReturnOnlyParam(r, i) ==
  LET a == A(r, i) o == O(r, i) IN
     /\ a.dir # "" => AnnDirOf(a) \in W(r, i)
     /\ a.scope # "" => ("scope" \in W(r, i) /\ o.scope = "")
     /\ a.closure >= 0 => ("closure" \in W(r, i) /\ o.closure = -1)
     /\ a.destroy > 0 => ("destroy" \in W(r, i) /\ o.destroy = -1)

\* ---- nullable / optional / allow-none, 'not' overriding ---------------------------------------------------
DirKnown(r, i) == ~IsLenTarget(r.case, i)
PointerSite(r, i) == CPointer(V(r, i)) \/ (IsParam(i) /\ DeclDir(V(r, i)) \in {"out", "inout"} /\ DirKnown(r, i))
NonPointerSite(r, i) == NonPointer(V(r, i)) /\ (IsRet(i) \/ (DeclDir(V(r, i)) = "in" /\ DirKnown(r, i)))
InOrRet(r, i) == IsRet(i) \/ (DeclDir(V(r, i)) = "in" /\ DirKnown(r, i))
A_Nullable(r, i)    == Spoken(r, i) /\ A(r, i).nullable /\ A(r, i).type = "" /\ PointerSite(r, i) /\ A(r, i).notn # "nullable"
K_Nullable(r, i)    == O(r, i).nullable
A_NullableBad(r, i) == Spoken(r, i) /\ A(r, i).nullable /\ A(r, i).type = "" /\ ~HasArray(A(r, i)) /\ NonPointerSite(r, i)
K_NullableBad(r, i) == "nullable" \in W(r, i) /\ O(r, i).nullable = r.wo[i].nullable
A_NotNullable(r, i) == Spoken(r, i) /\ A(r, i).notn = "nullable"
K_NotNullable(r, i) == ~O(r, i).nullable
A_Optional(r, i)    == Spoken(r, i) /\ A(r, i).optional /\ IsParam(i) /\ DeclDir(V(r, i)) \in {"out", "inout"} /\ DirKnown(r, i)
                       /\ A(r, i).notn # "optional"
K_Optional(r, i)    == O(r, i).optional
A_OptionalBad(r, i) == Spoken(r, i) /\ A(r, i).optional /\ InOrRet(r, i)
K_OptionalBad(r, i) == "optional" \in W(r, i) /\ O(r, i).optional = r.wo[i].optional
A_NotOptional(r, i) == Spoken(r, i) /\ A(r, i).notn = "optional"
K_NotOptional(r, i) == ~O(r, i).optional
\* (allow-none): "replaced by (nullable) and (optional)": optional on out parameters, nullable elsewhere
AllowNoneJudged(r, i) == Spoken(r, i) /\ A(r, i).allownone /\ A(r, i).type = "" /\ DirKnown(r, i)
A_AllowNoneOut(r, i)  == AllowNoneJudged(r, i) /\ IsParam(i) /\ DeclDir(V(r, i)) = "out" /\ A(r, i).notn # "optional"
K_AllowNoneOut(r, i)  == O(r, i).optional
A_AllowNonePointer(r, i) == AllowNoneJudged(r, i) /\ InOrRet(r, i) /\ CPointer(V(r, i)) /\ A(r, i).notn # "nullable"
K_AllowNonePointer(r, i) == O(r, i).nullable
A_AllowNoneBad(r, i)  == AllowNoneJudged(r, i) /\ InOrRet(r, i) /\ NonPointer(V(r, i)) /\ ~HasArray(A(r, i))
K_AllowNoneBad(r, i)  == "allow-none" \in W(r, i) /\ O(r, i).nullable = r.wo[i].anNullable /\ O(r, i).optional = r.wo[i].anOptional

\* ---- skip, attributes -----------------------------------------------------------------------------------
A_Skip(r, i)  == Spoken(r, i) /\ A(r, i).skip
K_Skip(r, i)  == O(r, i).skip
A_Attrs(r, i) == Spoken(r, i) /\ A(r, i).attrs = "kv"
K_Attrs(r, i) == {<<"c01.key", "val">>, <<"c01.other", "x">>} \subseteq O(r, i).attrs

\* ---- arrays ---------------------------------------------------------------------------------------------
\* GIR: a missing zero-terminated attribute means "zero-terminated unless a length or fixed size is given"
ZeroTerminated(o) == IF o.azt = "" THEN (o.alen = -1 /\ o.afixed = -1) ELSE o.azt = "1"
A_Array(r, i) == Spoken(r, i) /\ HasArray(A(r, i))
K_Array(r, i) ==
  LET a == A(r, i) o == O(r, i) IN
     /\ o.tkind = "array"
     /\ a.afixed >= 0 => o.afixed = a.afixed
     /\ a.azt \in {"1", "bare"} => ZeroTerminated(o)
     /\ a.azt = "0" => ~ZeroTerminated(o)
A_ArrayLengthIndex(r, i) == Spoken(r, i) /\ A(r, i).alen > 0
K_ArrayLengthIndex(r, i) == O(r, i).alen = EmittedIndex(r.case, A(r, i).alen)
\* "An array length annotation also makes the named length parameter follow the array's direction"
SourceDir(r, j) == IF IsRet(j) THEN "out" ELSE O(r, j).direction
A_ArrayLengthDirection(r, i) ==
  LET a == A(r, i) t == a.alen + 1 IN
   /\ Spoken(r, i) /\ HasArray(a) /\ a.alen > 0 /\ O(r, t).present
   /\ (IsRet(i) => A(r, i).dir = "")                      \* a direction written on a return value is itself invalid
   /\ (\A j \in LenSources(r.case, a.alen) : SourceDir(r, j) = SourceDir(r, i))
   /\ (A(r, t).dir = "" \/ DeclDir(V(r, t)) = SourceDir(r, i))
K_ArrayLengthDirection(r, i) == O(r, A(r, i).alen + 1).direction = SourceDir(r, i)

\* ---- element-type and type ----------------------------------------------------------------------------------
ListLike(r, i) == LET v == V(r, i) IN HasArray(A(r, i)) \/ (v.ck \in (ListKinds \cup GArrayKinds) /\ v.ptr >= 1)
                                       \/ (IsRet(i) /\ v.ck = "char" /\ v.ptr = 2)
MapLike(r, i)  == V(r, i).ck = "GHashTable" /\ V(r, i).ptr >= 1 /\ ~HasArray(A(r, i))
NotAContainer(r, i) == LET v == V(r, i) IN ~HasArray(A(r, i)) /\
                         (v.ck \in (BasicKinds \cup EnumKinds \cup RecordKinds \cup ObjectKinds \cup CallbackKinds \cup {"aliasT", "gvariant", "gclosure"})
                          \/ (v.ck = "char" /\ v.ptr <= 1))
\* element types the scanner itself documents as unsuitable for the container (it warns and the statement is silent)
ElemDiscouraged(r, i) == LET v == V(r, i) e == A(r, i).et[1] IN
                           \/ (v.ck = "GPtrArray" /\ e \in {"guint8", "gint", "int"})
                           \/ (v.ck = "GByteArray" /\ e # "guint8")
ETJudged(r, i) == Spoken(r, i) /\ Len(A(r, i).et) > 0 /\ A(r, i).type = "" /\ (\A j \in DOMAIN A(r, i).et : SpellSimple(A(r, i).et[j]))
A_ElementType(r, i) == ETJudged(r, i) /\ ((ListLike(r, i) /\ Len(A(r, i).et) = 1 /\ ~ElemDiscouraged(r, i)) \/ (MapLike(r, i) /\ Len(A(r, i).et) = 2))
K_ElementType(r, i) == O(r, i).elems = ElemNames(A(r, i).et)
A_ElementTypeBad(r, i) == ETJudged(r, i) /\ (NotAContainer(r, i) \/ (~HasArray(A(r, i)) /\ ListLike(r, i) /\ Len(A(r, i).et) # 1)
                                             \/ (MapLike(r, i) /\ Len(A(r, i).et) # 2))
K_ElementTypeBad(r, i) == "element-type" \in W(r, i) /\ O(r, i).elems = r.wo[i].etElems /\ O(r, i).tname = r.wo[i].etTname
                          /\ O(r, i).tkind = r.wo[i].etTkind
A_Type(r, i) == Spoken(r, i) /\ A(r, i).type # "" /\ SpellResolved(A(r, i).type)
K_Type(r, i) ==
  LET a == A(r, i) o == O(r, i) t == SpellType(a.type) IN
     IF HasArray(a) THEN (a.et = <<>> /\ t.elems = <<>>) => o.elems = <<t.name>>
     ELSE o.tkind = "type" /\ o.tname = t.name /\ (a.et = <<>> /\ t.elems # <<>> => o.elems = t.elems)

\* ---- scope / closure / destroy ---------------------------------------------------------------------------------
PlainCallbackParam(r, i) == IsParam(i) /\ V(r, i).ck = "callbackT" /\ V(r, i).ptr = 0 /\ ~HasArray(A(r, i))
AnyCallbackParam(r, i)   == IsParam(i) /\ V(r, i).ck \in CallbackKinds /\ V(r, i).ptr = 0 /\ ~HasArray(A(r, i))
NotACallback(r, i) == IsParam(i) /\ V(r, i).ck \notin (CallbackKinds \cup {"unknownT"})
GPointerParam(c, k) == c.params[k].ck \in {"gpointer"} /\ c.params[k].ptr = 0 /\ c.params[k].ann.type = "" /\ ~HasArray(c.params[k].ann)
DefinitelyNotGPointer(c, k) == c.params[k].ck \notin {"gpointer", "void", "unknownT"} /\ c.params[k].ann.type = ""
OnCallable(r, i) == Spoken(r, i) /\ Callish(r.case) /\ A(r, i).type = ""

\* a scope is judged on plain callback parameters that are not tied to a destroy notifier
\* ("notified: valid until the GDestroyNotify argument is called" -- a notifier implies that scope)
A_Scope(r, i) == /\ OnCallable(r, i) /\ A(r, i).scope # "" /\ PlainCallbackParam(r, i)
                 /\ A(r, i).destroy = 0 /\ ConvDestroy(r.case, i) = {}
                 /\ (\A j \in 2..NVals(r.case) : A(r, j).destroy # i - 1)
K_Scope(r, i) == O(r, i).scope = A(r, i).scope
A_ScopeBad(r, i) == OnCallable(r, i) /\ A(r, i).scope # "" /\ NotACallback(r, i)
K_ScopeBad(r, i) == "scope" \in W(r, i) /\ O(r, i).scope = r.wo[i].scope
\* (closure PARAM) on the callback parameter of a function / method
A_Closure(r, i) == OnCallable(r, i) /\ A(r, i).closure > 0 /\ AnyCallbackParam(r, i) /\ GPointerParam(r.case, A(r, i).closure)
K_Closure(r, i) == O(r, i).closure = EmittedIndex(r.case, A(r, i).closure)
\* (closure) on the user-data parameter of a callback type: "represented by pointing at itself"
A_ClosureUserData(r, i) == Spoken(r, i) /\ r.case.kind = "callback" /\ A(r, i).closure = 0 /\ IsParam(i) /\ GPointerParam(r.case, i - 1)
K_ClosureUserData(r, i) == O(r, i).closure = EmittedIndex(r.case, i - 1)
\* not valid at its site: on a non-callback parameter of a function / method, or with an argument inside a callback type
A_ClosureBad(r, i) == \/ (OnCallable(r, i) /\ A(r, i).closure >= 0 /\ NotACallback(r, i))
                      \/ (Spoken(r, i) /\ r.case.kind = "callback" /\ IsParam(i) /\ A(r, i).closure > 0)
K_ClosureBad(r, i) == "closure" \in W(r, i) /\ O(r, i).closure = r.wo[i].closure
\* the user-data parameter named (or marked) is not a gpointer
A_ClosureTargetBad(r, i) ==
   \/ (OnCallable(r, i) /\ A(r, i).closure > 0 /\ AnyCallbackParam(r, i) /\ DefinitelyNotGPointer(r.case, A(r, i).closure))
   \/ (Spoken(r, i) /\ r.case.kind = "callback" /\ IsParam(i) /\ A(r, i).closure = 0 /\ A(r, i).type = ""
       /\ DefinitelyNotGPointer(r.case, i - 1) /\ ~HasArray(A(r, i)))
K_ClosureTargetBad(r, i) == "closure" \in W(r, i) /\ O(r, i).closure = r.wo[i].closure
A_Destroy(r, i) == OnCallable(r, i) /\ A(r, i).destroy > 0 /\ PlainCallbackParam(r, i)
K_Destroy(r, i) == O(r, i).destroy = EmittedIndex(r.case, A(r, i).destroy)
A_DestroyBad(r, i) == OnCallable(r, i) /\ A(r, i).destroy > 0 /\ NotACallback(r, i)
K_DestroyBad(r, i) == "destroy" \in W(r, i) /\ O(r, i).destroy = r.wo[i].destroy

\* ---- annotations on a void return: the whole tag is invalid ----------------------------------------------------
A_ReturnVoid(r, i) == IsRet(i) /\ O(r, i).present /\ V(r, i).ck = "void" /\ V(r, i).ptr = 0 /\ A(r, i) # EmptyAnn
K_ReturnVoid(r, i) == "return" \in W(r, i) /\ O(r, i) = r.retBare

ClauseNames == {"Transfer", "TransferBad", "Direction", "DirectionTransfer", "CallerAllocates", "CallerAllocatesInferred", "ReturnOnlyParam",
                "Nullable", "NullableBad", "NotNullable", "Optional", "OptionalBad", "NotOptional",
                "AllowNoneOut", "AllowNonePointer", "AllowNoneBad",
                "Skip", "Attrs", "Array", "ArrayLengthIndex", "ArrayLengthDirection",
                "ElementType", "ElementTypeBad", "Type",
                "Scope", "ScopeBad", "Closure", "ClosureUserData", "ClosureBad", "ClosureTargetBad", "Destroy", "DestroyBad",
                "ReturnVoid"}

Ante(name, r, i) ==
  CASE name = "Transfer" -> A_Transfer(r, i)            [] name = "TransferBad" -> A_TransferBad(r, i)
    [] name = "Direction" -> A_Direction(r, i)          [] name = "CallerAllocates" -> A_CallerAllocates(r, i)
    [] name = "DirectionTransfer" -> A_DirectionTransfer(r, i)
    [] name = "CallerAllocatesInferred" -> A_CallerAllocatesInferred(r, i)
    [] name = "ReturnOnlyParam" -> A_ReturnOnlyParam(r, i)
    [] name = "Nullable" -> A_Nullable(r, i)            [] name = "NullableBad" -> A_NullableBad(r, i)
    [] name = "NotNullable" -> A_NotNullable(r, i)      [] name = "Optional" -> A_Optional(r, i)
    [] name = "OptionalBad" -> A_OptionalBad(r, i)      [] name = "NotOptional" -> A_NotOptional(r, i)
    [] name = "AllowNoneOut" -> A_AllowNoneOut(r, i)    [] name = "AllowNonePointer" -> A_AllowNonePointer(r, i)
    [] name = "AllowNoneBad" -> A_AllowNoneBad(r, i)    [] name = "Skip" -> A_Skip(r, i)
    [] name = "Attrs" -> A_Attrs(r, i)                  [] name = "Array" -> A_Array(r, i)
    [] name = "ArrayLengthIndex" -> A_ArrayLengthIndex(r, i)
    [] name = "ArrayLengthDirection" -> A_ArrayLengthDirection(r, i)
    [] name = "ElementType" -> A_ElementType(r, i)      [] name = "ElementTypeBad" -> A_ElementTypeBad(r, i)
    [] name = "Type" -> A_Type(r, i)                    [] name = "Scope" -> A_Scope(r, i)
    [] name = "ScopeBad" -> A_ScopeBad(r, i)            [] name = "Closure" -> A_Closure(r, i)
    [] name = "ClosureUserData" -> A_ClosureUserData(r, i)
    [] name = "ClosureBad" -> A_ClosureBad(r, i)        [] name = "ClosureTargetBad" -> A_ClosureTargetBad(r, i)
    [] name = "Destroy" -> A_Destroy(r, i)              [] name = "DestroyBad" -> A_DestroyBad(r, i)
    [] name = "ReturnVoid" -> A_ReturnVoid(r, i)

Cons(name, r, i) ==
  CASE name = "Transfer" -> K_Transfer(r, i)            [] name = "TransferBad" -> K_TransferBad(r, i)
    [] name = "Direction" -> K_Direction(r, i)          [] name = "CallerAllocates" -> K_CallerAllocates(r, i)
    [] name = "DirectionTransfer" -> K_DirectionTransfer(r, i)
    [] name = "CallerAllocatesInferred" -> K_CallerAllocatesInferred(r, i)
    [] name = "ReturnOnlyParam" -> K_ReturnOnlyParam(r, i)
    [] name = "Nullable" -> K_Nullable(r, i)            [] name = "NullableBad" -> K_NullableBad(r, i)
    [] name = "NotNullable" -> K_NotNullable(r, i)      [] name = "Optional" -> K_Optional(r, i)
    [] name = "OptionalBad" -> K_OptionalBad(r, i)      [] name = "NotOptional" -> K_NotOptional(r, i)
    [] name = "AllowNoneOut" -> K_AllowNoneOut(r, i)    [] name = "AllowNonePointer" -> K_AllowNonePointer(r, i)
    [] name = "AllowNoneBad" -> K_AllowNoneBad(r, i)    [] name = "Skip" -> K_Skip(r, i)
    [] name = "Attrs" -> K_Attrs(r, i)                  [] name = "Array" -> K_Array(r, i)
    [] name = "ArrayLengthIndex" -> K_ArrayLengthIndex(r, i)
    [] name = "ArrayLengthDirection" -> K_ArrayLengthDirection(r, i)
    [] name = "ElementType" -> K_ElementType(r, i)      [] name = "ElementTypeBad" -> K_ElementTypeBad(r, i)
    [] name = "Type" -> K_Type(r, i)                    [] name = "Scope" -> K_Scope(r, i)
    [] name = "ScopeBad" -> K_ScopeBad(r, i)            [] name = "Closure" -> K_Closure(r, i)
    [] name = "ClosureUserData" -> K_ClosureUserData(r, i)
    [] name = "ClosureBad" -> K_ClosureBad(r, i)        [] name = "ClosureTargetBad" -> K_ClosureTargetBad(r, i)
    [] name = "Destroy" -> K_Destroy(r, i)              [] name = "DestroyBad" -> K_DestroyBad(r, i)
    [] name = "ReturnVoid" -> K_ReturnVoid(r, i)

Clause(name, r, i) == Ante(name, r, i) => Cons(name, r, i)

\* cheap pre-filter (case only): the clauses that are about an annotation present on the value
Candidates(a, isRet) ==
  (IF a.transfer # "" THEN {"Transfer", "TransferBad"} ELSE {})
  \cup (IF a.dir # "" /\ ~isRet THEN {"Direction", "DirectionTransfer", "CallerAllocates", "CallerAllocatesInferred"} ELSE {})
  \cup (IF isRet THEN {"ReturnOnlyParam", "ReturnVoid"} ELSE {})
  \cup (IF a.nullable THEN {"Nullable", "NullableBad"} ELSE {})
  \cup (IF a.notn = "nullable" THEN {"NotNullable"} ELSE IF a.notn = "optional" THEN {"NotOptional"} ELSE {})
  \cup (IF a.optional THEN {"Optional", "OptionalBad"} ELSE {})
  \cup (IF a.allownone THEN {"AllowNoneOut", "AllowNonePointer", "AllowNoneBad"} ELSE {})
  \cup (IF a.skip THEN {"Skip"} ELSE {})
  \cup (IF a.attrs = "kv" THEN {"Attrs"} ELSE {})
  \cup (IF HasArray(a) THEN {"Array"} ELSE {})
  \cup (IF a.alen > 0 THEN {"ArrayLengthIndex", "ArrayLengthDirection"} ELSE {})
  \cup (IF a.et # <<>> THEN {"ElementType", "ElementTypeBad"} ELSE {})
  \cup (IF a.type # "" THEN {"Type"} ELSE {})
  \cup (IF a.scope # "" /\ ~isRet THEN {"Scope", "ScopeBad"} ELSE {})
  \cup (IF a.closure >= 0 /\ ~isRet THEN {"Closure", "ClosureUserData", "ClosureBad", "ClosureTargetBad"} ELSE {})
  \cup (IF a.destroy > 0 /\ ~isRet THEN {"Destroy", "DestroyBad"} ELSE {})

\* the (value, clause) pairs on which the statement speaks, and those on which it is violated
Speaking(r) == UNION {{<<i, name>> : name \in {n \in Candidates(A(r, i), IsRet(i)) : Ante(n, r, i)}} : i \in 1..NVals(r.case)}
Failing(r)  == {p \in Speaking(r) : ~Cons(p[2], r, p[1])}

(***************************************************************************)
(* PART 3b -- deviation classes: input classes on which EARLIER versions   *)
(* of the scanner did not satisfy a clause (found by replaying model       *)
(* counterexamples on the real code; each repaired by a fix: commit, see   *)
(* known_findings.json).  Defined on the CASE only.  A rejected            *)
(* observation is reported with its class ("none" if it is in none), which *)
(* is part of the signature known_findings.json matches on; the what-if    *)
(* switches Dev of the implementation-shaped layer carry the same names.   *)
(***************************************************************************)
Deviation(name, c, i) ==
  LET v == Val(c, i) a == v.ann IN
  CASE \* (not optional) is implemented as (not nullable): it never clears optional and it clears nullable
       name = "NotOptional" /\ (a.optional \/ a.allownone) -> "not-optional"
    [] name \in {"Nullable", "AllowNonePointer"} /\ a.notn = "optional" -> "not-optional"
       \* by-value enum / flags were taken for pointers: (nullable) / (allow-none) accepted without a warning
    [] name \in {"NullableBad", "AllowNoneBad"} /\ v.ck \in EnumKinds /\ v.ptr = 0 -> "nullable-on-enum-value"
       \* a pointer to an alias of a basic type was taken for a non-pointer
    [] name \in {"Nullable", "AllowNonePointer", "Transfer"} /\ v.ck = "aliasT" /\ v.ptr >= 1 -> "alias-pointer-not-a-pointer"
       \* the callback/user_data/GDestroyNotify pairing convention overrode an explicit annotation
    [] name = "Closure" /\ Callish(c) /\ a.closure > 0 /\ (ConvClosure(c, i) \ {a.closure}) # {} -> "overridden-by-convention"
    [] name = "Destroy" /\ Callish(c) /\ a.destroy > 0 /\ (ConvDestroy(c, i) \ {a.destroy}) # {} -> "overridden-by-convention"
       \* closure on something that is not a gpointer was warned about but applied all the same
    [] name = "ClosureTargetBad" -> "closure-target-not-gpointer"
    [] OTHER -> "none"

\* how a clause fails: an invalid annotation that was not reported ("unwarned") or reported but applied all the same
\* ("applied"); a valid one that is not reflected ("not-reflected").  Part of the signature a finding is matched on.
WarnName(name) == CASE name = "TransferBad" -> "transfer" [] name = "NullableBad" -> "nullable"
                    [] name = "OptionalBad" -> "optional" [] name = "AllowNoneBad" -> "allow-none"
                    [] name = "ElementTypeBad" -> "element-type" [] name = "ScopeBad" -> "scope"
                    [] name \in {"ClosureBad", "ClosureTargetBad"} -> "closure" [] name = "DestroyBad" -> "destroy"
                    [] name = "ReturnVoid" -> "return" [] OTHER -> ""
How(name, r, i) == IF WarnName(name) = "" THEN (IF name = "ReturnOnlyParam" THEN "invalid-on-return" ELSE "not-reflected")
                   ELSE IF WarnName(name) \in W(r, i) THEN "applied" ELSE "unwarned"

(***************************************************************************)
(* PART 4 -- the model                                                     *)
(***************************************************************************)
VARIABLES case, phase, bad
vars == <<case, phase, bad>>

Unexplained(r) == {p \in Failing(r) : Deviation(p[2], r.case, p[1]) = "none"}

\* TLC caches LET definitions only while it evaluates an action (not in invariants / ASSUMEs), so the
\* scan -- Impl(case) and the judgement of its prediction by the property layer -- is the Scan action;
\* the invariants below only look at the verdict it leaves in `bad'.
Init == case \in Cases /\ phase = "scan" /\ bad = {}
Scan == /\ phase = "scan"
        /\ phase' = "done"
        /\ bad' = Failing(ImplObs(case))
        /\ UNCHANGED case
Next == Scan
Spec == Init /\ [][Next]_vars

\* implementation layer => property layer, on every case of the bounded space: the current code (Dev = {}) has no
\* failing pair at all; with a what-if switch on, only pairs of the switched-on classes may fail
ImplSatisfiesProperty == \A p \in bad : Deviation(p[2], case, p[1]) \in Dev
\* witness configurations (Dev = {class}): TLC's counterexample to NoDeviation is a case on which the old behaviour
\* breaks the property; the harness replays it on the real code, where it has to be accepted
NoDeviation == bad = {}
=============================================================================

SPECIFICATION Spec
CONSTANTS
  N = 4
  Kinds <- K_callables
  TKs <- TK_core
  AllowList = FALSE
  AllowNSkip = FALSE
  AllowVSkip = FALSE
  AllowReturn = TRUE
  AllowMoved = FALSE
  MaxFunctions = 1
  Stepwise = FALSE
  COrder = TRUE
  Orders <- Id4
  KnownShapes <- Known_c
  ExportViol = 1
  ExportOk = 997
INVARIANT NoUnknownViolation
CHECK_DEADLOCK FALSE

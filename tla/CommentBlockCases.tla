-------------------------- MODULE CommentBlockCases --------------------------
(***************************************************************************)
(* Case export for C10 / C11 by EXHAUSTIVE exploration: the behaviours of  *)
(* CommentBlock.tla (generator GenNext in lock step with the parser PL)    *)
(* are explored breadth-first with KeepLines = TRUE, so that every state   *)
(* with pc = "last" is one distinct (model, layout[, fault placement]).    *)
(* Each is checked against the module's invariants and printed as one JSON *)
(* line                                                                    *)
(*    [open, close, lines, model, faults, ign, nf, complete,               *)
(*     spectree / specdiags = what the spec's own parser made of it,       *)
(*     expected = source lines on which a diagnostic is permitted]         *)
(* which the harness renders into concrete comment text (several concrete  *)
(* layouts per case) for the REAL parser.  The harness sees exactly the    *)
(* cases TLC counted (distinct states with pc = "done").                   *)
(***************************************************************************)
EXTENDS CommentBlock, Json, SequencesExt

CAllForms == {"symbol", "prop", "signal", "field", "section", "action"}
CSymProp == {"symbol", "prop"}
COneForm == {"symbol"}
CInd012 == {0, 1, 2}
CInd02 == {0, 2}
CInd01 == {0, 1}
CInd0 == {0}
CTagsAll == {"returns", "since", "deprecated", "stability"}
CTagsRS == {"returns", "since"}
CTagsR == {"returns"}
CTagsS == {"since"}
CNoFaults == {}
CKnown == {}        \* both deviations are repaired (855d795, 38eeb2b): the exported cases follow the current code
CAllFaults == {"unbal", "dbl", "empty", "stray", "kv", "unknown", "nocolon", "dupparam", "duptag", "returns2",
               "paramlate", "pre", "codebefore", "codeafter", "oneline", "noident", "attrs", "opentext", "depann", "deptag", "dupparen"}

CParenFaults == {"unbal", "dbl", "empty", "stray", "dupparen"}

CValFaults == {"unknown", "kv", "depann"}

CInit ==
  /\ model = M0 /\ lines = <<>>
  /\ \E o \in Opens :
       /\ pc = IF o = "oneline" THEN "last" ELSE "gen"
       /\ g = [G0 EXCEPT !.alone = o \notin {"opentext", "oneline"},
                         !.nf = IF o \in {"codebefore", "oneline"} THEN 1 ELSE 0, !.open = o]
       /\ ps = IF o = "alone" THEN PS0 ELSE AddDiags(PS0, <<o>>)
       /\ expected = IF o = "alone" THEN {} ELSE {<<StartLine, o>>}

CFinish ==
  /\ pc = "gen" /\ g.ph # "open"
  /\ pc' = "last"
  /\ \E c \in {"alone"} \cup (IF MayPlant(g, "codeafter") THEN {"codeafter"} ELSE {}) :
       LET last == SrcLine(g, g.ln + 1)
           s1 == Fin(ps)
       IN /\ ps' = IF c = "alone" THEN s1 ELSE [s1 EXCEPT !.diags = <<[line |-> last, kind |-> "codeafter"]>> \o @]
          /\ expected' = IF c = "alone" THEN expected ELSE expected \cup {<<last, "codeafter">>}
          /\ g' = IF c = "alone" THEN g ELSE [Planted(g) EXCEPT !.close = "codeafter"]
  /\ UNCHANGED <<model, lines>>

COut ==
  /\ pc = "last" /\ pc' = "done"
  /\ PrintT(ToJson([open |-> g.open, close |-> g.close, lines |-> lines, model |-> model, faults |-> g.faults,
                    ign |-> SetToSeq(g.ign), nf |-> g.nf, complete |-> g.ph # "open", alone |-> g.alone,
                    spectree |-> Tree(ps), specdiags |-> ps.diags, expected |-> SetToSeq(expected)]))
  /\ UNCHANGED <<g, model, lines, ps, expected>>

CNext == SeeLine \/ CFinish \/ COut
CSpec == CInit /\ [][CNext]_vars

\* the same behaviours with one action per generator class: TLC's simulation mode chooses among the
\* enabled ACTIONS first, so a random walk is balanced over line kinds instead of over layouts
CE(c) == pc = "gen" /\ c \in ClassesAt(g.ph) /\ \E x \in GenClass(c, g, model) : EmitX(x)
CNextByGen == CE("ident") \/ CE("noident") \/ CE("idcont") \/ CE("param") \/ CE("lateparam") \/ CE("partcont")
              \/ CE("parttext") \/ CE("sep") \/ CE("tagempty") \/ CE("descempty") \/ CE("desctext") \/ CE("tag")
              \/ CE("attrs") \/ CE("deptag") \/ CFinish \/ COut
CSpecByGen == CInit /\ [][CNextByGen]_vars
=============================================================================

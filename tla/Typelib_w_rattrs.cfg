INIT Init
NEXT Next
CONSTANTS
  Dev = {"cb_return_attrs_dropped"}
  Kinds = {"attrs"}
  Strict = FALSE
  Full = FALSE
  MaxCnt = 1
INVARIANT BuildEncodes
CHECK_DEADLOCK FALSE

SPECIFICATION Spec
CONSTANTS
  NSs <- MC_NSs
  Types <- MC_Types
  Owner <- MC_Owner
  LazyKeepsCache = FALSE
INVARIANT RepoAgrees
INVARIANT CacheSound
CHECK_DEADLOCK FALSE

---------------------------- MODULE TypelibTrace ----------------------------
(***************************************************************************)
(* C06 / C09 on observations of the REAL code (batch idiom, DESIGN A.2).   *)
(*                                                                         *)
(* C06 records  [id, kind, found, env, g, b]:                              *)
(*   g = abstract GIR element as rendered into the compiled document,      *)
(*   b = what harness/tlabs.py (independent decoder) read from the typelib *)
(*       that REPO's g-ir-compiler wrote, projected field by field,        *)
(*   found = FALSE: the element has no counterpart in the typelib          *)
(*   kind selects the clause family of Typelib.tla -- the SAME operators   *)
(*   TLC model-checks Build<Kind> against in TypelibMC.                    *)
(* C09 records  [id, kind "api_*" / "gen_*", found, env, g, b]:            *)
(*   g = decoded blob (tlabs), b = what the repository API reported        *)
(*   through harness/cdrv/drv_walk.c resp. what g-ir-generate wrote.       *)
(***************************************************************************)
EXTENDS TypelibApi, Json, IOUtils, SequencesExt

Obs == JsonDeserialize(IOEnv.TRACE_FILE)
Idx == 1..Len(Obs)

\* the environments (namespace, aliases, pointer structures) the records refer to by key; evaluated once
EnvTable == JsonDeserialize(IOEnv.ENV_FILE)
Envs == [k \in DOMAIN EnvTable |-> [ns |-> EnvTable[k].ns, aliases |-> EnvTable[k].aliases, ptrs |-> SeqToSet(EnvTable[k].ptrs)]]
EnvOf(key) == Envs[key]

ClauseRec(r) ==
    LET env == EnvOf(r.env) g == r.g b == r.b IN
    CASE r.kind = "arg"       -> ArgClauses(env, g, b)
      [] r.kind = "sig"       -> SigClauses(env, g, b)
      [] r.kind = "function"  -> FunctionClauses(g, b)
      [] r.kind = "property"  -> PropertyClauses(env, g, b)
      [] r.kind = "signal"    -> SignalClauses(g, b)
      [] r.kind = "vfunc"     -> VFuncClauses(g, b)
      [] r.kind = "field"     -> FieldClauses(env, g, b)
      [] r.kind = "value"     -> ValueClauses(g, b)
      [] r.kind = "constant"  -> ConstantClauses(env, g, b)
      [] r.kind = "struct"    -> StructClauses(env, g, b)
      [] r.kind = "enum"      -> EnumClauses(env, g, b)
      [] r.kind = "object"    -> ObjectClauses(env, g, b)
      [] r.kind = "interface" -> InterfaceClauses(env, g, b)
      [] r.kind = "callback"  -> CallbackClauses(g, b)
      [] r.kind = "attrs"     -> AttrClauses(g, b)
      [] r.kind = "vattrs"    -> ValueAttrClauses(g, b)
      [] r.kind = "type"      -> TypeClauses(env, g.ctx, g.type, b.type)
      [] r.kind = "doc"       -> DocClauses(g, b)
      [] r.kind = "layout"    -> LayoutClauses(b)
      [] r.kind = "container" -> ContainerClauses(b)
      [] r.kind = "det"       -> DetClauses(b)
      [] r.kind = "accept"    -> AcceptClauses(b)
      [] OTHER                -> ApiClauseRec(r.kind, g, b)

NamesOf(k) ==
    CASE k = "arg" -> ArgNames [] k = "sig" -> SigNames [] k = "function" -> FunctionNames [] k = "property" -> PropertyNames
      [] k = "signal" -> SignalNames [] k = "vfunc" -> VFuncNames [] k = "field" -> FieldNames [] k = "value" -> ValueNames
      [] k = "constant" -> ConstantNames [] k = "struct" -> StructNames [] k = "enum" -> EnumNames [] k = "object" -> ObjectNames
      [] k = "interface" -> InterfaceNames [] k = "callback" -> CallbackNames [] k \in {"attrs", "vattrs"} -> AttrNames
      [] k = "type" -> NodeNames \cup {"TypeShape"} [] k = "doc" -> DocNames [] k = "layout" -> LayoutNames
      [] k = "container" -> ContainerNames [] k = "det" -> DetNames [] k = "accept" -> AcceptNames
      [] OTHER -> ApiNamesOf(k)

Failing(r) == IF ~r.found THEN {"Found"}
              ELSE LET cl == ClauseRec(r) IN {c \in NamesOf(r.kind) : ~cl[c]}

\* behaviour of the code beyond the statement: recorded as DRIFT notes, never a verdict
Drift(r) == IF r.kind = "doc" /\ r.found /\ ~DocOrderDrift(r.g, r.b) THEN {"DRIFT_DirectoryOrder"} ELSE {}

Rejected == UNION { {<<Obs[i].id, c, Obs[i].kind>> : c \in Failing(Obs[i]) \cup Drift(Obs[i])} : i \in Idx }

Kinds == {Obs[i].kind : i \in Idx}
AllNames == UNION {NamesOf(k) : k \in Kinds}
\* evaluated once (constant level): the found records of every kind
KindIdx == [k \in Kinds |-> {i \in Idx : Obs[i].kind = k /\ Obs[i].found}]
\* when a conditional clause speaks (vacuity accounting); unconditional clauses speak on every record of their kind
HasNode(t, P(_)) == \E i \in 1..Len(t) : P(t[i])
Conditional == {<<"sig", "SigThrows">>, <<"sig", "SigMayReturnNull">>, <<"function", "FnAccessor">>, <<"property", "PropSetter">>,
                <<"property", "PropGetter">>, <<"vfunc", "VFuncInvoker">>, <<"field", "FieldType">>, <<"field", "FieldBits">>,
                <<"struct", "StructFlags">>, <<"type", "TypeArray">>, <<"type", "TypeParams">>, <<"type", "TypeInterfaceRef">>,
                <<"attrs", "Attributes">>, <<"accept", "Validates">>,
                <<"api_function", "ApiFnProperty">>, <<"api_property", "ApiPropSetter">>, <<"api_property", "ApiPropGetter">>,
                <<"api_vfunc", "ApiVFuncInvoker">>, <<"api_field", "ApiFieldType">>, <<"gen_container", "GenValues">>,
                <<"gen_container", "GenInterfaces">>} \cup {<<k, "ApiAttrIter">> : k \in Kinds} \cup {<<k, "ApiFind">> : k \in Kinds}
Ante(r, c) ==
    LET g == r.g IN
    CASE r.kind = "sig" /\ c = "SigThrows" -> g.ckind # "signal"
      [] r.kind = "sig" /\ c = "SigMayReturnNull" -> Is1(g.nullable) \/ ~Is1(g.allow_none)
      [] r.kind = "function" /\ c = "FnAccessor" -> FnIsAccessor(g)
      [] r.kind = "property" /\ c = "PropSetter" -> Has(g.setter)
      [] r.kind = "property" /\ c = "PropGetter" -> Has(g.getter)
      [] r.kind = "vfunc" /\ c = "VFuncInvoker" -> Has(g.invoker)
      [] r.kind = "field" /\ c = "FieldType" -> ~(g.cb /\ g.intro)
      [] r.kind = "field" /\ c = "FieldBits" -> g.bits >= 0
      [] r.kind = "struct" /\ c = "StructFlags" -> g.tag = "record"
      [] r.kind = "type" /\ c = "TypeArray" -> HasNode(g.type, LAMBDA n : n.k = "array")
      [] r.kind = "type" /\ c = "TypeParams" -> HasNode(g.type, LAMBDA n : n.k \in {"glist", "gslist", "ghash", "error"})
      [] r.kind = "type" /\ c = "TypeInterfaceRef" -> HasNode(g.type, LAMBDA n : n.k = "ref")
      [] r.kind = "attrs" /\ c = "Attributes" -> g.attrs # <<>>
      [] r.kind = "accept" /\ c = "Validates" -> r.b.rc = 0
      [] r.kind = "api_function" /\ c = "ApiFnProperty" -> g.getter = 1 \/ g.setter = 1
      [] r.kind = "api_property" /\ c = "ApiPropSetter" -> g.setter # Sentinel
      [] r.kind = "api_property" /\ c = "ApiPropGetter" -> g.getter # Sentinel
      [] r.kind = "api_vfunc" /\ c = "ApiVFuncInvoker" -> g.invoker # Sentinel
      [] r.kind = "api_field" /\ c = "ApiFieldType" -> g.has_embedded_type = 0
      [] r.kind = "gen_container" /\ c = "GenValues" -> g.values # <<>>
      [] r.kind = "gen_container" /\ c = "GenInterfaces" -> g.refs # <<>>
      [] c = "ApiAttrIter" -> g.attrs # <<>>
      [] c = "ApiFind" -> r.b.find # <<>>
      [] OTHER -> TRUE
CountIn(k, c) == IF <<k, c>> \in Conditional THEN Cardinality({i \in KindIdx[k] : Ante(Obs[i], c)}) ELSE Cardinality(KindIdx[k])
RECURSIVE SumOver(_, _)
SumOver(ks, c) == IF ks = {} THEN 0 ELSE LET k == CHOOSE x \in ks : TRUE IN CountIn(k, c) + SumOver(ks \ {k}, c)
Exercised == [c \in AllNames \cup {"Found"} |->
                 IF c = "Found" THEN Len(Obs) ELSE SumOver({k \in Kinds : c \in NamesOf(k)}, c)]

ASSUME JsonSerialize(IOEnv.VERDICT_FILE, [n |-> Len(Obs), rejected |-> SetToSeq(Rejected), exercised |-> Exercised])

VARIABLE done
TInit == done = TRUE
TNext == done' = done /\ FALSE
=============================================================================

SPECIFICATION Spec
CONSTANTS
  Themes = {"foo", "pango", "sep", "meta1", "meta2", "la"}
  ML = 2
  MW = 1
  EML = 2
  EMW = 1
  LaML = 2
  Variant = "asis"
  Gran = "word"
  Cases <- MC_Cases
  LaCases <- MC_LaCases
CHECK_DEADLOCK FALSE
ALIAS Alias
INVARIANT TypeOK
INVARIANT StepsAgree
INVARIANT Inv_Property
INVARIANT Inv_EqualsResolve
INVARIANT Inv_Progress
INVARIANT Inv_LaDlname
INVARIANT Inv_LaPath

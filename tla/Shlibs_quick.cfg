INIT MCInit
NEXT MCNext
CONSTANTS
  Themes = {"foo", "pango", "sep", "meta1", "meta2", "la"}
  ML = 2
  MW = 1
  EML = 2
  EMW = 1
  LaML = 2
  Extras = TRUE
  Variant = "asis"
  Gran = "word"
  Cases <- MC_None
  LaCases <- MC_None
CHECK_DEADLOCK FALSE
ALIAS Alias
INVARIANT TypeOK
INVARIANT StepsAgree
INVARIANT Inv_Property
INVARIANT Inv_EqualsResolve
INVARIANT Inv_Progress
INVARIANT Inv_LaDlname
INVARIANT Inv_LaPath

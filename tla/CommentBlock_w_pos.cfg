SPECIFICATION Spec
CONSTANTS
  Forms <- OneForm
  Indents <- Ind0
  MaxIdAnns = 1
  MaxParams = 1
  MaxParamAnns = 1
  MaxPartLines = 1
  MaxDescLines = 0
  MaxParas = 0
  MaxTags = 1
  TagNames <- TagsR
  MaxTagAnns = 1
  MaxCont = 1
  MaxNoise = 0
  AtReturns = FALSE
  FaultKinds <- AllFaults
  MaxFaults = 1
  KeepLines = FALSE
  Known <- KnownWPos
  StartLine = 10
CHECK_DEADLOCK FALSE
INVARIANT DiagAtFault

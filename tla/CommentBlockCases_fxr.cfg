SPECIFICATION CSpec
CONSTANTS
  Forms <- COneForm
  Indents <- CInd0
  MaxIdAnns = 0
  MaxParams = 0
  MaxParamAnns = 0
  MaxPartLines = 0
  MaxDescLines = 0
  MaxParas = 0
  MaxTags = 1
  TagNames <- CTagsR
  MaxTagAnns = 2
  MaxCont = 1
  MaxNoise = 0
  AtReturns = FALSE
  FaultKinds <- CParenFaults
  MaxFaults = 1
  KeepLines = TRUE
  Known <- CKnown
  StartLine = 1
CHECK_DEADLOCK FALSE
INVARIANT DiagAtFault
INVARIANT IgnoredNotHalfApplied
INVARIANT FaultDiagnosed

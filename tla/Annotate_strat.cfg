SPECIFICATION Spec
CONSTANTS
  Which = "strat"
  Cases <- MC_Cases
INVARIANT ImplSatisfiesProperty
CHECK_DEADLOCK FALSE

SPECIFICATION MCSpec
CONSTANTS
  Dev = {}
  Which = "strat"
  Cases <- NoCases
INVARIANT ImplSatisfiesProperty
CHECK_DEADLOCK FALSE

--------------------------- MODULE AnnotateTrace ---------------------------
(***************************************************************************)
(* C01, binding to the real scanner (batch idiom, DESIGN A.2).             *)
(* Each observation = one abstract case (schema of Annotate.tla) + the     *)
(* attributes the REAL g-ir-scanner pipeline emitted for each of its       *)
(* values (out), the annotation names it warned about on that value's      *)
(* comment line (warned), the attributes the same case yields when one     *)
(* annotation group of that value is removed (wo), and the return value of *)
(* the case with its return annotations removed (retBare).                 *)
(* TLC evaluates the property layer of Annotate.tla on every (observation, *)
(* value, clause); a failing triple is reported with the deviation class   *)
(* of its case.  Independently the implementation-shaped layer is compared *)
(* with the observation: a difference is DRIFT (a note, never an alarm).   *)
(***************************************************************************)
EXTENDS Annotate, Json, IOUtils, SequencesExt

\* The observations come in NSlices files TRACE_FILE.<k>; every slice is one initial state and is judged by one
\* step, so that several TLC workers share one JVM (one start-up, one JIT warm-up); the verdict on slice k goes to
\* VERDICT_FILE.<k>.  (The batch idiom A.2 with the batch cut into slices.)
NSlices   == atoi(IOEnv.C01_SLICES)
WithDrift == IOEnv.C01_DRIFT = "1"

SetOut(o) == [o EXCEPT !.attrs = SeqSet(@)]
Rec(ob) == [case |-> ob.case,
            out |-> Eager([i \in 1..Len(ob.out) |-> SetOut(ob.out[i])], Len(ob.out)),
            warned |-> Eager([i \in 1..Len(ob.warned) |-> SeqSet(ob.warned[i])], Len(ob.warned)),
            wo |-> ob.wo,
            retBare |-> SetOut(ob.retBare)]

\* ---- DRIFT: does the implementation-shaped layer still describe the code? --------------------------
Fields == {"present", "idx", "transfer", "direction", "callerAllocates", "nullable", "allowNone", "optional", "skip",
           "scope", "closure", "destroy", "tkind", "tname", "alen", "afixed", "azt", "elems", "attrs"}
WarnVocabulary == {"transfer", "nullable", "optional", "allow-none", "scope", "closure", "destroy", "element-type",
                   "return", "in", "out", "inout", "unknown-type", "conflict"}
\* outside the implementation-shaped layer: what an unresolvable (type T) / (element-type T) name turns into
Unmodelled(c) == \E j \in 1..NVals(c) : LET a == Val(c, j).ann IN
                    (a.type # "" /\ ~SpellResolved(a.type)) \/ (\E e \in DOMAIN a.et : ~SpellResolved(a.et[e]))
DriftOf(r) ==
  IF Unmodelled(r.case) THEN {} ELSE
  LET f    == Final(r.case)
      pred == OutOf(r.case, f)
      diffs == {<<i, fld>> \in (1..NVals(r.case)) \X Fields :
                  r.out[i].present /\ fld # "attrs" /\ pred[i][fld] # r.out[i][fld]}
               \cup {<<i, "attrs">> : i \in {j \in 1..NVals(r.case) : r.out[j].present /\
                                              pred[j].attrs # (r.out[j].attrs \cap {<<"c01.key", "val">>, <<"c01.other", "x">>})}}
               \cup {<<i, "warned">> : i \in {j \in 1..NVals(r.case) : r.out[j].present /\
                                               f[j].warned # (r.warned[j] \cap WarnVocabulary)}}
  IN diffs

Describe(p) == "v" \o ToString(p[1] - 1) \o ":" \o p[2]

\* ---- verdict ------------------------------------------------------------------------------------------
VARIABLE slice
TraceCases == {}
\* one pass per observation: the (value, clause) pairs on which the statement speaks, the failing ones, drift
Judge(ob) ==
  LET r  == Rec(ob)
      sp == IF ob.crashed THEN {} ELSE Speaking(r)
      fl == {p \in sp : ~Cons(p[2], r, p[1])}
      dr == IF WithDrift /\ ~ob.crashed THEN DriftOf(r) ELSE {}
  IN [spoke |-> {p[2] : p \in sp},
      rejected |-> (IF ob.crashed THEN {<<ob.id, "Crash", "v0:crash:crash">>} ELSE {})
                   \cup {<<ob.id, p[2], "v" \o ToString(p[1] - 1) \o ":" \o Deviation(p[2], r.case, p[1]) \o ":" \o How(p[2], r, p[1])>> : p \in fl}
                   \cup (IF dr = {} THEN {} ELSE {<<ob.id, "DRIFT", Describe(CHOOSE p \in dr : TRUE)>>})]

\* (operator arguments are evaluated once and kept, LET definitions are not)
Verdict(obs, js) == [n |-> Len(obs),
                     rejected |-> SetToSeq(UNION {js[k].rejected : k \in 1..Len(obs)}),
                     exercised |-> [name \in ClauseNames |-> Cardinality({k \in 1..Len(obs) : name \in js[k].spoke})]]
JudgeAll(obs)    == Verdict(obs, Eager([k \in 1..Len(obs) |-> Judge(obs[k])], Len(obs)))

TInit == case = 0 /\ phase = "validate" /\ bad = {} /\ slice \in 1..NSlices
TNext == /\ phase = "validate"
         /\ phase' = "judged"
         /\ UNCHANGED <<case, bad, slice>>
         /\ JsonSerialize(IOEnv.VERDICT_FILE \o "." \o ToString(slice),
                          JudgeAll(JsonDeserialize(IOEnv.TRACE_FILE \o "." \o ToString(slice))))
=============================================================================

SPECIFICATION CSpecByGen
CONSTANTS
  Forms <- CAllForms
  Indents <- CInd012
  MaxIdAnns = 2
  MaxParams = 2
  MaxParamAnns = 2
  MaxPartLines = 2
  MaxDescLines = 2
  MaxParas = 2
  MaxTags = 3
  TagNames <- CTagsAll
  MaxTagAnns = 2
  MaxCont = 2
  MaxNoise = 1
  AtReturns = TRUE
  FaultKinds <- CAllFaults
  MaxFaults = 1
  KeepLines = TRUE
  Known <- CKnown
  StartLine = 1
CHECK_DEADLOCK FALSE

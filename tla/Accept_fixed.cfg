SPECIFICATION Spec
CONSTANTS
  Code = {}
  Families = {"value", "callable", "members", "compound", "types", "flags"}
INVARIANTS Inv_Doc Inv_Elem Inv_Balanced
CHECK_DEADLOCK FALSE

------------------------------ MODULE GirIOConf ------------------------------
(* S->C conformance of the channel table of GirIO.tla with the REAL writer/reader pair.
   One record = one channel case [k, sec, m] exported by GirIOCases, instantiated as real giscanner.ast
   objects by harness/girio.py:  x = attributes/children of the element the real GIRWriter wrote,
   r = fields of the object the real GIRParser built from it, h1/h2 = SHA-1 of first and second write.

   ConformW / ConformR : the real writer / reader does what the table says (for the reader: what the table says
                         with the known asymmetries present OR repaired).  A failure is DRIFT between the
                         specification and the code -- reported as a note, never as a violation of C07.
   CandReadable / CandFixedPoint / CandAgree : the property layer on this case.  A failure is a CANDIDATE:
                         it counts against C07 only if the scanner pipeline can produce such a model, which
                         is judged on real scans by GirIOTrace, not here. *)
EXTENDS GirIO, Json, IOUtils, SequencesExt

Obs == JsonDeserialize(IOEnv.TRACE_FILE)

\* attributes whose value is an index / a list of names / a count in the file but a name / count token in the table
IndexAttrs == {"length", "closure", "destroy"}
IndexFields == {"length_param_name", "closure_name", "destroy_name"}
KidAttrs(k) == {c.a : c \in {cc \in RowsOf(k) : cc.sec = "kids"}}
KidFields(k) == {c.f : c \in {cc \in RowsOf(k) : cc.sec = "kids"}}
Empty(v) == v = VNone \/ v[2] \in {"", "0"}
AttrEq(k, a, real, spec) == IF a \in IndexAttrs THEN (real = VNone) <=> (spec = VNone)
                            ELSE IF a \in KidAttrs(k) THEN Empty(real) <=> Empty(spec) ELSE real = spec
FieldEq(k, f, real, spec) == IF f \in IndexFields THEN (real = VNone) <=> (spec = VNone)
                             ELSE IF f \in KidFields(k) THEN Empty(real) <=> Empty(spec) ELSE real = spec

Ran(o) == o.err = "" /\ o.found
BadAttrs(o) == {a \in Attrs(o.k) : ~AttrEq(o.k, a, o.x[a], Write(o.k, o.m)[a])}
BadFieldsD(o) == {f \in Fields(o.k) : ~FieldEq(o.k, f, o.r[f], ReadD(o.k, WithHost(o.k, o.x, o.m), {})[f])}
BadFieldsA(o) == {f \in Fields(o.k) : ~FieldEq(o.k, f, o.r[f], ReadD(o.k, WithHost(o.k, o.x, o.m), DefectNames)[f])}
HasR(o) == DOMAIN o.r # {}

Clause(o, c) ==
    CASE c = "ConformW" -> Ran(o) => BadAttrs(o) = {}
      [] c = "ConformR" -> (Ran(o) /\ HasR(o)) => (BadFieldsD(o) = {} \/ BadFieldsA(o) = {})
      [] c = "CandReadable" -> o.err = ""
      [] c = "CandFixedPoint" -> Ran(o) => o.h1 = o.h2
      [] c = "CandAgree" -> Ran(o) => (HasR(o) /\ View(o.k, o.r) = View(o.k, o.m))
ClauseNames == {"ConformW", "ConformR", "CandReadable", "CandFixedPoint", "CandAgree"}
Detail(o, c) ==
    CASE c = "ConformW" -> o.k \o " @" \o (CHOOSE a \in BadAttrs(o) : TRUE)
      [] c = "ConformR" -> o.k \o " ." \o (CHOOSE f \in BadFieldsD(o) : TRUE)
      [] c = "CandAgree" -> IF HasR(o) THEN o.k \o "." \o (CHOOSE p \in DOMAIN View(o.k, o.m) : View(o.k, o.r)[p] # View(o.k, o.m)[p])
                            ELSE o.k \o " lost"
      [] OTHER -> o.k
\* which variant of the table the reader follows on the cases where the variants differ
Follows == [v \in {"asfound", "design"} |->
              Cardinality({i \in 1..Len(Obs) : /\ Ran(Obs[i]) /\ HasR(Obs[i])
                                              /\ BadFieldsD(Obs[i]) # BadFieldsA(Obs[i])
                                              /\ (IF v = "design" THEN BadFieldsD(Obs[i]) ELSE BadFieldsA(Obs[i])) = {}})]

Rejected == { <<Obs[p[1]].id, p[2], Detail(Obs[p[1]], p[2])>> :
                 p \in { pp \in (1..Len(Obs)) \X ClauseNames : ~Clause(Obs[pp[1]], pp[2]) } }
Exercised == [c \in ClauseNames |-> Cardinality({i \in 1..Len(Obs) : c = "CandReadable" \/ Ran(Obs[i])})]
                @@ [v \in {"asfound", "design"} |-> Follows[v]]

ASSUME JsonSerialize(IOEnv.VERDICT_FILE, [n |-> Len(Obs), rejected |-> SetToSeq(Rejected), exercised |-> Exercised])
VARIABLE done
Init == done = FALSE
Next == ~done /\ done' = TRUE
=============================================================================

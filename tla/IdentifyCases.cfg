INIT CInit
NEXT ANext
CONSTANTS
  RefuseShadowedSource = TRUE
  OwnBlockWins = TRUE
CHECK_DEADLOCK FALSE

---------------------------- MODULE DirIndexMC ----------------------------
(* constants for the exhaustive configurations of DirIndex *)
EXTENDS DirIndex, IOUtils
MC_Pool   == <<"a", "b", "c", "d">>
MC_Absent == {"x", "y"}
MC_Keys   == {"K1", "K2"}
MC_Pool5  == <<"a", "b", "c", "d", "e">>
MC_AllN   == 1..65535
\* the entry counts the harness compiles, the neighbourhood of the guint16 boundary, powers of two
MC_ChosenN == {1, 2, 3, 4, 7, 8, 9, 255, 256, 257, 1000, 4096, 20000, 32767, 32768, 33000, 40000, 65534, 65535}
              \cup (27900..27950) \cup {2^k : k \in 0..15} \cup {2^k - 1 : k \in 1..16}
\* smallest failing n claimed by the harness (it takes it from TLC's counterexample of DirIndex_size16.cfg)
MC_Boundary == IF "C14_BOUNDARY" \in DOMAIN IOEnv THEN atoi(IOEnv.C14_BOUNDARY) ELSE 0
=============================================================================

---------------------------- MODULE DirIndexMC ----------------------------
(* constants for the exhaustive configurations of DirIndex *)
EXTENDS DirIndex, IOUtils
MC_Pool   == <<"a", "b", "c", "d">>
MC_Absent == {"x", "y"}
MC_Keys   == {"K1", "K2"}
MC_Pool5  == <<"a", "b", "c", "d", "e">>
MC_AllN   == 1..65535
\* the entry counts the harness compiles, round-0's numbers, powers of two
MC_ChosenN == {1, 2, 3, 4, 7, 8, 9, 255, 256, 257, 1000, 4096, 20000, 32767, 32768, 33000, 40000, 65534, 65535}
              \cup {2^k : k \in 0..15} \cup {2^k - 1 : k \in 1..16}
\* smallest n that cannot be built, as claimed by the harness: it takes it from TLC's own counterexample
\* (DirIndex_bisect16.cfg / DirIndex_size16_t.cfg) and hands it back through the environment
MC_Boundary == IF "C14_BOUNDARY" \in DOMAIN IOEnv THEN atoi(IOEnv.C14_BOUNDARY) ELSE 0
\* quick tier: the chosen entry counts plus the neighbourhood of that boundary
MC_NearBoundary == MC_ChosenN \cup {m \in (MC_Boundary - 300)..(MC_Boundary + 300) : m >= 1 /\ m <= 65535}
=============================================================================

----------------------------- MODULE AnnotateMC -----------------------------
(* Bounded case spaces for Annotate.tla.  Every set is a constant-level set of abstract cases;
   the configs Annotate_*.cfg substitute one of them for Cases, AnnotateCases.tla exports the very
   same sets for replay against the real scanner. *)
EXTENDS Annotate, Json, IOUtils, SequencesExt

\* ---- annotation records -----------------------------------------------------------------------
Upd(f, vals) == {[EmptyAnn EXCEPT ![f] = x] : x \in vals}
\* (an explicit record constructor: [f \in DOMAIN EmptyAnn |-> ...] would stay an unevaluated function in TLC and be
\* re-evaluated at every field access of every case)
Merge(a, b)  == [transfer |-> IF a.transfer # EmptyAnn.transfer THEN a.transfer ELSE b.transfer,
                 dir |-> IF a.dir # EmptyAnn.dir THEN a.dir ELSE b.dir,
                 nullable |-> IF a.nullable # EmptyAnn.nullable THEN a.nullable ELSE b.nullable,
                 optional |-> IF a.optional # EmptyAnn.optional THEN a.optional ELSE b.optional,
                 allownone |-> IF a.allownone # EmptyAnn.allownone THEN a.allownone ELSE b.allownone,
                 notn |-> IF a.notn # EmptyAnn.notn THEN a.notn ELSE b.notn,
                 skip |-> IF a.skip # EmptyAnn.skip THEN a.skip ELSE b.skip,
                 array |-> IF a.array # EmptyAnn.array THEN a.array ELSE b.array,
                 alen |-> IF a.alen # EmptyAnn.alen THEN a.alen ELSE b.alen,
                 afixed |-> IF a.afixed # EmptyAnn.afixed THEN a.afixed ELSE b.afixed,
                 azt |-> IF a.azt # EmptyAnn.azt THEN a.azt ELSE b.azt,
                 et |-> IF a.et # EmptyAnn.et THEN a.et ELSE b.et,
                 type |-> IF a.type # EmptyAnn.type THEN a.type ELSE b.type,
                 scope |-> IF a.scope # EmptyAnn.scope THEN a.scope ELSE b.scope,
                 closure |-> IF a.closure # EmptyAnn.closure THEN a.closure ELSE b.closure,
                 destroy |-> IF a.destroy # EmptyAnn.destroy THEN a.destroy ELSE b.destroy,
                 attrs |-> IF a.attrs # EmptyAnn.attrs THEN a.attrs ELSE b.attrs]

TransferItems == Upd("transfer", {"none", "container", "full", "floating"})
DirItems      == Upd("dir", {"in", "out", "inout", "outcaller", "outcallee"})
NullItems     == Upd("nullable", {TRUE}) \cup Upd("optional", {TRUE}) \cup Upd("allownone", {TRUE})
                 \cup Upd("notn", {"nullable", "optional"})
MiscItems     == Upd("skip", {TRUE}) \cup Upd("attrs", {"kv", "k"})
ArrayItems    == {[EmptyAnn EXCEPT !.array = TRUE],
                  [EmptyAnn EXCEPT !.array = TRUE, !.afixed = 2],
                  [EmptyAnn EXCEPT !.array = TRUE, !.azt = "1"],
                  [EmptyAnn EXCEPT !.array = TRUE, !.azt = "0"],
                  [EmptyAnn EXCEPT !.array = TRUE, !.azt = "bare"],
                  [EmptyAnn EXCEPT !.array = TRUE, !.afixed = 2, !.azt = "1"]}
ETItems       == Upd("et", {<<"utf8">>, <<"guint8">>, <<"Foo.Rec">>, <<"Foo.Unknown">>, <<"utf8", "FooObj">>})
TypeItems     == Upd("type", {"utf8", "guint8", "Foo.Rec", "FooObj", "Foo.Unknown", "GLib.List(utf8)"})
ScopeItems    == Upd("scope", {"call", "async", "notified", "forever"})
ClosureBare   == Upd("closure", {0})

Single == TransferItems \cup DirItems \cup NullItems \cup MiscItems \cup ArrayItems \cup ETItems
          \cup TypeItems \cup ScopeItems \cup ClosureBare
Pairs_(u) == {Merge(a, b) : a \in Single, b \in Single}
AnnsDir_(u) == {Merge(d, b) : d \in DirItems \cup {EmptyAnn}, b \in Single \cup {EmptyAnn}}
\* the nullability group in depth: every subset of {nullable, optional, allow-none} x not x direction x transfer
NullSets_(u) == {Merge(Merge(a, b), Merge(c, n)) : a \in Upd("nullable", {TRUE, FALSE}), b \in Upd("optional", {TRUE, FALSE}),
                                             c \in Upd("allownone", {TRUE, FALSE}), n \in Upd("notn", {"", "nullable", "optional"})}
Null3_(u) == {Merge(Merge(x, d), t) : x \in NullSets_(0), d \in DirItems \cup {EmptyAnn},
                                   t \in Upd("transfer", {"", "full"}) \cup Upd("type", {"utf8"}) \cup {[EmptyAnn EXCEPT !.array = TRUE]}}
\* containers in depth: transfer x array options x element-type x type
Cont3_(u) == {Merge(Merge(t, a), Merge(e, y)) : t \in TransferItems \cup {EmptyAnn}, a \in ArrayItems \cup {EmptyAnn},
                                             e \in ETItems \cup {EmptyAnn}, y \in Upd("type", {"", "utf8", "GLib.List(utf8)"})}

\* ---- C declarations ------------------------------------------------------------------------------
Ptrs(ck) == CASE ck \in {"int", "recordT"} -> {0, 1, 2}
              [] ck \in {"bool", "double", "enumT", "flagsT", "aliasT", "gpointer"} -> {0, 1}
              [] ck = "char" -> {0, 1, 2}
              [] ck \in {"callbackT", "destroyNotify", "asyncReady"} -> {0}
              [] ck \in {"boxedT", "objectT", "gvariant", "GList", "GHashTable", "GPtrArray"} -> {1, 2}
              [] OTHER -> {1}
AllKinds == {"int", "bool", "double", "char", "gpointer", "enumT", "flagsT", "recordT", "boxedT", "unionT", "objectT",
             "ifaceT", "callbackT", "GList", "GSList", "GHashTable", "GArray", "GPtrArray", "GByteArray", "aliasT",
             "gvariant", "gclosure", "destroyNotify", "asyncReady", "unknownT", "cancellable"}
\* one representative per class of the typing table (used where the annotation space is large)
ReprKinds == {"int", "char", "gpointer", "enumT", "recordT", "boxedT", "objectT", "callbackT", "GList", "GHashTable",
              "GPtrArray", "GByteArray", "aliasT", "gvariant", "asyncReady", "unknownT"}
Shapes(kinds) == {[ck |-> k, ptr |-> p, const |-> cs] : k \in kinds, p \in 0..2, cs \in BOOLEAN}
ShapeOK(s) == s.ptr \in Ptrs(s.ck) /\ (s.const => s.ptr = 1)
Decls(kinds) == {s \in Shapes(kinds) : ShapeOK(s)}

V0(s, a) == [ck |-> s.ck, ptr |-> s.ptr, const |-> s.const, ud |-> FALSE, ann |-> a]
Plain(ck, ptr) == [ck |-> ck, ptr |-> ptr, const |-> FALSE, ud |-> FALSE, ann |-> EmptyAnn]
VoidRet == Plain("void", 0)

ParamCase(kind, s, a) == [kind |-> kind, throws |-> FALSE, ret |-> VoidRet, params |-> <<V0(s, a)>>]
RetCase(s, a)         == [kind |-> "function", throws |-> FALSE, ret |-> V0(s, a), params |-> <<>>]

\* ---- single values ------------------------------------------------------------------------------------
\* every declaration x (direction) x one annotation, as parameter of a function / method / callback type and as return
S_Single(u) == {ParamCase(k, s, a) : k \in {"function", "method", "callback"}, s \in Decls(AllKinds), a \in AnnsDir_(0)}
             \cup {RetCase(s, a) : s \in Decls(AllKinds) \cup {[ck |-> "void", ptr |-> 0, const |-> FALSE]}, a \in AnnsDir_(0)}
\* all pairs of annotations
S_PairsParam(u) == {ParamCase("function", s, a) : s \in Decls(ReprKinds), a \in Pairs_(0)}
S_PairsRet(u) == {RetCase(s, a) : s \in Decls(ReprKinds), a \in Pairs_(0)}
S_Null3(u) == {ParamCase(k, s, a) : k \in {"function"}, s \in Decls(ReprKinds), a \in Null3_(0)}
                 \cup {RetCase(s, a) : s \in Decls(ReprKinds), a \in {x \in Null3_(0) : x.dir = ""}}
S_Cont3(u) == {ParamCase("function", s, a) : s \in Decls({"char", "int", "gpointer", "recordT", "GList", "GHashTable", "GPtrArray", "GByteArray"}), a \in Cont3_(0)}
                 \cup {RetCase(s, a) : s \in Decls({"char", "int", "GList", "GHashTable", "GPtrArray"}), a \in Cont3_(0)}

\* ---- relations between parameters ------------------------------------------------------------------------
\* (array length=): array value (a parameter or the return value) + a length parameter placed before or after it,
\* in functions, methods (instance parameter extraction) and throwing callables (GError** removal)
ArrDecls == {Plain("int", 1), Plain("char", 2), Plain("char", 3), Plain("gpointer", 0), Plain("recordT", 1), Plain("GPtrArray", 1)}
LenDecls == {Plain("int", 0), Plain("int", 1), Plain("aliasT", 0), Plain("gpointer", 0)}
ArrAnns(k) == {Merge([EmptyAnn EXCEPT !.array = TRUE, !.alen = k], Merge(d, z)) :
                 d \in Upd("dir", {"", "in", "out", "inout"}), z \in Upd("azt", {"", "1"}) \cup Upd("transfer", {"full", "container"})}
LenAnns == {EmptyAnn} \cup Upd("dir", {"out", "inout", "outcaller"}) \cup Upd("optional", {TRUE}) \cup Upd("transfer", {"none", "full"})
           \cup Upd("nullable", {TRUE})
Kinds3 == {"function", "method", "callback"}
WithAnn(v, a) == [v EXCEPT !.ann = a]
\* ---- grids ---------------------------------------------------------------------------------------------------
\* The relational spaces are images of grids of small index ranges.  The thorough tier takes every grid point (m = 1);
\* the quick tier keeps the points of a lattice (an odd-weighted sum of the coordinates = -Seed mod m), so every value
\* of every dimension keeps occurring and the sample rotates with the seed.  (Sampling a materialised set by position
\* is not an option: outside actions TLC re-evaluates LET definitions at every use.)
Env(k, d) == IF k \in DOMAIN IOEnv THEN IOEnv[k] ELSE d
Seed      == atoi(Env("C01_SEED", "0"))
Grid(n1, n2, n3, n4, n5, n6, n7) == (1..n1) \X (1..n2) \X (1..n3) \X (1..n4) \X (1..n5) \X (1..n6) \X (1..n7)
OnLattice(t, m) == m <= 1 \/ (t[1] + 3 * t[2] + 5 * t[3] + 7 * t[4] + 9 * t[5] + 11 * t[6] + 13 * t[7] + Seed) % m = 0
Points(g, m) == {t \in g : OnLattice(t, m)}

KindsQ    == SetToSeq(Kinds3)
BoolQ     == <<FALSE, TRUE>>
ArrDeclsQ == SetToSeq(ArrDecls)
LenDeclsQ == SetToSeq(LenDecls)
LenAnnsQ  == SetToSeq(LenAnns)
ArrAnnsQ(k)  == SetToSeq(ArrAnns(k))
ArrAnnsRetQ  == SetToSeq({x \in ArrAnns(2) : x.dir = ""})
ArrDeclsRetQ == SetToSeq(ArrDecls \ {Plain("gpointer", 0)})

\* t = <<layout, kind, throws, array declaration, length declaration, array annotations, length annotations>>
LenParamCase(t) ==
  IF t[1] = 1
  THEN [kind |-> KindsQ[t[2]], throws |-> BoolQ[t[3]], ret |-> VoidRet,
        params |-> <<WithAnn(ArrDeclsQ[t[4]], ArrAnnsQ(2)[t[6]]), WithAnn(LenDeclsQ[t[5]], LenAnnsQ[t[7]])>>]
  ELSE [kind |-> KindsQ[t[2]], throws |-> BoolQ[t[3]], ret |-> VoidRet,
        params |-> <<WithAnn(LenDeclsQ[t[5]], LenAnnsQ[t[7]]), Plain("int", 0), WithAnn(ArrDeclsQ[t[4]], ArrAnnsQ(1)[t[6]])>>]
S_LenParam(m) == {LenParamCase(t) : t \in Points(Grid(2, Len(KindsQ), 2, Len(ArrDeclsQ), Len(LenDeclsQ), Len(ArrAnnsQ(2)), Len(LenAnnsQ)), m)}
LenRetCase(t) ==
  [kind |-> KindsQ[t[2]], throws |-> BoolQ[t[3]], ret |-> WithAnn(ArrDeclsRetQ[t[4]], ArrAnnsRetQ[t[6]]),
   params |-> <<Plain("int", 0), WithAnn(LenDeclsQ[t[5]], LenAnnsQ[t[7]])>>]
S_LenRet(m) == {LenRetCase(t) : t \in Points(Grid(1, Len(KindsQ), 2, Len(ArrDeclsRetQ), Len(LenDeclsQ), Len(ArrAnnsRetQ), Len(LenAnnsQ)), m)}

\* scope / closure / destroy: a callback-ish parameter, a user-data candidate, a notifier candidate, in either order,
\* with the naming convention (…data) and GDestroyNotify typing that the pairing pass looks for
CbDecls   == {Plain("callbackT", 0), Plain("asyncReady", 0), Plain("gpointer", 0), Plain("int", 0)}
DataDecls == {Plain("gpointer", 0), [Plain("gpointer", 0) EXCEPT !.ud = TRUE], Plain("int", 0), Plain("aliasT", 0), Plain("char", 1)}
NotifyDecls == {Plain("destroyNotify", 0), Plain("callbackT", 0), Plain("int", 0), [Plain("gpointer", 0) EXCEPT !.ud = TRUE]}
CbAnns(kc, kd) == {Merge(Merge(s, c), Merge(d, t)) : s \in Upd("scope", {"", "call", "notified"}), c \in Upd("closure", {-1, 0, kc}),
                                                    d \in Upd("destroy", {0, kd}), t \in Upd("transfer", {"", "full"})}
CbDeclsQ     == SetToSeq(CbDecls)
DataDeclsQ   == SetToSeq(DataDecls)
NotifyDeclsQ == SetToSeq(NotifyDecls)
CbAnnsQ(kc, kd) == SetToSeq(CbAnns(kc, kd))
UserData     == [Plain("gpointer", 0) EXCEPT !.ud = TRUE]
\* t = <<layout, kind, callback declaration, data declaration, notifier declaration, callback annotations, 1>>
CallbacksCase(t) ==
  IF t[1] = 1
  THEN [kind |-> KindsQ[t[2]], throws |-> FALSE, ret |-> VoidRet,
        params |-> <<WithAnn(CbDeclsQ[t[3]], CbAnnsQ(2, 3)[t[6]]), DataDeclsQ[t[4]], NotifyDeclsQ[t[5]]>>]
  ELSE [kind |-> KindsQ[t[2]], throws |-> TRUE, ret |-> VoidRet,
        params |-> <<DataDeclsQ[t[4]], NotifyDeclsQ[t[5]], WithAnn(CbDeclsQ[t[3]], CbAnnsQ(1, 2)[t[6]]), UserData>>]
S_Callbacks(m) ==
  {CallbacksCase(t) : t \in {p \in Points(Grid(2, Len(KindsQ), Len(CbDeclsQ), Len(DataDeclsQ), Len(NotifyDeclsQ), Len(CbAnnsQ(2, 3)), 1), m) :
                               p[1] = 1 \/ KindsQ[p[2]] # "callback"}}
\* (closure) / scope / destroy written on the user-data or notifier parameter itself
S_OnData(u) ==
  {[kind |-> k, throws |-> FALSE, ret |-> VoidRet, params |-> <<Plain("callbackT", 0), WithAnn(dt, a), Plain("destroyNotify", 0)>>] :
     k \in Kinds3, dt \in DataDecls, a \in ClosureBare \cup Upd("closure", {1, 3}) \cup Upd("destroy", {3}) \cup ScopeItems \cup NullItems}

\* ---- quick tier: one case per (declaration kind, direction, annotation) triple -----------------------------
\* the variant (pointer depth, const, position: parameter of a function / method / callback type, or return value)
\* rotates with the seed
Positions == {"function", "method", "callback", "ret"}
Variants(ck) == SetToSeq({<<pos, s>> : pos \in Positions, s \in Decls({ck})})
\* (operator arguments are evaluated once and kept; LET definitions would be re-evaluated at every use)
StratCase(p, a)   == IF p[1] = "ret" THEN RetCase(p[2], a) ELSE ParamCase(p[1], p[2], a)
StratPick(vs, j)  == vs[((j + Seed) % Len(vs)) + 1]
StratOf(anns)     == {StratCase(StratPick(Variants(ck), j), anns[j]) : ck \in AllKinds, j \in 1..Len(anns)}
S_Strat(u)        == StratOf(SetToSeq(AnnsDir_(0)))

\* TLC evaluates every zero-arity constant-level definition at start-up, once PER WORKER: the case spaces are
\* therefore operators (dummy argument), the configuration selects one through the constant Which, and the model
\* starts from MCInit (evaluated once) instead of Annotate!Init over a constant set
CONSTANT Which
\* the relational cases in the declaration shapes that the scanner emits twice (Annotate!EmittedIndex): every method
\* of the grid-shaped spaces as moved-to pair and as class-structure slot, both emitted copies
Shaped(S)   == {[shape |-> sh, copy |-> k] @@ c : c \in {x \in S : x.kind = "method"}, sh \in {"movedto", "vfunc"}, k \in {1, 2}}
S_Shapes(ml, mr, mc) == Shaped(S_LenRet(mr)) \cup Shaped(S_LenParam(ml)) \cup Shaped(S_Callbacks(mc))

\* one canonical case per deviation class of Annotate.tla PART 3b (the reproducers of the repaired defects)
WAnn(f, x) == [EmptyAnn EXCEPT ![f] = x]
S_Witness(u) ==
  {ParamCase("function", [ck |-> "char", ptr |-> 2, const |-> FALSE], Merge(WAnn("dir", "out"), Merge(WAnn("nullable", TRUE), WAnn("notn", "optional")))),
   ParamCase("function", [ck |-> "char", ptr |-> 2, const |-> FALSE], Merge(WAnn("dir", "out"), Merge(WAnn("optional", TRUE), WAnn("notn", "optional")))),
   ParamCase("function", [ck |-> "aliasT", ptr |-> 1, const |-> FALSE], Merge(WAnn("nullable", TRUE), WAnn("transfer", "full"))),
   RetCase([ck |-> "aliasT", ptr |-> 1, const |-> FALSE], WAnn("nullable", TRUE)),
   ParamCase("function", [ck |-> "enumT", ptr |-> 0, const |-> FALSE], WAnn("nullable", TRUE)),
   ParamCase("method", [ck |-> "flagsT", ptr |-> 0, const |-> FALSE], WAnn("allownone", TRUE)),
   [kind |-> "function", throws |-> FALSE, ret |-> VoidRet,
    params |-> <<WithAnn(Plain("callbackT", 0), WAnn("closure", 2)), UserData, UserData>>],
   [kind |-> "method", throws |-> TRUE, ret |-> VoidRet,
    params |-> <<WithAnn(Plain("callbackT", 0), WAnn("destroy", 3)), UserData, Plain("destroyNotify", 0), Plain("destroyNotify", 0)>>],
   [kind |-> "function", throws |-> FALSE, ret |-> VoidRet, params |-> <<WithAnn(Plain("callbackT", 0), WAnn("closure", 2)), Plain("int", 0)>>],
   [kind |-> "callback", throws |-> FALSE, ret |-> VoidRet, params |-> <<WithAnn(Plain("int", 0), WAnn("closure", 0))>>]}

\* "quick": the stratified single-value space, the whole on-data space, lattice samples of the grid-shaped spaces
\* and the canonical witnesses
CasesOf(u) == CASE Which = "quick" -> S_Strat(0) \cup S_OnData(0) \cup S_LenRet(8) \cup S_LenParam(16) \cup S_Callbacks(8) \cup S_Witness(0)
                                     \cup S_Shapes(64, 8, 32)
                [] Which = "shapes" -> S_Shapes(1, 1, 1)
                [] Which = "witness" -> S_Witness(0)
                [] Which = "single" -> S_Single(0)
                [] Which = "strat" -> S_Strat(0)
                [] Which = "pairsparam" -> S_PairsParam(0)
                [] Which = "pairsret" -> S_PairsRet(0)
                [] Which = "null3" -> S_Null3(0)
                [] Which = "cont3" -> S_Cont3(0)
                [] Which = "lenparam" -> S_LenParam(1)
                [] Which = "lenret" -> S_LenRet(1)
                [] Which = "callbacks" -> S_Callbacks(1)
                [] Which = "ondata" -> S_OnData(0)
                [] OTHER -> {}
NoCases == {}
\* A.4: the harness replays exactly the cases TLC counted -- the set is evaluated once, exported, then enumerated
InitOver(S) == /\ IF "C01_CASES_FILE" \in DOMAIN IOEnv THEN ndJsonSerialize(IOEnv.C01_CASES_FILE, SetToSeq(S)) ELSE TRUE
               /\ case \in S /\ phase = "scan" /\ bad = {}
MCInit  == InitOver(CasesOf(0))
MCSpec  == MCInit /\ [][Next]_vars
=============================================================================

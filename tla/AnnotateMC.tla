----------------------------- MODULE AnnotateMC -----------------------------
(* Bounded case spaces for Annotate.tla.  Every set is a constant-level set of abstract cases;
   the configs Annotate_*.cfg substitute one of them for Cases, AnnotateCases.tla exports the very
   same sets for replay against the real scanner. *)
EXTENDS Annotate, Json, IOUtils, SequencesExt

\* ---- annotation records -----------------------------------------------------------------------
Upd(f, vals) == {[EmptyAnn EXCEPT ![f] = x] : x \in vals}
Merge(a, b)  == [f \in DOMAIN EmptyAnn |-> IF a[f] # EmptyAnn[f] THEN a[f] ELSE b[f]]

TransferItems == Upd("transfer", {"none", "container", "full", "floating"})
DirItems      == Upd("dir", {"in", "out", "inout", "outcaller", "outcallee"})
NullItems     == Upd("nullable", {TRUE}) \cup Upd("optional", {TRUE}) \cup Upd("allownone", {TRUE})
                 \cup Upd("notn", {"nullable", "optional"})
MiscItems     == Upd("skip", {TRUE}) \cup Upd("attrs", {"kv", "k"})
ArrayItems    == {[EmptyAnn EXCEPT !.array = TRUE],
                  [EmptyAnn EXCEPT !.array = TRUE, !.afixed = 2],
                  [EmptyAnn EXCEPT !.array = TRUE, !.azt = "1"],
                  [EmptyAnn EXCEPT !.array = TRUE, !.azt = "0"],
                  [EmptyAnn EXCEPT !.array = TRUE, !.azt = "bare"],
                  [EmptyAnn EXCEPT !.array = TRUE, !.afixed = 2, !.azt = "1"]}
ETItems       == Upd("et", {<<"utf8">>, <<"guint8">>, <<"Foo.Rec">>, <<"Foo.Unknown">>, <<"utf8", "FooObj">>})
TypeItems     == Upd("type", {"utf8", "guint8", "Foo.Rec", "FooObj", "Foo.Unknown", "GLib.List(utf8)"})
ScopeItems    == Upd("scope", {"call", "async", "notified", "forever"})
ClosureBare   == Upd("closure", {0})

Single == TransferItems \cup DirItems \cup NullItems \cup MiscItems \cup ArrayItems \cup ETItems
          \cup TypeItems \cup ScopeItems \cup ClosureBare
Pairs_(u) == {Merge(a, b) : a \in Single, b \in Single}
AnnsDir_(u) == {Merge(d, b) : d \in DirItems \cup {EmptyAnn}, b \in Single \cup {EmptyAnn}}
\* the nullability group in depth: every subset of {nullable, optional, allow-none} x not x direction x transfer
NullSets_(u) == {Merge(Merge(a, b), Merge(c, n)) : a \in Upd("nullable", {TRUE, FALSE}), b \in Upd("optional", {TRUE, FALSE}),
                                             c \in Upd("allownone", {TRUE, FALSE}), n \in Upd("notn", {"", "nullable", "optional"})}
Null3_(u) == {Merge(Merge(x, d), t) : x \in NullSets_(0), d \in DirItems \cup {EmptyAnn},
                                   t \in Upd("transfer", {"", "full"}) \cup Upd("type", {"utf8"}) \cup {[EmptyAnn EXCEPT !.array = TRUE]}}
\* containers in depth: transfer x array options x element-type x type
Cont3_(u) == {Merge(Merge(t, a), Merge(e, y)) : t \in TransferItems \cup {EmptyAnn}, a \in ArrayItems \cup {EmptyAnn},
                                             e \in ETItems \cup {EmptyAnn}, y \in Upd("type", {"", "utf8", "GLib.List(utf8)"})}

\* ---- C declarations ------------------------------------------------------------------------------
Ptrs(ck) == CASE ck \in {"int", "recordT"} -> {0, 1, 2}
              [] ck \in {"bool", "double", "enumT", "flagsT", "aliasT", "gpointer"} -> {0, 1}
              [] ck = "char" -> {0, 1, 2}
              [] ck \in {"callbackT", "destroyNotify", "asyncReady"} -> {0}
              [] ck \in {"boxedT", "objectT", "gvariant", "GList", "GHashTable", "GPtrArray"} -> {1, 2}
              [] OTHER -> {1}
AllKinds == {"int", "bool", "double", "char", "gpointer", "enumT", "flagsT", "recordT", "boxedT", "unionT", "objectT",
             "ifaceT", "callbackT", "GList", "GSList", "GHashTable", "GArray", "GPtrArray", "GByteArray", "aliasT",
             "gvariant", "gclosure", "destroyNotify", "asyncReady", "unknownT", "cancellable"}
\* one representative per class of the typing table (used where the annotation space is large)
ReprKinds == {"int", "char", "gpointer", "enumT", "recordT", "boxedT", "objectT", "callbackT", "GList", "GHashTable",
              "GPtrArray", "GByteArray", "aliasT", "gvariant", "asyncReady", "unknownT"}
Shapes(kinds) == {[ck |-> k, ptr |-> p, const |-> cs] : k \in kinds, p \in 0..2, cs \in BOOLEAN}
ShapeOK(s) == s.ptr \in Ptrs(s.ck) /\ (s.const => s.ptr = 1)
Decls(kinds) == {s \in Shapes(kinds) : ShapeOK(s)}

V0(s, a) == [ck |-> s.ck, ptr |-> s.ptr, const |-> s.const, ud |-> FALSE, ann |-> a]
Plain(ck, ptr) == [ck |-> ck, ptr |-> ptr, const |-> FALSE, ud |-> FALSE, ann |-> EmptyAnn]
VoidRet == Plain("void", 0)

ParamCase(kind, s, a) == [kind |-> kind, throws |-> FALSE, ret |-> VoidRet, params |-> <<V0(s, a)>>]
RetCase(s, a)         == [kind |-> "function", throws |-> FALSE, ret |-> V0(s, a), params |-> <<>>]

\* ---- single values ------------------------------------------------------------------------------------
\* every declaration x (direction) x one annotation, as parameter of a function / method / callback type and as return
S_Single(u) == {ParamCase(k, s, a) : k \in {"function", "method", "callback"}, s \in Decls(AllKinds), a \in AnnsDir_(0)}
             \cup {RetCase(s, a) : s \in Decls(AllKinds) \cup {[ck |-> "void", ptr |-> 0, const |-> FALSE]}, a \in AnnsDir_(0)}
\* all pairs of annotations
S_PairsParam(u) == {ParamCase("function", s, a) : s \in Decls(ReprKinds), a \in Pairs_(0)}
S_PairsRet(u) == {RetCase(s, a) : s \in Decls(ReprKinds), a \in Pairs_(0)}
S_Null3(u) == {ParamCase(k, s, a) : k \in {"function"}, s \in Decls(ReprKinds), a \in Null3_(0)}
                 \cup {RetCase(s, a) : s \in Decls(ReprKinds), a \in {x \in Null3_(0) : x.dir = ""}}
S_Cont3(u) == {ParamCase("function", s, a) : s \in Decls({"char", "int", "gpointer", "recordT", "GList", "GHashTable", "GPtrArray", "GByteArray"}), a \in Cont3_(0)}
                 \cup {RetCase(s, a) : s \in Decls({"char", "int", "GList", "GHashTable", "GPtrArray"}), a \in Cont3_(0)}

\* ---- relations between parameters ------------------------------------------------------------------------
\* (array length=): array value (a parameter or the return value) + a length parameter placed before or after it,
\* in functions, methods (instance parameter extraction) and throwing callables (GError** removal)
ArrDecls == {Plain("int", 1), Plain("char", 2), Plain("char", 3), Plain("gpointer", 0), Plain("recordT", 1), Plain("GPtrArray", 1)}
LenDecls == {Plain("int", 0), Plain("int", 1), Plain("aliasT", 0), Plain("gpointer", 0)}
ArrAnns(k) == {Merge([EmptyAnn EXCEPT !.array = TRUE, !.alen = k], Merge(d, z)) :
                 d \in Upd("dir", {"", "in", "out", "inout"}), z \in Upd("azt", {"", "1"}) \cup Upd("transfer", {"full", "container"})}
LenAnns == {EmptyAnn} \cup Upd("dir", {"out", "inout", "outcaller"}) \cup Upd("optional", {TRUE}) \cup Upd("transfer", {"none", "full"})
           \cup Upd("nullable", {TRUE})
Kinds3 == {"function", "method", "callback"}
WithAnn(v, a) == [v EXCEPT !.ann = a]
S_LenParam(u) ==
  {[kind |-> k, throws |-> th, ret |-> VoidRet, params |-> <<WithAnn(arr, aa), WithAnn(len, la)>>] :
     k \in Kinds3, th \in BOOLEAN, arr \in ArrDecls, len \in LenDecls, aa \in ArrAnns(2), la \in LenAnns}
  \cup
  {[kind |-> k, throws |-> th, ret |-> VoidRet, params |-> <<WithAnn(len, la), Plain("int", 0), WithAnn(arr, aa)>>] :
     k \in Kinds3, th \in BOOLEAN, arr \in ArrDecls, len \in LenDecls, aa \in ArrAnns(1), la \in LenAnns}
S_LenRet(u) ==
  {[kind |-> k, throws |-> th, ret |-> WithAnn(arr, aa), params |-> <<Plain("int", 0), WithAnn(len, la)>>] :
     k \in Kinds3, th \in BOOLEAN, arr \in ArrDecls \ {Plain("gpointer", 0)}, len \in LenDecls,
     aa \in {x \in ArrAnns(2) : x.dir = ""}, la \in LenAnns}

\* scope / closure / destroy: a callback-ish parameter, a user-data candidate, a notifier candidate, in either order,
\* with the naming convention (…data) and GDestroyNotify typing that the pairing pass looks for
CbDecls   == {Plain("callbackT", 0), Plain("asyncReady", 0), Plain("gpointer", 0), Plain("int", 0)}
DataDecls == {Plain("gpointer", 0), [Plain("gpointer", 0) EXCEPT !.ud = TRUE], Plain("int", 0), Plain("aliasT", 0), Plain("char", 1)}
NotifyDecls == {Plain("destroyNotify", 0), Plain("callbackT", 0), Plain("int", 0), [Plain("gpointer", 0) EXCEPT !.ud = TRUE]}
CbAnns(kc, kd) == {Merge(Merge(s, c), Merge(d, t)) : s \in Upd("scope", {"", "call", "notified"}), c \in Upd("closure", {-1, 0, kc}),
                                                    d \in Upd("destroy", {0, kd}), t \in Upd("transfer", {"", "full"})}
S_Callbacks(u) ==
  {[kind |-> k, throws |-> FALSE, ret |-> VoidRet, params |-> <<WithAnn(cb, ca), dt, nt>>] :
     k \in Kinds3, cb \in CbDecls, dt \in DataDecls, nt \in NotifyDecls, ca \in CbAnns(2, 3)}
  \cup
  {[kind |-> k, throws |-> TRUE, ret |-> VoidRet, params |-> <<dt, nt, WithAnn(cb, ca), [Plain("gpointer", 0) EXCEPT !.ud = TRUE]>>] :
     k \in {"function", "method"}, cb \in CbDecls, dt \in DataDecls, nt \in NotifyDecls, ca \in CbAnns(1, 2)}
\* (closure) / scope / destroy written on the user-data or notifier parameter itself
S_OnData(u) ==
  {[kind |-> k, throws |-> FALSE, ret |-> VoidRet, params |-> <<Plain("callbackT", 0), WithAnn(dt, a), Plain("destroyNotify", 0)>>] :
     k \in Kinds3, dt \in DataDecls, a \in ClosureBare \cup Upd("closure", {1, 3}) \cup Upd("destroy", {3}) \cup ScopeItems \cup NullItems}

\* ---- quick tier: one case per (declaration kind, direction, annotation) triple -----------------------------
\* the variant (pointer depth, const, position: parameter of a function / method / callback type, or return value)
\* rotates with the seed
Env(k, d) == IF k \in DOMAIN IOEnv THEN IOEnv[k] ELSE d
Seed      == atoi(Env("C01_SEED", "0"))
SampleMod == atoi(Env("C01_MOD", "1"))
Positions == {"function", "method", "callback", "ret"}
Variants(ck) == SetToSeq({<<pos, s>> : pos \in Positions, s \in Decls({ck})})
S_Strat(u) ==
  LET anns == SetToSeq(AnnsDir_(0))
  IN {LET vs == Variants(ck)
          p  == vs[((j + Seed) % Len(vs)) + 1]
      IN IF p[1] = "ret" THEN RetCase(p[2], anns[j]) ELSE ParamCase(p[1], p[2], anns[j]) : ck \in AllKinds, j \in 1..Len(anns)}

\* TLC evaluates every zero-arity constant definition at start-up: the case spaces are therefore operators
\* (dummy argument) and the configuration selects one of them through the constant Which
CONSTANT Which
FullSet == CASE Which = "single" -> S_Single(0)
             [] Which = "strat" -> S_Strat(0)
             [] Which = "pairsparam" -> S_PairsParam(0)
             [] Which = "pairsret" -> S_PairsRet(0)
             [] Which = "null3" -> S_Null3(0)
             [] Which = "cont3" -> S_Cont3(0)
             [] Which = "lenparam" -> S_LenParam(0)
             [] Which = "lenret" -> S_LenRet(0)
             [] Which = "callbacks" -> S_Callbacks(0)
             [] Which = "ondata" -> S_OnData(0)
             [] OTHER -> {}
\* C01_MOD=m keeps every m-th case (rotating with the seed): the quick tier model-checks and replays a sample of
\* the large spaces, the thorough tier all of them
MC_Cases == IF SampleMod <= 1 THEN FullSet
            ELSE LET q == SetToSeq(FullSet) IN {q[j] : j \in {x \in 1..Len(q) : (x + Seed) % SampleMod = 0}}

\* A.4: the harness replays exactly the cases TLC counted
ASSUME ("C01_CASES_FILE" \notin DOMAIN IOEnv) \/ ndJsonSerialize(IOEnv.C01_CASES_FILE, SetToSeq(MC_Cases))
=============================================================================

SPECIFICATION Spec
CONSTANTS
  NS <- MC_NS
  Dirs <- MC_Dirs3
  VChars <- MC_VChars
  DiskConfigs <- MC_DiskVersions
  EnvConfigs <- MC_EnvA
  MaxCalls = 3
  Ops <- MC_OpsElect
  ReqVers <- MC_V4
  Lazies <- MC_Eager
  Dev <- MC_DevVersionless
  Known <- MC_KnownDesign
CHECK_DEADLOCK FALSE
INVARIANT NoW_versionless

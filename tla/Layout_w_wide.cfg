INIT Init
NEXT Next
CONSTANTS
  FlatLen = 4
  Mode = "wide"
  Small = FALSE
INVARIANT ImplSatisfiesPropertyAll
CHECK_DEADLOCK FALSE

INIT Init
NEXT Next
CONSTANTS
  FlatLen = 4
  Mode = "wide"
INVARIANT ImplSatisfiesPropertyAll
CHECK_DEADLOCK FALSE

INIT Init
NEXT Next
CONSTANTS
  FlatLen = 4
  Mode = "wide"
  EnumCap32 = TRUE
  UnionFieldCallback = TRUE
  Small = FALSE
INVARIANT ImplSatisfiesPropertyAll
CHECK_DEADLOCK FALSE

--------------------------- MODULE IntrospectProp ---------------------------
(***************************************************************************)
(* C05, property layer: Closed(G) over an abstract GIR.                    *)
(*                                                                         *)
(* "In any GIR the scanner emits, a callable, field, property or alias     *)
(*  that is not marked introspectable="0" only uses types that resolve to  *)
(*  a fundamental type or to a definition in this namespace or a           *)
(*  (transitively) included one that is itself introspectable; it has no   *)
(*  varargs, va_list, long long or long double values, every parameter and *)
(*  return value states its ownership transfer, every callback parameter   *)
(*  other than destroy-notify and async-ready callbacks states a scope,    *)
(*  and every list or array states an element type.  Every index or name   *)
(*  that points elsewhere in the file is in range and mutually consistent: *)
(*  closure, destroy and array-length indices name existing parameters or  *)
(*  fields, shadows and shadowed-by as well as type-struct and             *)
(*  is-gtype-struct-for point at each other, an inferred property setter   *)
(*  or getter and the method's set-property or get-property agree, and a   *)
(*  virtual method's invoker is a method of the same type."                *)
(*                                                                         *)
(* The abstract GIR G is what both the model (Introspect!GirOf) and the    *)
(* flattening of a real GIR file (harness/c05proj.py) produce:             *)
(*   G.ns      name of the namespace under judgement                       *)
(*   G.avail   namespaces whose definitions are available (own + included) *)
(*   G.partial available namespaces known to be incomplete (harness stubs) *)
(*   G.defs    [qualified name |-> [kind, intro, target]]  type-defining   *)
(*             top-level elements of all available namespaces; kind is the *)
(*             XML tag, intro = "not marked introspectable=0", target =    *)
(*             qualified name of an alias' target ("" otherwise)           *)
(*   G.uses    sequence of use records, one per <type>/<array>/<varargs>:  *)
(*             id      path of the element that holds the value            *)
(*             okind   tag of the owner (function, method, callback, ...,  *)
(*                     field, property, alias, constant)                   *)
(*             site    param | instance | return | field | property |      *)
(*                     target | constant | element (nested in a container) *)
(*             marked  the owner or one of its ancestors carries           *)
(*                     introspectable="0"                                  *)
(*             tag     type | array | varargs                              *)
(*             name    the name attribute ("" if absent), q = name         *)
(*                     qualified with the namespace, tns = its namespace   *)
(*             depth   0 = the value's own type, >0 = element type         *)
(*             nkids   number of element types written inside, kid1 = name *)
(*                     of the first one                                    *)
(*             hasXfer / hasScope  the value carries transfer-ownership /  *)
(*                     scope;  vskip  the value carries skip="1"           *)
(*   G.idx     [id, kind (closure|destroy|length), idx, n, marked, pname,  *)
(*             want]   one record per written index, of EVERY emitted copy *)
(*             of a callable (function and its moved-to method copy, class *)
(*             structure callback field and the virtual method made from   *)
(*             it): n = number of <parameter> (fields) of the very element *)
(*             that carries it, pname = the name at position idx there,    *)
(*             want = the name the annotation named ("" = not known)       *)
(*   G.pairs   [kind, scope, name, attr, value]  name-valued references    *)
(*   G.inferred  the accessor attributes (setter, getter, set-property,    *)
(*             get-property) of this GIR are known to be inferred by the   *)
(*             scanner: the input carried no such annotation (TRUE for     *)
(*             the inputs the harness generates, FALSE for repository      *)
(*             files, where one cannot tell)                               *)
(*                                                                         *)
(* Readings fixed here (where the statement is silent the clause is too):  *)
(*  - "not marked": neither the element nor an enclosing element carries   *)
(*    introspectable="0" (bindings drop the whole subtree).                *)
(*  - a value carrying skip="1" is not exposed to bindings; the per-value  *)
(*    obligations (no varargs, transfer, scope, element type) speak about  *)
(*    exposed values only.  LiteralOnly counts what a literal reading      *)
(*    would add.  Type resolution / introspectability / va_list / long     *)
(*    long apply to skipped values too.                                    *)
(*  - "states an element type": a child type is written.  For parameters   *)
(*    and return values the scanner writes the placeholder gpointer when   *)
(*    none was given, so there a gpointer element of a list/array counts   *)
(*    as "not stated" (giscanner/introspectablepass.py demotes exactly     *)
(*    this); fields, properties and alias targets only need the child.     *)
(*  - "an inferred property setter or getter and the method's set-property *)
(*    or get-property agree" is read in both directions (the sentence      *)
(*    starts "mutually consistent"): AccessorAgree from the property to    *)
(*    the method it names, AccessorMutual from a method to the property it *)
(*    names; the latter only where the attributes are known to be inferred.*)
(*  - references into namespaces that are not available, or into partial   *)
(*    ones that lack the name, are counted as skipped.                     *)
(***************************************************************************)
EXTENDS Integers, Sequences, FiniteSets, TLC

Fundamentals ==
    {"none", "gpointer", "gboolean", "gint8", "guint8", "gint16", "guint16", "gint32", "guint32",
     "gint64", "guint64", "gchar", "guchar", "gshort", "gushort", "gint", "guint", "glong", "gulong",
     "gsize", "gssize", "gintptr", "guintptr", "gfloat", "gdouble", "gunichar", "GType", "utf8",
     "filename", "time_t", "off_t", "dev_t", "gid_t", "pid_t", "socklen_t", "uid_t",
     "va_list", "long long", "unsigned long long", "long double"}
Unbindable == {"va_list", "long long", "unsigned long long", "long double"}
ExemptCallbacks == {"GLib.DestroyNotify", "Gio.AsyncReadyCallback"}
CallableKinds == {"function", "function-inline", "method", "method-inline", "constructor",
                  "virtual-method", "glib:signal", "callback"}
ListNames == {"GLib.List", "GLib.SList"}
MapNames == {"GLib.HashTable"}

Rng(s) == {s[i] : i \in DOMAIN s}

IsFund(u)      == u.name \in Fundamentals
Known(G, u)    == u.q \in DOMAIN G.defs
NotJudged(G, u) == u.tns \notin Rng(G.avail) \/ (u.tns \in Rng(G.partial) /\ ~Known(G, u))
IsValue(u)     == u.depth = 0 /\ u.site \in {"param", "instance", "return"} /\ u.okind \in CallableKinds
IsContainer(u) == u.site # "target" /\ (u.tag = "array" \/ u.q \in ListNames \/ u.q \in MapNames)

\* follow alias definitions (bounded: alias chains are acyclic and short)
RECURSIVE Final(_, _, _)
Final(G, q, fuel) ==
    IF q \notin DOMAIN G.defs THEN ""
    ELSE IF G.defs[q].kind = "alias" /\ fuel > 0 /\ G.defs[q].target # "" THEN Final(G, G.defs[q].target, fuel - 1)
    ELSE q
CallbackTarget(G, u) ==
    LET f == Final(G, u.q, 8) IN f # "" /\ G.defs[f].kind = "callback" /\ f \notin ExemptCallbacks

---------------------------------------------------------------------------
\* clauses over one use record: antecedent ("the statement speaks") and consequent
UseClauseNames == {"UsesResolve", "UsesIntrospectable", "NoVarargs", "NoLongLong", "TransferStated",
                   "ScopeStated", "ElementTyped"}

\* (CASE, not a record of booleans: TLC would evaluate every field eagerly)
Ante(G, u, c) ==
    CASE c = "UsesResolve"        -> ~u.marked /\ u.tag = "type"
      [] c = "UsesIntrospectable" -> ~u.marked /\ u.tag = "type" /\ u.name # "" /\ ~IsFund(u) /\ Known(G, u)
      [] c = "NoVarargs"          -> ~u.marked /\ ~u.vskip /\ u.okind \in CallableKinds
      [] c = "NoLongLong"         -> ~u.marked
      [] c = "TransferStated"     -> ~u.marked /\ ~u.vskip /\ IsValue(u)
      [] c = "ScopeStated"        -> ~u.marked /\ ~u.vskip /\ IsValue(u) /\ u.site = "param" /\ u.tag = "type"
                                       /\ ~IsFund(u) /\ CallbackTarget(G, u)
      [] c = "ElementTyped"       -> ~u.marked /\ IsContainer(u) /\ (IsValue(u) => ~u.vskip)

Conseq(G, u, c) ==
    CASE c = "UsesResolve"        -> u.name # "" /\ (IsFund(u) \/ Known(G, u) \/ NotJudged(G, u))
      [] c = "UsesIntrospectable" -> G.defs[u.q].intro
      [] c = "NoVarargs"          -> u.tag # "varargs"
      [] c = "NoLongLong"         -> u.name \notin Unbindable
      [] c = "TransferStated"     -> u.hasXfer
      [] c = "ScopeStated"        -> u.hasScope
      [] c = "ElementTyped"       -> /\ u.nkids >= (IF u.q \in MapNames THEN 2 ELSE 1)
                                     /\ (IsValue(u) /\ u.q \notin MapNames) => u.kid1 # "gpointer"

UseHolds(G, u, c) == Ante(G, u, c) => Conseq(G, u, c)

\* what a literal reading (no exemption for skip="1" values) would additionally reject
LiteralOnly(G, u) ==
    /\ ~u.marked /\ u.vskip /\ IsValue(u)
    /\ \/ u.tag = "varargs"
       \/ ~u.hasXfer
       \/ (u.site = "param" /\ u.tag = "type" /\ ~IsFund(u) /\ CallbackTarget(G, u) /\ ~u.hasScope)
       \/ (IsContainer(u) /\ u.q \notin MapNames /\ (u.nkids < 1 \/ u.kid1 = "gpointer"))

\* failing input class of a rejected use (the `shape` of a finding)
Shape(G, u, c) ==
    CASE c = "UsesIntrospectable" -> u.okind \o "-to-nonintrospectable-" \o G.defs[u.q].kind
      [] c = "UsesResolve"        -> u.okind \o (IF u.name = "" THEN "-to-unresolved" ELSE "-to-unknown-name")
      [] c = "NoVarargs"          -> u.okind \o "-with-varargs"
      [] c = "NoLongLong"         -> u.okind \o "-with-" \o u.name
      [] c = "TransferStated"     -> u.okind \o "-" \o u.site \o "-without-transfer"
      [] c = "ScopeStated"        -> u.okind \o "-callback-param-without-scope"
      [] c = "ElementTyped"       -> u.okind \o "-" \o u.site \o "-container-without-element-type"
      [] OTHER                    -> "-"

---------------------------------------------------------------------------
\* cross references
IndexInRange(r) == r.idx >= 0 /\ r.idx < r.n
\* "... indices name existing parameters or fields": the one that was meant, where the input tells which
IndexNames(r)   == r.want # "" => r.pname = r.want

P(kind, scope, name, attr, value) == [kind |-> kind, scope |-> scope, name |-> name, attr |-> attr, value |-> value]
HasFn(PS, scope, name) ==      \* a function-like element `name` directly inside `scope`
    \E a \in {"function", "method", "constructor"} : P("fn", scope, name, a, "") \in PS
HasMethod(PS, scope, name) == P("fn", scope, name, "method", "") \in PS
AttrOf(PS, kind, scope, name, attr) == {p.value : p \in {x \in PS : x.kind = kind /\ x.scope = scope /\ x.name = name /\ x.attr = attr}}

PairClauseNames == {"ShadowsMutual", "TypeStructMutual", "AccessorAgree", "AccessorMutual", "InvokerIsMethod"}

PairAnte(G, PS, p, c) ==
    CASE c = "ShadowsMutual"    -> p.kind = "fn" /\ p.attr \in {"shadows", "shadowed-by"}
      [] c = "TypeStructMutual" -> p.kind = "typestruct"
      [] c = "AccessorAgree"    -> p.kind = "prop" /\ p.attr \in {"setter", "getter"}
      [] c = "AccessorMutual"   -> G.inferred /\ p.kind = "fn" /\ p.attr \in {"set-property", "get-property"}
                                     /\ P("prop", p.scope, p.value, "property", "") \in PS
      [] c = "InvokerIsMethod"  -> p.kind = "vfunc" /\ p.attr = "invoker"

PairCons(PS, p, c) ==
    \* f shadows g  <=>  g shadowed-by f   (siblings)
    CASE c = "ShadowsMutual"    -> P("fn", p.scope, p.value, IF p.attr = "shadows" THEN "shadowed-by" ELSE "shadows", p.name) \in PS
    \* C type-struct S  <=>  S is-gtype-struct-for C   (same namespace)
      [] c = "TypeStructMutual" -> P("typestruct", p.scope, p.value,
                                     IF p.attr = "type-struct" THEN "is-gtype-struct-for" ELSE "type-struct", p.name) \in PS
    \* property p has setter m and the type has a method m  =>  m says set-property p
    \* (a setter naming no method of the type comes from an explicit annotation / a parent type: silent)
      [] c = "AccessorAgree"    -> HasMethod(PS, p.scope, p.value) =>
                                     AttrOf(PS, "fn", p.scope, p.value, IF p.attr = "setter" THEN "set-property" ELSE "get-property") = {p.name}
    \* method m says (inferred) set-property p and the type has a property p  =>  p says setter m
      [] c = "AccessorMutual"   -> AttrOf(PS, "prop", p.scope, p.value, IF p.attr = "set-property" THEN "setter" ELSE "getter") = {p.name}
      [] c = "InvokerIsMethod"  -> HasMethod(PS, p.scope, p.value)

PairHolds(G, PS, p, c) == PairAnte(G, PS, p, c) => PairCons(PS, p, c)

---------------------------------------------------------------------------
\* all rejections of one abstract GIR: <<clause, shape, element>>
UseRejections(G, u) ==
    IF u.marked THEN {}       \* every use clause speaks about unmarked owners only
    ELSE {<<c, Shape(G, u, c), u.id>> : c \in {x \in UseClauseNames : ~UseHolds(G, u, x)}}
PairRejections(G, PS, p) ==
    {<<c, p.attr \o "-not-mutual", p.scope \o "/" \o p.name>> : c \in {x \in PairClauseNames : ~PairHolds(G, PS, p, x)}}
Rejections(G) ==
    LET PS == Rng(G.pairs) IN
    UNION {UseRejections(G, G.uses[i]) : i \in DOMAIN G.uses}
    \cup {<<"IndexInRange", G.idx[i].kind \o "-index-out-of-range", G.idx[i].id>> :
        i \in {j \in DOMAIN G.idx : ~IndexInRange(G.idx[j])}}
    \cup {<<"IndexNames", G.idx[i].kind \o "-index-names-another-parameter", G.idx[i].id>> :
        i \in {j \in DOMAIN G.idx : IndexInRange(G.idx[j]) /\ ~IndexNames(G.idx[j])}}
    \cup UNION {PairRejections(G, PS, G.pairs[i]) : i \in DOMAIN G.pairs}

Closed(G) == Rejections(G) = {}

AllClauseNames == UseClauseNames \cup PairClauseNames \cup {"IndexInRange", "IndexNames", "NotJudged", "LiteralOnly"}
\* how often each clause spoke (vacuity), plus the number of references that were skipped
ExercisedCount(G, c) ==
    IF c \in UseClauseNames THEN Cardinality({i \in DOMAIN G.uses : Ante(G, G.uses[i], c)})
    ELSE IF c \in PairClauseNames THEN Cardinality({i \in DOMAIN G.pairs : PairAnte(G, Rng(G.pairs), G.pairs[i], c)})
    ELSE IF c = "IndexInRange" THEN Len(G.idx)
    ELSE IF c = "IndexNames" THEN Cardinality({i \in DOMAIN G.idx : G.idx[i].want # ""})
    ELSE IF c = "NotJudged" THEN Cardinality({i \in DOMAIN G.uses : ~G.uses[i].marked /\ G.uses[i].tag = "type" /\ G.uses[i].name # ""
                                                /\ ~IsFund(G.uses[i]) /\ ~Known(G, G.uses[i]) /\ NotJudged(G, G.uses[i])})
    ELSE Cardinality({i \in DOMAIN G.uses : LiteralOnly(G, G.uses[i])})
=============================================================================

--------------------------- MODULE CommentBlockMC ---------------------------
(* model-checking configurations of CommentBlock.tla (constants as definitions) *)
EXTENDS CommentBlock
AllForms == {"symbol", "prop", "signal", "field", "section", "action"}
OneForm == {"symbol"}
TwoForms == {"symbol", "section"}
Ind012 == {0, 1, 2}
Ind02 == {0, 2}
Ind0 == {0}
TagsAll == {"returns", "since", "deprecated", "stability"}
TagsRS == {"returns", "since"}
TagsR == {"returns"}
NoFaults == {}
AllFaults == {"unbal", "dbl", "empty", "stray", "kv", "unknown", "nocolon", "dupparam", "duptag", "returns2",
              "paramlate", "pre", "codebefore", "codeafter", "oneline", "noident", "attrs", "opentext", "depann", "deptag", "dupparen"}
ParenFaults == {"unbal", "dbl", "empty", "stray", "dupparen"}
KnownNone == {}
KnownWPos == {"witness_validate_position_lost_on_continuation"}
KnownWAction == {"witness_writer_action_identifier"}
KnownC10 == {}      \* writer_action_identifier repaired by 855d795 (what-if: KnownWAction)
KnownC11 == {}      \* validate_position_lost_on_continuation repaired by 38eeb2b (what-if: KnownWPos)
\* export of the explored (model, layout) cases: states with pc = "done" are read from TLC's -dump
=============================================================================

SPECIFICATION CSpecByGen
CONSTANTS
  Forms <- CAllForms
  Indents <- CInd012
  MaxIdAnns = 3
  MaxParams = 3
  MaxParamAnns = 3
  MaxPartLines = 3
  MaxDescLines = 3
  MaxParas = 3
  MaxTags = 4
  TagNames <- CTagsAll
  MaxTagAnns = 3
  MaxCont = 2
  MaxNoise = 2
  AtReturns = TRUE
  FaultKinds <- CNoFaults
  MaxFaults = 0
  KeepLines = TRUE
  Known <- CKnown
  StartLine = 1
CHECK_DEADLOCK FALSE

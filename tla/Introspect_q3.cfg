SPECIFICATION Spec
CONSTANTS
  N = 2
  Kinds <- K_class
  TKs <- TK_small
  AllowList = FALSE
  AllowNSkip = FALSE
  AllowVSkip = FALSE
  AllowReturn = TRUE
  AllowMoved = FALSE
  AllowHost = FALSE
  AllowRename = TRUE
  MaxFunctions = 1
  Stepwise = FALSE
  AliasRecheck = TRUE
  CallableWalks = 2
  RenameScopeCheck = TRUE
  COrder = FALSE
  Orders <- Id2
  KnownShapes <- Known_any
  ExportViol = 1
  ExportOk = 11
INVARIANT NoUnknownViolation
CHECK_DEADLOCK FALSE

SPECIFICATION MCSpec
CONSTANTS
  ABS <- MC_Abs
  HIST <- MC_Hist
  EscVariant = "no_escape"
  AllowMisuse = FALSE
  OpSet <- CtlOps
  MaxOps = 4
CHECK_DEADLOCK FALSE
INVARIANT Combined

----------------------------- MODULE EnumConst -----------------------------
(***************************************************************************)
(* C13: enumeration members and constants keep correct names, types and    *)
(* values.  giscanner/transformer.py: _enum_common_prefix, _create_enum,   *)
(* _create_const; giscanner/girwriter.py: _write_enum/_write_member/       *)
(* _write_constant.                                                        *)
(*                                                                         *)
(* Identifiers are sequences of upper-case WORDS joined by "_".            *)
(* Integers that do not fit TLC's 32 bits are 4 little-endian 16-bit limbs *)
(* plus a sign: [neg |-> BOOLEAN, l |-> <<l0, l1, l2, l3>>].               *)
(***************************************************************************)
EXTENDS Naturals, Sequences, FiniteSets, TLC

CONSTANTS
    EmptyPrefixBug,   \* TRUE = code before the fix: no shared word gave the prefix "_" (1 character stripped)
    U8Mod16           \* TRUE = code before the fix: guint8 constants wrapped modulo 2^16

---------------------------------------------------------------------------
\* words
\* (A, AB, ABX: each a CHARACTER prefix of the next without being a shared WORD)
Vocab == {"FOO", "BAR", "A", "B", "AB", "ABX", "X2", "BIG"}
Lower == [w \in Vocab |-> CASE w = "FOO" -> "foo" [] w = "BAR" -> "bar" [] w = "A" -> "a" [] w = "B" -> "b"
                            [] w = "AB" -> "ab" [] w = "ABX" -> "abx" [] w = "X2" -> "x2" [] w = "BIG" -> "big"]

RECURSIVE JoinLower(_)
JoinLower(ws) == IF ws = <<>> THEN ""
                 ELSE IF Len(ws) = 1 THEN Lower[ws[1]]
                 ELSE Lower[ws[1]] \o "_" \o JoinLower(Tail(ws))

IsWordPrefix(a, b) == Len(a) <= Len(b) /\ \A i \in 1..Len(a) : a[i] = b[i]

\* number of leading words shared by all members
RECURSIVE SharedCount(_, _)
SharedCount(ms, k) ==
    IF \A i \in 1..Len(ms) : Len(ms[i]) > k /\ ms[i][k + 1] = ms[1][k + 1]
    THEN SharedCount(ms, k + 1) ELSE k

\* the statement's precondition: no member is a word-prefix of another (so members are distinct)
EnumPre(ms) == \A i, j \in 1..Len(ms) : i # j => ~IsWordPrefix(ms[i], ms[j])

---------------------------------------------------------------------------
\* Property layer for enums.  nsw = the namespace's symbol prefixes as a SET of upper-case words
\* (a namespace may have several, e.g. GLib: g, glib).
\* ExpectedName(ms, nsw, i) = expected name of member i, or "?" where the statement is silent
\* (a member that carries neither a shared word nor a namespace prefix).
ExpectedName(ms, nsw, i) ==
    LET k == IF Len(ms) < 2 THEN 0 ELSE SharedCount(ms, 0) IN
    IF k > 0 THEN JoinLower(SubSeq(ms[i], k + 1, Len(ms[i])))
    ELSE IF ms[i][1] \in nsw /\ Len(ms[i]) > 1 THEN JoinLower(Tail(ms[i]))
    ELSE "?"

---------------------------------------------------------------------------
\* Implementation-shaped layer: the pairwise fold of _enum_common_prefix on strings.
\* A running prefix is a word sequence; the code's string always ends with "_" after the first
\* fold step (represented by the flag `us`), and is a whole member before it.
\* common_prefix(a, b): zip the words; first difference -> common words + "_"
CommonWords(a, b) ==
    LET n == IF Len(a) < Len(b) THEN Len(a) ELSE Len(b)
        Diff == {i \in 1..n : a[i] # b[i]}
    IN IF Diff = {} THEN [w |-> SubSeq(a, 1, n), exhausted |-> TRUE]
       ELSE LET d == CHOOSE i \in Diff : \A j \in Diff : i <= j IN [w |-> SubSeq(a, 1, d - 1), exhausted |-> FALSE]

\* fold state: [w: words, us: ends with underscore, bad: the min(a, b) path was taken]
RECURSIVE Fold(_, _, _)
Fold(ms, i, st) ==
    IF i > Len(ms) \/ st.bad THEN st
    ELSE LET \* the running prefix "W1_W2_" split by "_" is <<W1, W2, "">>: the trailing empty word can only
             \* match an empty word, i.e. never (members have no empty words)
             c == CommonWords(st.w, ms[i])
             exhausted == IF st.us THEN (c.exhausted /\ Len(ms[i]) <= Len(st.w)) ELSE c.exhausted
         IN IF exhausted THEN [w |-> <<>>, us |-> FALSE, bad |-> TRUE]
            ELSE Fold(ms, i + 1, [w |-> c.w, us |-> TRUE, bad |-> FALSE])

\* result: "none" (no prefix -> strip the namespace), "words" k (strip k whole words), "char" (the
\* one-character prefix "_" of the unfixed code), "min" (unspecified string, outside the precondition)
ImplPrefix(ms) ==
    IF Len(ms) < 2 THEN [k |-> "none", n |-> 0]
    ELSE LET st == Fold(ms, 2, [w |-> ms[1], us |-> FALSE, bad |-> FALSE]) IN
         IF st.bad THEN [k |-> "min", n |-> 0]
         ELSE IF st.w = <<>> THEN (IF EmptyPrefixBug THEN [k |-> "char", n |-> 1] ELSE [k |-> "none", n |-> 0])
         ELSE [k |-> "words", n |-> Len(st.w)]

ImplName(ms, nsw, i) ==
    LET p == ImplPrefix(ms) IN
    CASE p.k = "words" -> JoinLower(SubSeq(ms[i], p.n + 1, Len(ms[i])))
      [] p.k = "none"  -> IF ms[i][1] \in nsw /\ Len(ms[i]) > 1 THEN JoinLower(Tail(ms[i])) ELSE "?"
      [] p.k = "char"  -> "<first character cut off>"
      [] p.k = "min"   -> "<unspecified>"

\* the statement speaks about an enumeration when every member has an expected name
EnumSpeaks(ms, nsw) == EnumPre(ms) /\ \A i \in 1..Len(ms) : ExpectedName(ms, nsw, i) # "?"
EnumImplOK(ms, nsw) == EnumSpeaks(ms, nsw) => \A i \in 1..Len(ms) : ImplName(ms, nsw, i) = ExpectedName(ms, nsw, i)

---------------------------------------------------------------------------
\* 64-bit arithmetic on limbs
Base == 65536
Zero == <<0, 0, 0, 0>>
\* two's complement negation modulo 2^64
RECURSIVE NegLimbs(_, _, _)
NegLimbs(l, i, borrowIn) ==     \* computes 2^64 - l  (for l # 0): invert and add one
    IF i > 4 THEN <<>>
    ELSE LET inv == (Base - 1) - l[i]
             s == inv + borrowIn
         IN <<s % Base>> \o NegLimbs(l, i + 1, s \div Base)
TwosComplement(v) == IF v.neg /\ v.l # Zero THEN NegLimbs(v.l, 1, 1) ELSE v.l

\* keep the low `bits` bits (bits in {8, 16, 32, 64})
LowBits(l, bits) ==
    CASE bits = 64 -> l
      [] bits = 32 -> <<l[1], l[2], 0, 0>>
      [] bits = 16 -> <<l[1], 0, 0, 0>>
      [] bits = 8  -> <<l[1] % 256, 0, 0, 0>>

\* type classes of integer constants after alias resolution
FixedUnsigned == {"guint8", "guint16", "guint32", "guint64"}
Width == [t \in FixedUnsigned |-> CASE t = "guint8" -> 8 [] t = "guint16" -> 16 [] t = "guint32" -> 32 [] t = "guint64" -> 64]
PlatformUnsigned == {"guint", "gulong", "gsize", "guchar", "gushort"}      \* width depends on the platform
Signed == {"gint", "gint8", "gint16", "gint32", "gint64", "glong", "gssize", "gshort", "gchar"}

\* Property layer for integer constants: value [neg, l] as written, type t (resolved through aliases)
\* -> expected emitted value, or "any" where only range membership is demanded
ConstExpected(t, v) ==
    IF t \in FixedUnsigned THEN [neg |-> FALSE, l |-> LowBits(TwosComplement(v), Width[t])]
    ELSE v     \* "integers as written"

\* Implementation layer (_create_const)
ConstImpl(t, v) ==
    IF t \in FixedUnsigned
    THEN [neg |-> FALSE, l |-> LowBits(TwosComplement(v), IF t = "guint8" /\ U8Mod16 THEN 16 ELSE Width[t])]
    ELSE v

\* "a value that lies within that type's range" for unsigned types: never negative
InRangeUnsigned(t, out) == (t \in FixedUnsigned \cup PlatformUnsigned) => (~out.neg \/ out.l = Zero)

=============================================================================

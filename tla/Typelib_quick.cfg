INIT Init
NEXT Next
CONSTANTS
  Kinds = {"arg", "type", "sig", "function", "property", "signal", "vfunc", "field", "value", "layout"}
  Strict = FALSE
  Full = FALSE
  MaxCnt = 2
INVARIANT BuildEncodes
INVARIANT InvTypeSane
INVARIANT InvLayout
INVARIANT InvAccessor
CHECK_DEADLOCK FALSE

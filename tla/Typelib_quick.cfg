INIT Init
NEXT Next
CONSTANTS
  Dev = {}
  Kinds = {"arg", "type", "sig", "function", "property", "signal", "vfunc", "field", "value", "attrs", "constsize", "api", "layout"}
  Strict = FALSE
  Full = FALSE
  MaxCnt = 2
INVARIANT BuildEncodes
INVARIANT InvTypeSane
INVARIANT InvLayout
INVARIANT InvAccessor
INVARIANT InvApi
CHECK_DEADLOCK FALSE

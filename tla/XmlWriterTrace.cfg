SPECIFICATION TSpec
CONSTANTS
  ABS <- T_Abs
  HIST <- T_Hist
  EscVariant = "asis"
  AllowMisuse = FALSE
  OpSet <- T_OpSet
  MaxOps = 0
CHECK_DEADLOCK FALSE

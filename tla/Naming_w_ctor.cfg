SPECIFICATION Spec
CONSTANTS
  Dev = {"CtorReachRoot"}
  Mode = "pairq"
  AnnSet = {"-"}
INVARIANT I_Ctor
CHECK_DEADLOCK FALSE

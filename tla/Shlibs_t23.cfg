INIT MCInit
NEXT MCNext
CONSTANTS
  Themes = {"foo", "pango", "meta1"}
  ML = 2
  MW = 3
  EML = 1
  EMW = 3
  LaML = 0
  Extras = FALSE
  Variant = "asis"
  Gran = "case"
  Cases <- MC_None
  LaCases <- MC_None
CHECK_DEADLOCK FALSE
ALIAS Alias
INVARIANT TypeOK
INVARIANT Inv_Property
INVARIANT Inv_EqualsResolve

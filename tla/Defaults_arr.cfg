SPECIFICATION Spec
CONSTANTS
  Dev = {}
  Mode = "arr"
  MaxParams = 5
CHECK_DEADLOCK FALSE
INVARIANT ImplSatisfiesProperty
INVARIANT IndicesPostRemoval

SPECIFICATION Spec
CONSTANTS
  Mode = "arr"
  MaxParams = 5
CHECK_DEADLOCK FALSE
INVARIANT ImplSatisfiesProperty
INVARIANT IndicesPostRemoval

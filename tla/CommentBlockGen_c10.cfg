SPECIFICATION GSpec
CONSTANTS
  Forms <- GAllForms
  Indents <- GInd012
  MaxIdAnns = 2
  MaxParams = 2
  MaxParamAnns = 2
  MaxPartLines = 2
  MaxDescLines = 2
  MaxParas = 2
  MaxTags = 2
  TagNames <- GTagsAll
  MaxTagAnns = 2
  MaxCont = 2
  MaxNoise = 1
  AtReturns = TRUE
  FaultKinds <- GNoFaults
  MaxFaults = 0
  KeepLines = TRUE
  Known <- GKnown
  StartLine = 1
CHECK_DEADLOCK FALSE
INVARIANT RoundTrip
INVARIANT WriterFix

----------------------------- MODULE ShlibsTrace -----------------------------
(***************************************************************************)
(* C19 on observations of the REAL giscanner.shlibs (batch idiom A.2).     *)
(* One record per call:                                                    *)
(*   [id, t |-> "ldd", reqs, files, listing,        -- the abstract case   *)
(*    kind, out, msgc]                              -- what the code did   *)
(* reqs/files: requested names (files = those that exist as files in the   *)
(* working directory of the call); listing: lines of structured words, all *)
(* text as sequences of one-character strings exactly as rendered;         *)
(* kind = "ok" (out = map(sanitize_shlib_path, resolve_from_ldd_output())),*)
(* "exit" (msgc = characters of the SystemExit message) or "other".        *)
(* TLC computes the expected resolution with Shlibs!Resolve / the clauses  *)
(* of Shlibs!Judge on the abstract case; names are compared as strings.    *)
(* DRIFT = the observation differs from the implementation-shaped layer    *)
(* (Run) although the property layer accepts it: a note, never an alarm.   *)
(* OUTSIDE / FILE-SKIPPED / MALFORMED are notes for the harness as well    *)
(* (a random case OUTSIDE the quantifier or MALFORMED is a generator bug). *)
(***************************************************************************)
EXTENDS Shlibs, Json, IOUtils

Obs == JsonDeserialize(IOEnv.TRACE_FILE)
N == Len(Obs)
CaseOf(r) == [t |-> "ldd", reqs |-> r.reqs, files |-> r.files, listing |-> r.listing]
OutOf(r) == [kind |-> r.kind, out |-> r.out, msgc |-> r.msgc]

J == TLCEval([i \in 1..N |-> LET c == CaseOf(Obs[i])
                         j == Judge(c, OutOf(Obs[i]))
                         e == Run("asis", c)
                     IN [failed |-> {n \in ClauseNames : ~j.cl[n]},
                         speaks |-> {n \in ClauseNames : j.sp[n]},
                         wf |-> WFCase(c), dom |-> j.dom,
                         \* (a note) a request naming an existing file was left unresolved without an error
                         fileskip |-> Obs[i].files # <<>> /\ Obs[i].kind = "ok" /\ Len(Obs[i].out) < Cardinality(ToSet(Obs[i].reqs)),
                         drift |-> ~(e.kind = Obs[i].kind /\ e.out = Obs[i].out)]])

Cause(r) == "-"
Rejected == UNION {{<<Obs[i].id, n, Cause(Obs[i])>> : n \in J[i].failed} : i \in 1..N}
            \cup {<<Obs[i].id, "DRIFT", "differs from Shlibs!Run">> : i \in {k \in 1..N : J[k].drift /\ J[k].failed = {}}}
            \cup {<<Obs[i].id, "OUTSIDE", "outside the quantifier: a listed file satisfies two requests">> : i \in {k \in 1..N : J[k].wf /\ ~J[k].dom}}
            \cup {<<Obs[i].id, "FILE-SKIPPED", "request names an existing file: no pattern, no error">> : i \in {k \in 1..N : J[k].fileskip}}
            \cup {<<Obs[i].id, "MALFORMED", "renderer produced an ill-formed case">> : i \in {k \in 1..N : ~J[k].wf}}
Exercised == [n \in ClauseNames |-> Cardinality({i \in 1..N : n \in J[i].speaks})]
             @@ [InDomain |-> Cardinality({i \in 1..N : J[i].dom}), ExistingFile |-> Cardinality({i \in 1..N : Obs[i].files # <<>>})]

ASSUME JsonSerialize(IOEnv.VERDICT_FILE, [n |-> N, rejected |-> SetToSeq(Rejected), exercised |-> Exercised])

TInit == case = [t |-> "none"] /\ st = Idle /\ outcome = None
TNext == UNCHANGED vars
=============================================================================

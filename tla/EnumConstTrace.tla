--------------------------- MODULE EnumConstTrace ---------------------------
(* C13 property layer evaluated by TLC on observations of the REAL scanner
   (Transformer + MainTransformer + GIRWriter output projected by harness/props/c13.py). *)
EXTENDS EnumConst, Json, IOUtils, SequencesExt

Obs == JsonDeserialize(IOEnv.TRACE_FILE)

RECURSIVE JoinUpper(_)
JoinUpper(ws) == IF Len(ws) = 1 THEN ws[1] ELSE ws[1] \o "_" \o JoinUpper(Tail(ws))

\* enum observation: [id, kind="enum", ms, nsw, bitfield, values (limb records), present, tag, members <<[name, cid, value]>>]
NSW(r) == ToSet(r.nsw)
Speaks(r) == EnumSpeaks(r.ms, NSW(r))
EnumClauses(r) == [
    Present   |-> Speaks(r) => r.present,
    AllInOrder |-> (Speaks(r) /\ r.present) => /\ Len(r.members) = Len(r.ms)
                                /\ \A i \in 1..Len(r.ms) : r.members[i].cid = JoinUpper(r.ms[i]),
    ExactValue |-> (Speaks(r) /\ r.present /\ Len(r.members) = Len(r.ms)) =>
                       \A i \in 1..Len(r.ms) : r.members[i].value = r.values[i],
    MemberName |-> (Speaks(r) /\ r.present /\ Len(r.members) = Len(r.ms)) =>
                       \A i \in 1..Len(r.ms) : r.members[i].name = ExpectedName(r.ms, NSW(r), i),
    BitfieldTag |-> r.present => r.tag = (IF r.bitfield THEN "bitfield" ELSE "enumeration") ]

\* constant observation: [id, kind="const", ckind ("int"|"str"|"bool"|"double"), cname, t (type after alias
\* resolution), gitype (expected GI type name), v, text, present, outCname, outType, outValue (limbs), outText]
ConstClauses(r) == [
    Present   |-> r.present,
    CName     |-> r.present => r.outCname = r.cname,
    TypeMatches |-> r.present => r.outType = r.gitype,
    IntValue  |-> (r.present /\ r.ckind = "int") => r.outValue = ConstExpected(r.t, r.v),
    InRange   |-> (r.present /\ r.ckind = "int") => InRangeUnsigned(r.t, r.outValue),
    StrVerbatim |-> (r.present /\ r.ckind = "str") => r.outText = r.text,
    BoolText  |-> (r.present /\ r.ckind = "bool") => r.outText = r.text ]

EnumNames == {"Present", "AllInOrder", "ExactValue", "MemberName", "BitfieldTag"}
ConstNames == {"Present", "CName", "TypeMatches", "IntValue", "InRange", "StrVerbatim", "BoolText"}

Holds(r, c) == IF r.kind = "enum" THEN (c \in EnumNames => EnumClauses(r)[c]) ELSE (c \in ConstNames => ConstClauses(r)[c])
Detail(r, c) == IF r.kind = "enum"
                THEN (IF c = "MemberName" /\ Len(r.ms) >= 2 /\ SharedCount(r.ms, 0) = 0 THEN "no-shared-word"
                      ELSE IF Len(r.ms) < 2 THEN "single-member" ELSE "shared-prefix")
                ELSE r.t \o "/" \o r.via
Rejected == { <<Obs[q[1]].id, q[2], Detail(Obs[q[1]], q[2])>> :
                 q \in { p \in (1..Len(Obs)) \X (EnumNames \cup ConstNames) : ~Holds(Obs[p[1]], p[2]) } }
Exercised == [c \in (EnumNames \cup ConstNames) |->
                 Cardinality({i \in 1..Len(Obs) : IF Obs[i].kind = "enum" THEN (c \in EnumNames /\ Speaks(Obs[i]))
                                                                           ELSE c \in ConstNames})]

ASSUME JsonSerialize(IOEnv.VERDICT_FILE, [n |-> Len(Obs), rejected |-> SetToSeq(Rejected), exercised |-> Exercised])
VARIABLE done
Init == done = FALSE
Next == ~done /\ done' = TRUE
=============================================================================

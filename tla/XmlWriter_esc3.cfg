SPECIFICATION EscSpec3
CONSTANTS
  ABS <- MC_Abs
  HIST <- MC_Hist
  EscVariant = "asis"
  AllowMisuse = FALSE
  OpSet <- CtlOps
  MaxOps = 0
CHECK_DEADLOCK FALSE
INVARIANT InvTextRoundTrip
INVARIANT InvTextExact
INVARIANT InvAttrRoundTrip
INVARIANT InvQuoteRule

SPECIFICATION Spec
CONSTANTS
  N = 3
  Kinds <- K_class
  TKs <- TK_small
  AllowList = FALSE
  AllowNSkip = FALSE
  AllowVSkip = FALSE
  AllowReturn = FALSE
  AllowMoved = FALSE
  AllowHost = FALSE
  AllowRename = TRUE
  MaxFunctions = 1
  Stepwise = FALSE
  AliasRecheck = TRUE
  CallableWalks = 2
  RenameScopeCheck = TRUE
  COrder = FALSE
  Orders <- Id3
  KnownShapes <- Known_any
  ExportViol = 1
  ExportOk = 499
INVARIANT NoUnknownViolation
CHECK_DEADLOCK FALSE

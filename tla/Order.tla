------------------------------- MODULE Order -------------------------------
(***************************************************************************)
(* C16 -- scanner output is deterministic and independent of irrelevant    *)
(* order.                                                                  *)
(*                                                                         *)
(* Containers are modelled with their ITERATION DISCIPLINE:                *)
(*   Seq     lists, dict / OrderedDict (insertion order)                   *)
(*   Set     Python set / frozenset: every iteration sees SOME permutation *)
(*           (hash order; chosen nondeterministically, per iteration)      *)
(*   Sorted  sorted(container, key)                                        *)
(*                                                                         *)
(* Unordered containers of the anchored code whose iteration can reach an  *)
(* observable (read off girwriter.py, ast.py, transformer.py,              *)
(* maintransformer.py, cachestore.py, girparser.py, scannermain.py):       *)
(*                                                                         *)
(*  S1 ast.Namespace.includes (set of Include)                             *)
(*       writer: sorted(namespace.includes)                  -> Sorted     *)
(*       Transformer._parse_include: `for include in parser.get_namespace()*)
(*       .includes` -> order of Transformer._parsed_includes (dict) ->      *)
(*       _iter_namespaces -> tie order of equally long prefixes in         *)
(*       _split_c_string_for_namespace_matches (stable sort) -> FIRST hit  *)
(*       in _resolve_type_from_ctype / _from_ctype_all_namespaces /        *)
(*       _from_gtype_name.  Harmless iff no C type / GType name is defined *)
(*       by two dependencies (precondition DepDisjoint).                   *)
(*  S2 ast.Node.file_positions (set of Position) + get_main_position():    *)
(*       first non-typedef element in SET order, else the last typedef one.*)
(*       Reaches <source-position>.  Deterministic iff a node has at most  *)
(*       one non-typedef position (or no non-typedef and one typedef one). *)
(*       Two non-typedef positions arise when the body of one struct/union *)
(*       tag is fed twice; the typedef of a tag contributes a typedef      *)
(*       position; gdumpparser / vfunc inherit_file_positions() copy such  *)
(*       sets.  Found by this model (Order_w_dupbody.cfg), reproduced on   *)
(*       the real code, repaired in /repo fd38255: the set is now iterated *)
(*       sorted (MainPosFix = TRUE is the current code; FALSE the old one).*)
(*  S3 Transformer._pkg_config_packages (set) + scannermain `packages`     *)
(*       (set): reach only the pkg-config command line, not the GIR.       *)
(*     namespace.exported_packages / c_includes: lists, written            *)
(*       sorted(set(..)).                                                  *)
(*  S4 maintransformer._apply_annotations_params: docparams - declparams   *)
(*       (set difference) iterated to emit "unknown parameter" warnings:   *)
(*       reaches the ORDER OF DIAGNOSTICS only (outside the statement).    *)
(*  S5 transformer._append_new_node: set of positions of a namespace       *)
(*       conflict: diagnostics only.                                       *)
(*  S6 GIRParser._includes/_pkgconfig_packages/_c_includes (sets) of a     *)
(*       dependency: pickled by CacheStore.store, rebuilt by load ->       *)
(*       another arbitrary permutation (covered by S1).                    *)
(*  D1 Transformer._tag_ns (dict): insertion order = order in which tags   *)
(*       are first seen; iterated at the end of parse() to promote tags    *)
(*       that never got a typedef: affects insertion order of              *)
(*       Namespace.names only.                                             *)
(*  D2 Namespace.names (OrderedDict): insertion order = feed order; walked *)
(*       by every pass; written sorted(.., key=nscmp).                     *)
(*  D3 comment blocks (dict name -> block): insertion order = block feed   *)
(*       order, LAST block of a name wins (diagnosed); iterated by         *)
(*       _add_standalone_doc_sections (appends DocSection nodes).          *)
(*  L  members, fields, parameters: lists in declaration order, written    *)
(*       as they are; methods/constructors/functions/properties/signals/   *)
(*       vfuncs/implements: lists written sorted().                        *)
(*                                                                         *)
(* Implementation-shaped layer: one scanner run = LoadIncludes(cold|warm)  *)
(* -> FeedBlocks(perm) -> FeedSymbols(order) -> Promote -> Transform ->    *)
(* Emit, every set iteration choosing its own permutation.                 *)
(* Field lists are list OBJECTS: the record of a second typedef of a tag   *)
(* aliases the list of the first; a later body reaches it only because     *)
(* _parse_fields appends in place (AppendInPlace).                         *)
(* Property layer: Deterministic (two-copy / self-composed: both runs get  *)
(* the same input but choose permutations, feed orders and cache history   *)
(* independently and must Emit equal output) and SiblingOrder.             *)
(***************************************************************************)
EXTENDS Naturals, Sequences, FiniteSets, TLC

CONSTANTS
    SortNamespace,   \* girwriter._write_namespace: sorted(namespace.values(), key=nscmp)
    SortIncludes,    \* girwriter._write_repository: sorted(namespace.includes)
    SortMembers,     \* girwriter._write_record/_write_class/...: sorted(node.methods) ...
    MainPosFix,      \* TRUE (current code, fd38255): get_main_position() iterates sorted(file_positions); FALSE: set order
    CacheFaithful,   \* a namespace served by CacheStore.load equals a fresh GIRParser parse
    LastBlockWins,   \* parse_comment_blocks: comment_blocks[name] = block (the last one wins)
    AppendInPlace,   \* Transformer._parse_fields appends to the list object the compound already has (TRUE: the code);
                     \* FALSE: it binds a new list -- the record of a SECOND typedef of the tag, which shares the list
                     \* object of the first (_create_typedef_compound: new_compound.fields = compound.fields), misses a later body
    \* preconditions of the statement; TRUE lifts one (what-if configurations)
    DupBodies,       \* the body of one struct tag may be fed twice (legal input since fd38255: Order_dup.cfg)
    DupBlocks,       \* two comment blocks may carry the same identifier
    DepOverlap,      \* two dependencies may define the same C type
    FullPerm,        \* TRUE: any feed order of the declarations; FALSE: only typedef/struct swaps
    Inputs           \* the set of inputs explored (defined in OrderMC)

(* ----------------------------- helpers ------------------------------- *)
InSeq(x, s) == \E i \in 1..Len(s) : s[i] = x
Range(s) == {s[i] : i \in 1..Len(s)}
\* all iteration orders a Python set may show
RECURSIVE Perms(_)
Perms(S) == IF S = {} THEN {<<>>} ELSE UNION {{<<x>> \o p : p \in Perms(S \ {x})} : x \in S}
Min(S) == CHOOSE x \in S : \A y \in S : x <= y

\* stable selection sort of a sequence of records with a numeric field .key
RECURSIVE StableSort(_)
StableSort(s) ==
    IF s = <<>> THEN <<>>
    ELSE LET m == Min({s[i].key : i \in 1..Len(s)})
             i == Min({j \in 1..Len(s) : s[j].key = m})
         IN <<s[i]>> \o StableSort(SubSeq(s, 1, i - 1) \o SubSeq(s, i + 1, Len(s)))

(* ----------------------------- the input ----------------------------- *)
(* input == [decls  : Seq([kind, n, pat, owner, uses]),                    *)
(*           blocks : Seq([ident, cf, pay]),    deps : "chain"|"diamond"]  *)
(* kind "rec": pat "T" typedef only (opaque) | "TS" typedef + body | "S"   *)
(*   body only (promoted under its tag) | "A" typedef of an anonymous      *)
(*   struct | "TSS" typedef + two bodies (only if DupBodies) | "TTS" two   *)
(*   typedef names (n and n2) of one tag + body (the GObject /             *)
(*   GInitiallyUnowned pattern): the first typedef fed names the tag's     *)
(*   record, the second gets a record of its own sharing the field list;   *)
(*   the body may come before, between or after them;                      *)
(* kind "fn": owner = n of a record (method candidate) or 0, uses = a      *)
(*   dependency type id or "-";  kind "alias".                             *)
(* n is the name of the declaration (names are unique, ordered by <).      *)
(* Block ident = n of the documented declaration, >= 90: a SECTION block.  *)

\* the symbols one declaration contributes, canonical (header) order; pos = unique source position
Syms(d, base) ==
    IF d.kind = "rec" THEN
        CASE d.pat = "T"   -> << [sk |-> "typedef", n |-> d.n, pos |-> base + 1] >>
          [] d.pat = "TS"  -> << [sk |-> "typedef", n |-> d.n, pos |-> base + 1], [sk |-> "body", n |-> d.n, pos |-> base + 2] >>
          [] d.pat = "S"   -> << [sk |-> "body", n |-> d.n, pos |-> base + 2] >>
          [] d.pat = "A"   -> << [sk |-> "anon", n |-> d.n, pos |-> base + 1] >>
          [] d.pat = "TTS" -> << [sk |-> "typedef", n |-> d.n, pos |-> base + 1], [sk |-> "typedef2", n |-> d.n, pos |-> base + 4],
                                 [sk |-> "body", n |-> d.n, pos |-> base + 2] >>
          [] d.pat = "TSS" -> << [sk |-> "typedef", n |-> d.n, pos |-> base + 1], [sk |-> "body", n |-> d.n, pos |-> base + 2],
                                 [sk |-> "body", n |-> d.n, pos |-> base + 3] >>
    ELSE << [sk |-> d.kind, n |-> d.n, pos |-> base + 1] >>

RECURSIVE AllSyms(_, _)
AllSyms(decls, i) == IF i > Len(decls) THEN <<>> ELSE Syms(decls[i], 10 * i) \o AllSyms(decls, i + 1)
Canon(inp) == AllSyms(inp.decls, 1)
DeclOf(inp, n) == inp.decls[CHOOSE i \in 1..Len(inp.decls) : inp.decls[i].n = n]

\* feed orders.  Statement: the typedef/struct order of one tag is irrelevant (FullPerm = FALSE: the symbols of
\* one declaration in any order, declarations in header order); FullPerm = TRUE additionally explores every
\* order of the declarations themselves (the sibling order of the output must not depend on it)
RECURSIVE DeclOrders(_, _)
\* which of two typedef names comes first decides which record is "the" record of the tag (sibling order of two
\* declarations, not typedef/struct order): it is kept; the body takes every position relative to them
TypedefsInOrder(f) == \A i, j \in 1..Len(f) : (f[i].sk = "typedef2" /\ f[j].sk = "typedef" /\ f[i].n = f[j].n) => j < i
DeclOrders(decls, i) == IF i > Len(decls) THEN {<<>>}
                        ELSE {a \o b : a \in {x \in Perms(Range(Syms(decls[i], 10 * i))) : TypedefsInOrder(x)}, b \in DeclOrders(decls, i + 1)}
FeedOrders(inp) == IF FullPerm THEN {x \in Perms(Range(Canon(inp))) : TypedefsInOrder(x)} ELSE DeclOrders(inp.decls, 1)

(* --------------------- dependency GIRs (fixed graph) ------------------ *)
DepNames == {"GLib", "GObject", "Gio", "DepA", "DepB", "DepC"}
DepIncl == [d \in DepNames |->
              CASE d = "GLib" -> {} [] d = "GObject" -> {"GLib"} [] d = "Gio" -> {"GObject"}
                [] d = "DepA" -> {"GObject", "GLib"} [] d = "DepB" -> {"Gio", "GLib"}
                [] d = "DepC" -> {"DepA", "DepB"}]
\* C types each dependency defines (all dependencies of one prefix length: ties keep iteration order)
DepTypes == [d \in DepNames |->
              CASE d = "GLib" -> {"t1"} [] d = "GObject" -> {"t2"} [] d = "Gio" -> {"t5"}
                [] d = "DepA" -> {"t3"} [] d = "DepB" -> IF DepOverlap THEN {"t4", "t3"} ELSE {"t4"}
                [] d = "DepC" -> {}]
MainIncl(inp) == IF inp.deps = "chain" THEN <<"Gio">> ELSE <<"DepC", "Gio">>      \* command line order: a list

\* Transformer._parse_include: recursion over a SET of includes; ord[d] = the order this run happens to see
RECURSIVE Visit(_, _, _), VisitAll(_, _, _)
VisitAll(seq, parsed, ord) ==
    IF seq = <<>> THEN parsed
    ELSE VisitAll(Tail(seq), IF InSeq(Head(seq), parsed) THEN parsed ELSE Visit(Head(seq), parsed, ord), ord)
Visit(d, parsed, ord) == LET p == VisitAll(ord[d], parsed, ord) IN IF InSeq(d, p) THEN p ELSE Append(p, d)
\* register_include per command line include: parses even if already seen as a nested include (dict slot kept)
RECURSIVE Register(_, _, _)
Register(seq, parsed, ord) == IF seq = <<>> THEN parsed ELSE Register(Tail(seq), Visit(Head(seq), parsed, ord), ord)
RECURSIVE OrdFns(_)
OrdFns(D) == IF D = {} THEN {<<>>}
             ELSE LET d == CHOOSE x \in D : TRUE IN {(d :> p) @@ f : p \in Perms(DepIncl[d]), f \in OrdFns(D \ {d})}
SetOrders == OrdFns(DepNames)
IncKey(d) == CASE d = "DepA" -> 1 [] d = "DepB" -> 2 [] d = "DepC" -> 3 [] d = "GLib" -> 4 [] d = "GObject" -> 5 [] d = "Gio" -> 6
\* a set of [key, v] records with distinct keys -> the sequence of the v in key order
RECURSIVE ByKey(_)
ByKey(K) == IF K = {} THEN <<>> ELSE LET x == CHOOSE y \in K : \A z \in K : y.key <= z.key IN <<x.v>> \o ByKey(K \ {x})
SortedIncl(S) == ByKey({[key |-> IncKey(d), v |-> d] : d \in S})

(* ------------------------- one scanner run ---------------------------- *)
Second(n) == n + 5                                 \* the second typedef name of tag n (pattern "TTS")
Fields(n) == <<n * 10 + 1, n * 10 + 2>>            \* the member list of the body of tag n (declaration order)
NoNode == [kind |-> "none"]
\* tag: the struct tag whose body defines the fields; share: the node whose field LIST OBJECT this node aliases (0: its own)
NewRec(named, fields, opaque, poss, tag, share) ==
    [kind |-> "rec", named |-> named, hidden |-> FALSE, fields |-> fields, opaque |-> opaque, poss |-> poss,
     doc |-> 0, target |-> "-", methods |-> <<>>, tag |-> tag, share |-> share]
NewLeaf(kind, poss) ==
    [kind |-> kind, named |-> TRUE, hidden |-> FALSE, fields |-> <<>>, opaque |-> FALSE, poss |-> poss,
     doc |-> 0, target |-> "-", methods |-> <<>>, tag |-> 0, share |-> 0]

\* Transformer.parse: one symbol.  st = [node : n -> node record, names : Seq(n) (Namespace.names), tagns : Seq(n) (_tag_ns)]
Traverse(st, sym) ==
    LET n == sym.n
        P(td) == [p |-> sym.pos, td |-> td] IN
    CASE sym.sk = "typedef" ->                      \* _create_typedef_compound
           IF InSeq(n, st.tagns)
           THEN \* the tag exists without a name: the first typedef clobbers name and ctype, parse() appends it
                [st EXCEPT !.node[n].named = TRUE, !.node[n].poss = @ \cup {P(TRUE)}, !.names = Append(@, n)]
           ELSE [st EXCEPT !.node[n] = NewRec(TRUE, <<>>, TRUE, {P(TRUE)}, n, 0), !.names = Append(@, n), !.tagns = Append(@, n)]
      [] sym.sk = "typedef2" ->                     \* _create_typedef_compound, the tag already has a NAMED record: another
           LET n2 == Second(n) IN                   \* record under the second name, `new_compound.fields = compound.fields`
           IF InSeq(n, st.tagns) /\ st.node[n].named
           THEN [st EXCEPT !.node[n2] = NewRec(TRUE, st.node[n].fields, FALSE, {P(TRUE)}, n, n), !.names = Append(@, n2)]
           ELSE st                                  \* (not reachable: the first typedef is fed first)
      [] sym.sk = "body" ->                         \* _create_tag_ns_compound (+ _append_new_node: `original is node`)
           IF InSeq(n, st.tagns)                    \* _parse_fields: every node aliasing the list sees an in-place append
           THEN [st EXCEPT !.node = [x \in DOMAIN st.node |->
                                       IF x = n THEN [st.node[n] EXCEPT !.fields = @ \o Fields(n), !.opaque = FALSE, !.poss = @ \cup {P(FALSE)}]
                                       ELSE IF st.node[x].kind = "rec" /\ st.node[x].share = n /\ AppendInPlace
                                            THEN [st.node[x] EXCEPT !.fields = @ \o Fields(n)]
                                       ELSE st.node[x]]]
           ELSE [st EXCEPT !.node[n] = NewRec(FALSE, Fields(n), FALSE, {P(FALSE)}, n, 0), !.tagns = Append(@, n)]
      [] sym.sk = "anon" ->                         \* typedef struct { .. } X;
           [st EXCEPT !.node[n] = NewRec(TRUE, Fields(n), FALSE, {P(TRUE)}, n, 0), !.names = Append(@, n)]
      [] OTHER ->                                   \* function, alias
           [st EXCEPT !.node[n] = NewLeaf(sym.sk, {P(sym.sk = "alias")}), !.names = Append(@, n)]

RECURSIVE Feed(_, _)
Feed(st, order) == IF order = <<>> THEN st ELSE Feed(Traverse(st, Head(order)), Tail(order))

\* end of parse(): tags that never got a typedef are promoted under their tag name, in _tag_ns order
RECURSIVE Promote(_, _)
Promote(st, tags) ==
    IF tags = <<>> THEN st
    ELSE LET n == Head(tags) IN
         Promote(IF st.node[n].named THEN st
                 ELSE [st EXCEPT !.node[n].named = TRUE, !.node[n].hidden = TRUE, !.names = Append(@, n)], Tail(tags))

\* parse_comment_blocks: dict insertion; the slot of a name stays where it was first inserted
RECURSIVE Blocks(_, _)
Blocks(dict, bs) ==
    IF bs = <<>> THEN dict
    ELSE LET b == Head(bs)
             at == {i \in 1..Len(dict) : dict[i].ident = b.ident} IN
         Blocks(IF at = {} THEN Append(dict, b)
                ELSE IF LastBlockWins THEN [dict EXCEPT ![CHOOSE i \in at : TRUE] = b] ELSE dict, Tail(bs))
DocOf(dict, ident) == LET at == {i \in 1..Len(dict) : dict[i].ident = ident} IN
                      IF at = {} THEN 0 ELSE dict[CHOOSE i \in at : TRUE].pay

\* _resolve_type_from_ctype: namespaces in _parsed_includes order (equal prefix lengths: stable sort), first hit
Resolve(t, parsed, defs) ==
    LET hits == {i \in 1..Len(parsed) : t \in defs[parsed[i]]} IN
    IF t = "-" THEN "-" ELSE IF hits = {} THEN "unresolved" ELSE parsed[Min(hits)]

\* MainTransformer: type resolution, _pair_function (walk in Namespace.names order), annotations,
\* _add_standalone_doc_sections (walk in block dict order)
RECURSIVE Pair(_, _, _)
Pair(st, inp, todo) ==
    IF todo = <<>> THEN st
    ELSE LET n == Head(todo)
             d == DeclOf(inp, n)
             own == IF st.node[n].kind = "fn" THEN d.owner ELSE 0
             ok == own # 0 /\ InSeq(own, st.names) /\ ~st.node[own].hidden IN
         Pair(IF ok THEN [st EXCEPT !.node[own].methods = Append(@, n), !.names = SelectSeq(@, LAMBDA x : x # n)] ELSE st,
              inp, Tail(todo))
RECURSIVE Sections(_, _)
Sections(st, dict) ==
    IF dict = <<>> THEN st
    ELSE LET b == Head(dict) IN
         Sections(IF b.ident >= 90 THEN [st EXCEPT !.node[b.ident] = [NewLeaf("section", {}) EXCEPT !.doc = b.pay],
                                                   !.names = Append(@, b.ident)] ELSE st, Tail(dict))
Transform(st, inp, dict, parsed, defs) ==
    LET s1 == [st EXCEPT !.node = [n \in DOMAIN st.node |->
                 IF st.node[n].kind = "none" THEN st.node[n]
                 ELSE [st.node[n] EXCEPT !.doc = DocOf(dict, n),
                                         !.target = IF @ = "-" /\ st.node[n].kind = "fn"
                                                    THEN Resolve(DeclOf(inp, n).uses, parsed, defs) ELSE @]]]
        s2 == Pair(s1, inp, s1.names)
    IN Sections(s2, dict)

\* ast.Node.get_main_position over one iteration order of the position set
RECURSIVE MainPosOf(_, _)
MainPosOf(order, res) == IF order = <<>> THEN res
                         ELSE IF Head(order).td THEN MainPosOf(Tail(order), Head(order).p) ELSE Head(order).p
NonTd(S) == {x.p : x \in {y \in S : ~y.td}}
Td(S) == {x.p : x \in {y \in S : y.td}}
Max(S) == CHOOSE x \in S : \A y \in S : x >= y
MainPosSet(S) == IF S = {} THEN {0}
                 ELSE IF MainPosFix THEN {IF NonTd(S) # {} THEN Min(NonTd(S)) ELSE Max(Td(S))}     \* iterate sorted(file_positions)
                 ELSE {MainPosOf(o, 0) : o \in Perms(S)}
RECURSIVE PosFns(_, _)
PosFns(st, N) == IF N = {} THEN {<<>>}
                 ELSE LET n == CHOOSE x \in N : TRUE IN
                      {(n :> p) @@ f : p \in (IF st.node[n].kind = "none" THEN {0} ELSE MainPosSet(st.node[n].poss)), f \in PosFns(st, N \ {n})}

\* GIRWriter: nscmp = (0 for aliases, 1 otherwise; name).  Name keys: a promoted tag is "_<tag>" (sorts
\* after every typedef name in the model), sections carry their own name
NameKey(st, n) == IF st.node[n].hidden THEN 1000 + n ELSE n
NsKey(st, n) == (IF st.node[n].kind = "alias" THEN 0 ELSE 100000) + NameKey(st, n)
Ordered(st, seq, keyed) ==
    IF keyed THEN LET s == StableSort([i \in 1..Len(seq) |-> [key |-> NsKey(st, seq[i]), v |-> seq[i]]]) IN [i \in 1..Len(s) |-> s[i].v]
    ELSE seq
EmitNode(st, n, pos) ==
    LET x == st.node[n]
        ms == Ordered(st, x.methods, SortMembers) IN
    [name |-> NameKey(st, n), kind |-> x.kind, tag |-> x.tag, pos |-> pos[n], opaque |-> x.opaque, fields |-> x.fields, doc |-> x.doc,
     target |-> x.target,
     methods |-> [i \in 1..Len(ms) |-> [name |-> ms[i], pos |-> pos[ms[i]], doc |-> st.node[ms[i]].doc, target |-> st.node[ms[i]].target]]]
Written(st, pos, incl) ==
    LET seq == Ordered(st, st.names, SortNamespace) IN
    [includes |-> incl, nodes |-> [i \in 1..Len(seq) |-> EmitNode(st, seq[i], pos)]]

(* ------------------- two runs, one after the other -------------------- *)
VARIABLES input,    \* the common input of both runs
          turn,     \* 1, 2: which run is executing; 3: both have emitted
          pc,       \* phase of the executing run
          m,        \* its state [parsed, defs, dict, st]
          out,      \* out[c] = what run c emitted
          diag      \* diag[c] = the order of its "unknown parameter" diagnostics (S4; outside the statement)
vars == <<input, turn, pc, m, out, diag>>

Slots(inp) == {inp.decls[i].n : i \in 1..Len(inp.decls)} \cup {Second(inp.decls[i].n) : i \in {j \in 1..Len(inp.decls) : inp.decls[j].pat = "TTS"}}
              \cup {inp.blocks[i].ident : i \in 1..Len(inp.blocks)}
M0(inp) == [parsed |-> <<>>, defs |-> [d \in DepNames |-> {}], dict |-> <<>>,
            st |-> [node |-> [n \in Slots(inp) |-> NoNode], names |-> <<>>, tagns |-> <<>>]]
Init == /\ input \in Inputs
        /\ turn = 1 /\ pc = "includes" /\ m = M0(input)
        /\ out = [c \in {1, 2} |-> <<>>] /\ diag = [c \in {1, 2} |-> <<>>]

\* create_transformer: register_include -> _parse_include -> CacheStore.load | GIRParser.parse + store
LoadIncludes(mode) ==
    /\ pc = "includes"
    /\ \E ord \in SetOrders :
          LET parsed == Register(MainIncl(input), <<>>, ord) IN
          m' = [m EXCEPT !.parsed = parsed,
                         !.defs = [d \in DepNames |-> IF mode = "warm" /\ ~CacheFaithful THEN {} ELSE DepTypes[d]]]
    /\ pc' = "blocks" /\ UNCHANGED <<input, turn, out, diag>>

\* ss.get_comments() in whatever order blocks and the files containing them were supplied
FeedBlocks ==
    /\ pc = "blocks"
    /\ \E perm \in Perms(Range(input.blocks)) : m' = [m EXCEPT !.dict = Blocks(<<>>, perm)]
    /\ pc' = "symbols" /\ UNCHANGED <<input, turn, out, diag>>

FeedSymbols ==
    /\ pc = "symbols"
    /\ \E order \in FeedOrders(input) : m' = [m EXCEPT !.st = Feed(m.st, order)]
    /\ pc' = "promote" /\ UNCHANGED <<input, turn, out, diag>>

PromoteTags ==
    /\ pc = "promote"
    /\ m' = [m EXCEPT !.st = Promote(m.st, m.st.tagns)]
    /\ pc' = "passes" /\ UNCHANGED <<input, turn, out, diag>>

\* the passes; S4: the unknown doc parameters are reported in set order
UnknownParams == IF \E i \in 1..Len(input.decls) : input.decls[i].kind = "fn" THEN {"p", "q"} ELSE {}
Passes ==
    /\ pc = "passes"
    /\ m' = [m EXCEPT !.st = Transform(m.st, input, m.dict, m.parsed, m.defs)]
    /\ \E o \in Perms(UnknownParams) : diag' = [diag EXCEPT ![turn] = o]
    /\ pc' = "emit" /\ UNCHANGED <<input, turn, out>>

Emit ==
    /\ pc = "emit"
    /\ \E pos \in PosFns(m.st, Slots(input)) :
         \E incl \in (IF SortIncludes THEN {SortedIncl(Range(MainIncl(input)))} ELSE Perms(Range(MainIncl(input)))) :
               out' = [out EXCEPT ![turn] = Written(m.st, pos, incl)]
    /\ turn' = turn + 1 /\ pc' = (IF turn = 1 THEN "includes" ELSE "done") /\ m' = M0(input)
    /\ UNCHANGED <<input, diag>>

Next == LoadIncludes("cold") \/ LoadIncludes("warm") \/ FeedBlocks \/ FeedSymbols \/ PromoteTags \/ Passes \/ Emit
Spec == Init /\ [][Next]_vars

(* --------------------------- property layer --------------------------- *)
\* same declarations, blocks, dependency GIRs => byte-identical output, whatever the hash order of any
\* set iteration, the cache history, the block / file order and the typedef/struct order of the two runs
Deterministic == turn = 3 => out[1] = out[2]

\* the order of sibling elements is a fixed function of their names and kinds: aliases first, then by name;
\* methods by name; fields in declaration order
SortedNs(o) == \A i, j \in 1..Len(o.nodes) : i < j =>
                  LET a == o.nodes[i]  b == o.nodes[j]
                      ra == IF a.kind = "alias" THEN 0 ELSE 1  rb == IF b.kind = "alias" THEN 0 ELSE 1
                  IN ra < rb \/ (ra = rb /\ a.name < b.name)
SortedMethods(o) == \A k \in 1..Len(o.nodes) : \A i, j \in 1..Len(o.nodes[k].methods) : i < j =>
                        o.nodes[k].methods[i].name < o.nodes[k].methods[j].name
FieldsInDeclOrder(o) == \A k \in 1..Len(o.nodes) :
                          (o.nodes[k].kind = "rec" /\ o.nodes[k].fields # <<>> /\ ~DupBodies) =>
                             o.nodes[k].fields = Fields(o.nodes[k].tag)
SortedIncludes(o) == \A i, j \in 1..Len(o.includes) : i < j => IncKey(o.includes[i]) < IncKey(o.includes[j])
SiblingOrder == \A c \in {1, 2} : turn > c =>
                   /\ SortedNs(out[c]) /\ SortedMethods(out[c]) /\ FieldsInDeclOrder(out[c]) /\ SortedIncludes(out[c])

\* outside the statement (S4): the order of diagnostics is NOT deterministic; a witness configuration shows it
DiagDeterministic == turn = 3 => diag[1] = diag[2]
=============================================================================

INIT Init
NEXT Next
CONSTANTS
  FlatLen = 4
  Mode = "hidden"
  Small = FALSE
INVARIANT ImplSatisfiesPropertyAll
CHECK_DEADLOCK FALSE

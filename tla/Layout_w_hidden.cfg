INIT Init
NEXT Next
CONSTANTS
  FlatLen = 4
  Mode = "hidden"
  EnumCap32 = FALSE
  UnionFieldCallback = TRUE
  Small = FALSE
INVARIANT ImplSatisfiesPropertyAll
CHECK_DEADLOCK FALSE

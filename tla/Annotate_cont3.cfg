SPECIFICATION Spec
CONSTANTS
  Which = "cont3"
  Cases <- MC_Cases
INVARIANT ImplSatisfiesProperty
CHECK_DEADLOCK FALSE

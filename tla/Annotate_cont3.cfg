SPECIFICATION MCSpec
CONSTANTS
  Dev = {}
  Which = "cont3"
  Cases <- NoCases
INVARIANT ImplSatisfiesProperty
CHECK_DEADLOCK FALSE

SPECIFICATION Spec
CONSTANTS
  NS <- MC_NS
  Dirs <- MC_Dirs2
  VChars <- MC_VChars
  DiskConfigs <- MC_DiskBad
  EnvConfigs <- MC_EnvC
  MaxCalls = 3
  Ops <- MC_OpsDeps
  ReqVers <- MC_V4
  Lazies <- MC_Eager
  Dev <- MC_DevClosure
  Known <- MC_KnownDesign
CHECK_DEADLOCK FALSE
INVARIANT NoW_closure_conflict

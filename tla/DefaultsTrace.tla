---------------------------- MODULE DefaultsTrace ----------------------------
(***************************************************************************)
(* C02 property layer evaluated by TLC on observations of the REAL scanner *)
(* (symgen -> Transformer -> MainTransformer -> IntrospectablePass ->      *)
(* GIRWriter, projected by harness/props/c02.py).  Batch idiom (A.2).      *)
(*                                                                         *)
(* One record per case:                                                    *)
(*   [id, c, o]                                                            *)
(*   c = the abstract case exactly as exported by DefaultsMC               *)
(*       val: [k, pos, ann, base, depth, quals]   arr: [k, kind, roles]    *)
(*   o = the projected GIR                                                 *)
(*       val: [present, tag ("type"|"array"), name, elems (names of the    *)
(*             child types), cbase/cdepth/cquals (the c:type attribute     *)
(*             parsed into the spelling abstraction), transfer ("" when    *)
(*             absent), nullable, direction ("in" when absent on a         *)
(*             parameter, "" elsewhere), callerAlloc]                      *)
(*       arr: [present, throws, params <<[role (from the parameter name),  *)
(*             scope, closure, destroy (-1 when absent), transfer,         *)
(*             nullable]>>]  -- emitted <parameter>s only (no instance     *)
(*             parameter); a removed GError** is simply not in the list    *)
(* Rejected: <<id, clause, detail>>; clause "DRIFT" = the observation is   *)
(* not the one the implementation-shaped layer predicts (a note, never an  *)
(* alarm: the verdict is formed by the property clauses only).             *)
(***************************************************************************)
EXTENDS Defaults, Json, IOUtils, SequencesExt

Obs == JsonDeserialize(IOEnv.TRACE_FILE)

AllNames == ValNames \cup ArrNames
Applies(cl, r) == cl \in Names(r.c)

Detail(cl, r) ==
    IF r.c.k = "val" THEN
        (IF ValTriaged(cl, r.c) THEN "triaged-deviation" ELSE "-")
    ELSE "-"

Violations == { <<Obs[q[1]].id, q[2], Detail(q[2], Obs[q[1]])>> :
                   q \in { p \in (1..Len(Obs)) \X AllNames :
                             Applies(p[2], Obs[p[1]]) /\ ~Holds(p[2], Obs[p[1]].c, Obs[p[1]].o) } }
Drifted == { <<Obs[i].id, "DRIFT", IF Obs[i].o.present THEN "differs-from-impl-layer" ELSE "not-emitted">> :
                   i \in { j \in 1..Len(Obs) : Obs[j].o # Impl(Obs[j].c) } }
Rejected == Violations \cup Drifted

Exercised == [cl \in AllNames |->
                 Cardinality({i \in 1..Len(Obs) : Applies(cl, Obs[i]) /\ Ante(cl, Obs[i].c, Obs[i].o)})]

ASSUME JsonSerialize(IOEnv.VERDICT_FILE, [n |-> Len(Obs), rejected |-> SetToSeq(Rejected), exercised |-> Exercised])

VARIABLE done
Init == done = FALSE
Next == ~done /\ done' = TRUE
=============================================================================

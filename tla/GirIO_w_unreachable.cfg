INIT Init
NEXT Next
CONSTANTS
  Defects = {}
  Rich = FALSE
  AllModels = TRUE
  KindSel = {"type", "function"}
INVARIANTS ReadableInv FixedPointInv AgreeInv
CHECK_DEADLOCK FALSE

---------------------------- MODULE IntrospectMC ----------------------------
EXTENDS Introspect
Id2 == {<<1, 2>>}
Perm2 == {<<1, 2>>, <<2, 1>>}
Id3 == {<<1, 2, 3>>}
Id4 == {<<1, 2, 3, 4>>}
Id5 == {<<1, 2, 3, 4, 5>>}
Perm3 == {<<1, 2, 3>>, <<1, 3, 2>>, <<2, 1, 3>>, <<2, 3, 1>>, <<3, 1, 2>>, <<3, 2, 1>>}
K_callables == {"alias", "callback", "function"}
K_compound  == {"alias", "callback", "function", "record"}
K_skip      == {"alias", "callback", "function", "record", "enum"}
K_class     == {"alias", "callback", "record", "class", "function"}
K_flags     == {"alias", "callback", "function", "record"}
K_cbalias   == {"alias", "callback"}
K_all       == {"alias", "callback", "function", "record", "enum", "class"}
TK_core  == {"fund", "varargs", "valist", "unres", "node"}
TK_full  == {"fund", "valist", "longlong", "longdouble", "varargs", "unres", "foreign", "node"}
TK_chain == {"fund", "varargs", "node"}
TK_small == {"fund", "unres", "node"}
TK_chain4 == {"fund", "varargs", "valist", "node"}
TK_quick == {"fund", "valist", "longlong", "varargs", "unres", "node"}
\* findings of the implementation layer under C declaration order
Known_c  == {"alias-to-nonintrospectable-callback"}
\* ... plus the ones that need a use-before-declaration order (not producible from a C header)
Known_any == Known_c \cup {"alias-to-nonintrospectable-callback@use-before-declaration",
                           "alias-to-nonintrospectable-alias@use-before-declaration",
                           "function-to-nonintrospectable-callback@use-before-declaration",
                           "callback-to-nonintrospectable-callback@use-before-declaration"}
None == {}
W_alias_cb == {"alias-to-nonintrospectable-callback"}
W_alias_alias == {"alias-to-nonintrospectable-alias@use-before-declaration"}
W_fn_cb == {"function-to-nonintrospectable-callback@use-before-declaration"}
W_cb_cb == {"callback-to-nonintrospectable-callback@use-before-declaration"}
=============================================================================

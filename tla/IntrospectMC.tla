---------------------------- MODULE IntrospectMC ----------------------------
EXTENDS Introspect
Id2 == {<<1, 2>>}
Perm2 == {<<1, 2>>, <<2, 1>>}
Id3 == {<<1, 2, 3>>}
Id4 == {<<1, 2, 3, 4>>}
Id5 == {<<1, 2, 3, 4, 5>>}
Perm3 == {<<1, 2, 3>>, <<1, 3, 2>>, <<2, 1, 3>>, <<2, 3, 1>>, <<3, 1, 2>>, <<3, 2, 1>>}
K_callables == {"alias", "callback", "function"}
K_compound  == {"alias", "callback", "function", "record"}
K_skip      == {"alias", "callback", "function", "record", "enum"}
K_class     == {"alias", "callback", "record", "class", "function"}
K_flags     == {"alias", "callback", "function", "record"}
K_cbalias   == {"alias", "callback"}
K_all       == {"alias", "callback", "function", "record", "enum", "class"}
TK_core  == {"fund", "varargs", "valist", "unres", "node"}
TK_full  == {"fund", "valist", "longlong", "longdouble", "varargs", "unres", "foreign", "node"}
TK_chain == {"fund", "varargs", "node"}
TK_small == {"fund", "unres", "node"}
TK_chain4 == {"fund", "varargs", "valist", "node"}
TK_quick == {"fund", "valist", "longlong", "varargs", "unres", "node"}
K_alias     == {"alias"}
TK_alias == {"fund", "valist", "node"}
\* Shapes of Closed violations the implementation-shaped layer is known to reach.
\* Under C declaration order (the only order a translation unit can produce): none since /repo 8003e8e.
Known_c  == {}
\* Under use-before-declaration orders (not producible from a C header; explored to show that the closure
\* rests on the declaration order: two callable-analysis walks are a fixed point only for chains declared
\* before use): every owner kind x {alias, callback} target
Known_ubd == {"alias-to-nonintrospectable-callback@use-before-declaration",
              "alias-to-nonintrospectable-alias@use-before-declaration",
              "function-to-nonintrospectable-callback@use-before-declaration",
              "function-to-nonintrospectable-alias@use-before-declaration",
              "callback-to-nonintrospectable-callback@use-before-declaration",
              "callback-to-nonintrospectable-alias@use-before-declaration"}
Known_any == Known_c \cup Known_ubd
None == {}
\* what-if AliasRecheck = FALSE (the code before /repo 8003e8e), C declaration order
W_alias_cb == {"alias-to-nonintrospectable-callback"}
\* current code, use-before-declaration orders
W_alias_alias == {"alias-to-nonintrospectable-alias@use-before-declaration"}
W_fn_cb == {"function-to-nonintrospectable-callback@use-before-declaration"}
W_cb_cb == {"callback-to-nonintrospectable-callback@use-before-declaration"}
\* what-if RenameScopeCheck = FALSE (the code before /repo 207651c)
W_rename == {"shadows-not-mutual", "shadowed-by-not-mutual"}
K_fncls == {"function", "class"}
\* what-if CallableWalks = 1, C declaration order: a method of a record declared before the callback it takes
W_one_walk == {"method-to-nonintrospectable-callback"}
K_method == {"record", "callback", "function"}
K_hosted == {"record", "callback", "alias", "function"}
TK_method == {"fund", "valist", "node"}
W_fn_alias == {"function-to-nonintrospectable-alias@use-before-declaration"}
=============================================================================

INIT Init
NEXT Next
CONSTANTS
  Defects = {}
  Rich = FALSE
CHECK_DEADLOCK FALSE

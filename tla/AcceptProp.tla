----------------------------- MODULE AcceptProp -----------------------------
(* C15 -- property layer: "whatever the scanner writes, the typelib compiler accepts", over OBSERVABLES only.

   Two kinds of observation (the same records are produced by the consumer model of Accept.tla for the
   documents of its producer model, and by harness/c15lib.py for the real g-ir-compiler):

   doc   g = [family, ns, version, nelems, includes, sharedLibrary]                        what the GIR file states
         b = [rc, nlines, flagged, produced, decoded, decodeError, revalidated, ns, version, nlocal]
             rc        exit status of g-ir-compiler (negative: killed by that signal; 999: did not terminate)
             flagged   the output lines (stderr and stdout) that contain one of the words
                       error / warning / critical / assertion (any case), each with the words found
             produced  a typelib file was written;  decoded  the independent decoder read it
             revalidated  "ok" | "invalid: .." | "not-run"   g_typelib_validate on the written file (driver)

   elem  one record per GIR element for which the typelib format has a blob: top-level function, callback,
         enumeration, bitfield, class, interface, record, union, glib:boxed, constant and the members method,
         constructor, function, virtual-method, property, glib:signal, field, member (of the containers).
         g = what the GIR states: raw attribute strings ("" = attribute absent), marked0 = the element itself
             carries introspectable="0", anc0 = its container does
         b = [ownerFound, ownerKind, cands]: the blobs of the decoded typelib that sit in the section the
             element belongs to and are named like the element or like its `shadows` attribute; every
             candidate = [kind, name, symbol, deprecated, fl] with the decoded bits spelled in the GIR's words.

   Where the statement is silent the clauses are TRUE: documentation, source positions, c:type spellings,
   type names (C06's subject), aliases (expanded by the compiler), inline functions and function macros
   (no symbol to call), doc sections, anonymous nested members (no blob kind), attributes the typelib has no
   field for (version, stability, disguised/opaque/pointer, default-value, emitter, moved-to, glib:nick..).

   How the compiler defines renames (girparser.c introspectable_prelude / start_function):
     * an element carrying `shadowed-by` is dropped like a non-introspectable one: the statement is silent
       about its own presence, but its NAME must still be served (ShadowedServed) -- by the element that
       shadows it;
     * an element carrying `shadows="n"` is exposed under the name n;
     * `moved-to` changes nothing in the typelib.                                                          *)
EXTENDS Naturals, Integers, Sequences, FiniteSets

Is1(s) == s = "1"
ElemsOfSeq(s) == {s[i] : i \in 1..Len(s)}

(* ------------------------------------------------------------------------------------------------------ doc *)
Accepted(g, b)   == b.rc = 0
\* (a run that failed is reported by Accepted, with its message)
Quiet(g, b)      == b.rc = 0 => b.flagged = <<>>
Validates(g, b)  == b.rc = 0 => (b.produced /\ b.decoded /\ b.revalidated = "ok")
Identity(g, b)   == (b.rc = 0 /\ b.decoded) => (b.ns = g.ns /\ b.version = g.version)
DocClauses(g, b) == [Accepted |-> Accepted(g, b), Quiet |-> Quiet(g, b), Validates |-> Validates(g, b), Identity |-> Identity(g, b)]
DocNames == {"Accepted", "Quiet", "Validates", "Identity"}

(* ----------------------------------------------------------------------------------------------------- elem *)
CallableTags == {"function", "method", "constructor", "callback", "virtual-method", "glib:signal"}
\* blob kind the typelib format has for a GIR tag (decoder's kind words)
KindOf(tag, level) ==
    CASE tag \in {"function", "method", "constructor"} -> {"function"}
      [] tag = "callback" -> {"callback"}
      [] tag = "virtual-method" -> {"vfunc"}
      [] tag = "glib:signal" -> {"signal"}
      [] tag = "property" -> {"property"}
      [] tag = "field" -> {"field"}
      [] tag = "member" -> {"value"}
      [] tag = "constant" -> {"constant"}
      [] tag = "enumeration" -> {"enum"}
      [] tag = "bitfield" -> {"flags"}
      [] tag = "class" -> {"object"}
      [] tag = "interface" -> {"interface"}
      [] tag = "record" -> {"struct"}
      [] tag = "union" -> {"union"}
      [] tag = "glib:boxed" -> {"boxed"}
      [] OTHER -> {}

Introspectable(g) == ~g.marked0 /\ ~g.anc0
\* the name under which the compiler exposes the element
ExposedName(g) == IF g.shadows # "" THEN g.shadows ELSE g.name
\* "this blob is that element": same section (given), right kind, and for functions the same C symbol
IsIt(g, c) == /\ c.kind \in KindOf(g.tag, g.level)
              /\ (g.tag \in {"function", "method", "constructor"} => c.symbol = g.cid)
Hits(g, b)      == {c \in ElemsOfSeq(b.cands) : IsIt(g, c) /\ c.name = ExposedName(g)}
AnyHits(g, b)   == {c \in ElemsOfSeq(b.cands) : IsIt(g, c)}                      \* under whichever name
The(g, b)       == CHOOSE c \in Hits(g, b) : TRUE

\* interface fields have no section in an InterfaceBlob; everything else listed in KindOf has
HasBlobKind(g) == KindOf(g.tag, g.level) # {}

Exposed(g, b) == (Introspectable(g) /\ g.shadowedBy = "" /\ HasBlobKind(g)) => Hits(g, b) # {}
Absent(g, b)  == (~Introspectable(g) /\ HasBlobKind(g)) => AnyHits(g, b) = {}
ShadowedServed(g, b) == (Introspectable(g) /\ g.shadowedBy # "" /\ g.tag \in {"function", "method", "constructor"}) =>
                            \E c \in ElemsOfSeq(b.cands) : c.kind = "function" /\ c.name = g.name

\* the flag clauses speak about an introspectable, exposed element
Judged(g, b) == Introspectable(g) /\ g.shadowedBy = "" /\ Hits(g, b) # {}

Dep(g, c) == c.deprecated = (g.deprecated # "")
\* blob kinds that have a `deprecated` bit (VFuncBlob, FieldBlob, ArgBlob have none)
HasDepBit(g) == g.tag \notin {"virtual-method", "field"}
Deprecated(g, b) == (Judged(g, b) /\ HasDepBit(g)) => Dep(g, The(g, b))

(* callables *)
IsCallable(g) == g.tag \in CallableTags
JC(g, b) == Judged(g, b) /\ IsCallable(g)
Transfer(s) == s        \* "none" | "container" | "full"  on both sides ("" = not stated)
DirOf(v) == IF v.direction = "" THEN "in" ELSE v.direction
\* allow-none alone (files written before nullable/optional existed) is ambiguous: silent
Ambiguous(v) == Is1(v.allowNone) /\ ~Is1(v.nullable) /\ ~Is1(v.optional)
PIdx(g, c) == 1..(IF Len(g.fl.params) < Len(c.fl.params) THEN Len(g.fl.params) ELSE Len(c.fl.params))
AllP(g, b, P(_, _)) == LET c == The(g, b) IN \A i \in PIdx(g, c) : P(g.fl.params[i], c.fl.params[i])

Throws(g, b) == (JC(g, b) /\ g.tag # "glib:signal") => The(g, b).fl.throws = Is1(g.fl.throws)
CallableKind(g, b) == (Judged(g, b) /\ g.tag \in {"function", "method", "constructor"}) =>
    LET f == The(g, b).fl IN
    CASE g.tag = "constructor" -> f.constructor
      [] g.tag = "method" -> ~f.constructor /\ ~f.isStatic
      [] OTHER -> ~f.constructor /\ f.isStatic
Accessor(g, b) == (Judged(g, b) /\ g.tag \in {"method", "constructor"}) =>
    LET f == The(g, b).fl IN
    /\ f.setter = (g.fl.setProp # "")
    /\ f.getter = (g.fl.setProp = "" /\ g.fl.getProp # "")
    /\ (g.fl.setProp # "" => f.propName = g.fl.setProp)
    /\ ((g.fl.setProp = "" /\ g.fl.getProp # "") => f.propName = g.fl.getProp)
RetTransfer(g, b) == (JC(g, b) /\ g.fl.hasRet /\ g.fl.ret.transfer # "") => The(g, b).fl.ret.transfer = g.fl.ret.transfer
RetNullable(g, b) == (JC(g, b) /\ g.fl.hasRet /\ ~Ambiguous(g.fl.ret)) => The(g, b).fl.ret.nullable = Is1(g.fl.ret.nullable)
RetSkip(g, b)     == (JC(g, b) /\ g.fl.hasRet) => The(g, b).fl.ret.skip = Is1(g.fl.ret.skip)
InstanceTransfer(g, b) == (JC(g, b) /\ g.fl.hasInst /\ g.fl.inst # "") => The(g, b).fl.inst = g.fl.inst
ParamsInOrder(g, b) == JC(g, b) =>
    LET c == The(g, b) IN /\ Len(c.fl.params) = Len(g.fl.params)
                          /\ \A i \in PIdx(g, c) : g.fl.params[i].name # "" => c.fl.params[i].name = g.fl.params[i].name
ParamDirection(g, b) == JC(g, b) => AllP(g, b, LAMBDA p, q : q.direction = DirOf(p))
\* caller-allocates is a property of out parameters; the GIR states it for out and inout
ParamCallerAllocates(g, b) == JC(g, b) => AllP(g, b, LAMBDA p, q : p.ca # "" => q.ca = Is1(p.ca))
ParamTransfer(g, b) == JC(g, b) => AllP(g, b, LAMBDA p, q : p.transfer # "" => q.transfer = p.transfer)
ParamNullable(g, b) == JC(g, b) => AllP(g, b, LAMBDA p, q : ~Ambiguous(p) => q.nullable = Is1(p.nullable))
ParamOptional(g, b) == JC(g, b) => AllP(g, b, LAMBDA p, q : ~Ambiguous(p) => q.optional = Is1(p.optional))
ParamScope(g, b)    == JC(g, b) => AllP(g, b, LAMBDA p, q : q.scope = (IF p.scope = "" THEN "invalid" ELSE p.scope))
ParamClosure(g, b)  == JC(g, b) => AllP(g, b, LAMBDA p, q : q.closure = p.closure)
ParamDestroy(g, b)  == JC(g, b) => AllP(g, b, LAMBDA p, q : q.destroy = p.destroy)
ParamSkip(g, b)     == JC(g, b) => AllP(g, b, LAMBDA p, q : q.skip = Is1(p.skip))

(* signals, virtual methods *)
SignalWhen(g, b) == (Judged(g, b) /\ g.tag = "glib:signal" /\ g.fl.when # "") =>
    The(g, b).fl.when = (CASE g.fl.when \in {"first", "FIRST"} -> "first" [] g.fl.when \in {"last", "LAST"} -> "last"
                           [] g.fl.when \in {"cleanup", "CLEANUP"} -> "cleanup" [] OTHER -> "?")
SignalFlags(g, b) == (Judged(g, b) /\ g.tag = "glib:signal") =>
    LET f == The(g, b).fl IN /\ f.noRecurse = Is1(g.fl.noRecurse) /\ f.detailed = Is1(g.fl.detailed)
                             /\ f.action = Is1(g.fl.action) /\ f.noHooks = Is1(g.fl.noHooks)
VFuncInvoker(g, b) == (Judged(g, b) /\ g.tag = "virtual-method") =>
    LET f == The(g, b).fl IN IF g.fl.invoker = "" THEN ~f.hasInvoker ELSE f.hasInvoker /\ f.invokerName = g.fl.invoker

(* properties, fields *)
\* "Properties are assumed to be readable", "Fields are assumed to be read-only" (girwriter.py, girparser.c, generate.c agree)
Readable(s) == s # "0"
Writable(s) == s = "1"
PropFlags(g, b) == (Judged(g, b) /\ g.tag = "property") =>
    LET f == The(g, b).fl IN /\ f.readable = Readable(g.fl.readable) /\ f.writable = Writable(g.fl.writable)
                             /\ f.construct = Is1(g.fl.construct) /\ f.constructOnly = Is1(g.fl.constructOnly)
PropTransfer(g, b) == (Judged(g, b) /\ g.tag = "property" /\ g.fl.transfer # "") => The(g, b).fl.transfer = g.fl.transfer
PropAccessors(g, b) == (Judged(g, b) /\ g.tag = "property") =>
    LET f == The(g, b).fl IN
    /\ (IF g.fl.setter = "" THEN ~f.hasSetter ELSE f.hasSetter /\ f.setterName = g.fl.setter)
    /\ (IF g.fl.getter = "" THEN ~f.hasGetter ELSE f.hasGetter /\ f.getterName = g.fl.getter)
FieldFlags(g, b) == (Judged(g, b) /\ g.tag = "field") =>
    LET f == The(g, b).fl IN f.readable = Readable(g.fl.readable) /\ f.writable = Writable(g.fl.writable)

(* enumerations, constants *)
\* (two members of one enumeration may carry the same name: one of the same-named values has to be this one)
MemberValue(g, b) == (Judged(g, b) /\ g.tag = "member" /\ g.fl.low32 # "") => \E c \in Hits(g, b) : c.fl.low32 = g.fl.low32
EnumMembers(g, b) == (Judged(g, b) /\ g.tag \in {"enumeration", "bitfield"}) =>
    LET want == g.fl.members have == The(g, b).fl.members IN
    \* every member the GIR leaves introspectable, in the GIR's order (the typelib may hold more: see Absent)
    \A i \in 1..Len(want) : \E j \in 1..Len(have) : /\ have[j][1] = want[i][1]
                                                    /\ (want[i][2] # "" => have[j][2] = want[i][2])
                                                    /\ \A i2 \in 1..(i - 1) : \E j2 \in 1..(j - 1) : have[j2][1] = want[i2][1]
EnumErrorDomain(g, b) == (Judged(g, b) /\ g.tag \in {"enumeration", "bitfield"}) => The(g, b).fl.errorDomain = g.fl.errorDomain
\* value the literal denotes: integers by their residue modulo the stored width, booleans true/false = 1/0,
\* floating point by the shortest repr of the IEEE value, text verbatim
ConstValue(g, b) == (Judged(g, b) /\ g.tag = "constant") =>
    LET f == The(g, b).fl IN
    CASE f.cls = "int"   -> g.fl.fits[f.fit] => g.fl.residues[f.width] = f.value        \* a literal outside the range of the stored type: silent
      [] f.cls = "bool"  -> (g.fl.value \in {"true", "TRUE", "True"} \/ g.fl.residues["64"] \notin {"", "0"}) = (f.value # "0")
      [] f.cls = "float" -> (IF f.tag = "gfloat" THEN g.fl.fvalue32 ELSE g.fl.fvalue) = f.value
      [] f.cls = "text"  -> g.fl.value = f.value
      [] OTHER -> TRUE

(* registered types, classes, interfaces, records *)
GTypeNames(g, b) == (Judged(g, b) /\ g.tag \in {"class", "interface", "record", "union", "glib:boxed", "enumeration", "bitfield"}) =>
    LET f == The(g, b).fl IN f.typeName = g.fl.typeName /\ f.getType = g.fl.getType
\* a reference as the GIR writes it ("Name" local, "Ns.Name" other namespace) against the directory entry it resolved to
SameRef(ns, r, d) == d = r \/ d = ns \o "." \o r \/ r = ns \o "." \o d
ClassParent(g, b) == (Judged(g, b) /\ g.tag = "class") =>
    IF g.fl.parent = "" THEN The(g, b).fl.parent = "" ELSE SameRef(g.ns, g.fl.parent, The(g, b).fl.parent)
ClassFlags(g, b) == (Judged(g, b) /\ g.tag = "class") =>
    LET f == The(g, b).fl IN f.abstract = Is1(g.fl.abstract) /\ f.final = Is1(g.fl.final) /\ f.fundamental = Is1(g.fl.fundamental)
SeqSameRefs(ns, rs, ds) == Len(rs) = Len(ds) /\ \A i \in 1..Len(rs) : SameRef(ns, rs[i], ds[i])
ClassInterfaces(g, b) == (Judged(g, b) /\ g.tag = "class") => SeqSameRefs(g.ns, g.fl.implements, The(g, b).fl.interfaces)
IfacePrerequisites(g, b) == (Judged(g, b) /\ g.tag = "interface") => SeqSameRefs(g.ns, g.fl.prerequisites, The(g, b).fl.prerequisites)
TypeStruct(g, b) == (Judged(g, b) /\ g.tag \in {"class", "interface"}) =>
    IF g.fl.typeStruct = "" THEN The(g, b).fl.typeStruct = "" ELSE SameRef(g.ns, g.fl.typeStruct, The(g, b).fl.typeStruct)
RecordFlags(g, b) == (Judged(g, b) /\ g.tag = "record") =>
    LET f == The(g, b).fl IN /\ f.foreign = Is1(g.fl.foreign) /\ f.isGtypeStruct = (g.fl.gtypeStructFor # "")
                             /\ f.copyFunc = g.fl.copyFunc /\ f.freeFunc = g.fl.freeFunc

(* sub-classes of failing input that recorded findings are matched on (reporting in AcceptTrace, tolerance in AcceptMC) *)
\* the parameters whose optional bit differs from what the GIR states
BadOptional(g, b) == LET c == The(g, b) IN {i \in PIdx(g, c) : ~Ambiguous(g.fl.params[i]) /\ c.fl.params[i].optional # Is1(g.fl.params[i].optional)}
OnlyInoutAllowNone(g, b) == \A i \in BadOptional(g, b) : LET p == g.fl.params[i] IN
                                p.direction = "inout" /\ Is1(p.nullable) /\ Is1(p.allowNone) /\ ~Is1(p.optional)
BadCallerAllocates(g, b) == LET c == The(g, b) IN {i \in PIdx(g, c) : g.fl.params[i].ca # "" /\ c.fl.params[i].ca # Is1(g.fl.params[i].ca)}
OnlyInoutCallerAllocates(g, b) == \A i \in BadCallerAllocates(g, b) : g.fl.params[i].direction = "inout" /\ Is1(g.fl.params[i].ca)
\* the member a reference names is not exposed by the container at all (b.ownerMethods / b.ownerProps: names the container exposes)
TargetAbsent(g, b, c) ==
    CASE c = "VFuncInvoker" -> g.fl.invoker \notin ElemsOfSeq(b.ownerMethods)
      [] c = "PropAccessors" -> (g.fl.setter # "" /\ g.fl.setter \notin ElemsOfSeq(b.ownerMethods))
                                \/ (g.fl.getter # "" /\ g.fl.getter \notin ElemsOfSeq(b.ownerMethods))
      [] c = "Accessor" -> (g.fl.setProp # "" /\ g.fl.setProp \notin ElemsOfSeq(b.ownerProps))
                           \/ (g.fl.setProp = "" /\ g.fl.getProp \notin ElemsOfSeq(b.ownerProps))
      [] OTHER -> FALSE

ElemClauses(g, b) == [
    Exposed |-> Exposed(g, b), Absent |-> Absent(g, b), ShadowedServed |-> ShadowedServed(g, b), Deprecated |-> Deprecated(g, b),
    Throws |-> Throws(g, b), CallableKind |-> CallableKind(g, b), Accessor |-> Accessor(g, b),
    RetTransfer |-> RetTransfer(g, b), RetNullable |-> RetNullable(g, b), RetSkip |-> RetSkip(g, b),
    InstanceTransfer |-> InstanceTransfer(g, b), ParamsInOrder |-> ParamsInOrder(g, b), ParamDirection |-> ParamDirection(g, b),
    ParamCallerAllocates |-> ParamCallerAllocates(g, b), ParamTransfer |-> ParamTransfer(g, b), ParamNullable |-> ParamNullable(g, b),
    ParamOptional |-> ParamOptional(g, b), ParamScope |-> ParamScope(g, b), ParamClosure |-> ParamClosure(g, b),
    ParamDestroy |-> ParamDestroy(g, b), ParamSkip |-> ParamSkip(g, b),
    SignalWhen |-> SignalWhen(g, b), SignalFlags |-> SignalFlags(g, b), VFuncInvoker |-> VFuncInvoker(g, b),
    PropFlags |-> PropFlags(g, b), PropTransfer |-> PropTransfer(g, b), PropAccessors |-> PropAccessors(g, b), FieldFlags |-> FieldFlags(g, b),
    MemberValue |-> MemberValue(g, b), EnumMembers |-> EnumMembers(g, b), EnumErrorDomain |-> EnumErrorDomain(g, b), ConstValue |-> ConstValue(g, b),
    GTypeNames |-> GTypeNames(g, b), ClassParent |-> ClassParent(g, b), ClassFlags |-> ClassFlags(g, b), ClassInterfaces |-> ClassInterfaces(g, b),
    IfacePrerequisites |-> IfacePrerequisites(g, b), TypeStruct |-> TypeStruct(g, b), RecordFlags |-> RecordFlags(g, b) ]
ElemNames == {"Exposed", "Absent", "ShadowedServed", "Deprecated", "Throws", "CallableKind", "Accessor", "RetTransfer", "RetNullable",
              "RetSkip", "InstanceTransfer", "ParamsInOrder", "ParamDirection", "ParamCallerAllocates", "ParamTransfer", "ParamNullable",
              "ParamOptional", "ParamScope", "ParamClosure", "ParamDestroy", "ParamSkip", "SignalWhen", "SignalFlags", "VFuncInvoker",
              "PropFlags", "PropTransfer", "PropAccessors", "FieldFlags", "MemberValue", "EnumMembers", "EnumErrorDomain", "ConstValue",
              "GTypeNames", "ClassParent", "ClassFlags", "ClassInterfaces", "IfacePrerequisites", "TypeStruct", "RecordFlags"}

\* when a clause speaks (vacuity accounting)
ElemAnte(g, b, c) ==
    CASE c = "Exposed" -> Introspectable(g) /\ g.shadowedBy = "" /\ HasBlobKind(g)
      [] c = "Absent" -> ~Introspectable(g) /\ HasBlobKind(g)
      [] c = "ShadowedServed" -> Introspectable(g) /\ g.shadowedBy # "" /\ g.tag \in {"function", "method", "constructor"}
      [] ~Judged(g, b) -> FALSE
      [] c = "Deprecated" -> HasDepBit(g) /\ g.deprecated # ""
      [] c = "Throws" -> IsCallable(g) /\ Is1(g.fl.throws)
      [] c = "CallableKind" -> g.tag \in {"function", "method", "constructor"}
      [] c = "Accessor" -> g.tag \in {"method", "constructor"} /\ (g.fl.setProp # "" \/ g.fl.getProp # "")
      [] c \in {"RetTransfer", "RetNullable", "RetSkip"} -> IsCallable(g) /\ g.fl.hasRet /\
                 (CASE c = "RetTransfer" -> g.fl.ret.transfer \notin {"", "none"} [] c = "RetNullable" -> Is1(g.fl.ret.nullable) [] OTHER -> Is1(g.fl.ret.skip))
      [] c = "InstanceTransfer" -> IsCallable(g) /\ g.fl.hasInst
      [] c = "ParamsInOrder" -> IsCallable(g) /\ g.fl.params # <<>>
      [] c = "ParamDirection" -> IsCallable(g) /\ \E i \in 1..Len(g.fl.params) : g.fl.params[i].direction \in {"out", "inout"}
      [] c = "ParamCallerAllocates" -> IsCallable(g) /\ \E i \in 1..Len(g.fl.params) : Is1(g.fl.params[i].ca)
      [] c = "ParamTransfer" -> IsCallable(g) /\ \E i \in 1..Len(g.fl.params) : g.fl.params[i].transfer \in {"full", "container"}
      [] c = "ParamNullable" -> IsCallable(g) /\ \E i \in 1..Len(g.fl.params) : Is1(g.fl.params[i].nullable)
      [] c = "ParamOptional" -> IsCallable(g) /\ \E i \in 1..Len(g.fl.params) : Is1(g.fl.params[i].optional)
      [] c = "ParamScope" -> IsCallable(g) /\ \E i \in 1..Len(g.fl.params) : g.fl.params[i].scope # ""
      [] c = "ParamClosure" -> IsCallable(g) /\ \E i \in 1..Len(g.fl.params) : g.fl.params[i].closure >= 0
      [] c = "ParamDestroy" -> IsCallable(g) /\ \E i \in 1..Len(g.fl.params) : g.fl.params[i].destroy >= 0
      [] c = "ParamSkip" -> IsCallable(g) /\ \E i \in 1..Len(g.fl.params) : Is1(g.fl.params[i].skip)
      [] c = "SignalWhen" -> g.tag = "glib:signal" /\ g.fl.when # ""
      [] c = "SignalFlags" -> g.tag = "glib:signal"
      [] c = "VFuncInvoker" -> g.tag = "virtual-method" /\ g.fl.invoker # ""
      [] c \in {"PropFlags", "PropTransfer"} -> g.tag = "property"
      [] c = "PropAccessors" -> g.tag = "property" /\ (g.fl.setter # "" \/ g.fl.getter # "")
      [] c = "FieldFlags" -> g.tag = "field"
      [] c = "MemberValue" -> g.tag = "member"
      [] c \in {"EnumMembers", "EnumErrorDomain"} -> g.tag \in {"enumeration", "bitfield"} /\ (c = "EnumMembers" \/ g.fl.errorDomain # "")
      [] c = "ConstValue" -> g.tag = "constant"
      [] c = "GTypeNames" -> g.tag \in {"class", "interface", "record", "union", "glib:boxed", "enumeration", "bitfield"} /\ g.fl.typeName # ""
      [] c \in {"ClassParent", "ClassFlags", "ClassInterfaces"} -> g.tag = "class" /\ (c # "ClassInterfaces" \/ g.fl.implements # <<>>)
      [] c = "IfacePrerequisites" -> g.tag = "interface" /\ g.fl.prerequisites # <<>>
      [] c = "TypeStruct" -> g.tag \in {"class", "interface"} /\ g.fl.typeStruct # ""
      [] c = "RecordFlags" -> g.tag = "record"
      [] OTHER -> FALSE
=============================================================================

----------------------------- MODULE CacheTrace -----------------------------
(***************************************************************************)
(* Trace validation for C18: event traces recorded from the REAL           *)
(* giscanner.cachestore / Transformer._parse_include running under the     *)
(* harness scheduler are replayed through the actions of Cache.tla, with   *)
(* every logged result bound to the model's state.  The property layer     *)
(* (NoStale with its root cause, NoTorn, NoCrossVersion, PurgeEffective)   *)
(* is evaluated in every state of every trace.  Many traces per TLC run.   *)
(*                                                                         *)
(* A trace whose next event no action can explain is recorded as DRIFT     *)
(* (the code no longer follows the implementation-shaped layer); the       *)
(* harness then falls back to the API-level spec CacheProp.tla.            *)
(***************************************************************************)
EXTENDS Cache, Json, IOUtils, TLCExt, SequencesExt

T_Procs == {1, 2, 3}
\* scanner version of each process: taken from the environment so that one cfg serves all batches
SV(p) == IF p = 1 THEN IOEnv.SVER1 ELSE IF p = 2 THEN IOEnv.SVER2 ELSE IOEnv.SVER3
T_SVer == [p \in T_Procs |-> IF SV(p) = "2" THEN 2 ELSE 1]

VARIABLES t, l, verdicts, stopped
Traces == JsonDeserialize(IOEnv.TRACE_FILE)
tvars == <<vars, t, l, verdicts, stopped>>

NT == Len(Traces)
Active == t <= NT
Evs == Traces[t].events
E == Evs[l]
More == Active /\ l <= Len(Evs)
Is(name, p) == E.act = name /\ E.p = p

\* one recorded event = one action of Cache.tla with the logged values bound
EventStep ==
  /\ More
  /\ clock' = E.clock
  /\ \/ /\ E.act = "EditSrc" /\ EditSrc /\ srcVer' = E.ver
     \/ \E p \in Procs :
          \/ Is("CvRead", p) /\ CvRead(p) /\ stamp = E.ver
          \/ Is("CvList", p) /\ CvList(p) /\ (entryIno # 0) = E.ok
          \/ Is("CvUnlink", p) /\ CvUnlink(p)
          \/ Is("CvStamp", p) /\ CvStamp(p)
          \/ Is("LOpen", p) /\ LOpen(p) /\ entryIno = E.ino
          \/ Is("LStat", p) /\ \E b \in BOOLEAN : /\ LStatWith(p, b)
                                                 /\ (IF b THEN entryIno ELSE fd[p]) = E.ino
                                                 /\ (E.ino # 0 => stm'[p] = E.mtime)
          \/ Is("LStatSrc", p) /\ LStatSrc(p) /\ srcMtime = E.mtime
          \/ Is("LRead", p) /\ LRead(p) /\ E.ok = (files[fd[p]].st = "complete")
                            /\ (E.ok => files[fd[p]].ver = E.ver)
          \/ Is("LUnlink", p) /\ LUnlink(p)
          \/ Is("Parse", p) /\ Parse(p) /\ srcVer = E.ver
          \/ Is("SStat", p) /\ SStat(p) /\ (entryIno # 0) = E.ok
                            /\ (E.ok => files[entryIno].mtime = E.mtime)
          \/ Is("SStatSrc", p) /\ SStatSrc(p) /\ srcMtime = E.mtime
          \/ Is("SMkstemp", p) /\ SMkstemp(p) /\ nextIno = E.ino
          \/ Is("SWrite", p) /\ SWrite(p) /\ clock = E.mtime
          \/ Is("SRename", p) /\ SRename(p)
          \/ Is("CopyOpen", p) /\ CopyOpen(p) /\ fd'[p] = E.ino
          \/ Is("CopyWrite1", p) /\ CopyWrite1(p)
          \/ Is("CopyWrite2", p) /\ CopyWrite2(p)
          \/ Is("CopyStat", p) /\ CopyStat(p) /\ (entryIno # 0) = E.ok
          \/ Is("Crash", p) /\ Crash(p)
          \* return of CacheStore.load(): the value handed to the caller is the model's result
          \/ /\ Is("Ret", p) /\ result[p].k = E.k /\ (E.k = "data" => result[p].ver = E.ver)
             /\ UNCHANGED <<srcVer, srcMtime, edits, files, nextIno, entryIno, stamp, stampFrom,
                            pc, fd, stm, parsed, tmp, result, startVer, checkedAt, putAt, puts>>

\* property layer, evaluated on the current state
StaleSet == {<<Traces[t].id, "NoStale", result[p].cause>> : p \in {q \in Procs : Stale(q)}}
Broken == StaleSet
          \cup (IF NoTorn THEN {} ELSE {<<Traces[t].id, "NoTorn", "-">>})
          \cup (IF NoCrossVersion THEN {} ELSE {<<Traces[t].id, "NoCrossVersion", "-">>})
          \cup (IF PurgeEffective THEN {} ELSE {<<Traces[t].id, "PurgeEffective", "-">>})

ResetModel ==
    /\ srcVer' = 1 /\ srcMtime' = 0 /\ edits' = 0 /\ clock' = 1
    /\ files' = [i \in 1..MaxIno |-> Free]
    /\ nextIno' = 1 /\ entryIno' = 0 /\ stamp' = 1 /\ stampFrom' = 0
    /\ pc' = [p \in Procs |-> "cv_read"]
    /\ fd' = [p \in Procs |-> 0] /\ stm' = [p \in Procs |-> 0] /\ parsed' = [p \in Procs |-> 0]
    /\ tmp' = [p \in Procs |-> 0] /\ result' = [p \in Procs |-> Pending]
    /\ startVer' = [p \in Procs |-> 0]
    /\ checkedAt' = [p \in Procs |-> 0] /\ putAt' = [i \in 1..MaxIno |-> 0] /\ puts' = 0

Consume == /\ EventStep /\ l' = l + 1 /\ t' = t /\ verdicts' = verdicts \cup Broken /\ stopped' = stopped

\* the next event cannot be explained by the implementation-shaped layer
Drift == /\ More /\ ~ENABLED EventStep
         /\ verdicts' = verdicts \cup Broken \cup {<<Traces[t].id, "DRIFT", ToString(l) \o ":" \o E.act>>}
         /\ ResetModel /\ t' = t + 1 /\ l' = 1 /\ stopped' = stopped

NextTrace == /\ Active /\ l > Len(Evs)
             /\ verdicts' = verdicts \cup Broken
             /\ ResetModel /\ t' = t + 1 /\ l' = 1 /\ stopped' = stopped

Finish == /\ ~Active /\ ~stopped
          /\ JsonSerialize(IOEnv.VERDICT_FILE, [n |-> NT, rejected |-> SetToSeq(verdicts)])
          /\ stopped' = TRUE /\ UNCHANGED <<vars, t, l, verdicts>>

TInit == Init /\ t = 1 /\ l = 1 /\ verdicts = {} /\ stopped = FALSE
TNext == Consume \/ Drift \/ NextTrace \/ Finish
TSpec == TInit /\ [][TNext]_tvars
=============================================================================

SPECIFICATION ASpec
CONSTANTS
  RefuseShadowedSource = TRUE
  OwnBlockWins = TRUE
INVARIANT Mutual
INVARIANT Honoured
INVARIANT VfuncInv
CHECK_DEADLOCK FALSE

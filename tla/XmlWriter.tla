------------------------------ MODULE XmlWriter ------------------------------
(***************************************************************************)
(* giscanner/xmlwriter.py (XMLWriter, build_xml_tag, collect_attributes,   *)
(* _calc_attrs_length) and the part of XML 1.0 that decides whether what   *)
(* it writes parses back to what it was given.  Property C20.              *)
(*                                                                         *)
(* Four layers, all in this module:                                        *)
(*  1. strings over a character-class alphabet; xml.sax.saxutils.escape /  *)
(*     quoteattr transcribed (Escape, QuoteAttr) and an XML 1.0 parser's   *)
(*     view of text and attribute values transcribed (ParseText,           *)
(*     ParseAttr: end-of-line handling 2.11, attribute-value normalisation *)
(*     3.3.3, references 4.1/4.6, "]]>" 2.4);                               *)
(*  2. attribute lists: _calc_attrs_length / collect_attributes            *)
(*     transcribed (None skipped, wrap decision > 79, separators);         *)
(*  3. the operation-sequence state machine of XMLWriter: one operation    *)
(*     record per public call (push_tag, pop_tag, write_tag, write_comment,*)
(*     write_line, tagcontext enter / exit / exception propagating through *)
(*     n contexts); state = the writer's tag stack and indent, the live    *)
(*     with-blocks, the emitted token sequence `out` (lexical level: raw   *)
(*     escaped strings, separators) and the abstract document `doc` the    *)
(*     operations describe (information-set level: a SAX-like event list); *)
(*  4. the property layer of C20 as predicates over observables only.      *)
(*                                                                         *)
(* Strings are sequences.  Names are sequences of code points everywhere.  *)
(* Values / text / comments are sequences of class symbols in the model    *)
(* checking configurations and sequences of code points in the trace spec; *)
(* ABS maps either to class symbols (identity resp. ClassOfCp).            *)
(***************************************************************************)
EXTENDS Integers, Sequences, FiniteSets, SequencesExt, TLC

CONSTANTS
    ABS(_),        \* payload string -> class string
    HIST(_),       \* what of an operation is remembered in `hist` (the op itself in MC, its kind in traces)
    EscVariant,    \* "asis" = the code as it is; other values are design mutations used by witness cfgs
    AllowMisuse,   \* BOOLEAN: a with-block may be left while push_tag()s made inside it are un-popped
    OpSet,         \* the operations Next may choose from
    MaxOps

---------------------------------------------------------------------------
(* 1. ALPHABET, ESCAPING, PARSING                                          *)

\* "p" plain, "na" non-ASCII (incl. U+0085, U+2028, combining marks, astral planes: XML 1.0 treats
\* them like any other character), "semi" ';', "rb" ']'.  The w_* symbols are *plain text words*
\* spelling reference names ("amp", "#10", ...): they make inputs such as  & amp ;  expressible, so
\* that double escaping / wrong replacement order / missing escaping are visible to the model.
Special == {"sp", "lt", "gt", "amp", "dq", "sq", "lf", "tab", "cr", "na", "semi", "rb"}
Words   == {"w_amp", "w_lt", "w_gt", "w_quot", "w_apos", "w_10", "w_13", "w_9"}
Alphabet == {"p"} \cup Special \cup Words

SymLen(c) == CASE c \in {"w_amp", "w_10", "w_13"} -> 3
               [] c \in {"w_lt", "w_gt", "w_9"} -> 2
               [] c \in {"w_quot", "w_apos"} -> 4
               [] OTHER -> 1

\* FoldLeft (SequencesExt) is implemented in Java in TLC: no TLA+-level recursion over the
\* characters of a string (TLC's Java stack is small, its interpreter slow)
Flatten(ss) == FoldLeft(LAMBDA acc, x : acc \o x, <<>>, ss)      \* concatenation of a sequence of strings
SumSeq(ns) == FoldLeft(LAMBDA acc, x : acc + x, 0, ns)

RawLen(s) == SumSeq([i \in DOMAIN s |-> SymLen(s[i])])    \* len() of the Python string s stands for
Has(s, c) == \E i \in DOMAIN s : s[i] = c

\* str.replace(c, r): all non-overlapping occurrences, left to right, the result is not rescanned
Replace(s, c, r) == Flatten([i \in DOMAIN s |-> IF s[i] = c THEN r ELSE <<s[i]>>])

Ref(w) == <<"amp", w, "semi">>            \* the characters  & w ;

\* xml.sax.saxutils.escape(data): "must do ampersand first"
Escape(s) ==
    IF EscVariant = "amp_last"
    THEN Replace(Replace(Replace(s, "gt", Ref("w_gt")), "lt", Ref("w_lt")), "amp", Ref("w_amp"))
    ELSE IF EscVariant = "no_escape" THEN s
    ELSE Replace(Replace(Replace(s, "amp", Ref("w_amp")), "gt", Ref("w_gt")), "lt", Ref("w_lt"))

\* xml.sax.saxutils.quoteattr(data): escape() with the extra entities \n \r \t (applied after the
\* three of escape, in dict order), then the quote selection rule
QuoteAttr(s) ==
    LET e == Escape(s)
        d == IF EscVariant = "no_ws_refs" THEN e
             ELSE Replace(Replace(Replace(e, "lf", Ref("w_10")), "cr", Ref("w_13")), "tab", Ref("w_9"))
    IN  IF EscVariant = "escape_for_attrs" THEN <<"dq">> \o e \o <<"dq">>     \* '"%s"' % escape(v)
        ELSE IF Has(d, "dq")
             THEN IF Has(d, "sq")
                  THEN <<"dq">> \o (IF EscVariant = "no_quot" THEN d ELSE Replace(d, "dq", Ref("w_quot"))) \o <<"dq">>
                  ELSE <<"sq">> \o d \o <<"sq">>
             ELSE <<"dq">> \o d \o <<"dq">>

\* ---- the parser's side (XML 1.0, no DTD: every attribute is CDATA).  A parser scans left to
\* right; because the tokens it recognises here ( CR LF,  & name ; ) cannot overlap, the scan is
\* written position-wise: each position contributes a (possibly empty) string.
\* 2.11: CR LF -> LF, lone CR -> LF, before anything else
NormEOL(s) == Flatten([i \in DOMAIN s |-> IF s[i] = "cr" THEN <<"lf">>
                                          ELSE IF s[i] = "lf" /\ i > 1 /\ s[i - 1] = "cr" THEN <<>>
                                          ELSE <<s[i]>>])

RefChar(w) == CASE w = "w_amp" -> "amp" [] w = "w_lt" -> "lt" [] w = "w_gt" -> "gt"
                [] w = "w_quot" -> "dq" [] w = "w_apos" -> "sq"
                [] w = "w_10" -> "lf" [] w = "w_13" -> "cr" [] w = "w_9" -> "tab"

Err == [ok |-> FALSE, v |-> <<>>]
Ok(v) == [ok |-> TRUE, v |-> v]

\* character data / attribute value content after EOL handling.  '<' is markup, '&' must start a
\* well-formed reference  & name ;  whose character is taken literally (it is NOT normalised again);
\* in attribute values a literal TAB / LF becomes a space (3.3.3)
DecodeAt(s, i, attr) ==
    LET c == s[i] IN
    IF c = "amp" THEN (IF i + 2 <= Len(s) /\ s[i + 1] \in Words /\ s[i + 2] = "semi"
                       THEN <<RefChar(s[i + 1])>> ELSE <<"ERR">>)
    ELSE IF c \in Words THEN (IF i > 1 /\ i < Len(s) /\ s[i - 1] = "amp" /\ s[i + 1] = "semi"
                              THEN <<>> ELSE <<c>>)                       \* the name of a reference
    ELSE IF c = "semi" THEN (IF i > 2 /\ s[i - 2] = "amp" /\ s[i - 1] \in Words
                             THEN <<>> ELSE <<c>>)                        \* the end of a reference
    ELSE IF c = "lt" THEN <<"ERR">>
    ELSE IF attr /\ (c = "lf" \/ c = "tab") THEN <<"sp">>
    ELSE <<c>>
Decode(s, attr) == LET r == Flatten([i \in DOMAIN s |-> DecodeAt(s, i, attr)])
                   IN IF Has(r, "ERR") THEN Err ELSE Ok(r)

HasCDEnd(s) == \E i \in 1..(Len(s) - 2) : s[i] = "rb" /\ s[i + 1] = "rb" /\ s[i + 2] = "gt"

ParseText(raw) == IF HasCDEnd(raw) THEN Err ELSE Decode(NormEOL(raw), FALSE)

\* raw = the attribute value as written, including its delimiting quotes
ParseAttr(raw) ==
    IF Len(raw) < 2 \/ raw[1] \notin {"dq", "sq"} THEN Err
    ELSE LET q == raw[1]
             body == SubSeq(raw, 2, Len(raw) - 1)
         IN IF raw[Len(raw)] # q \/ Has(body, q) THEN Err      \* the value ends at the first q
            ELSE Decode(NormEOL(body), TRUE)

\* ---- theorems of the escaping design (checked for all strings up to a length bound, XmlWriterMC)
HasCR(s) == Has(s, "cr")
TextRoundTrip(s)  == ~HasCR(s) => ParseText(Escape(s)) = Ok(s)       \* the statement, with its exception
TextExact(s)      == ParseText(Escape(s)) = Ok(NormEOL(s))           \* what exactly happens to CRs
AttrRoundTrip(s)  == ParseAttr(QuoteAttr(s)) = Ok(s)                 \* nothing excepted
QuoteRule(s)      == LET q == QuoteAttr(s) IN                        \* quote selection as documented
                     /\ q[1] = q[Len(q)]
                     /\ q[1] = (IF Has(s, "dq") /\ ~Has(s, "sq") THEN "sq" ELSE "dq")
                     /\ (Has(s, "dq") /\ Has(s, "sq")) => Has(q, "w_quot")

---------------------------------------------------------------------------
(* 2. ATTRIBUTE LISTS                                                      *)
\* an attribute is [n |-> name, has |-> value is not None, v |-> value]

ValuedOnly(attrs) == SelectSeq(attrs, LAMBDA a : a.has)
\* property level: "attributes with no value are omitted", the others keep name, value, order
Visible(attrs) == LET s == ValuedOnly(attrs) IN [i \in DOMAIN s |-> [n |-> s[i].n, v |-> s[i].v]]

AttrLenSum(attrs) ==
    SumSeq([i \in DOMAIN attrs |-> IF attrs[i].has
                                    THEN 2 + Len(attrs[i].n) + RawLen(QuoteAttr(ABS(attrs[i].v))) ELSE 0])

\* _calc_attrs_length(attributes, indent, self_indent)
CalcAttrsLength(attrs, indent, selfIndent) ==
    IF indent = -1 THEN -1 ELSE AttrLenSum(attrs) + indent + selfIndent

WrapDecision(attrs, indent, selfIndent) == CalcAttrsLength(attrs, indent, selfIndent) > 79

\* collect_attributes with the wrap decision as a parameter: one item per attribute written
CollectW(wrap, tagLen, attrs, selfIndent) ==
    LET indentLen == IF wrap THEN selfIndent + tagLen + 1 ELSE 0
        s == ValuedOnly(attrs)                      \* "if value is None: continue"
    IN [i \in DOMAIN s |-> [n   |-> s[i].n,
                            raw |-> QuoteAttr(ABS(s[i].v)),
                            sep |-> IF indentLen # 0 /\ i > 1 THEN "nl" ELSE "sp",
                            pad |-> IF indentLen # 0 /\ i > 1 THEN indentLen ELSE 0]]

\* collect_attributes(tag_name, attributes, self_indent, self_indent_char, indent)
CollectAttributes(tagLen, attrs, selfIndent, indent) ==
    IF attrs = <<>> THEN <<>>
    ELSE CollectW(WrapDecision(attrs, indent, selfIndent), tagLen, attrs, selfIndent)

\* what a parser makes of the items: separators are white space (any amount, any kind), nothing else
ItemsContent(items) == [i \in DOMAIN items |-> [n |-> items[i].n, raw |-> items[i].raw]]
\* (c) + (d) as a theorem over attribute lists (checked over generated lists, XmlWriterMC):
WrapOnlyWhitespace(tagLen, attrs, selfIndent) ==
    LET w == CollectW(TRUE, tagLen, attrs, selfIndent)
        u == CollectW(FALSE, tagLen, attrs, selfIndent)
    IN /\ ItemsContent(w) = ItemsContent(u)
       /\ \A i \in DOMAIN w : w[i].sep \in {"sp", "nl"}
NoneVanish(tagLen, attrs, selfIndent, indent) ==
    LET items == CollectAttributes(tagLen, attrs, selfIndent, indent)
        vis == Visible(attrs)
    IN /\ Len(items) = Len(vis)
       /\ \A i \in DOMAIN items : items[i].n = vis[i].n /\ ParseAttr(items[i].raw) = Ok(ABS(vis[i].v))

---------------------------------------------------------------------------
(* 3. THE WRITER AS AN OPERATION-SEQUENCE STATE MACHINE                    *)
\* operation record (all fields always present; the JSON case schema of the harness):
\*   k     "push" | "pop" | "tag" | "comment" | "line" | "enter" | "exit" | "raise"
\*   name  element name (push, tag, enter)          attrs  attribute list (push, tag, enter)
\*   has   tag: data is not None                   text   tag data / comment text / line
\*   esc   line: do_escape                          n      raise: number of with-blocks the exception leaves

VARIABLES
    stack,     \* XMLWriter._tag_stack: names of the open elements
    ctxs,      \* live tagcontext() with-blocks, outermost first: [h |-> stack height of its element, name]
    indent,    \* XMLWriter._indent
    root,      \* 0 no element written yet, 1 inside the document element, 2 document element closed
    misuse,    \* a with-block was left with un-popped push_tag()s inside (caller error; property silent)
    out,       \* emitted tokens (lexical level)
    doc,       \* the document the operations describe (event list, information-set level)
    hist

vars == <<stack, ctxs, indent, root, misuse, out, doc, hist>>

Ctl == [stack |-> stack, ctxs |-> ctxs, indent |-> indent, root |-> root, misuse |-> misuse]
Ctl0 == [stack |-> <<>>, ctxs |-> <<>>, indent |-> 0, root |-> 0, misuse |-> FALSE]

Floor(c) == IF c.ctxs = <<>> THEN 0 ELSE Last(c.ctxs).h
\* leaving the n innermost with-blocks runs pop_tag() n times: each pops its own element iff
\* nothing pushed by hand inside any of them is still open
OwnOnTop(c, n) == \A j \in 1..n : c.ctxs[Len(c.ctxs) - j + 1].h = Len(c.stack) - j + 1
CanElem(c) == c.stack # <<>> \/ c.root = 0          \* an XML document has exactly one document element
MarkupFree(t) == \A i \in DOMAIN t : t[i] \notin {"lt", "gt", "amp", "cr"}

\* when is an operation a legal next call (precondition of the property: the operations describe an
\* XML document; pop_tag is not used to close an element a with-block owns)
Enabled(c, op) ==
    CASE op.k \in {"push", "enter", "tag"} -> CanElem(c)
      [] op.k = "pop"     -> Len(c.stack) > Floor(c)
      [] op.k = "exit"    -> c.ctxs # <<>> /\ Len(c.stack) >= Floor(c) /\ Len(c.stack) >= 1
                             /\ (AllowMisuse \/ OwnOnTop(c, 1))
      [] op.k = "raise"   -> op.n >= 1 /\ op.n <= Len(c.ctxs) /\ Len(c.stack) >= op.n
                             /\ (AllowMisuse \/ OwnOnTop(c, op.n))
      [] op.k = "comment" -> TRUE
      [] op.k = "line"    -> c.stack # <<>> /\ (op.esc \/ MarkupFree(ABS(op.text)))   \* no text outside the root
      [] OTHER -> FALSE

\* n x pop_tag(): "self._indent -= unit; tag_name = self._tag_stack.pop()"
PopN(c, n) == [c EXCEPT !.stack = SubSeq(@, 1, Len(@) - n), !.indent = @ - 2 * n,
                        !.root = IF Len(c.stack) = n THEN 2 ELSE @]
LeaveN(c, n) == [PopN(c, n) EXCEPT !.ctxs = SubSeq(@, 1, Len(@) - n),
                                   !.misuse = @ \/ ~OwnOnTop(c, n)]
Opened(c, op) == [c EXCEPT !.stack = Append(@, op.name), !.indent = @ + 2,
                           !.root = IF c.stack = <<>> THEN 1 ELSE @]

CtlStep(c, op) ==
    CASE op.k = "push"  -> Opened(c, op)
      [] op.k = "enter" -> [Opened(c, op) EXCEPT !.ctxs = Append(@, [h |-> Len(c.stack) + 1, name |-> op.name])]
      [] op.k = "pop"   -> PopN(c, 1)
      [] op.k = "exit"  -> LeaveN(c, 1)              \* the finally: of tagcontext
      [] op.k = "raise" -> LeaveN(c, op.n)           \* the same finally:, once per with-block left
      [] op.k = "tag"   -> [c EXCEPT !.root = IF c.stack = <<>> THEN 2 ELSE @]
      [] OTHER -> c

\* ---- what the writer emits (lexical level)
TopNames(c, n) == [i \in 1..n |-> c.stack[Len(c.stack) - i + 1]]     \* innermost first
Closes(c, n) == [i \in 1..n |-> [t |-> "close", name |-> c.stack[Len(c.stack) - i + 1],
                                 ind |-> c.indent - 2 * i]]
LeafExtra(op) == (1 + Len(op.name))                                   \* len(prefix) + len(suffix)
                 + (IF op.has THEN 1 + RawLen(Escape(ABS(op.text))) + 2 + Len(op.name) + 1 ELSE 2)

Emit(c, op) ==
    CASE op.k \in {"push", "enter"} ->
           <<[t |-> "open", name |-> op.name, ind |-> c.indent,
              attrs |-> CollectAttributes(Len(op.name), op.attrs, c.indent, Len(op.name) + 2)]>>
      [] op.k \in {"pop", "exit"} -> Closes(c, 1)
      [] op.k = "raise" -> Closes(c, op.n)
      [] op.k = "tag" ->
           <<[t |-> "leaf", name |-> op.name, ind |-> c.indent,
              attrs |-> CollectAttributes(Len(op.name), op.attrs, c.indent, LeafExtra(op)),
              has |-> op.has, raw |-> IF op.has THEN Escape(ABS(op.text)) ELSE <<>>]>>
      [] op.k = "comment" -> <<[t |-> "comment", ind |-> c.indent, raw |-> ABS(op.text)]>>
      [] op.k = "line" -> <<[t |-> "text", ind |-> c.indent,
                             raw |-> IF op.esc THEN Escape(ABS(op.text)) ELSE ABS(op.text)]>>

\* ---- what the operations describe (information-set level).  An event:
\*   k "start" | "end" | "comment";  name;  attrs (visible ones, [n, v]);  text (comment text)
\*   what follows the event up to the next event:  mode "exact" with `exact` (content of a leaf,
\*   nothing may be added) or mode "lines" with the list `ls` of lines written there (the writer lays
\*   them out: indentation before, line break after -- layout is not content);
\*   wrap: the wrap decision of the start tag (layout only, not compared as content)
Ev(k, name, attrs, text, mode, exact, wrap) ==
    [k |-> k, name |-> name, attrs |-> attrs, text |-> text, mode |-> mode, exact |-> exact,
     ls |-> <<>>, wrap |-> wrap]
EndEv(name) == Ev("end", name, <<>>, <<>>, "lines", <<>>, FALSE)
Ends(c, n) == [i \in 1..n |-> EndEv(c.stack[Len(c.stack) - i + 1])]

Describe(d, c, op) ==
    CASE op.k \in {"push", "enter"} ->
           Append(d, Ev("start", op.name, Visible(op.attrs), <<>>, "lines", <<>>,
                        op.attrs # <<>> /\ WrapDecision(op.attrs, Len(op.name) + 2, c.indent)))
      [] op.k \in {"pop", "exit"} -> d \o Ends(c, 1)
      [] op.k = "raise" -> d \o Ends(c, op.n)
      [] op.k = "tag" ->
           d \o <<Ev("start", op.name, Visible(op.attrs), <<>>, "exact", IF op.has THEN op.text ELSE <<>>,
                     op.attrs # <<>> /\ WrapDecision(op.attrs, LeafExtra(op), c.indent)),
                  EndEv(op.name)>>
      [] op.k = "comment" -> Append(d, Ev("comment", <<>>, <<>>, op.text, "lines", <<>>, FALSE))
      [] op.k = "line" -> [d EXCEPT ![Len(d)].ls = Append(@, op.text)]

Init == /\ stack = <<>> /\ ctxs = <<>> /\ indent = 0 /\ root = 0 /\ misuse = FALSE
        /\ out = <<>> /\ doc = <<>> /\ hist = <<>>

Do(op) ==
    /\ Enabled(Ctl, op)
    /\ LET d == CtlStep(Ctl, op) IN
         /\ stack' = d.stack /\ ctxs' = d.ctxs /\ indent' = d.indent /\ root' = d.root /\ misuse' = d.misuse
    /\ out' = out \o Emit(Ctl, op)
    /\ doc' = Describe(doc, Ctl, op)
    /\ hist' = Append(hist, HIST(op))

OfKind(k) == {op \in OpSet : op.k = k}
PushTag      == \E op \in OfKind("push") : Do(op)
PopTag       == \E op \in OfKind("pop") : Do(op)
WriteTag     == \E op \in OfKind("tag") : Do(op)
WriteComment == \E op \in OfKind("comment") : Do(op)
WriteLine    == \E op \in OfKind("line") : Do(op)
EnterContext == \E op \in OfKind("enter") : Do(op)
ExitContext  == \E op \in OfKind("exit") : Do(op)
RaiseInsideContext == \E op \in OfKind("raise") : Do(op)

Next == /\ Len(hist) < MaxOps
        /\ (PushTag \/ PopTag \/ WriteTag \/ WriteComment \/ WriteLine
            \/ EnterContext \/ ExitContext \/ RaiseInsideContext)
Spec == Init /\ [][Next]_vars

Complete == stack = <<>> /\ ctxs = <<>> /\ root = 2

---------------------------------------------------------------------------
(* a parser's view of the token sequence                                   *)

\* stack of open element names after the tokens; ok = every close tag matched the innermost open one
RECURSIVE OpenStackFrom(_, _, _)
OpenStackFrom(toks, i, st) ==
    IF i > Len(toks) THEN [ok |-> TRUE, st |-> st]
    ELSE LET t == toks[i] IN
         IF t.t = "open" THEN OpenStackFrom(toks, i + 1, Append(st, t.name))
         ELSE IF t.t = "close"
              THEN IF st # <<>> /\ Last(st) = t.name THEN OpenStackFrom(toks, i + 1, Front(st))
                   ELSE [ok |-> FALSE, st |-> st]
              ELSE OpenStackFrom(toks, i + 1, st)
OpenStack(toks) == OpenStackFrom(toks, 1, <<>>)

ParsedAttrs(items) ==       \* [ok, v]: every separator is white space, every raw value well-formed
    IF \E i \in DOMAIN items : ~ParseAttr(items[i].raw).ok \/ items[i].sep \notin {"sp", "nl"}
    THEN Err
    ELSE Ok([i \in DOMAIN items |-> [n |-> items[i].n, v |-> ParseAttr(items[i].raw).v]])

PEv(k, name, attrs, text, mode, exact) ==
    [k |-> k, name |-> name, attrs |-> attrs, text |-> text, mode |-> mode, exact |-> exact, ls |-> <<>>]

RECURSIVE ParseFrom(_, _, _)
ParseFrom(toks, i, ev) ==
    IF i > Len(toks) THEN Ok(ev)
    ELSE LET t == toks[i] IN
      CASE t.t = "open" ->
             LET a == ParsedAttrs(t.attrs) IN
             IF a.ok THEN ParseFrom(toks, i + 1, Append(ev, PEv("start", t.name, a.v, <<>>, "lines", <<>>))) ELSE Err
        [] t.t = "close" -> ParseFrom(toks, i + 1, Append(ev, PEv("end", t.name, <<>>, <<>>, "lines", <<>>)))
        [] t.t = "leaf" ->
             LET a == ParsedAttrs(t.attrs)
                 x == IF t.has THEN ParseText(t.raw) ELSE Ok(<<>>)
             IN IF a.ok /\ x.ok
                THEN ParseFrom(toks, i + 1, ev \o <<PEv("start", t.name, a.v, <<>>, "exact", x.v),
                                                    PEv("end", t.name, <<>>, <<>>, "lines", <<>>)>>)
                ELSE Err
        [] t.t = "comment" -> ParseFrom(toks, i + 1, Append(ev, PEv("comment", <<>>, <<>>, NormEOL(t.raw), "lines", <<>>)))
        [] t.t = "text" ->
             LET x == ParseText(t.raw) IN
             IF x.ok /\ ev # <<>> THEN ParseFrom(toks, i + 1, [ev EXCEPT ![Len(ev)].ls = Append(@, x.v)]) ELSE Err
ParseTokens(toks) == IF OpenStack(toks).ok THEN ParseFrom(toks, 1, <<>>) ELSE Err

\* the described document in the parser's vocabulary (class strings, no layout fields)
AbsEv(e, norm(_)) ==
    [k |-> e.k, name |-> e.name,
     attrs |-> [i \in DOMAIN e.attrs |-> [n |-> e.attrs[i].n, v |-> ABS(e.attrs[i].v)]],
     text |-> norm(ABS(e.text)), mode |-> e.mode, exact |-> norm(ABS(e.exact)),
     ls |-> [i \in DOMAIN e.ls |-> norm(ABS(e.ls[i]))]]
Same(s) == s
AbsDoc(d)  == [i \in DOMAIN d |-> AbsEv(d[i], Same)]
NormDoc(d) == [i \in DOMAIN d |-> AbsEv(d[i], NormEOL)]
DocHasCR(d) == \E i \in DOMAIN d : \/ HasCR(ABS(d[i].text)) \/ HasCR(ABS(d[i].exact))
                                   \/ \E j \in DOMAIN d[i].ls : HasCR(ABS(d[i].ls[j]))

---------------------------------------------------------------------------
(* 4. INVARIANTS: implementation layer => property layer                   *)

\* the output is always a prefix of a balanced token string: its open elements are exactly the
\* writer's stack -- also after exceptions, at any depth, even after misuse
PrefixBalanced == LET r == OpenStack(out) IN r.ok /\ r.st = stack
BalancedWhenEmpty == stack = <<>> => (OpenStack(out).ok /\ OpenStack(out).st = <<>>)
IndentInv == indent = 2 * Len(stack)

\* every live with-block still owns the element it opened
CtxOwn == \A i \in DOMAIN ctxs :
             /\ ctxs[i].h >= 1 /\ ctxs[i].h <= Len(stack) /\ stack[ctxs[i].h] = ctxs[i].name
             /\ (i > 1 => ctxs[i - 1].h < ctxs[i].h)
ContextsOwnTheirElements == ~misuse => CtxOwn
\* with AllowMisuse a with-block left over an un-popped push_tag() closes the wrong element; from then on
\* `misuse` is set and ClosedInOrder is silent (caller error).  CtxOwn itself survives: the with-block is gone.

\* "every opened element is closed in order even when the writing code raises":
\* leaving n with-blocks (normally or by an exception) closes exactly their elements and everything
\* opened inside them, innermost first
LeaveClosesOwn ==
    (Len(ctxs') < Len(ctxs) /\ ~misuse') =>
        LET n == Len(ctxs) - Len(ctxs')
            h == ctxs[Len(ctxs) - n + 1].h
        IN /\ stack' = SubSeq(stack, 1, h - 1)
           /\ Len(out') = Len(out) + n
           /\ \A i \in 1..n : /\ out'[Len(out) + i].t = "close"
                              /\ out'[Len(out) + i].name = ctxs[Len(ctxs) - i + 1].name
ClosedInOrder == [][LeaveClosesOwn]_vars
\* losslessness: the parser's view of the emitted tokens is the described document
Lossless == LET p == ParseTokens(out) IN p.ok /\ p.v = NormDoc(doc)       \* exactly what happens
LosslessAsStated == ~DocHasCR(doc) => ParseTokens(out) = Ok(AbsDoc(doc))  \* C20 with its exception
\* None-valued attributes never reach the output; wrapped tags have the same content
NoneOmitted == \A i \in DOMAIN out : out[i].t \in {"open", "leaf"} =>
                   \A j \in DOMAIN out[i].attrs : out[i].attrs[j].sep \in {"sp", "nl"}
WellFormedWhenComplete == Complete => (ParseTokens(out).ok /\ OpenStack(out).st = <<>>)

\* the conjunction of all the state invariants above with the two parses of `out` shared (TLC evaluates
\* every INVARIANT separately; the quick configurations check this one, the thorough ones the named ones)
Combined ==
    LET o == OpenStack(out)
        p == IF o.ok THEN ParseFrom(out, 1, <<>>) ELSE Err
    IN /\ o.ok /\ o.st = stack                                   \* PrefixBalanced, BalancedWhenEmpty
       /\ IndentInv
       /\ ContextsOwnTheirElements
       /\ p.ok /\ p.v = NormDoc(doc)                              \* Lossless
       /\ (~DocHasCR(doc) => p.v = AbsDoc(doc))                   \* LosslessAsStated
       /\ NoneOmitted
       /\ (Complete => o.st = <<>>)                               \* WellFormedWhenComplete

---------------------------------------------------------------------------
(* 5. PROPERTY LAYER OVER OBSERVATIONS (used by XmlWriterTrace)            *)
\* E: the described document (doc);  P: the events an independent parser reported for get_xml():
\*    [k, name, attrs (seq of [n, v]), text (comment text), after (character data up to the next
\*    event), nl (a line break between attributes in the raw start tag)]

Skel(evs) == [i \in DOMAIN evs |-> <<evs[i].k, evs[i].name>>]
StartIdx(evs) == {i \in DOMAIN evs : evs[i].k = "start"}
AttrsOf(evs) == [i \in DOMAIN evs |-> evs[i].attrs]

LayoutCp == {32, 9, 10}                               \* XML white space as a parser reports it (CR arrives as LF):
                                                      \* whatever the writer lays out around a line
IsLayout(s) == \A i \in DOMAIN s : s[i] \in LayoutCp
LayPrefix(s) == LET n == Len(s)                       \* length of the maximal layout prefix
                    f == CHOOSE i \in 1..(n + 1) : /\ (i = n + 1 \/ s[i] \notin LayoutCp)
                                                  /\ \A j \in 1..(i - 1) : s[j] \in LayoutCp
                IN f - 1
\* seg is  layout* l1 layout* l2 ... layout*
RECURSIVE LinesMatch(_, _)
LinesMatch(seg, ls) ==
    IF ls = <<>> THEN IsLayout(seg)
    ELSE \E k \in 0..LayPrefix(seg) :
           LET rest == SubSeq(seg, k + 1, Len(seg)) IN
           /\ IsPrefix(Head(ls), rest)
           /\ LinesMatch(SubSeq(rest, Len(Head(ls)) + 1, Len(rest)), Tail(ls))

StripSp(s) == LET a == LayPrefix(s)
                  b == LayPrefix(Reverse(s))
              IN IF a + b >= Len(s) THEN <<>> ELSE SubSeq(s, a + 1, Len(s) - b)
=============================================================================

SPECIFICATION Spec
CONSTANTS
  N = 3
  Kinds <- K_callables
  TKs <- TK_chain4
  AllowList = FALSE
  AllowNSkip = FALSE
  AllowVSkip = FALSE
  AllowReturn = FALSE
  AllowMoved = FALSE
  AllowHost = FALSE
  AllowRename = FALSE
  MaxFunctions = 1
  Stepwise = TRUE
  AliasRecheck = TRUE
  CallableWalks = 2
  RenameScopeCheck = TRUE
  COrder = FALSE
  Orders <- Id3
  KnownShapes <- W_cb_cb
  ExportViol = 0
  ExportOk = 0
INVARIANT NoWitness
CHECK_DEADLOCK FALSE

---- MODULE GTypeCacheMC ----
EXTENDS GTypeCache
MC_NSs == {"A", "B"}
MC_Types == {"TA1", "TA2", "TB1", "TX"}
MC_Owner == [t \in MC_Types |-> CASE t \in {"TA1", "TA2"} -> "A" [] t = "TB1" -> "B" [] OTHER -> "none"]
====

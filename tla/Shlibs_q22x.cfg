INIT MCInit
NEXT MCNext
CONSTANTS
  Themes = {"foo", "pango", "sep", "meta1", "meta2"}
  ML = 2
  MW = 2
  EML = 2
  EMW = 2
  LaML = 0
  Extras = FALSE
  Variant = "asis"
  Gran = "case"
  Cases <- MC_None
  LaCases <- MC_None
CHECK_DEADLOCK FALSE
ALIAS Alias
INVARIANT TypeOK
INVARIANT Inv_Property
INVARIANT Inv_EqualsResolve

INIT Init
NEXT Next
CONSTANTS
  Dev = {"gen_union_no_prefix"}
  Kinds = {"api"}
  Strict = FALSE
  Full = FALSE
  MaxCnt = 1
INVARIANT InvApi
CHECK_DEADLOCK FALSE

---- MODULE IdentifyMC ----
EXTENDS Identify
VfuncInv == VfuncOK
====

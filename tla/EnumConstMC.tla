---------------------------- MODULE EnumConstMC ----------------------------
(* Exhaustive configuration for EnumConst: every enumeration of <= 3 members with <= 3 words each
   over 3 words, two of them namespace prefixes (inside the statement's precondition), and every constant type x boundary value. *)
EXTENDS EnumConst

W == {"FOO", "BAR", "A"}
NSW == {"FOO", "BAR"}
Idents == UNION {[1..n -> W] : n \in 1..3}
EnumCases == {ms \in UNION {[1..n -> Idents] : n \in 1..3} : EnumPre(ms)}

\* boundary values as limbs: 0, 1, 127, 128, 255, 256, 32767, 32768, 65535, 65536, 2^31-1, 2^31,
\* 2^32-1, 2^32, 2^63-1, 2^63, 2^64-1 and their negatives down to -2^63
Mags == { <<0,0,0,0>>, <<1,0,0,0>>, <<127,0,0,0>>, <<128,0,0,0>>, <<255,0,0,0>>, <<256,0,0,0>>, <<300,0,0,0>>,
          <<32767,0,0,0>>, <<32768,0,0,0>>, <<65535,0,0,0>>, <<0,1,0,0>>, <<4464,1,0,0>>, <<65535,32767,0,0>>, <<0,32768,0,0>>,
          <<65535,65535,0,0>>, <<0,0,1,0>>, <<65535,65535,65535,32767>>, <<0,0,0,32768>>, <<65535,65535,65535,65535>> }
NegOK(l) == l[4] < 32768 \/ l = <<0,0,0,32768>>
Values == {[neg |-> FALSE, l |-> m] : m \in Mags} \cup {[neg |-> TRUE, l |-> m] : m \in {x \in Mags : NegOK(x) /\ x # <<0,0,0,0>>}}
Types == FixedUnsigned \cup PlatformUnsigned \cup Signed

VARIABLES kind, ms, t, v
Init == \/ kind = "enum" /\ ms \in EnumCases /\ t = "-" /\ v = [neg |-> FALSE, l |-> Zero]
        \/ kind = "const" /\ ms = <<>> /\ t \in Types /\ v \in Values
Next == UNCHANGED <<kind, ms, t, v>>

\* implementation layer => property layer
EnumOK == kind = "enum" => EnumImplOK(ms, NSW)
ConstOK == kind = "const" => ConstImpl(t, v) = ConstExpected(t, v)
\* the statement's range clause; known not to hold for platform-width unsigned types (see known_findings)
ConstInRangeFixed == (kind = "const" /\ t \in FixedUnsigned) => InRangeUnsigned(t, ConstImpl(t, v))
ConstInRangeAll == kind = "const" => InRangeUnsigned(t, ConstImpl(t, v))
\* sanity: wrapped values really fit the width
Fits(l, bits) == LowBits(l, bits) = l
WrapFits == (kind = "const" /\ t \in FixedUnsigned) => Fits(ConstExpected(t, v).l, Width[t])
=============================================================================

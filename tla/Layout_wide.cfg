INIT Init
NEXT Next
CONSTANTS
  FlatLen = 4
  Mode = "wide"
  EnumCap32 = FALSE
  UnionFieldCallback = TRUE
  Small = FALSE
INVARIANT Sane
INVARIANT ImplSatisfiesProperty
INVARIANT ImplShape
INVARIANT AnonDropped
INVARIANT EnumOK
INVARIANT EnumWideIs4
INVARIANT EnumClassExact
INVARIANT EnvOK
CHECK_DEADLOCK FALSE

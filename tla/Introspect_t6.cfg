SPECIFICATION Spec
CONSTANTS
  N = 3
  Kinds <- K_skip
  TKs <- TK_small
  AllowList = FALSE
  AllowNSkip = TRUE
  AllowVSkip = TRUE
  AllowReturn = TRUE
  AllowMoved = FALSE
  AllowHost = FALSE
  AllowRename = FALSE
  MaxFunctions = 1
  Stepwise = FALSE
  AliasRecheck = TRUE
  CallableWalks = 2
  RenameScopeCheck = TRUE
  COrder = FALSE
  Orders <- Id3
  KnownShapes <- Known_any
  ExportViol = 1
  ExportOk = 499
INVARIANT NoUnknownViolation
CHECK_DEADLOCK FALSE

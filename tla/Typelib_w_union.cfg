INIT Init
NEXT Next
CONSTANTS
  Dev = {"union_multiplies"}
  Kinds = {"layout"}
  Strict = FALSE
  Full = FALSE
  MaxCnt = 1
INVARIANT InvAccessor
CHECK_DEADLOCK FALSE

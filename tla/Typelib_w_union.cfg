INIT Init
NEXT Next
CONSTANTS
  Kinds = {"layout"}
  Strict = TRUE
  Full = FALSE
  MaxCnt = 1
INVARIANT InvAccessor
CHECK_DEADLOCK FALSE

INIT Init
NEXT Next
CONSTANTS
  Defects = {}
  Rich = FALSE
  AllModels = FALSE
  KindSel = {"docsection"}
CHECK_DEADLOCK FALSE

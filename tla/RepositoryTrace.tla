-------------------------- MODULE RepositoryTrace --------------------------
(***************************************************************************)
(* Trace validation for C17.  Every trace is one process of the REAL       *)
(* libgirepository (harness/cdrv/drv_repo.c): a sequence of public calls   *)
(* with the result / GError and what the public API reports afterwards     *)
(* (loaded namespaces, versions, typelib paths, search path).              *)
(*                                                                         *)
(* Each event is replayed through the PROPERTY layer of Repository.tla     *)
(* with the logged result bound: the model state after the event is any    *)
(* state (a) whose observable projection is the logged snapshot and (b)    *)
(* for which no clause of the property layer is broken.  Because the       *)
(* statement leaves some choices open (equal versions in one directory,    *)
(* lazy flag, the silent zones) the set of ALL such states is carried      *)
(* along (`poss`), which keeps the replay deterministic: one TLC state per *)
(* event, many traces per run.  An event with no such state is not a       *)
(* behaviour of the spec => rejected, naming the clause(s) and root cause. *)
(* The invariants (DepsClosed, OwnName) are part of (b) in every state.    *)
(*                                                                         *)
(* In parallel the IMPLEMENTATION-shaped layer predicts every event; the   *)
(* first event it does not predict is reported as DRIFT (not an alarm).    *)
(***************************************************************************)
EXTENDS Repository, Json, IOUtils, TLCExt, SequencesExt

Traces == JsonDeserialize(IOEnv.TRACE_FILE)
NT == Len(Traces)

\* version string -> characters, for every version string of the batch
T_AllV == UNION {Rng(Traces[i].vchars) : i \in 1..NT}
T_VChars == [v \in {x.v : x \in T_AllV} |-> (CHOOSE x \in T_AllV : x.v = v).cs]

VARIABLES t, l, poss, ipos, verdicts, exer, stopped
tvars == <<vars, t, l, poss, ipos, verdicts, exer, stopped>>

Active == t <= NT
Tr == Traces[t]
Evs == Tr.events
E == Evs[l]
More == Active /\ l <= Len(Evs)

DiskOf(tr) == [d \in {f.dir : f \in Rng(tr.disk)} |->
                 {[fns |-> f.fns, fver |-> f.fver, ins |-> f.ins, iver |-> f.iver, deps |-> f.deps]
                  : f \in {g \in Rng(tr.disk) : g.dir = d}}]
Start(tr) == {[path |-> tr.env \o <<SYSDIR>>, L |-> EmptyMap]}

\* the call and the observation of an event
CallOf(e) == Call(e.op, e.ns, e.ver, e.lazy, e.dir, e.fns, e.fver)
ResOf(e) == IF e.res = "err"
            THEN IF e.dom = "g-irepository-error-quark" /\ e.code \in 0..2
                 THEN <<"NOT_FOUND", "MISMATCH", "CONFLICT">>[e.code + 1] ELSE "OTHER_ERROR"
            ELSE e.res
ObsOf(e) == Obs(ResOf(e), e.ret, Rng(e.names), e.rdir, e.rfns, e.rfver)

\* model states whose projection is the logged snapshot
Matches(en, it) == en.c.ver = it.ver /\ en.dir = it.dir /\ en.fns = it.fns /\ en.fver = it.fver
Opt(dk, s, c, it) ==
    (IF it.ns \in DOMAIN s.L /\ Matches(s.L[it.ns], it) THEN {s.L[it.ns]} ELSE {})
    \cup {Entry(it.dir, f, lz) : f \in {f \in DiskAt(dk, it.dir) : /\ f.fns = it.fns /\ f.fver = it.fver
                                                                     /\ f.ins = it.ns /\ f.iver = it.ver},
                                 lz \in BOOLEAN}
    \cup (IF IsMem(c) /\ it.dir = BUILTIN /\ SrcFile(dk, c).ins = it.ns /\ SrcFile(dk, c).iver = it.ver
          THEN {MemEntry(SrcFile(dk, c), lz) : lz \in BOOLEAN} ELSE {})
\* the dependent product  { g \in [ns -> ...] : g[n] \in opt[n] }  built directly (filtering the full
\* function set [ns -> UNION opt] is exponentially slower)
RECURSIVE Prod(_, _)
Prod(ns, opt) ==
    IF ns = {} THEN {EmptyMap}
    ELSE LET n == CHOOSE x \in ns : TRUE
         IN UNION {{(n :> v) @@ g : g \in Prod(ns \ {n}, opt)} : v \in opt[n]}
Cand(dk, s, c, e) ==
    LET items == Rng(e.snap)
        names == {it.ns : it \in items}
    IN IF Cardinality(names) # Len(e.snap) THEN {}          \* a namespace listed twice
       ELSE LET opt == [n \in names |-> Opt(dk, s, c, CHOOSE it \in items : it.ns = n)]
            IN {[path |-> e.spath, L |-> g] : g \in Prod(names, opt)}

Succ(dk, s, c, o, e) == {u \in Cand(dk, s, c, e) : Broken(dk, s, c, o, u) = {}}

\* why an event is rejected: clauses broken by every candidate, else those of a best candidate
Why(dk, c, o, e) ==
    LET pairs == UNION {{<<s, u>> : u \in Cand(dk, s, c, e)} : s \in poss}
        s0 == CHOOSE s \in poss : TRUE
    IN IF o.res \in {"crash", "null", "OTHER_ERROR"} /\ c.op \in MutOps THEN {<<"ResultKind", Cause(dk, s0, c)>>}
       ELSE IF pairs = {} THEN {<<"ReportedMatchesLoaded", Cause(dk, s0, c)>>}
       ELSE LET common == {b \in UNION {Broken(dk, p[1], c, o, p[2]) : p \in pairs} :
                              \A p \in pairs : b \in Broken(dk, p[1], c, o, p[2])}
                best == CHOOSE p \in pairs : \A q \in pairs :
                           Cardinality(Broken(dk, p[1], c, o, p[2])) <= Cardinality(Broken(dk, q[1], c, o, q[2]))
            IN IF common # {} THEN common ELSE Broken(dk, best[1], c, o, best[2])

\* implementation-layer prediction of the event (for DRIFT only)
Proj(L) == {[ns |-> n, ver |-> L[n].c.ver, dir |-> L[n].dir, fns |-> L[n].fns, fver |-> L[n].fver] : n \in DOMAIN L}
IPredicts(dk, s, c, o, e) ==
    {[path |-> r.path, L |-> r.L] : r \in {r \in IStep(dk, s, c) :
        /\ r.o = o /\ r.path = e.spath
        /\ Proj(r.L) = Rng(e.snap) /\ Len(e.snap) = Cardinality(DOMAIN r.L)}}

Detail(c, cause) == ToString(l) \o ":" \o c.op \o ":" \o cause

Reset(k) == /\ t' = k /\ l' = 1
            /\ poss' = IF k <= NT THEN Start(Traces[k]) ELSE {}
            /\ ipos' = IF k <= NT THEN Start(Traces[k]) ELSE {}

Step ==
    /\ More
    /\ LET dk == DiskOf(Tr)
           c == CallOf(E)
           o == ObsOf(E)
           nxt == UNION {Succ(dk, s, c, o, E) : s \in poss}
           inx == IF ipos = {} THEN {} ELSE UNION {IPredicts(dk, s, c, o, E) : s \in ipos}
           drift == IF ipos # {} /\ inx = {} THEN {<<Tr.id, "DRIFT", Detail(c, "impl")>>} ELSE {}
       IN IF nxt # {}
          THEN /\ poss' = nxt /\ ipos' = inx /\ l' = l + 1 /\ t' = t
               /\ LET s0 == CHOOSE s \in poss : Succ(dk, s, c, o, E) # {}
                      u0 == CHOOSE u \in Succ(dk, s0, c, o, E) : TRUE
                  IN verdicts' = verdicts \cup drift
                         \cup {<<Tr.id, "EXTRA", Detail(c, k)>> : k \in ExtraBroken(dk, s0, c, o, u0)}
               /\ LET s0 == CHOOSE s \in poss : Succ(dk, s, c, o, E) # {}
                      ex == Exercised(dk, s0, c, o)
                  IN exer' = [k \in DOMAIN exer |-> exer[k] + (IF k \in ex THEN 1 ELSE 0)]
          ELSE /\ verdicts' = verdicts \cup drift
                              \cup {<<Tr.id, b[1], Detail(c, b[2])>> : b \in Why(dk, c, o, E)}
               /\ Reset(t + 1)
               /\ exer' = exer
    /\ UNCHANGED <<vars, stopped>>

NextTrace == /\ Active /\ l > Len(Evs)
             /\ Reset(t + 1)
             /\ UNCHANGED <<vars, verdicts, exer, stopped>>

Finish == /\ ~Active /\ ~stopped
          /\ JsonSerialize(IOEnv.VERDICT_FILE,
                 [n |-> NT, rejected |-> SetToSeq(verdicts),
                  exercised |-> [k \in DOMAIN exer |-> exer[k]]])
          /\ stopped' = TRUE
          /\ UNCHANGED <<vars, t, l, poss, ipos, verdicts, exer>>

TInit == /\ disk = EmptyMap /\ path = <<>> /\ loaded = EmptyMap /\ last = NoCall /\ ncalls = 0
         /\ t = 1 /\ l = 1
         /\ poss = IF NT >= 1 THEN Start(Traces[1]) ELSE {}
         /\ ipos = IF NT >= 1 THEN Start(Traces[1]) ELSE {}
         /\ verdicts = {}
         /\ exer = [k \in ClauseNames |-> 0]
         /\ stopped = FALSE
TNext == Step \/ NextTrace \/ Finish
TSpec == TInit /\ [][TNext]_tvars
=============================================================================

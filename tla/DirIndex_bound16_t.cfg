SPECIFICATION SpecSize
CONSTANTS
  Pool <- MC_Pool
  Absent <- MC_Absent
  MaxN = 4
  HMax = 5
  Keys <- MC_Keys
  AbsentKey = "K0"
  MaxKeyN = 3
  MaxEntries = 65535
  SizeDomain <- MC_AllN
  FinalCompare = TRUE
  Clamp = "zero"
  SizeBits = 32
  Boundary <- MC_Boundary
CHECK_DEADLOCK FALSE
INVARIANT TypeOK
INVARIANT Inv_BoundaryExact
INVARIANT Inv_SectionLayout
INVARIANT Inv_EntryIndexFits
INVARIANT Inv_Monotone
INVARIANT Inv_Wide32

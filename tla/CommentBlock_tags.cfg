SPECIFICATION Spec
CONSTANTS
  Forms <- OneForm
  Indents <- Ind02
  MaxIdAnns = 0
  MaxParams = 0
  MaxParamAnns = 0
  MaxPartLines = 1
  MaxDescLines = 0
  MaxParas = 0
  MaxTags = 2
  TagNames <- TagsAll
  MaxTagAnns = 2
  MaxCont = 2
  MaxNoise = 0
  AtReturns = FALSE
  FaultKinds <- NoFaults
  MaxFaults = 0
  KeepLines = FALSE
  Known <- KnownC10
  StartLine = 10
CHECK_DEADLOCK FALSE
INVARIANT TypeOK
INVARIANT RoundTrip
INVARIANT WriterFix

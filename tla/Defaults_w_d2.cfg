SPECIFICATION Spec
CONSTANTS
  Dev <- MC_DevAll
  Mode = "witness"
  MaxParams = 0
CHECK_DEADLOCK FALSE
INVARIANT W_D2

SPECIFICATION Spec
CONSTANTS
  Mode = "witness"
  MaxParams = 0
CHECK_DEADLOCK FALSE
INVARIANT W_D2

INIT Init
NEXT Next
CONSTANTS
  EmptyPrefixBug = FALSE
  U8Mod16 = TRUE
INVARIANT ConstOK
CHECK_DEADLOCK FALSE

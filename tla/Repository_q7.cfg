SPECIFICATION Spec
CONSTANTS
  NS <- MC_NS
  Dirs <- MC_Dirs3
  VChars <- MC_VChars
  DiskConfigs <- MC_DiskEqual
  EnvConfigs <- MC_EnvE
  MaxCalls = 3
  Ops <- MC_OpsElect
  ReqVers <- MC_VEq
  Lazies <- MC_Eager
  Dev = {}
  Known <- MC_KnownDesign
CHECK_DEADLOCK FALSE
INVARIANT ImplMeetsProperty
INVARIANT OneVersionPerNs
INVARIANT DepsClosedInv

----------------------------- MODULE GirIOTrace -----------------------------
(* C07 judged by TLC on observations of the REAL writer/reader pair (harness/girio.py, harness/props/c07.py).

   One record = one cycle:  src = "scan"     m produced by the scanner pipeline: x1 = W(m), m' = R(x1), x2 = W(m')
                            src = "expected" x = tests/scanner/*-expected.gir (written by this writer): m = R(x), x1 = W(m), ...
                            src = "shipped"  x = gir/*.gir (hand-maintained): as above, x need not equal x1
                            src = "regen"    x = an x1 / x2 of an earlier cycle (a file produced by a write)
   h0, h1, h2 are the SHA-1 of x, x1, x2 ("" = not applicable); err = exception text of the reader/writer;
   rv = verdict of scannermain.write_output(--reparse-validate) on x1 ("na" when not exercised);
   pairs = nodes of m and m' zipped by path with the fields of the GirIO vocabulary copied verbatim,
   onlyOrig / onlyBack = nodes present on one side only; strict = no source root was applied by the
   writer (otherwise file names of positions are relativised and only line/column are compared). *)
EXTENDS GirIO, Json, IOUtils, SequencesExt

Obs == JsonDeserialize(IOEnv.TRACE_FILE)

Known(k) == k \in Kinds
PosFileFields == {"doc_position.filename", "main_position.filename"}
\* View(k, f1) # View(k, f2), evaluated only where the raw copies differ
RowDiffers(k, f, m1, m2, strict) == /\ m1[f] # m2[f]
                                    /\ ~(~strict /\ f \in PosFileFields)
                                    /\ ViewRow(FRow(k, f), m1) # ViewRow(FRow(k, f), m2)
DocGone(m1, m2) == Has(m1, "doc") /\ Truthy(m1["doc"]) # Truthy(m2["doc"])     \* changes the view of the doc position
BadProps(k, m1, m2, strict) ==
    IF m1 = m2 THEN {}
    ELSE {f \in ApiFieldsBy[k] : RowDiffers(k, f, m1, m2, strict) \/ (f \in DocPosFields /\ DocGone(m1, m2))}
         \cup LET a == Derived(k, m1)
                  b == Derived(k, m2)
              IN {p \in DOMAIN a : a[p] # b[p]}
PairBad(r, q) == \/ q.k1 # q.k2
                 \/ Known(q.k1) /\ BadProps(q.k1, q.f1, q.f2, r.strict) # {}
BadPairs(r) == {i \in 1..Len(r.pairs) : PairBad(r, r.pairs[i])}
Ran(r) == r.err = ""

Clause(r, c) ==
    CASE c = "Readable"   -> r.err = ""
      [] c = "FixedPoint" -> Ran(r) => r.h1 = r.h2
      [] c = "Identity"   -> (Ran(r) /\ r.src \in {"expected", "regen"}) => r.h0 = r.h1
      [] c = "Reparse"    -> (Ran(r) /\ r.rv # "na") => r.rv = "ok"
      [] c = "SameNodes"  -> Ran(r) => (Len(r.onlyOrig) = 0 /\ Len(r.onlyBack) = 0)
      [] c = "Agree"      -> Ran(r) => BadPairs(r) = {}
Speaks(r) == [
    Readable |-> TRUE, FixedPoint |-> Ran(r), Identity |-> Ran(r) /\ r.src \in {"expected", "regen"},
    Reparse |-> Ran(r) /\ r.rv # "na", SameNodes |-> Ran(r), Agree |-> Ran(r) ]
ClauseNames == {"Readable", "FixedPoint", "Identity", "Reparse", "SameNodes", "Agree"}

MinOf(S) == CHOOSE x \in S : \A y \in S : x <= y
FirstBadProp(r, q) == IF q.k1 # q.k2 THEN "kind:" \o q.k2
                      ELSE CHOOSE p \in BadProps(q.k1, q.f1, q.f2, r.strict) : TRUE
Detail(r, c) ==
    CASE c = "Readable" -> r.errwhere
      [] c = "FixedPoint" -> r.difftag
      [] c = "Identity" -> r.difftag
      [] c = "Reparse" -> r.rv
      [] c = "SameNodes" -> IF Len(r.onlyOrig) > 0 THEN "lost:" \o r.onlyOrig[1].k ELSE "gained:" \o r.onlyBack[1].k
      [] c = "Agree" -> LET q == r.pairs[MinOf(BadPairs(r))] IN q.k1 \o "." \o FirstBadProp(r, q)
      [] OTHER -> ""

Rejected == { <<Obs[p[1]].id, p[2], Detail(Obs[p[1]], p[2])>> :
                 p \in { pp \in (1..Len(Obs)) \X ClauseNames : ~Clause(Obs[pp[1]], pp[2]) } }
Exercised == [c \in ClauseNames |-> Cardinality({i \in 1..Len(Obs) : Speaks(Obs[i])[c]})]

ASSUME JsonSerialize(IOEnv.VERDICT_FILE, [n |-> Len(Obs), rejected |-> SetToSeq(Rejected), exercised |-> Exercised])
VARIABLE done
Init == done = FALSE
Next == ~done /\ done' = TRUE
=============================================================================

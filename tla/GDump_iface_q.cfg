INIT Init
NEXT Next
CONSTANTS
  Dev = {"barepointer"}
  Family = "iface"
  Size = "q"
INVARIANT ImplSatisfiesPropertyModuloKnown
INVARIANT ImplSatisfiesExtra
INVARIANT WellFormed
CHECK_DEADLOCK FALSE

----------------------------- MODULE OrderTrace -----------------------------
(***************************************************************************)
(* C16 property layer evaluated by TLC on observations of the REAL scanner *)
(* (harness/props/c16.py runs harness/c16run.py in subprocesses).          *)
(*                                                                         *)
(* One observation per INPUT (declarations + comment blocks + runtime dump *)
(* + options + dependency GIRs):                                           *)
(*   [id, cls,                                                             *)
(*    runs : Seq([seed  : PYTHONHASHSEED of the interpreter,               *)
(*                b     : permutation of the comment blocks ("id" = as     *)
(*                        written),                                        *)
(*                f     : permutation of the source files containing them, *)
(*                ts    : order of typedef and struct body of every tag,   *)
(*                cache : "off" | "cold" (empty cache directory: parsed    *)
(*                        afresh and stored) | "warm" (served by           *)
(*                        CacheStore.load from the directory a cold run of *)
(*                        another process filled),                         *)
(*                h     : permutation of the header files (order of the    *)
(*                        declarations themselves; "id" = as written),     *)
(*                sha   : sha256 of the emitted GIR ("" = the run failed), *)
(*                dsha  : digest of the diagnostics in emission order, ok]),                                                    *)
(*    outs : Seq([sha, groups : Seq([parent, ptag, items : Seq([tag, name, *)
(*                key : code points of the sort key])]),                   *)
(*                decl : Seq([cid, kind, names])]) one per distinct GIR,   *)
(*    declared : Seq([cid, names]) declaration order of fields / members / *)
(*                parameters of the input, by C identifier]                *)
(***************************************************************************)
EXTENDS Naturals, Sequences, FiniteSets, TLC, Json, IOUtils, SequencesExt

Obs == JsonDeserialize(IOEnv.TRACE_FILE)

Dims == {"seed", "b", "f", "ts", "cache", "h"}
Val(r, d) == CASE d = "seed" -> <<"i", r.seed>> [] d = "b" -> <<"s", r.b>> [] d = "f" -> <<"s", r.f>>
               [] d = "ts" -> <<"s", r.ts>> [] d = "cache" -> <<"s", r.cache>> [] d = "h" -> <<"s", r.h>>
\* two runs of one input whose configurations differ in dimension d only
DifferOnly(r1, r2, d) == Val(r1, d) # Val(r2, d) /\ \A e \in Dims \ {d} : Val(r1, e) = Val(r2, e)
Pairs(o, d) == {p \in (1..Len(o.runs)) \X (1..Len(o.runs)) : p[1] < p[2] /\ DifferOnly(o.runs[p[1]], o.runs[p[2]], d)}
SameOut(o, d) == \A p \in Pairs(o, d) : o.runs[p[1]].sha = o.runs[p[2]].sha
\* runs that feed the declarations in the order of the input (header order is outside the equal-digest claim)
Claimed(o) == {i \in 1..Len(o.runs) : o.runs[i].h = "id"}

(* ---- sibling order: a fixed function of names and kinds (girwriter.py) ---- *)
RankTable == [
    repository  |-> [include |-> 0, package |-> 1, cinclude |-> 2, docformat |-> 3, namespace |-> 4],
    namespace   |-> [alias |-> 0],
    class       |-> [implements |-> 0, prerequisite |-> 0, constructor |-> 1, function |-> 2, virtualmethod |-> 3,
                     method |-> 4, methodinline |-> 4, property |-> 5, field |-> 6, record |-> 6, union |-> 6, glibsignal |-> 7],
    interface   |-> [implements |-> 0, prerequisite |-> 0, constructor |-> 1, function |-> 2, virtualmethod |-> 3,
                     method |-> 4, methodinline |-> 4, property |-> 5, field |-> 6, record |-> 6, union |-> 6, glibsignal |-> 7],
    record      |-> [field |-> 0, record |-> 0, union |-> 0, constructor |-> 1, method |-> 2, methodinline |-> 2, function |-> 3],
    union       |-> [field |-> 0, record |-> 0, union |-> 0, constructor |-> 1, method |-> 2, methodinline |-> 2, function |-> 3],
    enumeration |-> [member |-> 0, function |-> 1],
    bitfield    |-> [member |-> 0, function |-> 1],
    glibboxed   |-> [constructor |-> 0, method |-> 1, methodinline |-> 1, function |-> 2] ]
\* tags arrive with ':' and '-' removed (record field names)
Rank(ptag, tag) == IF ptag \notin DOMAIN RankTable THEN 50
                   ELSE IF tag \in DOMAIN RankTable[ptag] THEN RankTable[ptag][tag]
                   ELSE IF ptag = "namespace" THEN 1 ELSE 50
\* written in declaration order, not sorted
DeclOrdered(ptag, tag) == tag \in {"field", "member"} \/ (ptag # "namespace" /\ tag \in {"record", "union"})
MinLen(a, b) == IF Len(a) < Len(b) THEN Len(a) ELSE Len(b)
LexLeq(a, b) == \/ \E k \in 1..MinLen(a, b) : a[k] < b[k] /\ \A j \in 1..(k - 1) : a[j] = b[j]
                \/ Len(a) <= Len(b) /\ \A j \in 1..Len(a) : a[j] = b[j]
SortedGroup(g) == \A i \in 1..(Len(g.items) - 1) :
                     LET a == g.items[i]  b == g.items[i + 1]
                         ra == Rank(g.ptag, a.tag)  rb == Rank(g.ptag, b.tag) IN
                     \/ ra < rb
                     \/ ra = rb /\ (DeclOrdered(g.ptag, a.tag) \/ DeclOrdered(g.ptag, b.tag) \/ LexLeq(a.key, b.key))
BadGroups(o) == UNION {{<<k, j>> : j \in {i \in 1..Len(o.outs[k].groups) : ~SortedGroup(o.outs[k].groups[i])}} : k \in 1..Len(o.outs)}

(* ---- members / fields / parameters keep declaration order ---- *)
IsSubSeq(s, t) == \* s is a subsequence of t (names are unique within one declaration)
    /\ \A i \in 1..Len(s) : \E j \in 1..Len(t) : t[j] = s[i]
    /\ \A i \in 1..(Len(s) - 1) : (CHOOSE j \in 1..Len(t) : t[j] = s[i]) < (CHOOSE j \in 1..Len(t) : t[j] = s[i + 1])
DeclaredAt(o, cid) == {i \in 1..Len(o.declared) : o.declared[i].cid = cid}
DeclOk(o, d) == DeclaredAt(o, d.cid) = {} \/ IsSubSeq(d.names, o.declared[CHOOSE i \in DeclaredAt(o, d.cid) : TRUE].names)
BadDecl(o) == UNION {{<<k, j>> : j \in {i \in 1..Len(o.outs[k].decl) : ~DeclOk(o, o.outs[k].decl[i])}} : k \in 1..Len(o.outs)}
SpeaksDecl(o) == \E k \in 1..Len(o.outs) : \E j \in 1..Len(o.outs[k].decl) : DeclaredAt(o, o.outs[k].decl[j].cid) # {}

Clauses(o) == [
    \* byte-identical GIR whatever the interpreter's hash seed
    HashSeed           |-> SameOut(o, "seed"),
    \* ... in whatever order the comment blocks were supplied
    BlockOrder         |-> SameOut(o, "b"),
    \* ... and the source files containing them
    FileOrder          |-> SameOut(o, "f"),
    \* forward-declared and later-defined structures give the same result in either order
    TypedefStructOrder |-> SameOut(o, "ts"),
    \* whether dependency GIRs were parsed afresh or came from the cache
    ColdWarm           |-> SameOut(o, "cache"),
    \* all of these together: one digest per input
    OneDigest          |-> \A i, j \in Claimed(o) : o.runs[i].sha = o.runs[j].sha,
    \* the order of sibling elements is a fixed function of their names and kinds (every output, header-permuted runs included)
    SiblingOrder       |-> BadGroups(o) = {},
    \* members / fields / parameters in declaration order
    DeclOrder          |-> BadDecl(o) = {} ]
\* outside the statement, reported as a note: does the order of the header files (the declarations themselves) matter?
\* and: are the diagnostics emitted in the same order under every hash seed (set difference of parameter names iterated)?
Notes(o) == [ NOTE_HeaderOrder |-> SameOut(o, "h"),
              NOTE_DiagOrder   |-> \A p \in Pairs(o, "seed") : o.runs[p[1]].dsha = o.runs[p[2]].dsha ]

Names == {"HashSeed", "BlockOrder", "FileOrder", "TypedefStructOrder", "ColdWarm", "OneDigest", "SiblingOrder", "DeclOrder"}
NoteNames == {"NOTE_HeaderOrder", "NOTE_DiagOrder"}
DimOf(c) == CASE c = "HashSeed" -> "seed" [] c = "BlockOrder" -> "b" [] c = "FileOrder" -> "f" [] c = "TypedefStructOrder" -> "ts"
              [] c = "ColdWarm" -> "cache" [] c = "NOTE_HeaderOrder" -> "h" [] c = "NOTE_DiagOrder" -> "seed" [] OTHER -> "-"
Speaks(o, c) == CASE c \in {"HashSeed", "BlockOrder", "FileOrder", "TypedefStructOrder", "ColdWarm", "NOTE_HeaderOrder", "NOTE_DiagOrder"} -> Pairs(o, DimOf(c)) # {}
                  [] c = "OneDigest" -> Cardinality(Claimed(o)) > 1
                  [] c = "SiblingOrder" -> \E k \in 1..Len(o.outs) : \E j \in 1..Len(o.outs[k].groups) : Len(o.outs[k].groups[j].items) > 1
                  [] c = "DeclOrder" -> SpeaksDecl(o)
\* detail: a pair of run indices (1-based) showing the difference, or the offending group
Detail(o, c) ==
    IF c = "NOTE_DiagOrder" THEN LET bad == {p \in Pairs(o, "seed") : o.runs[p[1]].dsha # o.runs[p[2]].dsha}
                                     p == CHOOSE q \in bad : TRUE IN "runs " \o ToString(p[1]) \o "," \o ToString(p[2])
    ELSE IF DimOf(c) # "-" THEN LET bad == {p \in Pairs(o, DimOf(c)) : o.runs[p[1]].sha # o.runs[p[2]].sha}
                               p == CHOOSE q \in bad : TRUE IN "runs " \o ToString(p[1]) \o "," \o ToString(p[2])
    ELSE IF c = "OneDigest" THEN LET bad == {p \in Claimed(o) \X Claimed(o) : o.runs[p[1]].sha # o.runs[p[2]].sha}
                                     p == CHOOSE q \in bad : TRUE IN "runs " \o ToString(p[1]) \o "," \o ToString(p[2])
    ELSE IF c = "SiblingOrder" THEN LET p == CHOOSE q \in BadGroups(o) : TRUE IN "out " \o ToString(p[1]) \o " group " \o o.outs[p[1]].groups[p[2]].parent
    ELSE LET p == CHOOSE q \in BadDecl(o) : TRUE IN "out " \o ToString(p[1]) \o " decl " \o o.outs[p[1]].decl[p[2]].cid

Holds(o, c) == IF c \in Names THEN Clauses(o)[c] ELSE Notes(o)[c]
Rejected == { <<Obs[q[1]].id, q[2], Detail(Obs[q[1]], q[2])>> :
                 q \in { p \in (1..Len(Obs)) \X (Names \cup NoteNames) : ~Holds(Obs[p[1]], p[2]) } }
Exercised == [c \in (Names \cup NoteNames) |-> Cardinality({i \in 1..Len(Obs) : Speaks(Obs[i], c)})]
ASSUME JsonSerialize(IOEnv.VERDICT_FILE, [n |-> Len(Obs), rejected |-> SetToSeq(Rejected), exercised |-> Exercised])
VARIABLE done
Init == done = FALSE
Next == ~done /\ done' = TRUE
=============================================================================

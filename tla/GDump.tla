------------------------------- MODULE GDump -------------------------------
(***************************************************************************)
(* C12: runtime GObject type data is merged faithfully into the GIR.       *)
(* giscanner/gdumpparser.py (GDumpParser), giscanner/maintransformer.py    *)
(* (_pass_type_resolution, _pair_class_virtuals, _pair_quarks_with_enums), *)
(* girepository/gdump.c (the producer of the dump document; its format is  *)
(* the interface, see harness/gdumpgen.py render_dump).                    *)
(*                                                                         *)
(* A WORLD  w = [decls, reg, quarks, ext, ann]  is a set of scanned C      *)
(* declarations and the library's runtime GType registry (what the         *)
(* introspection binary reports when asked about a get-type / error-quark  *)
(* function).  An OBSERVATION  r = [w, asked, askedQ, dump, dumpQ, g,      *)
(* crashed]  adds what the scanner asked for, what was reported, and the   *)
(* projection g of the emitted GIR (harness/gdumpgen.py project).          *)
(*                                                                         *)
(* PROPERTY LAYER  = the failure sets F_<Clause> over (w, dump, g) only.    *)
(* IMPLEMENTATION-SHAPED LAYER = the pc-machine at the end of the module   *)
(* (one action per pass of GDumpParser.parse / MainTransformer.transform), *)
(* whose final state is projected to the same g.                           *)
(***************************************************************************)
EXTENDS Naturals, Sequences, FiniteSets, TLC

CONSTANT Dev    \* deviations of the scanner from the statement that the implementation layer can reproduce (what-if switches):
                \* "barepointer" CURRENT CODE (known finding): a pointer type without a same-named struct/union is dropped
                \*               and its get-type function kept (GDumpParser._pair_pointer_type)
                \* "emptydef"    repaired (b4d5363): the writer dropped a reported default value that is the empty string
                \* "quarkfloat"  repaired (3cb096a): an error-quark function moved into a class (its symbol prefix prefixes
                \*               the function) was not seen by _pair_quarks_with_enums unless a registered enumeration had
                \*               the longer prefix

RangeOf(s) == {s[i] : i \in DOMAIN s}
Bit(x, k) == (x \div (2 ^ k)) % 2 = 1
MinOf(S) == CHOOSE x \in S : \A y \in S : x <= y

---------------------------------------------------------------------------
(* Names.  The scanned namespace is "Foo" (identifier prefix Foo, symbol prefix foo).              *)
IdPfx == "Foo"
SymPfx == "foo_"
ShapeSuffix(s) == CASE s = "get_type" -> "_get_type" [] s = "get_gtype" -> "_get_gtype"
                    [] s = "error_quark" -> "_error_quark" [] s = "quark" -> "_quark" [] OTHER -> ""

(* GType names of the fundamental value types -> GIR type names (GI type system)                   *)
FundName(t) ==
    CASE t = "void" -> "none"       [] t = "gchar" -> "gchar"     [] t = "guchar" -> "guint8"
      [] t = "gboolean" -> "gboolean" [] t = "gint" -> "gint"     [] t = "guint" -> "guint"
      [] t = "glong" -> "glong"     [] t = "gulong" -> "gulong"   [] t = "gint64" -> "gint64"
      [] t = "guint64" -> "guint64" [] t = "gfloat" -> "gfloat"   [] t = "gdouble" -> "gdouble"
      [] t = "gchararray" -> "utf8" [] t = "gpointer" -> "gpointer" [] t = "GType" -> "GType"
      [] t = "GStrv" -> "array:utf8"
      [] OTHER -> ""

---------------------------------------------------------------------------
(* Well-formedness of a world (what the generators guarantee; name relations are carried by the   *)
(* world because TLA+ strings only offer equality and concatenation).                              *)
DeclOK(d) ==
    /\ d.k \in {"struct", "union", "opaque", "enum", "flags", "fn", "callback"}
    /\ d.k \in {"struct", "union", "opaque", "enum", "flags", "callback"} => d.c = IdPfx \o d.n
    /\ d.k = "fn" => /\ d.n = d.base \o ShapeSuffix(d.shape)
                     /\ d.c \in {SymPfx \o d.n, "_" \o SymPfx \o d.n}
RegOK(t) ==
    /\ t.k \in {"class", "interface", "boxed", "pointer", "enum", "flags", "fundamental"}
    /\ t.gt = IdPfx \o t.n
WorldOK(w) ==
    /\ \A i \in DOMAIN w.decls : DeclOK(w.decls[i])
    /\ \A i \in DOMAIN w.reg : RegOK(w.reg[i])
    /\ \A i, j \in DOMAIN w.decls : i # j => w.decls[i].c # w.decls[j].c
    /\ \A i, j \in DOMAIN w.reg : i # j => w.reg[i].gt # w.reg[j].gt /\ w.reg[i].fn # w.reg[j].fn

Decls(w, kinds) == {i \in DOMAIN w.decls : w.decls[i].k \in kinds}
DeclNamed(w, kinds, c) == {i \in Decls(w, kinds) : w.decls[i].c = c}
Compound == {"struct", "union", "opaque"}
RecordLike == {"struct", "opaque"}           \* become ast.Record

(* the functions the scanner has to ask the binary about (GDumpParser.init_parse)                  *)
IsMetaFn(d) == d.k = "fn" /\ d.shape \in {"get_type", "get_gtype"} /\ d.np = 0 /\ d.ret = "GType" /\ d.c = SymPfx \o d.n
IsQuarkFn(d) == d.k = "fn" /\ d.shape = "error_quark" /\ d.ret = "GQuark" /\ d.c = SymPfx \o d.n
MetaFns(w) == {w.decls[i].c : i \in {j \in DOMAIN w.decls : IsMetaFn(w.decls[j])}}
QuarkFns(w) == {w.decls[i].c : i \in {j \in DOMAIN w.decls : IsQuarkFn(w.decls[j])}}

ExtGts(w) == {w.ext[i].gt : i \in DOMAIN w.ext}
ExtName(w, gt) == LET i == CHOOSE j \in DOMAIN w.ext : w.ext[j].gt = gt IN w.ext[i].gir

---------------------------------------------------------------------------
(* The emitted GIR g = [classes, records, boxed, enums, functions] (sequences of element records). *)
El(g, x) == CASE x[1] = "c" -> g.classes[x[2]] [] x[1] = "r" -> g.records[x[2]]
              [] x[1] = "b" -> g.boxed[x[2]]   [] x[1] = "e" -> g.enums[x[2]]
Carriers(g, gt) == {<<"c", i>> : i \in {j \in DOMAIN g.classes : g.classes[j].typeName = gt}}
                   \cup {<<"r", i>> : i \in {j \in DOMAIN g.records : g.records[j].typeName = gt}}
                   \cup {<<"b", i>> : i \in {j \in DOMAIN g.boxed : g.boxed[j].typeName = gt}}
                   \cup {<<"e", i>> : i \in {j \in DOMAIN g.enums : g.enums[j].typeName = gt}}
Carrier(g, gt) == El(g, CHOOSE x \in Carriers(g, gt) : TRUE)
One(g, gt) == Cardinality(Carriers(g, gt)) = 1

(* "actually known": the GType name is carried by an element of the emitted GIR or registered by an included namespace *)
Known(w, g, gt) == Carriers(g, gt) # {} \/ gt \in ExtGts(w)
KnownName(w, g, gt) == IF Carriers(g, gt) # {} THEN Carrier(g, gt).name ELSE ExtName(w, gt)
(* GIR type name expected for a reported GType name; "" = the statement is silent (unknown type)   *)
ExpTy(w, g, t) == IF FundName(t) # "" THEN FundName(t) ELSE IF Known(w, g, t) THEN KnownName(w, g, t) ELSE ""

AllFns(g) == {g.functions[i].cid : i \in DOMAIN g.functions}
             \cup UNION {RangeOf(g.classes[i].fns) : i \in DOMAIN g.classes} \cup UNION {RangeOf(g.records[i].fns) : i \in DOMAIN g.records}
             \cup UNION {RangeOf(g.boxed[i].fns) : i \in DOMAIN g.boxed} \cup UNION {RangeOf(g.enums[i].fns) : i \in DOMAIN g.enums}
ClassNamed(g, n) == {i \in DOMAIN g.classes : g.classes[i].name = n}
RecordNamed(g, n) == {i \in DOMAIN g.records : g.records[i].name = n}

---------------------------------------------------------------------------
(* PROPERTY LAYER.  r = [w, dump, dumpQ, g, asked, askedQ, crashed].  Every clause is a set of     *)
(* FAILURES <<clause, detail>>; the clause holds iff the set is empty.  Antecedents say when the   *)
(* statement speaks.                                                                               *)
ClassKinds == {"class", "fundamental"}
Dumped(r, kinds) == {i \in DOMAIN r.dump : r.dump[i].k \in kinds}
HasCompound(w, t) == DeclNamed(w, Compound, t.gt) # {}
CompoundOf(w, t) == w.decls[CHOOSE i \in DeclNamed(w, Compound, t.gt) : TRUE]
(* a pointer type without a same-named struct/union *)
BarePointer(w, t) == t.k = "pointer" /\ ~HasCompound(w, t)
KindDetail(w, t) == IF BarePointer(w, t) THEN "pointer/bare" ELSE t.k

ExpTags(w, t) ==
    CASE t.k \in ClassKinds -> {"class"}
      [] t.k = "interface" -> {"interface"}
      [] t.k = "enum" -> {"enumeration"}
      [] t.k = "flags" -> {"bitfield"}
      [] t.k \in {"boxed", "pointer"} ->
             IF HasCompound(w, t) THEN {IF CompoundOf(w, t).k = "union" THEN "union" ELSE "record"}
             ELSE IF t.k = "boxed" THEN {"glib:boxed"}
             ELSE {"glib:boxed", "record", "union", "class", "interface", "enumeration", "bitfield"}   \* bare pointer: any element

(* registered type name + get-type function, once, on the right kind of element                    *)
F_Registered(r) ==
    {<<"Registered", KindDetail(r.w, r.dump[i])>> : i \in {j \in DOMAIN r.dump :
        LET t == r.dump[j] IN
        ~ (/\ One(r.g, t.gt)
           /\ Carrier(r.g, t.gt).name = t.n
           /\ Carrier(r.g, t.gt).getType = t.fn
           /\ Carrier(r.g, t.gt).tag \in ExpTags(r.w, t))}}

(* boxed (and pointer) types attach to the structure or union of the same name, else a bare glib:boxed *)
F_Boxed(r) ==
    {<<"Boxed", IF HasCompound(r.w, r.dump[i]) THEN CompoundOf(r.w, r.dump[i]).k ELSE "bare">> :
       i \in {j \in Dumped(r, {"boxed"}) :
        LET t == r.dump[j] IN
        One(r.g, t.gt) /\
        ~ (IF HasCompound(r.w, t)
           THEN Carrier(r.g, t.gt).tag = (IF CompoundOf(r.w, t).k = "union" THEN "union" ELSE "record")
                /\ Carrier(r.g, t.gt).ctype = t.gt
                /\ \A b \in DOMAIN r.g.boxed : r.g.boxed[b].name # t.n
           ELSE Carrier(r.g, t.gt).tag = "glib:boxed")}}

(* parent = nearest ancestor of the reported chain that is actually known                          *)
KnownPos(r, t) == {p \in DOMAIN t.parents : Known(r.w, r.g, t.parents[p])}
F_Parent(r) ==
    {<<"Parent", IF MinOf(KnownPos(r, r.dump[i])) = 1 THEN "direct" ELSE "hidden-skipped">> :
       i \in {j \in Dumped(r, ClassKinds) :
        LET t == r.dump[j] IN
        One(r.g, t.gt) /\ KnownPos(r, t) # {} /\
        Carrier(r.g, t.gt).parent # KnownName(r.w, r.g, t.parents[MinOf(KnownPos(r, t))])}}

(* exactly the interfaces / prerequisites reported (those that are known)                          *)
ExpIfaces(r, t) == {KnownName(r.w, r.g, x) : x \in {y \in RangeOf(t.ifaces) : Known(r.w, r.g, y)}}
F_Interfaces(r) ==
    {<<"Interfaces", r.dump[i].k>> : i \in {j \in Dumped(r, ClassKinds \cup {"interface"}) :
        LET t == r.dump[j]
            e == Carrier(r.g, t.gt)
            got == IF t.k = "interface" THEN e.prereq ELSE e.impl
            other == IF t.k = "interface" THEN e.impl ELSE e.prereq
        IN One(r.g, t.gt) /\ e.tag \in {"class", "interface"} /\
           ~ (RangeOf(got) = ExpIfaces(r, t) /\ Len(got) = Cardinality(ExpIfaces(r, t)) /\ other = <<>>)}}

(* properties and signals: exactly those reported, each once                                       *)
PropsOf(e, name) == {q \in DOMAIN e.props : e.props[q].name = name}
SigsOf(e, name) == {q \in DOMAIN e.sigs : e.sigs[q].name = name}
WithMembers(r) == {j \in Dumped(r, {"class", "interface"}) : One(r.g, r.dump[j].gt) /\ Carrier(r.g, r.dump[j].gt).tag \in {"class", "interface"}}
F_Members(r) ==
    {<<"Members", r.dump[i].k>> : i \in {j \in WithMembers(r) :
        LET t == r.dump[j]
            e == Carrier(r.g, t.gt)
        IN ~ (/\ Len(e.props) = Len(t.props) /\ Len(e.sigs) = Len(t.sigs)
              /\ \A p \in DOMAIN t.props : Cardinality(PropsOf(e, t.props[p].name)) = 1
              /\ \A s \in DOMAIN t.sigs : Cardinality(SigsOf(e, t.sigs[s].name)) = 1)}}

(* pairs (dump index, property index) whose GIR counterpart is unique *)
PropPairs(r) == {x \in UNION {{<<j, p>> : p \in DOMAIN r.dump[j].props} : j \in WithMembers(r)} :
                   Cardinality(PropsOf(Carrier(r.g, r.dump[x[1]].gt), r.dump[x[1]].props[x[2]].name)) = 1}
RP(r, x) == r.dump[x[1]].props[x[2]]
GP(r, x) == LET e == Carrier(r.g, r.dump[x[1]].gt) IN e.props[CHOOSE q \in PropsOf(e, RP(r, x).name) : TRUE]
FlagDetail(p, q) ==
    IF q.readable # Bit(p.lo, 0) THEN "readable" ELSE IF q.writable # Bit(p.lo, 1) THEN "writable"
    ELSE IF q.construct # Bit(p.lo, 2) THEN "construct" ELSE "construct-only"
F_PropFlags(r) ==
    {<<"PropFlags", FlagDetail(RP(r, x), GP(r, x))>> : x \in {y \in PropPairs(r) :
        LET p == RP(r, y)
            q == GP(r, y)
        IN ~ (/\ q.readable = Bit(p.lo, 0) /\ q.writable = Bit(p.lo, 1)
              /\ q.construct = Bit(p.lo, 2) /\ q.constructOnly = Bit(p.lo, 3))}}
TyDetail(t) == IF FundName(t) # "" THEN "fundamental" ELSE "registered"
F_PropType(r) ==
    {<<"PropType", TyDetail(RP(r, x).ty)>> : x \in {y \in PropPairs(r) :
        ExpTy(r.w, r.g, RP(r, y).ty) # "" /\ GP(r, y).ty # ExpTy(r.w, r.g, RP(r, y).ty)}}
F_PropDefault(r) ==
    {<<"PropDefault", IF ~RP(r, x).hasDef THEN "absent" ELSE IF RP(r, x).def = "" THEN "empty-string" ELSE "value">> :
       x \in {y \in PropPairs(r) :
        ~ (GP(r, y).hasDef = RP(r, y).hasDef /\ (RP(r, y).hasDef => GP(r, y).def = RP(r, y).def))}}

SigPairs(r) == {x \in UNION {{<<j, s>> : s \in DOMAIN r.dump[j].sigs} : j \in WithMembers(r)} :
                   Cardinality(SigsOf(Carrier(r.g, r.dump[x[1]].gt), r.dump[x[1]].sigs[x[2]].name)) = 1}
RS(r, x) == r.dump[x[1]].sigs[x[2]]
GS(r, x) == LET e == Carrier(r.g, r.dump[x[1]].gt) IN e.sigs[CHOOSE q \in SigsOf(e, RS(r, x).name) : TRUE]
F_SigWhen(r) ==
    {<<"SigWhen", IF RS(r, x).when = "" THEN "none" ELSE RS(r, x).when>> : x \in {y \in SigPairs(r) : GS(r, y).when # RS(r, y).when}}
F_SigFlags(r) ==
    {<<"SigFlags", "flags">> : x \in {y \in SigPairs(r) :
        ~ (/\ GS(r, y).norec = RS(r, y).norec /\ GS(r, y).det = RS(r, y).det
           /\ GS(r, y).act = RS(r, y).act /\ GS(r, y).nohooks = RS(r, y).nohooks)}}
F_SigTypes(r) ==
    {<<"SigTypes", "return-or-parameter">> : x \in {y \in SigPairs(r) :
        LET s == RS(r, y)
            q == GS(r, y)
        IN ~ (/\ ExpTy(r.w, r.g, s.ret) # "" => q.ret = ExpTy(r.w, r.g, s.ret)
              /\ Len(q.params) = Len(s.params)
              /\ \A p \in DOMAIN s.params : (p \in DOMAIN q.params /\ ExpTy(r.w, r.g, s.params[p]) # "")
                                                => q.params[p] = ExpTy(r.w, r.g, s.params[p]))}}

(* class / interface structures are linked to their type in both directions                        *)
StructCands(t) == IF t.k = "interface" THEN {t.n \o "Iface", t.n \o "Interface"} ELSE {t.n \o "Class"}
DeclaredStructs(w, t) == {n \in StructCands(t) : DeclNamed(w, RecordLike, IdPfx \o n) # {}}
WithStruct(r) == {j \in Dumped(r, ClassKinds \cup {"interface"}) :
                    One(r.g, r.dump[j].gt) /\ Carrier(r.g, r.dump[j].gt).tag \in {"class", "interface"}}
F_TypeStruct(r) ==
    {<<"TypeStruct", r.dump[i].k>> : i \in {j \in WithStruct(r) :
        LET t == r.dump[j]
            e == Carrier(r.g, t.gt)
            ds == DeclaredStructs(r.w, t)
        IN ~ (IF ds = {} THEN e.typeStruct = ""
              ELSE /\ e.typeStruct \in ds
                   /\ \E q \in RecordNamed(r.g, e.typeStruct) : r.g.records[q].structFor = t.n)}}
F_BackLink(r) ==
    {<<"BackLink", "record->type">> : q \in {p \in DOMAIN r.g.records :
        r.g.records[p].structFor # "" /\
        ~ \E c \in ClassNamed(r.g, r.g.records[p].structFor) : r.g.classes[c].typeStruct = r.g.records[p].name}}
    \cup
    {<<"BackLink", "type->record">> : c \in {p \in DOMAIN r.g.classes :
        r.g.classes[p].typeStruct # "" /\
        ~ \E q \in RecordNamed(r.g, r.g.classes[p].typeStruct) : r.g.records[q].structFor = r.g.classes[p].name}}

(* function-pointer members of the type structure whose first parameter is the instance <=> virtual methods *)
FirstParam(w, f) ==
    IF f.k = "fp" THEN f.first
    ELSE IF f.k = "cb" /\ DeclNamed(w, {"callback"}, f.first) # {}
         THEN w.decls[CHOOSE i \in DeclNamed(w, {"callback"}, f.first) : TRUE].first
         ELSE ""
StructDecl(w, n) == w.decls[CHOOSE i \in DeclNamed(w, RecordLike, IdPfx \o n) : TRUE]
ExpVfuncs(w, t, sname) == {f.n : f \in {x \in RangeOf(StructDecl(w, sname).fields) : x.k \in {"fp", "cb"} /\ FirstParam(w, x) = t.gt}}
F_Vfuncs(r) ==
    {<<"Vfuncs", r.dump[i].k>> : i \in {j \in WithStruct(r) :
        LET t == r.dump[j]
            e == Carrier(r.g, t.gt)
        IN ~ (IF e.typeStruct \in DeclaredStructs(r.w, t)
              THEN RangeOf(e.vfuncs) = ExpVfuncs(r.w, t, e.typeStruct) /\ Len(e.vfuncs) = Cardinality(ExpVfuncs(r.w, t, e.typeStruct))
              ELSE e.vfuncs = <<>>)}}

(* get-type functions disappear from the function list                                             *)
F_GetTypeGone(r) ==
    {<<"GetTypeGone", KindDetail(r.w, r.dump[i])>> : i \in {j \in DOMAIN r.dump : r.dump[j].fn \in AllFns(r.g)}}

(* error-quark functions give their error domain to the matching enumeration (and to no other)    *)
EnumUs(r) == {[n |-> r.w.decls[i].n, us |-> r.w.decls[i].us] : i \in Decls(r.w, {"enum"})}
             \cup {[n |-> r.dump[i].n, us |-> r.dump[i].us] : i \in Dumped(r, {"enum"})}
MatchEnums(r, q) == {x.n : x \in {y \in EnumUs(r) : SymPfx \o y.us \o "_quark" = q.fn}}
EnumEl(g, n) == {i \in DOMAIN g.enums : g.enums[i].name = n /\ g.enums[i].tag = "enumeration"}
F_ErrorDomain(r) ==
    {<<"ErrorDomain", "matching-enum">> : i \in {j \in DOMAIN r.dumpQ :
        \E n \in MatchEnums(r, r.dumpQ[j]) :
           ~ (EnumEl(r.g, n) # {} /\ \A e \in EnumEl(r.g, n) : r.g.enums[e].hasDomain /\ r.g.enums[e].domain = r.dumpQ[j].domain)}}
    \cup
    {<<"ErrorDomain", "other-enum">> : e \in {x \in DOMAIN r.g.enums :
        r.g.enums[x].hasDomain /\
        ~ \E j \in DOMAIN r.dumpQ : r.g.enums[x].name \in MatchEnums(r, r.dumpQ[j]) /\ r.g.enums[x].domain = r.dumpQ[j].domain}}

F_NoCrash(r) == IF r.crashed # "" THEN {<<"NoCrash", r.crashed>>} ELSE {}

(* beyond the statement (reported as notes, never as violations):                                  *)
(* X_Asked: the scanner asks exactly about the type-meta and error-quark functions it scanned      *)
(* X_Modifiers: abstract / final / fundamental as reported                                         *)
(* X_FundFuncs: ref/unref/set-value/get-value functions named by annotations land on the class     *)
AnnVal(w, c, k) == LET S == {i \in DOMAIN w.ann : w.ann[i].c = c /\ w.ann[i].k = k} IN
                   IF S = {} THEN "" ELSE w.ann[CHOOSE i \in S : TRUE].v
F_Extra(r) ==
    (IF r.crashed = "" /\ ~ (RangeOf(r.asked) = MetaFns(r.w) /\ RangeOf(r.askedQ) = QuarkFns(r.w)) THEN {<<"EXTRA", "X_Asked">>} ELSE {})
    \cup
    {<<"EXTRA", "X_Modifiers">> : i \in {j \in Dumped(r, ClassKinds) :
        LET t == r.dump[j]
            e == Carrier(r.g, t.gt)
        IN One(r.g, t.gt) /\ e.tag = "class" /\
           ~ (e.abstract = t.abstract /\ e.final = t.final /\ e.fundamental = (t.k = "fundamental"))}}
    \cup
    {<<"EXTRA", "X_FundFuncs">> : i \in {j \in Dumped(r, ClassKinds) :
        LET t == r.dump[j]
            e == Carrier(r.g, t.gt)
        IN One(r.g, t.gt) /\ e.tag = "class" /\
           ~ (/\ e.refFunc = AnnVal(r.w, t.gt, "ref-func") /\ e.unrefFunc = AnnVal(r.w, t.gt, "unref-func")
              /\ e.setValueFunc = AnnVal(r.w, t.gt, "set-value-func") /\ e.getValueFunc = AnnVal(r.w, t.gt, "get-value-func"))}}

ClauseNames == {"NoCrash", "Registered", "Boxed", "Parent", "Interfaces", "Members", "PropFlags", "PropType", "PropDefault",
                "SigWhen", "SigFlags", "SigTypes", "TypeStruct", "BackLink", "Vfuncs", "GetTypeGone", "ErrorDomain"}

(* all failures of one observation; a crashed run has no GIR, only NoCrash speaks                  *)
Failures(r) ==
    IF r.crashed # "" THEN F_NoCrash(r)
    ELSE F_Registered(r) \cup F_Boxed(r) \cup F_Parent(r) \cup F_Interfaces(r) \cup F_Members(r) \cup F_PropFlags(r)
         \cup F_PropType(r) \cup F_PropDefault(r) \cup F_SigWhen(r) \cup F_SigFlags(r) \cup F_SigTypes(r)
         \cup F_TypeStruct(r) \cup F_BackLink(r) \cup F_Vfuncs(r) \cup F_GetTypeGone(r) \cup F_ErrorDomain(r)
Holds(r) == Failures(r) = {}

(* how often a clause's antecedent is true in an observation (vacuity accounting)                  *)
Exercise(r) == [c \in ClauseNames |->
    IF r.crashed # "" THEN (IF c = "NoCrash" THEN 1 ELSE 0) ELSE
    CASE c = "NoCrash" -> 1
      [] c = "Registered" -> Len(r.dump)
      [] c = "Boxed" -> Cardinality(Dumped(r, {"boxed"}))
      [] c = "Parent" -> Cardinality({j \in Dumped(r, ClassKinds) : KnownPos(r, r.dump[j]) # {}})
      [] c = "Interfaces" -> Cardinality({j \in Dumped(r, ClassKinds \cup {"interface"}) : r.dump[j].ifaces # <<>>})
      [] c = "Members" -> Cardinality(WithMembers(r))
      [] c \in {"PropFlags", "PropDefault"} -> Cardinality(PropPairs(r))
      [] c = "PropType" -> Cardinality({y \in PropPairs(r) : ExpTy(r.w, r.g, RP(r, y).ty) # ""})
      [] c \in {"SigWhen", "SigFlags", "SigTypes"} -> Cardinality(SigPairs(r))
      [] c = "TypeStruct" -> Cardinality({j \in WithStruct(r) : DeclaredStructs(r.w, r.dump[j]) # {}})
      [] c = "BackLink" -> Cardinality({p \in DOMAIN r.g.records : r.g.records[p].structFor # ""})
                           + Cardinality({p \in DOMAIN r.g.classes : r.g.classes[p].typeStruct # ""})
      [] c = "Vfuncs" -> Cardinality({j \in WithStruct(r) : Carrier(r.g, r.dump[j].gt).typeStruct \in DeclaredStructs(r.w, r.dump[j])
                                          /\ ExpVfuncs(r.w, r.dump[j], Carrier(r.g, r.dump[j].gt).typeStruct) # {}})
      [] c = "GetTypeGone" -> Len(r.dump)
      [] c = "ErrorDomain" -> Cardinality({j \in DOMAIN r.dumpQ : MatchEnums(r, r.dumpQ[j]) # {}})]


---------------------------------------------------------------------------
(***************************************************************************)
(* IMPLEMENTATION-SHAPED LAYER.  A namespace is a function name -> node;   *)
(* one action per pass:                                                    *)
(*   Scan            Transformer.parse (as far as the merge depends on it) *)
(*   InitParse       GDumpParser.init_parse: which functions to ask about  *)
(*   Binary          the introspection binary (environment): the report    *)
(*   Introspect      GDumpParser._introspect_type, one dump child at a time*)
(*   IntrospectQ     GDumpParser._introspect_error_quark                   *)
(*   PairBoxed / PairPointer / FindClassRecords / RemoveGetTypes           *)
(*                   the tail of GDumpParser.parse                         *)
(*   TypeResolution  MainTransformer._pass_type_resolution (parent chain,  *)
(*                   interface / prerequisite filtering)                   *)
(*   PairVirtuals    MainTransformer._pair_class_virtuals                  *)
(*   PairQuarks      MainTransformer._pair_quarks_with_enums               *)
(*   Write           GIRWriter, projected like harness/gdumpgen.project    *)
(***************************************************************************)
VARIABLES w, pc, ns, asked, askedQ, dump, dumpQ, idx, btab, ptab, girOut
vars == <<w, pc, ns, asked, askedQ, dump, dumpQ, idx, btab, ptab, girOut>>

Blank == [kind |-> "", name |-> "", ctype |-> "", gt |-> "", getType |-> "", pfx |-> "", us |-> "",
          chain |-> <<>>, parent |-> "", abstract |-> FALSE, final |-> FALSE, fundamental |-> FALSE,
          typeStruct |-> "", structFor |-> "", ifaces |-> <<>>, impl |-> <<>>, props |-> <<>>, sigs |-> <<>>,
          fields |-> <<>>, vfuncs |-> <<>>, hasDomain |-> FALSE, domain |-> "",
          symbol |-> "", base |-> "", shape |-> "", ret |-> "", np |-> 0, first |-> ""]
EmptyNs == [x \in {} |-> Blank]
Put(n, node) == [x \in (DOMAIN n) \cup {node.name} |-> IF x = node.name THEN node ELSE n[x]]
Del(n, name) == [x \in (DOMAIN n) \ {name} |-> n[x]]
EmptyG == [classes |-> <<>>, records |-> <<>>, boxed |-> <<>>, enums |-> <<>>, functions |-> <<>>]

RECURSIVE AsSeq(_)
AsSeq(S) == IF S = {} THEN <<>> ELSE LET x == CHOOSE y \in S : TRUE IN <<x>> \o AsSeq(S \ {x})
RECURSIVE FoldNs(_, _, _)          \* apply Op(namespace, element) over a sequence
FoldNs(Op(_, _), n, sq) == IF sq = <<>> THEN n ELSE FoldNs(Op, Op(n, Head(sq)), Tail(sq))

(* ---- Scan *)
ScanNode(d) ==
    CASE d.k \in {"struct", "opaque"} -> [Blank EXCEPT !.kind = "record", !.name = d.n, !.ctype = d.c, !.us = d.us, !.fields = d.fields]
      [] d.k = "union"    -> [Blank EXCEPT !.kind = "union", !.name = d.n, !.ctype = d.c, !.us = d.us, !.fields = d.fields]
      [] d.k = "enum"     -> [Blank EXCEPT !.kind = "enum", !.name = d.n, !.ctype = d.c, !.us = d.us]
      [] d.k = "flags"    -> [Blank EXCEPT !.kind = "bitfield", !.name = d.n, !.ctype = d.c, !.us = d.us]
      [] d.k = "callback" -> [Blank EXCEPT !.kind = "callback", !.name = d.n, !.ctype = d.c, !.first = d.first]
      [] d.k = "fn"       -> [Blank EXCEPT !.kind = "function", !.name = d.n, !.symbol = d.c, !.base = d.base,
                                            !.shape = d.shape, !.ret = d.ret, !.np = d.np]
ScanOne(n, d) == IF d.k = "fn" /\ d.c # SymPfx \o d.n THEN n      \* underscore-prefixed symbols are not part of the namespace
                 ELSE Put(n, ScanNode(d))

(* ---- lookups *)
FnKeys(n, sym) == {x \in DOMAIN n : n[x].kind \in {"function", "quarkfn"} /\ n[x].symbol = sym}
FnBase(n, sym) == n[CHOOSE x \in FnKeys(n, sym) : TRUE].base
GtKeys(n, gt) == {x \in DOMAIN n : n[x].gt = gt /\ gt # ""}
ImplKnown(n, gt) == GtKeys(n, gt) # {} \/ gt \in ExtGts(w)
ImplName(n, gt) == IF GtKeys(n, gt) # {} THEN n[CHOOSE x \in GtKeys(n, gt) : TRUE].name ELSE ExtName(w, gt)
ImplTy(n, t) == IF FundName(t) # "" THEN FundName(t) ELSE IF ImplKnown(n, t) THEN ImplName(n, t) ELSE ""

(* ---- Introspect one reported type *)
RecordOf(n, name) == name \in DOMAIN n /\ n[name].kind = "record"
IntrospectOne(n, t) ==
    LET pfx == FnBase(n, t.fn) IN
    CASE t.k \in {"enum", "flags"} ->
           Put(n, [Blank EXCEPT !.kind = IF t.k = "enum" THEN "enum" ELSE "bitfield", !.name = t.n, !.ctype = t.gt,
                                !.gt = t.gt, !.getType = t.fn, !.pfx = pfx, !.us = t.us])
      [] t.k \in {"class", "fundamental"} ->
           Put(n, [Blank EXCEPT !.kind = "class", !.name = t.n, !.gt = t.gt, !.getType = t.fn, !.pfx = pfx,
                                !.abstract = t.abstract, !.final = t.final, !.fundamental = (t.k = "fundamental"),
                                !.chain = t.parents, !.ifaces = t.ifaces,
                                !.props = IF t.k = "class" THEN t.props ELSE <<>>,
                                !.sigs = IF t.k = "class" THEN t.sigs ELSE <<>>,
                                !.ctype = IF RecordOf(n, t.n) THEN n[t.n].ctype ELSE "",
                                !.fields = IF RecordOf(n, t.n) THEN n[t.n].fields ELSE <<>>])
      [] t.k = "interface" ->
           Put(n, [Blank EXCEPT !.kind = "interface", !.name = t.n, !.gt = t.gt, !.getType = t.fn, !.pfx = pfx,
                                !.ifaces = t.ifaces, !.props = t.props, !.sigs = t.sigs,
                                !.ctype = IF RecordOf(n, t.n) THEN n[t.n].ctype ELSE ""])
      [] OTHER -> n
BoxedNode(n, t) == [Blank EXCEPT !.kind = "boxed", !.name = t.n, !.gt = t.gt, !.getType = t.fn, !.pfx = FnBase(n, t.fn)]

IntrospectQuark(n, q) ==
    IF FnKeys(n, q.fn) = {} THEN n
    ELSE LET x == CHOOSE y \in FnKeys(n, q.fn) : TRUE IN [n EXCEPT ![x].kind = "quarkfn", ![x].domain = q.domain]

(* ---- pairing *)
PairBoxedOne(n, b) ==
    IF b.name \notin DOMAIN n THEN Put(n, b)
    ELSE IF n[b.name].kind \in {"record", "union"}
         THEN [n EXCEPT ![b.name].gt = b.gt, ![b.name].getType = b.getType, ![b.name].pfx = b.pfx]
         ELSE n
PairPointerOne(n, b) ==
    IF b.name \notin DOMAIN n THEN (IF "barepointer" \in Dev THEN n ELSE Put(n, b))
    ELSE IF n[b.name].kind \in {"record", "union"}
         THEN [n EXCEPT ![b.name].gt = b.gt, ![b.name].getType = b.getType, ![b.name].pfx = b.pfx]
         ELSE n
StructCandSeq(c) == IF c.kind = "class" THEN <<c.name \o "Class">> ELSE <<c.name \o "Iface", c.name \o "Interface">>
FindRecordOne(n, cname) ==
    LET c == n[cname]
        present == SelectSeq(StructCandSeq(c), LAMBDA s : s \in DOMAIN n)
    IN IF present = <<>> \/ n[Head(present)].kind # "record" THEN n
       ELSE [n EXCEPT ![cname].typeStruct = Head(present), ![Head(present)].structFor = cname]
ClassKeys(n) == {x \in DOMAIN n : n[x].kind \in {"class", "interface"}}
RemoveOne(n, sym) == IF FnKeys(n, sym) = {} THEN n ELSE Del(n, CHOOSE x \in FnKeys(n, sym) : TRUE)
RegisteredSyms(n) == {n[x].getType : x \in {y \in DOMAIN n : n[y].getType # ""}}

(* ---- MainTransformer *)
ResolveOne(n, cname) ==
    LET c == n[cname]
        kn == {p \in DOMAIN c.chain : ImplKnown(n, c.chain[p])}
        par == IF kn # {} THEN ImplName(n, c.chain[MinOf(kn)]) ELSE ""
        res == SelectSeq(c.ifaces, LAMBDA x : ImplKnown(n, x))
    IN [n EXCEPT ![cname].parent = par, ![cname].impl = [p \in DOMAIN res |-> ImplName(n, res[p])]]
CbKeys(n, ctype) == {x \in DOMAIN n : n[x].kind = "callback" /\ n[x].ctype = ctype}
FieldFirst(n, f) == IF f.k = "fp" THEN f.first
                    ELSE IF f.k = "cb" /\ CbKeys(n, f.first) # {} THEN n[CHOOSE x \in CbKeys(n, f.first) : TRUE].first ELSE ""
VirtualsOne(n, cname) ==
    LET c == n[cname] IN
    IF c.typeStruct = "" THEN n
    ELSE LET vf == SelectSeq(n[c.typeStruct].fields, LAMBDA f : f.k \in {"fp", "cb"} /\ FieldFirst(n, f) = IdPfx \o c.name)
         IN [n EXCEPT ![cname].vfuncs = [p \in DOMAIN vf |-> vf[p].n]]
QuarkKeys(n) == {x \in DOMAIN n : n[x].kind = "quarkfn"}
(* _pair_function ran before: a class whose symbol prefix is the function's base takes the function away from the
   top level (moved, not copied) unless a registered type has the longer prefix <base>_error.  Only the exact-prefix
   case is modelled (a class prefix that is a proper word prefix of <base> floats the function too).                *)
Floated(n, qname) == /\ "quarkfloat" \in Dev
                     /\ \E x \in DOMAIN n : n[x].kind = "class" /\ n[x].pfx = n[qname].base
                     /\ ~ \E x \in DOMAIN n : n[x].getType # "" /\ n[x].pfx = n[qname].base \o "_error"
QuarkOne(n, qname) ==
    IF Floated(n, qname) THEN n ELSE
    LET short == n[qname].base \o "_error"
        reg == {x \in DOMAIN n : n[x].getType # "" /\ n[x].pfx = short}
        cmp == {x \in DOMAIN n : n[x].kind \in {"record", "union"} /\ n[x].getType = "" /\ n[x].us = short}
        enu == {x \in DOMAIN n : n[x].kind = "enum" /\ n[x].us = short}
        hit == IF reg # {} THEN reg ELSE IF cmp # {} THEN cmp ELSE enu
    IN IF hit = {} THEN n
       ELSE LET x == CHOOSE y \in hit : TRUE IN [n EXCEPT ![x].hasDomain = TRUE, ![x].domain = n[qname].domain]

(* ---- GIRWriter + projection *)
WProp(n, p) == [name |-> p.name, readable |-> Bit(p.lo, 0), writable |-> Bit(p.lo, 1), construct |-> Bit(p.lo, 2),
                constructOnly |-> Bit(p.lo, 3), ty |-> ImplTy(n, p.ty),
                hasDef |-> p.hasDef /\ ~("emptydef" \in Dev /\ p.def = ""), def |-> IF p.hasDef THEN p.def ELSE ""]
WSig(n, s) == [name |-> s.name, when |-> s.when, norec |-> s.norec, det |-> s.det, act |-> s.act, nohooks |-> s.nohooks,
               ret |-> ImplTy(n, s.ret), params |-> [p \in DOMAIN s.params |-> ImplTy(n, s.params[p])]]
WClass(n, c) == [tag |-> c.kind, name |-> c.name, ctype |-> c.ctype, typeName |-> c.gt, getType |-> c.getType, pfx |-> c.pfx,
                 parent |-> IF c.kind = "class" THEN c.parent ELSE "", abstract |-> c.abstract, final |-> c.final,
                 fundamental |-> c.fundamental, typeStruct |-> c.typeStruct,
                 refFunc |-> AnnVal(w, c.gt, "ref-func"), unrefFunc |-> AnnVal(w, c.gt, "unref-func"),
                 setValueFunc |-> AnnVal(w, c.gt, "set-value-func"), getValueFunc |-> AnnVal(w, c.gt, "get-value-func"),
                 impl |-> IF c.kind = "class" THEN c.impl ELSE <<>>, prereq |-> IF c.kind = "interface" THEN c.impl ELSE <<>>,
                 props |-> [p \in DOMAIN c.props |-> WProp(n, c.props[p])], sigs |-> [p \in DOMAIN c.sigs |-> WSig(n, c.sigs[p])],
                 vfuncs |-> c.vfuncs, fns |-> <<>>]
WRecord(c) == [tag |-> c.kind, name |-> c.name, ctype |-> c.ctype, typeName |-> c.gt, getType |-> c.getType, pfx |-> c.pfx,
               structFor |-> c.structFor, fields |-> [p \in DOMAIN c.fields |-> c.fields[p].n], fns |-> <<>>]
WBoxed(c) == [tag |-> "glib:boxed", name |-> c.name, typeName |-> c.gt, getType |-> c.getType, pfx |-> c.pfx, fns |-> <<>>]
WEnum(c) == [tag |-> IF c.kind = "enum" THEN "enumeration" ELSE "bitfield", name |-> c.name, ctype |-> c.ctype, typeName |-> c.gt,
             getType |-> c.getType, hasDomain |-> c.kind = "enum" /\ c.hasDomain,
             domain |-> IF c.kind = "enum" /\ c.hasDomain THEN c.domain ELSE "", fns |-> <<>>]
Keys(n, kinds) == AsSeq({x \in DOMAIN n : n[x].kind \in kinds})
WriteG(n) ==
    LET cs == Keys(n, {"class", "interface"})
        rs == Keys(n, {"record", "union"})
        bs == Keys(n, {"boxed"})
        es == Keys(n, {"enum", "bitfield"})
        fs == Keys(n, {"function", "quarkfn"})
    IN [classes |-> [p \in DOMAIN cs |-> WClass(n, n[cs[p]])], records |-> [p \in DOMAIN rs |-> WRecord(n[rs[p]])],
        boxed |-> [p \in DOMAIN bs |-> WBoxed(n[bs[p]])], enums |-> [p \in DOMAIN es |-> WEnum(n[es[p]])],
        functions |-> [p \in DOMAIN fs |-> [cid |-> n[fs[p]].symbol, movedTo |-> ""]]]

(* ---- the machine *)
ImplInit(Worlds) ==
    /\ w \in Worlds /\ pc = "scan" /\ ns = EmptyNs /\ asked = <<>> /\ askedQ = <<>> /\ dump = <<>> /\ dumpQ = <<>>
    /\ idx = 1 /\ btab = <<>> /\ ptab = <<>> /\ girOut = EmptyG
Step(from, to, newns) == pc = from /\ pc' = to /\ ns' = newns
Scan == /\ Step("scan", "initparse", FoldNs(ScanOne, EmptyNs, w.decls))
        /\ UNCHANGED <<w, asked, askedQ, dump, dumpQ, idx, btab, ptab, girOut>>
InitParse ==
    /\ Step("initparse", "binary", ns)
    /\ LET m == SelectSeq(w.decls, LAMBDA d : IsMetaFn(d))
           q == SelectSeq(w.decls, LAMBDA d : IsQuarkFn(d))
       IN asked' = [p \in DOMAIN m |-> m[p].c] /\ askedQ' = [p \in DOMAIN q |-> q[p].c]
    /\ UNCHANGED <<w, dump, dumpQ, idx, btab, ptab, girOut>>
Binary ==      \* environment: the library answers for the functions asked about (interfaces do not list GObject)
    /\ Step("binary", "introspect", ns)
    /\ dump' = SelectSeq(w.reg, LAMBDA t : t.fn \in RangeOf(asked))
    /\ dumpQ' = SelectSeq(w.quarks, LAMBDA q : q.fn \in RangeOf(askedQ))
    /\ UNCHANGED <<w, asked, askedQ, idx, btab, ptab, girOut>>
Introspect ==
    /\ pc = "introspect" /\ idx <= Len(dump)
    /\ LET t == dump[idx] IN
         /\ ns' = IntrospectOne(ns, t)
         /\ btab' = IF t.k = "boxed" THEN Append(btab, BoxedNode(ns, t)) ELSE btab
         /\ ptab' = IF t.k = "pointer" THEN Append(ptab, BoxedNode(ns, t)) ELSE ptab
    /\ idx' = idx + 1 /\ pc' = pc
    /\ UNCHANGED <<w, asked, askedQ, dump, dumpQ, girOut>>
IntrospectQ ==
    /\ pc = "introspect" /\ idx > Len(dump)
    /\ Step("introspect", "pairboxed", FoldNs(IntrospectQuark, ns, dumpQ))
    /\ UNCHANGED <<w, asked, askedQ, dump, dumpQ, idx, btab, ptab, girOut>>
PairBoxed == /\ Step("pairboxed", "pairpointer", FoldNs(PairBoxedOne, ns, btab))
             /\ UNCHANGED <<w, asked, askedQ, dump, dumpQ, idx, btab, ptab, girOut>>
PairPointer == /\ Step("pairpointer", "findrecords", FoldNs(PairPointerOne, ns, ptab))
               /\ UNCHANGED <<w, asked, askedQ, dump, dumpQ, idx, btab, ptab, girOut>>
FindClassRecords == /\ Step("findrecords", "removegettypes", FoldNs(FindRecordOne, ns, AsSeq(ClassKeys(ns))))
                    /\ UNCHANGED <<w, asked, askedQ, dump, dumpQ, idx, btab, ptab, girOut>>
RemoveGetTypes == /\ Step("removegettypes", "resolve", FoldNs(RemoveOne, ns, AsSeq(RegisteredSyms(ns))))
                  /\ UNCHANGED <<w, asked, askedQ, dump, dumpQ, idx, btab, ptab, girOut>>
TypeResolution == /\ Step("resolve", "virtuals", FoldNs(ResolveOne, ns, AsSeq(ClassKeys(ns))))
                  /\ UNCHANGED <<w, asked, askedQ, dump, dumpQ, idx, btab, ptab, girOut>>
PairVirtuals == /\ Step("virtuals", "quarks", FoldNs(VirtualsOne, ns, AsSeq(ClassKeys(ns))))
                /\ UNCHANGED <<w, asked, askedQ, dump, dumpQ, idx, btab, ptab, girOut>>
PairQuarks == /\ Step("quarks", "write", FoldNs(QuarkOne, ns, AsSeq(QuarkKeys(ns))))
              /\ UNCHANGED <<w, asked, askedQ, dump, dumpQ, idx, btab, ptab, girOut>>
Write == /\ Step("write", "done", ns) /\ girOut' = WriteG(ns)
         /\ UNCHANGED <<w, asked, askedQ, dump, dumpQ, idx, btab, ptab>>
ImplNext == Scan \/ InitParse \/ Binary \/ Introspect \/ IntrospectQ \/ PairBoxed \/ PairPointer \/ FindClassRecords
            \/ RemoveGetTypes \/ TypeResolution \/ PairVirtuals \/ PairQuarks \/ Write

(* the observation the machine ends with, in the schema of the harness *)
ImplObs == [id |-> "model", w |-> w, asked |-> asked, askedQ |-> askedQ,
            dump |-> [p \in DOMAIN dump |-> IF dump[p].k = "interface"
                                             THEN [dump[p] EXCEPT !.ifaces = SelectSeq(dump[p].ifaces, LAMBDA x : x # "GObject")]
                                             ELSE dump[p]],
            dumpQ |-> dumpQ, g |-> girOut, crashed |-> ""]
(* implementation layer => property layer *)
ImplSatisfiesProperty == pc = "done" => Holds(ImplObs)
(* the same, tolerating exactly the recorded known finding (bare pointer types); used with Dev = {"barepointer"},
   i.e. the model of the code as it is *)
KnownFailures == {<<"Registered", "pointer/bare">>, <<"GetTypeGone", "pointer/bare">>}
ImplSatisfiesPropertyModuloKnown == pc = "done" => Failures(ImplObs) \subseteq KnownFailures
ImplSatisfiesExtra == pc = "done" => F_Extra(ImplObs) = {}

=============================================================================

SPECIFICATION Spec
CONSTANTS
  Code = {"hidden_target", "silent_index", "shadower_hidden", "nested_same_kind", "field_kept", "member_kept", "inout_allow_none", "inout_caller_allocates", "field_readable", "when_must_collect"}
  Known = {"hidden_target", "shadower_hidden", "nested_same_kind", "field_kept", "member_kept", "inout_allow_none", "inout_caller_allocates", "field_readable", "when_must_collect"}
  Full = FALSE
  Families = {"members"}
INVARIANTS Inv_Doc Inv_Elem Inv_Balanced
CHECK_DEADLOCK FALSE

INIT Init
NEXT Next
CONSTANTS
  Defects = {"field_length_index"}
  Rich = FALSE
  AllModels = FALSE
  KindSel = {"array"}
INVARIANTS ReadableInv FixedPointInv AgreeInv
CHECK_DEADLOCK FALSE

INIT Init
NEXT Next
CONSTANTS
  EnumCap32 = FALSE
  UnionFieldCallback = TRUE
CHECK_DEADLOCK FALSE

INIT UInit
NEXT UNext
CONSTANTS
  Dev = {}
  Mode = "uscore"
  AnnSet = {"-"}
INVARIANT I_Uscore
CHECK_DEADLOCK FALSE

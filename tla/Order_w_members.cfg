SPECIFICATION Spec
CONSTANTS
  SortNamespace = TRUE
  SortIncludes = TRUE
  SortMembers = FALSE
  MainPosFix = TRUE
  CacheFaithful = TRUE
  LastBlockWins = TRUE
  AppendInPlace = TRUE
  DupBodies = FALSE
  DupBlocks = FALSE
  DepOverlap = FALSE
  FullPerm = TRUE
  Inputs <- MC_Members
INVARIANT Deterministic
INVARIANT SiblingOrder
CHECK_DEADLOCK FALSE

SPECIFICATION MCSpec
CONSTANTS
  ABS <- MC_Abs
  HIST <- MC_Hist
  EscVariant = "asis"
  AllowMisuse = FALSE
  OpSet <- PayOps
  MaxOps = 4
CHECK_DEADLOCK FALSE
INVARIANT PrefixBalanced
INVARIANT BalancedWhenEmpty
INVARIANT IndentInv
INVARIANT ContextsOwnTheirElements
INVARIANT Lossless
INVARIANT LosslessAsStated
INVARIANT NoneOmitted
INVARIANT WellFormedWhenComplete
PROPERTY ClosedInOrder

------------------------------ MODULE GirIOMC ------------------------------
(* Exhaustive check of the channel model of GirIO.tla: for every node kind and every section of its
   channel table (own attributes / generic annotations / documentation+positions / child lists) TLC
   enumerates ALL combinations of the representative values of the section's fields (the other fields
   at their defaults), restricted to models the scanner pipeline can produce, performs the cycle
   write -> read -> write on the channel model and checks Readable, FixedPoint and Agree.
   A one-sided channel (written but not read, read but not written, default mismatch) is a
   counterexample by construction. *)
EXTENDS GirIO

CONSTANTS KindSel,    \* {} = all kinds, else the kinds to explore
          AllModels   \* TRUE: also models the scanner pipeline cannot produce (what-if: candidates refuted by reachability)

VARIABLES kind, sec, m, stage, w1, r1, w2
vars == <<kind, sec, m, stage, w1, r1, w2>>

BaseBy == TLCEval([k \in Kinds |-> TLCEval([f \in Fields(k) |-> LET c == FRow(k, f) IN IF c.d \in c.dom \/ c.dom = {} THEN c.d ELSE CHOOSE v \in c.dom : TRUE])])
Base(k) == BaseBy[k]
SecOf(c) == IF Rich /\ c.sec = "own2" THEN "own" ELSE c.sec
Sections(k) == {SecOf(c) : c \in {cc \in RowsOf(k) : cc.f # "-" /\ cc.dom # {}}}
SecFields(k, s) == {c.f : c \in {cc \in RowsOf(k) : SecOf(cc) = s /\ cc.f # "-"}}

RECURSIVE Prod(_, _)
Prod(k, F) == IF F = {} THEN {<<>>}
              ELSE LET f == CHOOSE x \in F : TRUE
                   IN {(f :> v) @@ rest : v \in FRow(k, f).dom, rest \in Prod(k, F \ {f})}
Models(k, s) == {mm \in {o @@ Base(k) : o \in Prod(k, SecFields(k, s))} : AllModels \/ Producible(k, mm)}

TheKinds == IF KindSel = {} THEN Kinds ELSE KindSel
Init == /\ kind \in TheKinds
        /\ sec \in Sections(kind)
        /\ m \in Models(kind, sec)
        /\ stage = "model" /\ w1 = <<>> /\ r1 = <<>> /\ w2 = <<>>
WriteStep == stage = "model" /\ w1' = W1(kind, m) /\ stage' = "written" /\ UNCHANGED <<kind, sec, m, r1, w2>>
ReadStep == stage = "written" /\ ~Raises(kind, w1) /\ r1' = Read(kind, WithHost(kind, w1, m)) /\ stage' = "read"
            /\ UNCHANGED <<kind, sec, m, w1, w2>>
RewriteStep == stage = "read" /\ w2' = Write(kind, r1) /\ stage' = "rewritten" /\ UNCHANGED <<kind, sec, m, w1, r1>>
Next == WriteStep \/ ReadStep \/ RewriteStep
Spec == Init /\ [][Next]_vars

ReadableInv == stage = "written" => ~Raises(kind, w1)
FixedPointInv == stage = "rewritten" => w2 = w1
AgreeInv == stage = "read" => View(kind, r1) = View(kind, m)
\* the stepwise cycle is the operator-level property
SameAsOperators == /\ stage = "rewritten" => (FixedPoint(kind, m) <=> w2 = w1)
                   /\ stage = "read" => r1 = R1(kind, m)
=============================================================================

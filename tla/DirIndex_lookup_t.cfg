SPECIFICATION SpecLookup
CONSTANTS
  Pool <- MC_Pool5
  Absent <- MC_Absent
  MaxN = 5
  HMax = 6
  Keys <- MC_Keys
  AbsentKey = "K0"
  MaxKeyN = 3
  MaxEntries = 65535
  SizeDomain <- MC_AllN
  FinalCompare = TRUE
  Clamp = "zero"
  SizeBits = 16
  Boundary = 0
CHECK_DEADLOCK FALSE
INVARIANT TypeOK
INVARIANT Inv_MemberFound
INVARIANT Inv_RightEntry
INVARIANT Inv_AbsentIsAbsent
INVARIANT Inv_LinearAgrees
INVARIANT Inv_GTypeNameFound
INVARIANT Inv_ErrorDomainFound
INVARIANT Inv_RepoAgrees
INVARIANT Inv_LookupEquivalence
INVARIANT Inv_TableBijective

\* witness: with the earlier behaviour "overridden-by-convention" switched back on, TLC exhibits a case that breaks the property
SPECIFICATION MCSpec
CONSTANTS
  Dev = {"overridden-by-convention"}
  Which = "witness"
  Cases <- NoCases
INVARIANT NoDeviation
CHECK_DEADLOCK FALSE

SPECIFICATION CSpec
CONSTANTS
  Forms <- COneForm
  Indents <- CInd0
  MaxIdAnns = 1
  MaxParams = 1
  MaxParamAnns = 0
  MaxPartLines = 0
  MaxDescLines = 1
  MaxParas = 1
  MaxTags = 0
  TagNames <- CTagsR
  MaxTagAnns = 0
  MaxCont = 0
  MaxNoise = 0
  AtReturns = FALSE
  FaultKinds <- CAllFaults
  MaxFaults = 1
  KeepLines = TRUE
  Known <- CKnown
  StartLine = 1
CHECK_DEADLOCK FALSE
INVARIANT DiagAtFault
INVARIANT IgnoredNotHalfApplied
INVARIANT FaultDiagnosed

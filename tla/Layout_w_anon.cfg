INIT Init
NEXT Next
CONSTANTS
  FlatLen = 4
  Mode = "anon"
INVARIANT ImplSatisfiesPropertyAll
CHECK_DEADLOCK FALSE

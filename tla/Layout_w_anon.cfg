INIT Init
NEXT Next
CONSTANTS
  FlatLen = 4
  Mode = "anon"
  Small = FALSE
INVARIANT ImplSatisfiesPropertyAll
CHECK_DEADLOCK FALSE

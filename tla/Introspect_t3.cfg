SPECIFICATION Spec
CONSTANTS
  N = 5
  Kinds <- K_cbalias
  TKs <- TK_chain
  AllowList = FALSE
  AllowNSkip = FALSE
  AllowVSkip = FALSE
  AllowReturn = FALSE
  AllowMoved = FALSE
  AllowHost = FALSE
  AllowRename = FALSE
  MaxFunctions = 0
  Stepwise = FALSE
  AliasRecheck = TRUE
  CallableWalks = 2
  RenameScopeCheck = TRUE
  COrder = TRUE
  Orders <- Id5
  KnownShapes <- Known_c
  ExportViol = 1
  ExportOk = 0
INVARIANT NoUnknownViolation
CHECK_DEADLOCK FALSE

SPECIFICATION MCSpec
CONSTANTS
  Dev = {}
  Which = "lenret"
  Cases <- NoCases
INVARIANT ImplSatisfiesProperty
CHECK_DEADLOCK FALSE

SPECIFICATION Spec
CONSTANTS
  Which = "lenret"
  Cases <- MC_Cases
INVARIANT ImplSatisfiesProperty
CHECK_DEADLOCK FALSE

INIT Init
NEXT Next
CONSTANTS
  Dev = {"gen_raw_newline"}
  Kinds = {"api"}
  Strict = FALSE
  Full = FALSE
  MaxCnt = 1
INVARIANT InvApi
CHECK_DEADLOCK FALSE

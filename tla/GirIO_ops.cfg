INIT Init
NEXT Next
CONSTANTS
  Defects = {}
  Rich = FALSE
  AllModels = FALSE
  KindSel = {"parameter", "boxed", "array", "callback"}
INVARIANTS ReadableInv FixedPointInv AgreeInv SameAsOperators
CHECK_DEADLOCK FALSE
